// C07 driver: drives the real OSMAPOSLReconstruction (with the real
// PoissonLogLikelihoodWithLinearModelForMeanAndProjData, production projectors / distributable
// computation / normalisation / prior classes) on tiny systems supplied through the explicit-matrix
// seam and records inputs and outputs as ndjson.
// No property formula, no expected value, no comparison here: TLC (Trace_OSMAPOSL.tla) decides.
//
//   c07_osmaposl exact <out.ndjson> <scratch-dir> <num-objects> [stage]
//        one reconstruction object per random configuration (one set_up); every sub-iteration is
//        started from a fresh EXACT state (integer image, data y_b = q_b * d_b with
//        d = P lambda + a, written in place into the in-memory projection data) by
//        set_start_subiteration_num(k); set_num_subiterations(k); reconstruct(image)
//   c07_osmaposl free  <out.ndjson> <scratch-dir> <num-objects> [stage]
//        free-running reconstructions (random positive start image, random count data) of up to
//        3 full iterations with every sub-iteration saved to the scratch directory; the saved
//        files are read back and logged (fixed point and raw float bits); then for EVERY
//        interruption point k the reconstruction is resumed at sub-iteration k+1 from the file saved
//        after k (fresh objects as a new process would build them, or the same object continued)
//        and its saved iterates are logged; finally the same objects are set up and run again from the start
//        image after having been set up and run with another number of subsets.
//
// The only arithmetic on the inputs done here is the CONSTRUCTION of exact instances
// (y = q * d); TLC recomputes d from the logged P, lambda, a and rejects the line if it is not exact.
#include "vh_explicit_matrix.h"
#include "stir/OSMAPOSL/OSMAPOSLReconstruction.h"
#include "stir/recon_buildblock/PoissonLogLikelihoodWithLinearModelForMeanAndProjData.h"
#include "stir/recon_buildblock/QuadraticPrior.h"
#include "stir/recon_buildblock/RelativeDifferencePrior.h"
#include "stir/recon_buildblock/BinNormalisationFromProjData.h"
#include "stir/recon_buildblock/TrivialBinNormalisation.h"
#include "stir/ProjDataInMemory.h"
#include "stir/DataProcessor.h"
#include "stir/SeparableGaussianImageFilter.h"
#include "stir/IndexRange3D.h"
#include "stir/Succeeded.h"
#include "stir/IO/read_from_file.h"
#include <algorithm>
#include <cstring>
#include <set>
#include <csignal>
using namespace stir;

// a crash inside the code under test ends the trace with an Abort line (which the specification does not accept)
static void on_signal(int sig) {
  if (vh::Trace::current()) { vh::Trace::current()->emit(vh::Json("Abort").num("sig", sig)); vh::Trace::current()->flush(); }
  _exit(0);
}

typedef DiscretisedDensity<3, float> Img;
typedef PoissonLogLikelihoodWithLinearModelForMeanAndProjData<Img> PLL;
typedef OSMAPOSLReconstruction<Img> Recon;

static const int IK = 12;  // images are logged as round(v * 2^IK)
static const int GK = 8;   // prior gradients as round(v * 2^GK)
static const int LK = 10;  // objective function values as round(v * 2^LK)

// ---------------------------------------------------------------- harness-side image processor
// subtracts a constant from every voxel (so that filtered images contain zeros and negative values:
// the environment in which "the result image of the filter is positive" has to be ensured by OSMAPOSL)
class ShiftFilter : public DataProcessor<Img> {
public:
  float c;
  explicit ShiftFilter(float c) : c(c) {}
  std::string get_registered_name() const override { return "VerifShift"; }
protected:
  Succeeded virtual_set_up(const Img&) override { return Succeeded::yes; }
  void virtual_apply(Img& out, const Img& in) const override {
    auto o = out.begin_all(); auto i = in.begin_all_const();
    for (; o != out.end_all(); ++o, ++i) *o = *i - c;
  }
  void virtual_apply(Img& d) const override { for (auto o = d.begin_all(); o != d.end_all(); ++o) *o -= c; }
};

// ---------------------------------------------------------------- systems and matrices
struct Sys {
  vh::TinySystem t;
  std::vector<Bin> bins;
  std::vector<std::array<int, 3>> vox;
  int views;
};

static Sys make_sys(int ndet) {
  Sys s;
  s.t = vh::make_tiny_system(ndet, 2, 3, 0, 2, 2, 2);
  s.bins = vh::xm_all_bins(*s.t.proj_data_info);
  s.vox = vh::xm_voxels(*s.t.image);
  s.views = s.t.proj_data_info->get_num_views();
  return s;
}

struct Matrix {
  shared_ptr<vh::ExplicitMatrixData> data;
  std::vector<std::vector<std::pair<int, int>>> rows;  // per bin: (voxel index 1-based, weight)
  long id;
  vh::Json sysjson;
};
static long next_id = 0;

// rows: up to 3 distinct voxels with weights 1..3, some rows empty.  The last voxel is seen by no bin
// (sensitivity 0), the last but one only by bins of the first view (its sensitivity is 0 in every
// subset that does not contain that view).
static Matrix make_matrix(const Sys& s, vh::Rng& rng) {
  Matrix m;
  m.data.reset(new vh::ExplicitMatrixData);
  m.id = ++next_id;
  const int nv = (int)s.vox.size();
  const int minView = s.t.proj_data_info->get_min_view_num();
  for (const Bin& b : s.bins) {
    int n = rng.range(1, 3);
    if (rng.range(0, 9) == 0) n = 0;
    std::set<int> used;
    std::vector<std::pair<int, int>> row;
    std::vector<vh::XmElem> elems;
    for (int i = 0; i < n; ++i) {
      int v = rng.range(1, b.view_num() == minView ? nv - 1 : nv - 2);
      if (used.count(v)) continue;
      used.insert(v);
      int w = rng.range(1, 3);
      row.push_back({ v, w });
      elems.push_back(vh::XmElem{ s.vox[v - 1][0], s.vox[v - 1][1], s.vox[v - 1][2], (float)w });
    }
    m.data->set_row(b, elems);
    m.rows.push_back(row);
  }
  m.sysjson = vh::xm_system_json(m.id, s.t, *m.data);
  return m;
}

// ---------------------------------------------------------------- configurations
struct Cfg {
  int N = 1, startSubset = 0;
  bool additive = false, norm = false, uss = true;
  int prior = 0;           // 0 none, 1 quadratic, 2 relative difference
  bool multiplicative = false;
  int beta = 1;
  int iuf = 0, iif = 0;    // inter-update / inter-iteration filter intervals (0: off)
  int filt = 0;            // 0 harness shift filter, 1 SeparableGaussianImageFilter
  bool eip = true;         // enforce initial positivity
  int maxseg = -1;         // max_segment_num_to_process as given (-1: all)
  bool zero = false;       // zero_seg0_end_planes
  std::vector<int> a, ef;  // additive term, efficiency exponents (n = 2^ef), per bin
};

static shared_ptr<ProjDataInMemory> make_pd(const Sys& s, const std::vector<float>& vals) {
  shared_ptr<ProjDataInMemory> pd(new ProjDataInMemory(s.t.exam_info, s.t.proj_data_info));
  pd->fill(0.F);
  for (size_t b = 0; b < s.bins.size(); ++b) {
    Bin bin = s.bins[b];
    bin.set_bin_value(vals[b]);
    pd->set_bin_value(bin);
  }
  return pd;
}
static void set_pd(ProjDataInMemory& pd, const Sys& s, const std::vector<int>& vals) {
  for (size_t b = 0; b < s.bins.size(); ++b) {
    Bin bin = s.bins[b];
    bin.set_bin_value((float)vals[b]);
    pd.set_bin_value(bin);
  }
}

// the same with values scaled by 2^k (an exact operation)
static void set_pd_scaled(ProjDataInMemory& pd, const Sys& s, const std::vector<int>& vals, int k) {
  for (size_t b = 0; b < s.bins.size(); ++b) {
    Bin bin = s.bins[b];
    bin.set_bin_value(std::ldexp((float)vals[b], k));
    pd.set_bin_value(bin);
  }
}

static shared_ptr<DataProcessor<Img>> make_filter(const Cfg& c) {
  if (c.filt == 0) return shared_ptr<DataProcessor<Img>>(new ShiftFilter(0.75F));
  shared_ptr<SeparableGaussianImageFilter<float>> g(new SeparableGaussianImageFilter<float>);
  g->set_fwhms(make_coordinate(5.F, 5.F, 5.F));
  g->set_max_kernel_sizes(make_coordinate(3, 3, 3));
  g->set_normalise(true);
  return g;
}

// everything a reconstruction needs, built the way a (new) process would build it
struct World {
  shared_ptr<ProjDataInMemory> y;
  shared_ptr<ProjData> a;
  shared_ptr<BinNormalisation> norm;
  shared_ptr<GeneralisedPrior<Img>> prior;
  shared_ptr<PLL> of;
  shared_ptr<Recon> recon;
};

static shared_ptr<BinNormalisation> make_norm(const Sys& s, const Cfg& c) {
  if (!c.norm) return shared_ptr<BinNormalisation>(new TrivialBinNormalisation);
  std::vector<float> f(s.bins.size());
  for (size_t b = 0; b < s.bins.size(); ++b) f[b] = std::ldexp(1.F, -c.ef[b]);   // normalisation factor = 1 / efficiency
  shared_ptr<ProjData> npd = make_pd(s, f);
  return shared_ptr<BinNormalisation>(new BinNormalisationFromProjData(npd));
}

static shared_ptr<GeneralisedPrior<Img>> make_prior(const Cfg& c) {
  shared_ptr<GeneralisedPrior<Img>> r;
  if (c.prior == 0) return r;
  // explicit integer weights (the default 1/distance weights are not exactly representable)
  Array<3, float> wts(IndexRange3D(-1, 1, -1, 1, -1, 1));
  for (int dz = -1; dz <= 1; ++dz) for (int dy = -1; dy <= 1; ++dy) for (int dx = -1; dx <= 1; ++dx)
    wts[dz][dy][dx] = (dz == 0 && dy == 0 && dx == 0) ? 0.F : ((std::abs(dz) + std::abs(dy) + std::abs(dx)) == 1 ? 2.F : 1.F);
  if (c.prior == 1) {
    shared_ptr<QuadraticPrior<float>> p(new QuadraticPrior<float>(false, (float)c.beta));
    p->set_weights(wts);
    r = p;
  } else {
    shared_ptr<RelativeDifferencePrior<float>> p(new RelativeDifferencePrior<float>(false, (float)c.beta, 2.F, 0.25F));
    p->set_weights(wts);
    r = p;
  }
  return r;
}

static void build_objects(World& w, const Sys& s, const Matrix& m, const Cfg& c) {
  shared_ptr<ProjectorByBinPair> pp = vh::make_explicit_projector_pair(m.data);
  w.norm = make_norm(s, c);
  w.prior = make_prior(c);
  w.of.reset(new PLL);
  w.of->set_proj_data_sptr(w.y);
  w.of->set_projector_pair_sptr(pp);
  if (c.additive) w.of->set_additive_proj_data_sptr(w.a);
  w.of->set_normalisation_sptr(w.norm);
  w.of->set_zero_seg0_end_planes(c.zero);
  w.of->set_max_segment_num_to_process(c.maxseg);
  w.of->set_use_subset_sensitivities(c.uss);
  w.of->set_recompute_sensitivity(true);
  if (c.prior != 0) w.of->set_prior_sptr(w.prior);
  w.recon.reset(new Recon);
  w.recon->set_objective_function_sptr(w.of);
  w.recon->set_num_subsets(c.N);
  if (c.startSubset >= 0 && c.startSubset < c.N) w.recon->set_start_subset_num(c.startSubset);
  w.recon->set_enforce_initial_positivity(c.eip);
  if (c.prior != 0) w.recon->set_MAP_model(c.multiplicative ? "multiplicative" : "additive");
  if (c.iuf > 0) { w.recon->set_inter_update_filter_interval(c.iuf); w.recon->set_inter_update_filter_ptr(make_filter(c)); }
  if (c.iif > 0) { w.recon->set_inter_iteration_filter_interval(c.iif); w.recon->set_inter_iteration_filter_ptr(make_filter(c)); }
}

// ---------------------------------------------------------------- recording helpers
static shared_ptr<Img> image_from(const Sys& s, const std::vector<float>& v) {
  shared_ptr<Img> im(s.t.image->get_empty_copy());
  size_t i = 0;
  for (auto it = im->begin_all(); it != im->end_all(); ++it, ++i) *it = v[i];
  return im;
}

// fixed-point record of an image at scale 2^k (named <key>, exactness flag <key>x) and its raw float bits
static void put_fx(vh::Json& j, const char* key, const char* exkey, const Img& im, int k) {
  std::vector<long long> out;
  bool exact = true;
  for (auto it = im.begin_all_const(); it != im.end_all_const(); ++it) {
    const double sc = std::ldexp((double)*it, k);
    if (!(std::fabs(sc) < 2.0e9)) { exact = false; out.push_back(sc > 0 ? 2000000000LL : -2000000000LL); continue; }   // inf / nan / huge: saturate
    const long long q = std::llround(sc);
    if ((double)q != sc) exact = false;
    out.push_back(q);
  }
  j.arr(key, out).boolean(exkey, exact);
}
// raw float bits of an image as two arrays of 16-bit limbs (TLC integers are 32 bit)
static void put_bits(vh::Json& j, const char* hkey, const char* lkey, const Img& im) {
  std::vector<long> hi, lo;
  for (auto it = im.begin_all_const(); it != im.end_all_const(); ++it) {
    const float f = *it;
    uint32_t u;
    std::memcpy(&u, &f, 4);
    hi.push_back((long)(u >> 16));
    lo.push_back((long)(u & 0xffffu));
  }
  j.arr(hkey, hi).arr(lkey, lo);
}
static long long fxval(double v, int k) {
  const double sc = std::ldexp(v, k);
  if (!(std::fabs(sc) < 2.0e9)) return sc > 0 ? 2000000000LL : -2000000000LL;
  return std::llround(sc);
}

static void emit_instance(vh::Trace& tr, const char* mode, const Sys& s, const Matrix& m, const Cfg& c, int K, const std::vector<int>* y,
                          const char* change = nullptr) {
  vh::Json ji("Instance");
  // change: the objects of the previous Instance are RE-USED after this one setting was changed through the public setters
  ji.boolean("reuse", change != nullptr).str("change", change ? change : "").boolean("zero", c.zero).num("maxSeg", c.maxseg);
  ji.str("mode", mode).num("sys", m.id).num("N", c.N).num("startSubset", c.startSubset).boolean("additive", c.additive).boolean("norm", c.norm)
      .boolean("uss", c.uss).num("prior", c.prior).boolean("mult", c.multiplicative).num("beta", c.beta).num("iuf", c.iuf).num("iif", c.iif)
      .num("filt", c.filt).boolean("eip", c.eip).num("K", K).num("ik", IK).num("gk", GK).num("lk", LK).arr("a", c.a).arr("ef", c.ef);
  if (y) ji.arr("y", *y);
  tr.emit(ji);
}

static Cfg random_cfg(const Sys& s, vh::Rng& rng, long i, int stage) {
  Cfg c;
  // every number of subsets of the toy geometry (also those OSMAPOSL has to refuse: unbalanced subsets)
  c.N = 1 + (int)(i % s.views);
  if (rng.range(0, 11) == 0) c.N = s.views + 1;
  c.startSubset = rng.range(0, c.N - 1);
  c.additive = rng.coin();
  c.norm = rng.coin();
  c.uss = rng.range(0, 2) != 0;
  const int p = rng.range(0, 5);
  c.prior = p < 3 ? 0 : (p == 3 ? 1 : (p == 4 ? 2 : rng.range(1, 2)));
  c.multiplicative = rng.coin();
  static const int betas1[] = { 1, 4, 16 }, betas2[] = { 1, 8, 64 };
  c.beta = c.prior == 1 ? betas1[rng.range(0, 2)] : betas2[rng.range(0, 2)];
  if (rng.range(0, 4) == 0) {
    if (rng.coin()) c.iuf = rng.range(1, 3); else c.iif = rng.range(1, 3);
    if (rng.range(0, 3) == 0) { c.iuf = rng.range(1, 3); c.iif = rng.range(1, 3); }
    c.filt = rng.range(0, 1);
  }
  c.eip = true;
  // every fourth object: plain EM with a single subset (the configurations the log-likelihood and count clauses speak about)
  if (i % 4 == 3) { c.N = 1; c.startSubset = 0; c.prior = 0; c.iuf = c.iif = 0; if (i % 8 == 3) c.additive = false; }
  const size_t nb = s.bins.size();
  for (size_t b = 0; b < nb; ++b) {
    c.a.push_back(c.additive ? rng.range(0, 3) : 0);
    c.ef.push_back(c.norm ? rng.range(-2, 0) : 0);
  }
  (void)stage;
  return c;
}

static std::vector<int> proj(const Matrix& m, const std::vector<int>& lam, const std::vector<int>& a) {
  std::vector<int> d;
  for (size_t b = 0; b < m.rows.size(); ++b) {
    int pl = 0;
    for (auto& e : m.rows[b]) pl += e.second * lam[e.first - 1];
    d.push_back(pl + a[b]);
  }
  return d;
}

// prior gradient at an image, as the real prior object reports it (the prior itself is C09's subject)
static void put_prior_gradient(vh::Json& j, World& w, const Img& at) {
  if (!w.prior) return;
  shared_ptr<Img> g(at.get_empty_copy());
  g->fill(0.F);
  const bool perr = vh::threw([&] { w.prior->compute_gradient(*g, at); });
  put_fx(j, "pg", "pgx", *g, GK);
  if (perr) j.boolean("pgerr", true);
}

static double value_of(World& w, const Img& at, bool* err) {
  double v = 0;
  *err = vh::threw([&] { v = w.of->compute_objective_function_without_penalty(at); }) || *err;
  return v;
}

// ---------------------------------------------------------------- re-use histories
// ONE sensitivity- or update-relevant setting of the EXISTING objects is changed through the public setters (the number of
// subsets stays); c is updated to describe the new configuration, y (free mode: the data) too when the input data change.
// Returns the name of the change (nullptr: this change is not applicable to the configuration).
static const int NUM_CHANGES = 9;
static const char* apply_change(World& w, const Sys& s, Cfg& c, int what, vh::Rng& rng, std::vector<int>* y) {
  const size_t nb = s.bins.size();
  switch (what) {
  case 0: {  // another normalisation object
    std::vector<int> ef(nb);
    bool differs = false;
    for (size_t b = 0; b < nb; ++b) { ef[b] = rng.range(-2, 0); if (ef[b] != c.ef[b]) differs = true; }
    if (!differs) ef[0] = c.ef[0] == 0 ? -1 : 0;
    c.norm = true; c.ef = ef;
    w.norm = make_norm(s, c);
    w.of->set_normalisation_sptr(w.norm);
    return "normalisation";
  }
  case 1: {  // another additive term (switched on if there was none)
    std::vector<int> a(nb);
    for (size_t b = 0; b < nb; ++b) a[b] = (c.a[b] + rng.range(1, 3)) % 4;
    c.additive = true; c.a = a;
    std::vector<float> af(a.begin(), a.end());
    w.a = make_pd(s, af);
    w.of->set_additive_proj_data_sptr(w.a);
    return "additive";
  }
  case 2: {  // other input data (a new projection data object)
    std::vector<float> yf(nb, 0.F);
    if (y) for (size_t b = 0; b < nb; ++b) { (*y)[b] = (*y)[b] == 0 ? rng.range(0, 20) : (*y)[b] + rng.range(1, 9); yf[b] = (float)(*y)[b]; }
    w.y = make_pd(s, yf);
    w.recon->set_input_data(w.y);
    return "input data";
  }
  case 3:  // max_segment_num_to_process
    if (c.zero) return nullptr;   // (segment 0 alone with its end planes zeroed would leave no data at all)
    c.maxseg = c.maxseg == 0 ? -1 : 0;
    w.of->set_max_segment_num_to_process(c.maxseg);
    return "max_segment_num_to_process";
  case 4:  // zero_seg0_end_planes
    if (!c.zero && c.maxseg == 0) return nullptr;
    c.zero = !c.zero;
    w.of->set_zero_seg0_end_planes(c.zero);
    return "zero_seg0_end_planes";
  case 5:  // use_subset_sensitivities
    c.uss = !c.uss;
    w.of->set_use_subset_sensitivities(c.uss);
    return "use_subset_sensitivities";
  case 6:  // a prior where there was none, none where there was one
    if (c.prior == 0) { c.prior = rng.range(1, 2); c.beta = c.prior == 1 ? 4 : 8; c.multiplicative = rng.coin(); }
    else c.prior = 0;
    w.prior = make_prior(c);
    w.of->set_prior_sptr(w.prior);
    if (c.prior != 0) w.recon->set_MAP_model(c.multiplicative ? "multiplicative" : "additive");
    return c.prior != 0 ? "prior added" : "prior removed";
  case 7:  // penalisation factor of the existing prior object
    if (c.prior == 0) return nullptr;
    c.beta = c.beta >= 8 ? 1 : c.beta * 8;
    w.prior->set_penalisation_factor((float)c.beta);
    return "penalisation factor";
  default:  // MAP model
    if (c.prior == 0) return nullptr;
    c.multiplicative = !c.multiplicative;
    w.recon->set_MAP_model(c.multiplicative ? "multiplicative" : "additive");
    return "MAP model";
  }
}
// picks the applicable kind of change that was used least so far (so that every kind occurs in every trace)
static const char* change_something(World& w, const Sys& s, Cfg& c, vh::Rng& rng, std::vector<int>* y) {
  static long used[NUM_CHANGES + 1] = { 0 };   // (kind 6 counts twice: prior added / prior removed)
  int best = -1;
  for (int t = 0; t < NUM_CHANGES; ++t) {
    const bool applicable = t == 3 ? !c.zero : (t == 4 ? (c.zero || c.maxseg != 0) : ((t == 7 || t == 8) ? c.prior != 0 : true));
    if (!applicable) continue;
    const int slot = (t == 6 && c.prior != 0) ? NUM_CHANGES : t;
    const int bslot = best < 0 ? -1 : ((best == 6 && c.prior != 0) ? NUM_CHANGES : best);
    if (best < 0 || used[slot] < used[bslot]) best = t;
  }
  if (best < 0) return nullptr;
  ++used[(best == 6 && c.prior != 0) ? NUM_CHANGES : best];
  return apply_change(w, s, c, best, rng, y);
}

// ---------------------------------------------------------------- mode exact
static void run_exact(vh::Trace& tr, const Sys& s, const Matrix& m, const Cfg& c0, vh::Rng& rng, bool reuse) {
  Cfg c = c0;
  const int nv = (int)s.vox.size();
  const size_t nb = s.bins.size();
  const int K = std::min(3 * c.N, 12);
  World w;
  std::vector<float> zeros(nb, 0.F), af(c.a.begin(), c.a.end());
  w.y = make_pd(s, zeros);
  if (c.additive) w.a = make_pd(s, af);
  build_objects(w, s, m, c);
  w.recon->set_disable_output(true);
  w.recon->set_save_interval(1);
  long stepcount = 0;
  // one life of the objects: set_up, then K sub-iterations each started from a fresh exact state
  auto life = [&](const char* change) -> bool {
    w.recon->set_start_subiteration_num(1);
    w.recon->set_num_subiterations(K);
    emit_instance(tr, "exact", s, m, c, K, nullptr, change);
    shared_ptr<Img> target(s.t.image->get_empty_copy());
    target->fill(1.F);
    std::string msg;
    bool ok = false;
    bool err = vh::threw([&] { ok = w.recon->set_up(target) == Succeeded::yes; }, &msg);
    {
      vh::Json js("SetUp");
      js.boolean("err", err).boolean("ok", ok).num("usedN", w.recon->get_num_subsets());
      if (err) js.str("msg", msg.substr(0, 100));
      tr.emit(js);
    }
    if (err || !ok) return false;
    for (int k = 1; k <= K; ++k) {
      // a fresh exact state: integer image (zeros included), data y = q * d
      std::vector<int> lam(nv), y(nb);
      for (int v = 0; v < nv; ++v) lam[v] = rng.range(0, 6) == 0 ? 0 : rng.range(1, 6);
      const std::vector<int> d = proj(m, lam, c.a);
      for (size_t b = 0; b < nb; ++b) y[b] = rng.range(0, 3) * d[b];
      set_pd(*w.y, s, y);
      std::vector<float> lf(lam.begin(), lam.end());
      shared_ptr<Img> cur = image_from(s, lf);
      vh::Json j("Step");
      j.num("k", k).arr("lam", lam).arr("y", y);
      put_prior_gradient(j, w, *cur);
      bool verr = false;
      const double L0 = value_of(w, *cur, &verr);
      err = vh::threw([&] {
        w.recon->set_start_subiteration_num(k);
        w.recon->set_num_subiterations(k);
        w.recon->reconstruct(cur);
      }, &msg);
      const double L1 = value_of(w, *cur, &verr);
      j.boolean("err", err);
      if (err) j.str("msg", msg.substr(0, 100));
      put_fx(j, "out", "outx", *cur, IK);
      j.num("L0", fxval(L0, LK)).num("L1", fxval(L1, LK)).boolean("verr", verr);
      put_bits(j, "bh", "bl", *cur);
      tr.emit(j);
      if (err) return false;
      // ---- the SAME sub-iteration at other scales (every third step): image (and additive term) times 2^ki, or data times 2^kd.
      // Scaling by a power of two is exact in floating point; TLC demands the exponent-shifted bits of the step above.
      if ((stepcount++) % 3 == 0 && c.iuf == 0 && c.iif == 0) {
        static const int kis[] = { -10, 10, 17, 23 }, kds[] = { -20, -10, 5, 10 };
        static long nki = 0, nkd = 0;   // the scales are taken in turn over the whole trace
        for (int which = 0; which < 2; ++which) {
          int ki = 0, kd = 0;
          if (which == 0) { if (c.prior != 0) continue; ki = kis[(nki++) % 4]; }
          else { if (c.additive) continue; kd = kds[(nkd++) % 4]; }
          set_pd_scaled(*w.y, s, y, kd);
          ProjDataInMemory* am = c.additive ? dynamic_cast<ProjDataInMemory*>(w.a.get()) : nullptr;
          if (am) set_pd_scaled(*am, s, c.a, ki);
          shared_ptr<Img> sc(s.t.image->get_empty_copy());
          { size_t i = 0; for (auto it = sc->begin_all(); it != sc->end_all(); ++it, ++i) *it = std::ldexp((float)lam[i], ki); }
          const bool serr = vh::threw([&] {
            w.recon->set_start_subiteration_num(k);
            w.recon->set_num_subiterations(k);
            w.recon->reconstruct(sc);
          }, &msg);
          if (am) set_pd_scaled(*am, s, c.a, 0);
          set_pd(*w.y, s, y);
          vh::Json js("Scale");
          js.num("k", k).num("ki", ki).num("kd", kd).boolean("err", serr);
          put_bits(js, "bh", "bl", *sc);
          // the new image with the data scale taken out again (an exact operation), in the fixed-point form of Step.out
          for (auto it = sc->begin_all(); it != sc->end_all(); ++it) *it = std::ldexp(*it, -kd);
          put_fx(js, "out", "outx", *sc, IK);
          tr.emit(js);
        }
      }
    }
    return true;
  };
  if (!life(nullptr) || !reuse) return;
  // the SAME objects after one setting was changed through the setters: set up again, every sub-iteration must follow the NEW settings
  const char* change = change_something(w, s, c, rng, nullptr);
  if (change) life(change);
}

// ---------------------------------------------------------------- mode free (+ restart)
static std::string saved_name(const std::string& prefix, int k) { return prefix + "_" + std::to_string(k) + ".hv"; }
static void remove_saved(const std::string& prefix, int k) {
  for (const char* ext : { ".hv", ".v", ".ahv" }) std::remove((prefix + "_" + std::to_string(k) + ext).c_str());
}

// set_up + reconstruct from `start` with every iterate saved under `prefix`; logs SetUp, Start, Step..., Final.
// Returns true if the run was completed.
static bool record_free_run(vh::Trace& tr, const Sys& s, World& w, const std::string& prefix, int K, const std::vector<float>& start) {
  w.recon->set_disable_output(false);
  w.recon->set_output_filename_prefix(prefix);
  w.recon->set_start_subiteration_num(1);
  w.recon->set_num_subiterations(K);
  w.recon->set_save_interval(1);
  shared_ptr<Img> target = image_from(s, start);
  std::string msg;
  bool ok = false;
  bool err = vh::threw([&] { ok = w.recon->set_up(target) == Succeeded::yes; }, &msg);
  {
    vh::Json js("SetUp");
    js.boolean("err", err).boolean("ok", ok).num("usedN", w.recon->get_num_subsets());
    if (err) js.str("msg", msg.substr(0, 100));
    tr.emit(js);
  }
  if (err || !ok) return false;
  {
    // the image the iterations start from (after set_up, which may have thresholded it)
    vh::Json j("Start");
    put_fx(j, "out", "outx", *target, IK);
    bool verr = false;
    const double L = value_of(w, *target, &verr);
    j.num("L", fxval(L, LK)).boolean("verr", verr);
    put_bits(j, "bh", "bl", *target);
    tr.emit(j);
  }
  shared_ptr<Img> prev(target->clone());
  err = vh::threw([&] { w.recon->reconstruct(target); }, &msg);
  if (err) { tr.emit(vh::Json("RunError").str("msg", msg.substr(0, 100))); return false; }
  // the saved iterates, read back
  for (int k = 1; k <= K; ++k) {
    vh::Json j("Step");
    j.num("k", k);
    put_prior_gradient(j, w, *prev);
    shared_ptr<Img> im;
    const bool rerr = vh::threw([&] { im = read_from_file<Img>(saved_name(prefix, k)); }, &msg);
    j.boolean("err", rerr);
    if (rerr || !im) { j.str("msg", msg.substr(0, 100)); tr.emit(j); return false; }
    put_fx(j, "out", "outx", *im, IK);
    bool verr = false;
    const double L = value_of(w, *im, &verr);
    j.num("L1", fxval(L, LK)).boolean("verr", verr);
    put_bits(j, "bh", "bl", *im);
    tr.emit(j);
    prev = im;
  }
  { vh::Json jf("Final"); put_bits(jf, "bh", "bl", *target); tr.emit(jf); }
  return true;
}

// FRESH objects with configuration c run from the start image (logged as Resume k = 0 with the given variant + Cont lines):
// what the re-used objects have to reproduce bit for bit
static void record_fresh_run(vh::Trace& tr, const Sys& s, const Matrix& m, const Cfg& c, const std::vector<int>& y, const std::string& rprefix, int K,
                             const std::vector<float>& start, int variant, int ks = 0) {
  std::string msg;
  World w2;
  std::vector<float> yf(y.begin(), y.end()), af(c.a.begin(), c.a.end());
  w2.y = make_pd(s, yf);
  if (c.additive) w2.a = make_pd(s, af);
  build_objects(w2, s, m, c);
  Recon* rc = w2.recon.get();
  rc->set_output_filename_prefix(rprefix);
  rc->set_num_subiterations(K);
  rc->set_save_interval(1);
  vh::Json jr("Resume");
  jr.num("k", 0).num("variant", variant).boolean("eip", c.eip).num("ks", ks);
  shared_ptr<Img> from = image_from(s, start);
  for (auto it = from->begin_all(); it != from->end_all(); ++it) *it = std::ldexp(*it, ks);   // start image times 2^ks (exact)
  put_bits(jr, "fromh", "froml", *from);
  bool ok = false;
  bool rerr = vh::threw([&] { ok = rc->set_up(from) == Succeeded::yes; }, &msg);
  put_bits(jr, "afterh", "afterl", *from);
  if (!rerr && ok) rerr = vh::threw([&] { rc->reconstruct(from); }, &msg);
  jr.boolean("err", rerr || !ok);
  if (rerr) jr.str("msg", msg.substr(0, 100));
  tr.emit(jr);
  if (rerr || !ok) return;
  for (int jn = 1; jn <= K; ++jn) {
    vh::Json jc("Cont");
    jc.num("k", 0).num("j", jn).num("variant", variant);
    shared_ptr<Img> im;
    const bool e2 = vh::threw([&] { im = read_from_file<Img>(saved_name(rprefix, jn)); }, &msg);
    jc.boolean("err", e2 || !im);
    if (!e2 && im) put_bits(jc, "bh", "bl", *im);
    tr.emit(jc);
    remove_saved(rprefix, jn);
  }
}

static void run_free(vh::Trace& tr, const Sys& s, const Matrix& m, const Cfg& c0, vh::Rng& rng, const std::string& scratch, int stage) {
  Cfg c = c0;
  const int nv = (int)s.vox.size();
  const size_t nb = s.bins.size();
  const int iters = rng.range(2, 3);
  const int K = std::min(iters * c.N, stage ? 18 : 12);
  // random positive start image (multiples of 1/8) and random count data; half of the data sets are "consistent" (counts
  // only where the row of the matrix is not empty, all of them positive), the others have many empty bins
  std::vector<float> start(nv);
  for (int v = 0; v < nv; ++v) start[v] = rng.range(4, 64) / 8.F;
  std::vector<int> y(nb);
  const bool sparse = rng.coin();
  for (size_t b = 0; b < nb; ++b) {
    const bool empty = m.rows[b].empty();
    if (empty && !c.additive) y[b] = 0;
    else y[b] = sparse ? (rng.range(0, 2) == 0 ? rng.range(1, 40) : 0) : rng.range(1, 60);
  }
  World w;
  std::vector<float> yf(y.begin(), y.end()), af(c.a.begin(), c.a.end());
  w.y = make_pd(s, yf);
  if (c.additive) w.a = make_pd(s, af);
  build_objects(w, s, m, c);
  const std::string prefix = scratch + "/c07_run";
  emit_instance(tr, "free", s, m, c, K, &y);
  std::string msg;
  if (!record_free_run(tr, s, w, prefix, K, start)) return;

  // ---- restart from the file saved after k, for every interruption point k
  for (int k = 1; k < K; ++k) {
    for (int variant = 0; variant < 3; ++variant) {
      // variant 0: fresh objects (a new process), initial positivity enforcement as configured (default: on)
      // variant 1: fresh objects, enforcement switched off
      // variant 2: the SAME reconstruction object is told to continue (no new set_up)
      if (variant == 2 && k % 2 == 0 && !stage) continue;
      Cfg cr = c;
      cr.eip = variant == 0;
      shared_ptr<Img> from;
      bool rerr = vh::threw([&] { from = read_from_file<Img>(saved_name(prefix, k)); }, &msg);
      if (rerr || !from) { tr.emit(vh::Json("Resume").num("k", k).num("variant", variant).boolean("err", true).str("msg", msg.substr(0, 100))); continue; }
      const std::string rprefix = scratch + "/c07_res";
      vh::Json jr("Resume");
      jr.num("k", k).num("variant", variant).boolean("eip", variant == 2 ? false : cr.eip);
      put_bits(jr, "fromh", "froml", *from);
      World w2;
      Recon* rc = nullptr;
      bool ok2 = true;
      if (variant < 2) {
        w2.y = make_pd(s, yf);
        if (c.additive) w2.a = make_pd(s, af);
        build_objects(w2, s, m, cr);
        rc = w2.recon.get();
        rc->set_output_filename_prefix(rprefix);
        rc->set_num_subiterations(K);
        rc->set_save_interval(1);
        rc->set_start_subiteration_num(k + 1);
        rerr = vh::threw([&] { ok2 = rc->set_up(from) == Succeeded::yes; }, &msg);
      } else {
        rc = w.recon.get();
        rc->set_output_filename_prefix(rprefix);
        rc->set_num_subiterations(K);
        rc->set_start_subiteration_num(k + 1);
        rerr = false;
      }
      put_bits(jr, "afterh", "afterl", *from);
      if (!rerr && ok2) rerr = vh::threw([&] { rc->reconstruct(from); }, &msg);
      jr.boolean("err", rerr || !ok2);
      if (rerr) jr.str("msg", msg.substr(0, 100));
      tr.emit(jr);
      if (rerr || !ok2) continue;
      for (int jn = k + 1; jn <= K; ++jn) {
        vh::Json jc("Cont");
        jc.num("k", k).num("j", jn).num("variant", variant);
        shared_ptr<Img> im;
        const bool e2 = vh::threw([&] { im = read_from_file<Img>(saved_name(rprefix, jn)); }, &msg);
        jc.boolean("err", e2 || !im);
        if (!e2 && im) put_bits(jc, "bh", "bl", *im);
        tr.emit(jc);
        remove_saved(rprefix, jn);
      }
    }
  }
  // ---- the SAME objects once more from the beginning (variant 3): in between the reconstruction object was set up and run
  // with another number of subsets, so anything that survives a set_up would show
  {
    const std::string rprefix = scratch + "/c07_res";
    Recon* rc = w.recon.get();
    vh::Json jr("Resume");
    jr.num("k", 0).num("variant", 3).boolean("eip", c.eip);
    bool rerr = vh::threw([&] {
      const int otherN = c.N == 1 ? 2 : 1;
      rc->set_disable_output(true);
      rc->set_num_subsets(otherN);
      rc->set_start_subset_num(0);
      rc->set_start_subiteration_num(1);
      rc->set_num_subiterations(2);
      rc->set_save_interval(2);
      shared_ptr<Img> other = image_from(s, start);
      if (rc->set_up(other) == Succeeded::yes) rc->reconstruct(other);
      rc->set_disable_output(false);
      rc->set_num_subsets(c.N);
      rc->set_start_subset_num(c.startSubset);
      rc->set_num_subiterations(K);
      rc->set_save_interval(1);
      rc->set_output_filename_prefix(rprefix);
    }, &msg);
    shared_ptr<Img> from = image_from(s, start);
    put_bits(jr, "fromh", "froml", *from);
    bool ok3 = false;
    if (!rerr) rerr = vh::threw([&] { ok3 = rc->set_up(from) == Succeeded::yes; }, &msg);
    put_bits(jr, "afterh", "afterl", *from);
    if (!rerr && ok3) rerr = vh::threw([&] { rc->reconstruct(from); }, &msg);
    jr.boolean("err", rerr || !ok3);
    if (rerr) jr.str("msg", msg.substr(0, 100));
    tr.emit(jr);
    if (!rerr && ok3)
      for (int jn = 1; jn <= K; ++jn) {
        vh::Json jc("Cont");
        jc.num("k", 0).num("j", jn).num("variant", 3);
        shared_ptr<Img> im;
        const bool e2 = vh::threw([&] { im = read_from_file<Img>(saved_name(rprefix, jn)); }, &msg);
        jc.boolean("err", e2 || !im);
        if (!e2 && im) put_bits(jc, "bh", "bl", *im);
        tr.emit(jc);
        remove_saved(rprefix, jn);
      }
  }
  for (int k = 1; k <= K; ++k) remove_saved(prefix, k);

  // ---- the same run of fresh objects from the start image times 2^ks (variant 5): without additive term, prior and filters
  // the first update does not depend on the scale of the image, so every saved iterate has to be the uninterrupted run's
  if (!c.additive && c.prior == 0 && c.iuf == 0 && c.iif == 0) {
    static long nscaled = 0;
    record_fresh_run(tr, s, m, c, y, scratch + "/c07_res", K, start, 5, (nscaled++ % 2) ? 23 : 17);
  }

  // ---- re-use history: ONE setting of the SAME objects is changed through the public setters (number of subsets unchanged),
  // they are set up and run again from the start image: every sub-iteration has to follow the NEW settings (a new Instance
  // line describes them) and the run has to be the run of fresh objects with those settings (variant 4), bit for bit
  {
    Cfg c2 = c;
    std::vector<int> y2 = y;
    bool cerr = false;
    const char* change = nullptr;
    cerr = vh::threw([&] {
      w.recon->set_num_subsets(c.N);
      w.recon->set_start_subset_num(c.startSubset);
      change = change_something(w, s, c2, rng, &y2);
    }, &msg);
    if (cerr || !change) return;
    const std::string uprefix = scratch + "/c07_reuse";
    emit_instance(tr, "free", s, m, c2, K, &y2, change);
    if (record_free_run(tr, s, w, uprefix, K, start))
      record_fresh_run(tr, s, m, c2, y2, scratch + "/c07_res", K, start, 4);
    for (int k = 1; k <= K; ++k) remove_saved(uprefix, k);
  }
}

int main(int argc, char** argv) {
  if (argc < 5) { fprintf(stderr, "usage: c07_osmaposl exact|free <out.ndjson> <scratch-dir> <count> [stage]\n"); return 2; }
  vh::quiet();
  vh::install_terminate();
  std::signal(SIGSEGV, on_signal);
  std::signal(SIGFPE, on_signal);
  std::signal(SIGBUS, on_signal);
  std::signal(SIGABRT, on_signal);
  const std::string mode = argv[1], scratch = argv[3];
  const long count = atol(argv[4]);
  const int stage = argc > 5 ? atoi(argv[5]) : 0;
  vh::Trace tr(argv[2]);
  vh::Rng rng(vh::seed_from_env());
  Sys sys[2] = { make_sys(8), make_sys(12) };
  Matrix mats[2];
  for (long i = 0; i < count; ++i) {
    const int t = (int)((i / 3) % 2);
    // a new matrix every few objects; the System line precedes the objects that use it
    if (!mats[t].data || rng.range(0, 3) == 0 || i % 6 == 0 || i % 6 == 3) { mats[t] = make_matrix(sys[t], rng); }
    tr.emit(mats[t].sysjson);
    Cfg c = random_cfg(sys[t], rng, i, stage);
    if (mode == "exact") run_exact(tr, sys[t], mats[t], c, rng, i % 2 == 1);
    else if (mode == "free") run_free(tr, sys[t], mats[t], c, rng, scratch, stage);
    else { fprintf(stderr, "unknown mode\n"); return 2; }
  }
  tr.emit(vh::Json("End").num("lines", tr.lines));
  return 0;
}
