// C18 driver: multi-threaded (OpenMP) executions of the real STIR code, recorded as ndjson.
// DRIVES AND RECORDS ONLY: no expected value, no comparison, no property formula here — TLC
// (Trace_Threads.tla) decides.
//
//   c18_threads run <out.ndjson> <scratch-dir> <num-instances> <reps> <size 0|1> [workload-list]
//     workloads: lazy (geometry tables), rows (matrix row cache), proj (forward / back projection), ll (projection-data
//     log-likelihood), lm (list-mode objective function), scat (single-scatter simulation), io (ProjDataFromStream)
//
// For every workload instance (seeded configuration) the driver executes the same public-API calls with
// fresh objects first with 1 thread (the reference run) and then with several thread counts / perturbation
// schedules.  It defines the UCL_STIR_VERIF call-out stir_verif_event(): every hook event is stored with
// the id of the calling OS thread and a global atomic sequence number taken at the call (lock-free,
// per-thread buffers), and, according to a seeded schedule, yields / sleeps are injected at the hook points
// to perturb the interleaving.  After the run the buffers are merged by sequence number and written one
// event per line, followed by the numeric outputs in fixed point.
//
// Every instance runs in a child process (forked before OpenMP is ever used in the parent): a crash inside
// STIR becomes an {"e":"Abort"} line, a child that does not finish within the time limit a {"e":"Hang"} line.
#include "vh_stir.h"
#include "vh_listmode.h"
#include "stir/VoxelsOnCartesianGrid.h"
#include "stir/IndexRange3D.h"
#include "stir/IndexRange2D.h"
#include "stir/CartesianCoordinate3D.h"
#include "stir/ProjDataInMemory.h"
#include "stir/ProjDataInterfile.h"
#include "stir/ProjDataFromStream.h"
#include "stir/ExamInfo.h"
#include "stir/SegmentByView.h"
#include "stir/Viewgram.h"
#include "stir/Sinogram.h"
#include "stir/Succeeded.h"
#include "stir/is_null_ptr.h"
#include "stir/num_threads.h"
#include "stir/recon_buildblock/ProjMatrixByBinUsingRayTracing.h"
#include "stir/recon_buildblock/ProjMatrixElemsForOneBin.h"
#include "stir/recon_buildblock/ForwardProjectorByBinUsingProjMatrixByBin.h"
#include "stir/recon_buildblock/BackProjectorByBinUsingProjMatrixByBin.h"
#include "stir/recon_buildblock/ProjectorByBinPairUsingProjMatrixByBin.h"
#include "stir/recon_buildblock/PoissonLogLikelihoodWithLinearModelForMeanAndProjData.h"
#include "stir/recon_buildblock/PoissonLogLikelihoodWithLinearModelForMeanAndListModeDataWithProjMatrixByBin.h"
#include "stir/recon_buildblock/BinNormalisationFromProjData.h"
#include "stir/scatter/SingleScatterSimulation.h"
#include "stir/multiply_crystal_factors.h"
#include "stir/ML_norm.h"
#include "stir/TextWriter.h"
#include "stir/info.h"
#include "stir/warning.h"
#include <omp.h>
#include <atomic>
#include <mutex>
#include <map>
#include <algorithm>
#include <cstring>
#include <sched.h>
#include <sys/wait.h>
#include <sys/stat.h>
#include <time.h>
using namespace stir;
typedef VoxelsOnCartesianGrid<float> Img;
typedef DiscretisedDensity<3, float> Den;

// =================================================================== hook recorder
namespace rec {
enum Site { S_NONE = 0, LAZY_READ, LAZY_ENTER, LAZY_LEAVE, LAZY_FILL_BEGIN, LAZY_FILL_END, LAZY_FLAG, LAZY_USE,
            CACHE_LOOKUP, CACHE_INSERT, CACHE_CLEAR, BP_ITEM, BP_REDUCE, DIST_ITEM, DIST_REDUCE, SC_GET, MARK, NSITES };
static const char* const site_name[NSITES] = { "", "lazy.read", "lazy.enter", "lazy.leave", "lazy.fill.begin", "lazy.fill.end", "lazy.flag", "lazy.use",
                                               "cache.lookup", "cache.insert", "cache.clear", "bp.item", "bp.reduce", "dist.item", "dist.reduce", "sc.get", "mark" };
struct Ev { uint64_t seq; int site; int tid; long a, b, c, d; };
struct Buf {
  std::vector<Ev> ev;
  int tid = 0;
  uint64_t run = 0, rng = 0, cnt = 0;
};
static std::atomic<uint64_t> g_seq(0);
static std::atomic<int> g_on(0);
static std::mutex g_reg;
static std::vector<Buf*> g_bufs;
static thread_local Buf* t_buf = nullptr;
static uint64_t g_run = 0, g_runseed = 0;
static int g_mode = 0;

static inline uint64_t mix(uint64_t z) { z += 0x9E3779B97F4A7C15ULL; z = (z ^ (z >> 30)) * 0xBF58476D1CE4E5B9ULL; z = (z ^ (z >> 27)) * 0x94D049BB133111EBULL; return z ^ (z >> 31); }
static inline void nap(unsigned us) { struct timespec ts = { 0, (long)us * 1000L }; nanosleep(&ts, nullptr); }

static Buf* my_buf() {
  if (!t_buf) {
    Buf* b = new Buf;
    b->ev.reserve(1 << 14);
    std::lock_guard<std::mutex> l(g_reg);
    b->tid = (int)g_bufs.size();
    g_bufs.push_back(b);
    t_buf = b;
  }
  return t_buf;
}
static int site_of(const char* s) {
  for (int i = 1; i < MARK; ++i) if (!std::strcmp(s, site_name[i])) return i;
  return S_NONE;
}
// the seeded schedule: what to inject at this hook point (never influences what is recorded)
static void perturb(Buf& b, int site, long a, long bb, long c, long d) {
  if (g_mode == 0) return;
  b.rng = mix(b.rng + b.cnt);
  const uint64_t r = b.rng;
  const unsigned r8 = r & 255, us = (unsigned)((r >> 8) & 1023);
  const bool amp = g_mode == 2 || g_mode == 4, light = g_mode == 1 || g_mode == 4;
  if (g_mode == 3) { if ((unsigned)b.tid % 3 == (g_runseed % 3) && (b.cnt & 3) == 0) nap(40 + us / 8); return; }
  if (amp) {
    switch (site) {
    case LAZY_FILL_BEGIN: nap(300 + us); return;
    case LAZY_ENTER: nap(40 + us / 4); return;
    case LAZY_READ: if (bb == 0) { sched_yield(); return; } break;
    case LAZY_FLAG: nap(20 + us / 8); return;
    case CACHE_INSERT: if (r8 < 128) { nap(20 + us / 6); return; } break;
    case CACHE_LOOKUP: if (d == 0 && r8 < 96) { nap(10 + us / 10); return; } break;
    case BP_ITEM: if (d != 0) { nap(50 + us / 2); return; } else if (r8 < 64) { nap(us / 4); return; } break;
    case DIST_ITEM: if (r8 < 128) { nap(us / 3); return; } break;
    case SC_GET: if (d == 0 && r8 < 32) { nap(us / 16); return; } break;
    default: break;
    }
  }
  if (light) { if (r8 < 32) sched_yield(); else if (r8 < 36) nap(10 + us / 16); }
}
} // namespace rec

extern "C" void stir_verif_event(const char* site, long a, long b, long c, long d) {
  if (!rec::g_on.load(std::memory_order_relaxed)) return;
  const int s = rec::site_of(site);
  if (s == rec::S_NONE) return;
  rec::Buf* buf = rec::my_buf();
  const uint64_t seq = rec::g_seq.fetch_add(1, std::memory_order_seq_cst);   // taken at the call
  if (buf->run != rec::g_run) { buf->run = rec::g_run; buf->rng = rec::mix(rec::g_runseed * 1000003ULL + (uint64_t)buf->tid); buf->cnt = 0; }
  buf->ev.push_back({ seq, s, buf->tid, a, b, c, d });
  ++buf->cnt;
  rec::perturb(*buf, s, a, b, c, d);
}

// =================================================================== run context
static std::string g_text;                 // lines of the current run (written in one go at the end)
static std::string g_outs;                 // output lines of the current run (written after the hook events)
static std::map<std::string, int> g_scale;   // fixed-point exponent per output name, chosen in the reference run
static FILE* g_out = nullptr;
static long g_lines = 0;
static void put(const vh::Json& j) { g_text += j.done(); g_text += '\n'; ++g_lines; }
static void put_out(const vh::Json& j) { g_outs += j.done(); g_outs += '\n'; ++g_lines; }
static void flush_text() { fputs(g_text.c_str(), g_out); fflush(g_out); g_text.clear(); }

static int g_mark = 0;
static int g_phase = 0;     // 0: set-up part of a run; p >= 1: p-th entry of the thread-count history
static void mark(const char* name, long nthreads = 0) {
  rec::Buf* buf = rec::my_buf();
  const uint64_t seq = rec::g_seq.fetch_add(1);
  buf->ev.push_back({ seq, rec::MARK, buf->tid, (long)++g_mark, (long)(intptr_t)name, nthreads, 0 });
}

static void begin_recording(uint64_t runseed, int mode) {
  for (auto* b : rec::g_bufs) b->ev.clear();
  rec::g_runseed = runseed; rec::g_mode = mode; ++rec::g_run; g_mark = 0;
  rec::g_on.store(1);
}
// merge by sequence number and write one line per event (identical consecutive events of one thread are
// written once with a repeat count n)
static void end_recording() {
  rec::g_on.store(0);
  std::vector<rec::Ev> all;
  {
    std::lock_guard<std::mutex> l(rec::g_reg);
    for (auto* b : rec::g_bufs) all.insert(all.end(), b->ev.begin(), b->ev.end());
  }
  std::sort(all.begin(), all.end(), [](const rec::Ev& x, const rec::Ev& y) { return x.seq < y.seq; });
  for (size_t i = 0; i < all.size();) {
    const rec::Ev& e = all[i];
    size_t n = 1;
    if (e.site == rec::LAZY_READ || e.site == rec::SC_GET)
      while (i + n < all.size() && all[i + n].tid == e.tid && all[i + n].site == e.site && all[i + n].a == e.a && all[i + n].b == e.b
             && all[i + n].c == e.c && all[i + n].d == e.d)
        ++n;
    vh::Json j(rec::site_name[e.site]);
    j.num("t", e.tid);
    const unsigned long long key = (unsigned long long)e.c;
    switch (e.site) {
    case rec::LAZY_READ: case rec::LAZY_ENTER: case rec::LAZY_LEAVE: j.num("id", e.a).num("v", e.b); break;
    case rec::LAZY_FILL_BEGIN: case rec::LAZY_FILL_END: case rec::LAZY_FLAG: j.num("id", e.a); break;
    case rec::LAZY_USE: j.num("id", e.a).num("size", e.b); break;
    case rec::CACHE_LOOKUP: j.arr("k", std::vector<long long>{ e.a, e.b, (long long)((key >> 16) & 0xFFFFFFFFULL), (long long)(key & 0xFFFF) }).num("f", e.d); break;
    case rec::CACHE_INSERT: j.arr("k", std::vector<long long>{ e.a, e.b, (long long)((key >> 16) & 0xFFFFFFFFULL), (long long)(key & 0xFFFF) }).num("c", e.d); break;
    case rec::CACHE_CLEAR: break;
    case rec::BP_ITEM: j.num("tn", e.a).arr("it", std::vector<long>{ e.b, e.c }).num("nul", e.d); break;
    case rec::BP_REDUCE: j.num("i", e.a).num("nn", e.b).num("sz", e.c); break;
    case rec::DIST_ITEM: j.num("tn", e.a).arr("it", std::vector<long>{ e.b, e.c, e.d }); break;
    case rec::DIST_REDUCE: j.num("i", e.a).num("sz", e.b); break;
    case rec::SC_GET: j.num("kind", e.a).arr("k", std::vector<long>{ e.b, e.c }).num("st", e.d); break;
    case rec::MARK: j.num("i", e.a).str("name", (const char*)(intptr_t)e.b).num("nt", e.c); break;
    default: break;
    }
    if (n > 1) j.num("n", (long long)n);
    put(j);
    i += n;
  }
}

// ---------------------------------------------------------------- outputs
static bool g_is_ref = false;
static void out_fx(const std::string& name, const std::vector<double>& v) {
  int k;
  if (g_is_ref) {
    double mx = 0;
    for (double x : v) if (std::isfinite(x)) mx = std::max(mx, std::fabs(x));
    k = mx > 0 ? 24 - (int)std::ceil(std::log2(mx)) : 0;
    g_scale[name] = k;
  } else
    k = g_scale.count(name) ? g_scale[name] : 0;
  std::vector<long long> q;
  long long mx = 0, bad = 0;
  const long long LIM = 1LL << 30;
  for (double x : v) {
    long long y;
    if (!std::isfinite(x)) { y = LIM; ++bad; }
    else { const double s = std::ldexp(x, k); y = s > (double)LIM ? LIM : s < -(double)LIM ? -LIM : (long long)std::llround(s); }
    q.push_back(y);
    mx = std::max(mx, y < 0 ? -y : y);
  }
  put_out(vh::Json("Out").str("name", name).num("ph", g_phase).str("kind", "fx").num("k", k).num("mx", mx).num("nonfinite", bad).arr("v", q));
}
static void out_int(const std::string& name, const std::vector<long long>& v) {
  put_out(vh::Json("Out").str("name", name).num("ph", g_phase).str("kind", "int").num("k", 0).num("mx", 0).num("nonfinite", 0).arr("v", v));
}
static std::vector<double> img_vals(const DiscretisedDensity<3, float>& im) {
  std::vector<double> v;
  for (auto it = im.begin_all_const(); it != im.end_all_const(); ++it) v.push_back(*it);
  return v;
}
static std::vector<double> pd_vals(const ProjData& pd) {
  std::vector<double> v;
  for (int k = pd.get_min_tof_pos_num(); k <= pd.get_max_tof_pos_num(); ++k)
    for (int s = pd.get_min_segment_num(); s <= pd.get_max_segment_num(); ++s) {
      const SegmentByView<float> seg = pd.get_segment_by_view(s, k);
      for (auto it = seg.begin_all_const(); it != seg.end_all_const(); ++it) v.push_back(*it);
    }
  return v;
}

// =================================================================== configurations
struct Cfg {
  std::string wl;
  int N = 16, R = 3, span = 1, maxDelta = 2, mash = 1, maxT = 0, tofMash = 0, numTang = 7;
  std::string geom = "Cylindrical";
  int nxy = 9, nz = 5;
  int ntl = 1, sym = 31;
  bool basic_only = true, file_io = false, has_add = false, has_norm = false, use_cache = true;
  int subsets = 1;
  // thread-count history of the run: objects are built and set up with T0 threads, then the compute calls are
  // repeated on the SAME objects (fresh targets, no new set_up) once per entry of hist with that many threads
  int T0 = 1;
  std::vector<int> hist = { 1 };
  std::vector<int> hist_modes = { 0 };
  uint64_t data_seed = 1;
  std::string scratch;
};
static shared_ptr<ProjDataInfo> make_pdi(const Cfg& c, bool uncompressed = false) {
  shared_ptr<Scanner> sc = vh::make_scanner(c.N, c.R, c.maxT, c.geom);
  if (uncompressed)
    return ProjDataInfo::construct_proj_data_info(sc, 1, c.R - 1, c.N / 2, c.numTang, false, c.maxT > 0 ? c.tofMash : 0);
  return ProjDataInfo::construct_proj_data_info(sc, c.span, c.maxDelta, c.N / 2 / c.mash, c.numTang, false, c.maxT > 0 ? c.tofMash : 0);
}
static shared_ptr<Img> make_image(const Cfg& c, const ProjDataInfo& pdi, shared_ptr<const ExamInfo> ex = shared_ptr<const ExamInfo>()) {
  const Scanner& sc = *pdi.get_scanner_ptr();
  const float vxy = sc.get_inner_ring_radius() * 1.7F / c.nxy;
  IndexRange3D range(0, c.nz - 1, -(c.nxy / 2), -(c.nxy / 2) + c.nxy - 1, -(c.nxy / 2), -(c.nxy / 2) + c.nxy - 1);
  if (ex)
    return shared_ptr<Img>(new Img(ex, range, CartesianCoordinate3D<float>(0, 0, 0), CartesianCoordinate3D<float>(sc.get_ring_spacing() / 2, vxy, vxy)));
  return shared_ptr<Img>(new Img(range, CartesianCoordinate3D<float>(0, 0, 0), CartesianCoordinate3D<float>(sc.get_ring_spacing() / 2, vxy, vxy)));
}
static void fill_image(Den& im, vh::Rng& rng, int lo, int hi, float unit) {
  for (auto it = im.begin_all(); it != im.end_all(); ++it) *it = rng.range(lo, hi) * unit;
}
static shared_ptr<ProjMatrixByBinUsingRayTracing> make_matrix(const Cfg& c) {
  shared_ptr<ProjMatrixByBinUsingRayTracing> m(new ProjMatrixByBinUsingRayTracing);
  m->set_do_symmetry_90degrees_min_phi(c.sym & 1);
  m->set_do_symmetry_180degrees_min_phi(c.sym & 2);
  m->set_do_symmetry_swap_segment(c.sym & 4);
  m->set_do_symmetry_swap_s(c.sym & 8);
  m->set_do_symmetry_shift_z(c.sym & 16);
  m->set_num_tangential_LORs(c.ntl);
  m->enable_cache(c.use_cache);
  m->store_only_basic_bins_in_cache(c.basic_only);
  return m;
}
static shared_ptr<ExamInfo> make_exam() {
  shared_ptr<ExamInfo> e(new ExamInfo);
  e->imaging_modality = ImagingModality::PT;
  e->set_low_energy_thres(350.F); e->set_high_energy_thres(650.F);
  return e;
}
static void fill_projdata(ProjData& pd, vh::Rng& rng, int lo, int hi, float unit) {
  for (int k = pd.get_min_tof_pos_num(); k <= pd.get_max_tof_pos_num(); ++k)
    for (int s = pd.get_min_segment_num(); s <= pd.get_max_segment_num(); ++s) {
      SegmentByView<float> seg = pd.get_empty_segment_by_view(s, false, k);
      for (auto it = seg.begin_all(); it != seg.end_all(); ++it) *it = rng.range(lo, hi) * unit;
      pd.set_segment(seg);
    }
}
static int g_file_counter = 0;
static std::vector<std::string> g_files;
static shared_ptr<ProjData> make_projdata(const Cfg& c, const shared_ptr<ExamInfo>& ex, const shared_ptr<ProjDataInfo>& pdi, bool on_disk) {
  if (!on_disk) return shared_ptr<ProjData>(new ProjDataInMemory(ex, pdi));
  const std::string fn = c.scratch + "/pd" + std::to_string(getpid()) + "_" + std::to_string(++g_file_counter);
  g_files.push_back(fn);
  return shared_ptr<ProjData>(new ProjDataInterfile(ex, pdi, fn, std::ios::in | std::ios::out | std::ios::trunc));
}
static void cfg_json(vh::Json& j, const Cfg& c) {
  j.str("wl", c.wl).str("geom", c.geom).num("N", c.N).num("R", c.R).num("span", c.span).num("maxDelta", c.maxDelta).num("mash", c.mash).num("maxT", c.maxT)
      .num("tofMash", c.tofMash).num("numTang", c.numTang).num("nxy", c.nxy).num("nz", c.nz).num("ntl", c.ntl).num("sym", c.sym).boolean("basicOnly", c.basic_only)
      .boolean("fileIO", c.file_io).boolean("hasAdd", c.has_add).boolean("hasNorm", c.has_norm).boolean("useCache", c.use_cache).num("subsets", c.subsets);
}

// =================================================================== thread-count phases
// runs `body` once per entry of the run's thread-count history
static void mark(const char* name, long nthreads);
static void mark_phase(int nthreads) { mark("phase", nthreads); }
template <class F> static void phases(const Cfg& c, F body) {
  for (size_t p = 0; p < c.hist.size(); ++p) {
    stir::set_num_threads(c.hist[p]);
    // some phases of a history let the runtime choose smaller teams (omp_set_dynamic): per-thread state sized by
    // omp_get_max_threads() must still cover whatever team the runtime forms
    omp_set_dynamic(c.hist.size() > 1 && c.hist_modes[p] == 3 ? 1 : 0);
    rec::g_mode = c.hist_modes[p];
    g_phase = (int)p + 1;
    mark_phase(c.hist[p]);
    body();
  }
}

// =================================================================== workloads
// Each workload builds FRESH objects (so first-use races are re-armed), calls the public API and appends its
// outputs.  `objs` (reported in the Run line) is 1 when exactly one object per lazy table id and exactly one
// cached matrix can be reached by the calls, 0 when the library is free to clone geometry objects.

// (a) lazy geometry tables hit directly and concurrently from the first call on
static void wl_lazy(const Cfg& c) {
  shared_ptr<ProjDataInfo> pdi_sptr = make_pdi(c, true);
  const ProjDataInfoCylindrical& cyl = dynamic_cast<const ProjDataInfoCylindrical&>(*pdi_sptr);
  const ProjDataInfoCylindricalNoArcCorr* nac = dynamic_cast<const ProjDataInfoCylindricalNoArcCorr*>(pdi_sptr.get());
  const ProjDataInfoGenericNoArcCorr* gen = dynamic_cast<const ProjDataInfoGenericNoArcCorr*>(pdi_sptr.get());
  // re-arm the ring-difference tables (the constructor fills them): the documented effect of this setter
  dynamic_cast<ProjDataInfoCylindrical&>(*pdi_sptr).set_ring_spacing(cyl.get_ring_spacing());
  std::vector<Bin> bins;
  for (int s = cyl.get_min_segment_num(); s <= cyl.get_max_segment_num(); ++s)
    for (int a = cyl.get_min_axial_pos_num(s); a <= cyl.get_max_axial_pos_num(s); ++a)
      for (int v = cyl.get_min_view_num(); v <= cyl.get_max_view_num(); ++v)
        for (int tp = cyl.get_min_tangential_pos_num(); tp <= cyl.get_max_tangential_pos_num(); ++tp)
          bins.push_back(Bin(s, v, a, tp));
  vh::Rng rng(c.data_seed);
  const int nwork = (int)std::min<size_t>(bins.size(), 240);
  std::vector<int> pick(nwork), op(nwork);
  for (int i = 0; i < nwork; ++i) { pick[i] = rng.range(0, (int)bins.size() - 1); op[i] = rng.range(0, 4); }
  phases(c, [&] {
  std::vector<long long> res((size_t)nwork * 5, 0);
  mark("lazy");
#pragma omp parallel for schedule(dynamic, 1)
  for (int i = 0; i < nwork; ++i) {
    const Bin bin = bins[pick[i]];
    long long* r = &res[(size_t)i * 5];
    switch (op[i]) {
    case 0: {   // tables view/tang -> detectors and ring pairs
      int d1 = 0, d2 = 0, r1 = 0, r2 = 0;
      if (nac) nac->get_det_pair_for_bin(d1, r1, d2, r2, bin); else gen->get_det_pair_for_bin(d1, r1, d2, r2, bin);
      r[0] = d1; r[1] = r1; r[2] = d2; r[3] = r2;
      break;
    }
    case 1: {   // table detectors -> view/tang
      int d1 = 0, d2 = 0;
      if (nac) nac->get_det_num_pair_for_view_tangential_pos_num(d1, d2, bin.view_num(), bin.tangential_pos_num());
      else gen->get_det_num_pair_for_view_tangential_pos_num(d1, d2, bin.view_num(), bin.tangential_pos_num());
      Bin b2;
      const int r1 = bin.axial_pos_num() % c.R, r2 = (bin.axial_pos_num() + 1) % c.R;
      const DetectionPositionPair<> dpp(DetectionPosition<>(d1, r1, 0), DetectionPosition<>(d2, r2, 0));
      Succeeded ok = nac ? nac->get_bin_for_det_pos_pair(b2, dpp) : gen->get_bin_for_det_pos_pair(b2, dpp);
      r[0] = ok == Succeeded::yes; r[1] = b2.segment_num(); r[2] = b2.axial_pos_num(); r[3] = b2.view_num(); r[4] = b2.tangential_pos_num();
      break;
    }
    case 2: r[0] = vh::fx(cyl.get_m(bin), 8); r[1] = vh::fx(cyl.get_t(bin), 8); break;
    case 3: r[0] = (long long)cyl.get_all_ring_pairs_for_segment_axial_pos_num(bin.segment_num(), bin.axial_pos_num()).size(); break;
    default: {
      int seg = 0, ax = 0;
      const int r1 = bin.view_num() % c.R, r2 = bin.axial_pos_num() % c.R;
      Succeeded ok = cyl.get_segment_axial_pos_num_for_ring_pair(seg, ax, r1, r2);
      r[0] = ok == Succeeded::yes; r[1] = seg; r[2] = ax;
    }
    }
  }
  mark("end");
  out_int("lazy", res);
  });
}

// (b) the row cache of one matrix used concurrently for the same and for different rows
static void wl_rows(const Cfg& c) {
  shared_ptr<ProjDataInfo> pdi = make_pdi(c);
  shared_ptr<Img> image = make_image(c, *pdi);
  vh::Rng rng(c.data_seed);
  fill_image(*image, rng, 1, 8, 0.25F);
  shared_ptr<ProjMatrixByBinUsingRayTracing> pm = make_matrix(c);
  pm->set_up(pdi, image);
  std::vector<Bin> bins;
  for (int s = pdi->get_min_segment_num(); s <= pdi->get_max_segment_num(); ++s)
    for (int a = pdi->get_min_axial_pos_num(s); a <= pdi->get_max_axial_pos_num(s); ++a)
      for (int v = pdi->get_min_view_num(); v <= pdi->get_max_view_num(); ++v)
        for (int tp = pdi->get_min_tangential_pos_num(); tp <= pdi->get_max_tangential_pos_num(); ++tp)
          for (int k = pdi->get_min_tof_pos_num(); k <= pdi->get_max_tof_pos_num(); ++k)
            bins.push_back(Bin(s, v, a, tp, k));
  // a request list with many repetitions of the same (and of symmetry-related) bins close to each other
  const int nbase = 24, nreq = 160;
  std::vector<int> base(nbase), req(nreq);
  for (int i = 0; i < nbase; ++i) base[i] = rng.range(0, (int)bins.size() - 1);
  for (int i = 0; i < nreq; ++i) req[i] = base[rng.range(0, nbase - 1)];
  phases(c, [&] {
  for (int pass = 0; pass < 2; ++pass) {
    std::vector<double> dig((size_t)nreq * 3, 0.);
    mark(pass == 0 ? "rows" : "rows.again");
    // pass 0: concurrent first use; pass 1: the same requests by one thread (every row must now come from the cache)
#pragma omp parallel for schedule(dynamic, 1) if (pass == 0)
    for (int i = 0; i < nreq; ++i) {
      ProjMatrixElemsForOneBin row;
      pm->get_proj_matrix_elems_for_one_bin(row, bins[req[i]]);
      double sum = 0, dot = 0;
      for (auto it = row.begin(); it != row.end(); ++it) {
        sum += it->get_value();
        // (rows may contain planes outside the image: those elements only enter the sum)
        if (it->coord1() >= image->get_min_index() && it->coord1() <= image->get_max_index())
          dot += it->get_value() * (*image)[it->coord1()][it->coord2()][it->coord3()];
      }
      dig[(size_t)i * 3] = (double)row.size() / 64.; dig[(size_t)i * 3 + 1] = sum; dig[(size_t)i * 3 + 2] = dot;
    }
    mark("end");
    out_fx(pass == 0 ? "rows" : "rows.again", dig);
  }
  });
}

// (c) forward and back projection of whole data sets (matrix cache on, shared by both projectors)
static void wl_proj(const Cfg& c) {
  shared_ptr<ExamInfo> ex = make_exam();
  shared_ptr<ProjDataInfo> pdi = make_pdi(c);
  shared_ptr<Img> image = make_image(c, *pdi);
  vh::Rng rng(c.data_seed);
  fill_image(*image, rng, 1, 8, 0.25F);
  shared_ptr<ProjMatrixByBin> pm = make_matrix(c);
  shared_ptr<ForwardProjectorByBin> fp(new ForwardProjectorByBinUsingProjMatrixByBin(pm));
  shared_ptr<BackProjectorByBin> bp(new BackProjectorByBinUsingProjMatrixByBin(pm));
  fp->set_up(pdi, image);
  bp->set_up(pdi, image);
  shared_ptr<ProjData> data = make_projdata(c, ex, pdi, c.file_io);
  fill_projdata(*data, rng, 0, 6, 0.5F);
  phases(c, [&] {
  shared_ptr<ProjData> fwd = make_projdata(c, ex, pdi, c.file_io);      // fresh targets in every phase
  mark("fwd");
  if (c.subsets == 1) fp->forward_project(*fwd, *image);
  else {
    fp->set_input(*image);
    for (int s = 0; s < c.subsets; ++s) fp->forward_project(*fwd, s, c.subsets, false);
  }
  mark("end");
  out_fx("fwd", pd_vals(*fwd));
  shared_ptr<Img> back(image->get_empty_copy());
  mark("bck");
  bp->back_project(*back, *data);
  mark("end");
  out_fx("bck", img_vals(*back));
  for (int s = 0; s < c.subsets && c.subsets > 1; ++s) {
    back->fill(0.F);
    mark("bck.subset");
    bp->back_project(*back, *fwd, s, c.subsets);
    mark("end");
    out_fx("bck.subset" + std::to_string(s), img_vals(*back));
  }
  });
}

// (d) Poisson log-likelihood for projection data: sensitivity, value, gradient, Hessian products
class LLObj : public PoissonLogLikelihoodWithLinearModelForMeanAndProjData<Den> {
public:
  void recompute_sensitivities() { this->compute_sensitivities(); }     // what set_up() does, without a new set_up()
};
static void wl_ll(const Cfg& c) {
  shared_ptr<ExamInfo> ex = make_exam();
  shared_ptr<ProjDataInfo> pdi = make_pdi(c);
  shared_ptr<Img> image = make_image(c, *pdi, ex);
  vh::Rng rng(c.data_seed);
  fill_image(*image, rng, 2, 8, 0.25F);
  shared_ptr<Img> input(image->get_empty_copy());
  fill_image(*input, rng, 1, 8, 0.125F);
  shared_ptr<ProjData> y = make_projdata(c, ex, pdi, c.file_io);
  fill_projdata(*y, rng, 0, 9, 1.F);
  shared_ptr<ProjData> add, norm;
  if (c.has_add) { add = make_projdata(c, ex, pdi, c.file_io); fill_projdata(*add, rng, 2, 9, 0.25F); }
  if (c.has_norm) { norm = make_projdata(c, ex, pdi, false); fill_projdata(*norm, rng, 2, 6, 0.25F); }
  shared_ptr<ProjMatrixByBin> pm = make_matrix(c);
  LLObj obj;
  obj.set_proj_data_sptr(y);
  obj.set_projector_pair_sptr(shared_ptr<ProjectorByBinPair>(new ProjectorByBinPairUsingProjMatrixByBin(pm)));
  if (add) obj.set_additive_proj_data_sptr(add);
  if (norm) obj.set_normalisation_sptr(shared_ptr<BinNormalisation>(new BinNormalisationFromProjData(norm)));
  obj.set_num_subsets(c.subsets);
  obj.set_use_subset_sensitivities(true);
  obj.set_recompute_sensitivity(true);
  obj.set_zero_seg0_end_planes(false);
  mark("ll.set_up");
  if (obj.set_up(image) != Succeeded::yes) error("objective function set_up failed");
  mark("end");
  for (int s = 0; s < c.subsets; ++s) out_fx("sens" + std::to_string(s), img_vals(obj.get_subset_sensitivity(s)));
  phases(c, [&] {
  mark("ll.sens");
  obj.recompute_sensitivities();
  mark("end");
  for (int s = 0; s < c.subsets; ++s) out_fx("sens.again" + std::to_string(s), img_vals(obj.get_subset_sensitivity(s)));
  mark("ll.value");
  const double val = obj.compute_objective_function_without_penalty(*image);
  mark("end");
  out_fx("value", std::vector<double>{ val });
  shared_ptr<Img> g(image->get_empty_copy());
  for (int s = 0; s < c.subsets; ++s) {
    g->fill(0.F);
    mark("ll.grad");
    obj.compute_sub_gradient_without_penalty(*g, *image, s);
    mark("end");
    out_fx("grad" + std::to_string(s), img_vals(*g));
    g->fill(0.F);
    mark("ll.gradplus");
    obj.compute_sub_gradient_without_penalty_plus_sensitivity(*g, *image, s);
    mark("end");
    out_fx("gradplus" + std::to_string(s), img_vals(*g));
    g->fill(0.F);
    mark("ll.hess");
    obj.accumulate_sub_Hessian_times_input_without_penalty(*g, *image, *input, s);
    mark("end");
    out_fx("hess" + std::to_string(s), img_vals(*g));
    g->fill(0.F);
    mark("ll.approxhess");
    obj.add_multiplication_with_approximate_sub_Hessian_without_penalty(*g, *input, s);
    mark("end");
    out_fx("approxhess" + std::to_string(s), img_vals(*g));
  }
  });
}

// (e) list-mode objective function: sensitivity and gradient
class LmObj : public PoissonLogLikelihoodWithLinearModelForMeanAndListModeDataWithProjMatrixByBin<Den> {
public:
  void recompute_sensitivities() { this->compute_sensitivities(); }
};
static void wl_lm(const Cfg& c) {
  shared_ptr<ProjDataInfo> pdi = make_pdi(c);
  vh::Rng rng(c.data_seed);
  std::vector<vh::LmRec> recs;
  recs.push_back(vh::LmRec::time(0));
  const int nev = 150;
  // a few LORs repeated many times: events of the same (and of symmetry-related) bins are handled by different threads
  std::vector<std::array<int, 4>> lors;
  for (int i = 0; i < 20; ++i) {
    const int d1 = rng.range(0, c.N - 1);
    const int d2 = (d1 + c.N / 2 + rng.range(-(c.numTang / 2 - 1), c.numTang / 2 - 1) + c.N) % c.N;
    lors.push_back({ d1, rng.range(0, c.R - 1), d2, rng.range(0, c.R - 1) });
  }
  for (int i = 0; i < nev; ++i) {
    const auto& l = lors[rng.range(0, (int)lors.size() - 1)];
    recs.push_back(vh::LmRec::prompt(l[0], l[1], l[2], l[3], c.maxT > 0 ? rng.range(-(c.maxT / 2), c.maxT / 2) : 0));
    if (i % 25 == 24) recs.push_back(vh::LmRec::time((unsigned long)(i + 1)));
  }
  recs.push_back(vh::LmRec::time(1000));
  auto lm = std::make_shared<vh::VhListModeData<>>(pdi, recs, false);
  shared_ptr<Img> image = make_image(c, *pdi);
  fill_image(*image, rng, 2, 8, 0.25F);
  shared_ptr<ProjData> add;
  if (c.has_add) { add.reset(new ProjDataInMemory(lm->get_exam_info_sptr(), pdi)); fill_projdata(*add, rng, 2, 9, 0.125F); }
  shared_ptr<ProjMatrixByBin> pm = make_matrix(c);
  LmObj obj;
  obj.set_input_data(lm);
  obj.set_proj_matrix(pm);
  if (add) obj.set_additive_proj_data_sptr(add);
  obj.set_num_subsets(c.subsets);
  obj.set_use_subset_sensitivities(true);
  obj.set_recompute_sensitivity(true);
  obj.set_skip_balanced_subsets(true);
  mark("lm.set_up");
  if (obj.set_up(image) != Succeeded::yes) error("list-mode objective set_up failed");
  mark("end");
  for (int s = 0; s < c.subsets; ++s) out_fx("lmsens" + std::to_string(s), img_vals(obj.get_subset_sensitivity(s)));
  phases(c, [&] {
  mark("lm.sens");
  obj.recompute_sensitivities();
  mark("end");
  for (int s = 0; s < c.subsets; ++s) out_fx("lmsens.again" + std::to_string(s), img_vals(obj.get_subset_sensitivity(s)));
  shared_ptr<Img> g(image->get_empty_copy());
  for (int s = 0; s < c.subsets; ++s) {
    g->fill(0.F);
    mark("lm.gradplus");
    obj.compute_sub_gradient_without_penalty_plus_sensitivity(*g, *image, s);
    mark("end");
    out_fx("lmgradplus" + std::to_string(s), img_vals(*g));
    g->fill(0.F);
    mark("lm.grad");
    obj.compute_sub_gradient_without_penalty(*g, *image, s);
    mark("end");
    out_fx("lmgrad" + std::to_string(s), img_vals(*g));
  }
  });
}

// (f) single-scatter simulation
static void wl_scat(const Cfg& c) {
  shared_ptr<ExamInfo> ex = make_exam();
  shared_ptr<Scanner> sc = vh::make_scanner(c.N, c.R);
  sc->set_reference_energy(511.F); sc->set_energy_resolution(0.2F);
  shared_ptr<ProjDataInfo> pdi(ProjDataInfo::ProjDataInfoCTI(sc, 1, c.R - 1, c.N / 2, c.numTang, false));
  vh::Rng rng(c.data_seed);
  auto grid = [&](int nz, int nxy, float vz, float vxy) {
    return shared_ptr<Img>(new Img(ex, IndexRange3D(0, nz - 1, -(nxy / 2), -(nxy / 2) + nxy - 1, -(nxy / 2), -(nxy / 2) + nxy - 1),
                                   CartesianCoordinate3D<float>(0, 0, 0), CartesianCoordinate3D<float>(vz, vxy, vxy)));
  };
  shared_ptr<Img> act = grid(3, 7, 4.F, 4.F), att = grid(3, 7, 4.F, 4.F), sp = grid(2, 3, 8.F, 12.F);
  fill_image(*act, rng, 0, 15, 0.125F);
  fill_image(*att, rng, 0, 15, 1.F / 128);
  // scatter points: the voxels of this coarse image above the attenuation threshold (a handful)
  sp->fill(0.F);
  for (int i = 0; i < 5; ++i) (*sp)[rng.range(0, 1)][rng.range(-1, 1)][rng.range(-1, 1)] = rng.range(4, 15) / 128.F;
  SingleScatterSimulation sim;
  sim.set_randomly_place_scatter_points(false);
  sim.set_attenuation_threshold(0.01F);
  sim.set_use_cache(c.use_cache);
  sim.set_template_proj_data_info(*pdi);
  sim.set_exam_info(*ex);
  sim.set_activity_image_sptr(act);
  sim.set_density_image_sptr(att);
  sim.set_density_image_for_scatter_points_sptr(sp);
  shared_ptr<ProjData> out = make_projdata(c, ex, pdi->create_shared_clone(), c.file_io);
  sim.set_output_proj_data_sptr(out);
  mark("sc.set_up");
  if (sim.set_up() != Succeeded::yes) error("scatter set_up failed");
  mark("end");
  phases(c, [&] {
  out->fill(0.F);
  mark("sc.process");
  if (sim.process_data() != Succeeded::yes) error("scatter process_data failed");
  mark("end");
  out_fx("scatter", pd_vals(*out));
  });
}

// (d) one Interfile data set (ProjDataFromStream) read and written concurrently through its public interface
static void wl_io(const Cfg& c) {
  shared_ptr<ExamInfo> ex = make_exam();
  shared_ptr<ProjDataInfo> pdi = make_pdi(c);
  vh::Rng rng(c.data_seed);
  shared_ptr<ProjData> pd_file = make_projdata(c, ex, pdi, true), pd_mem = make_projdata(c, ex, pdi, false);
  fill_projdata(*pd_file, rng, 0, 200, 0.125F);
  pd_mem->fill(*pd_file);
  struct Item { int op, view, seg, ax, tof; };
  std::vector<Item> work;
  const int nwork = 500;
  for (int i = 0; i < nwork; ++i) {
    Item it;
    it.op = rng.range(0, 2);
    it.seg = rng.range(0, pdi->get_max_segment_num());          // segments >= 0 are only read in the parallel loop
    it.view = rng.range(pdi->get_min_view_num(), pdi->get_max_view_num());
    it.ax = rng.range(pdi->get_min_axial_pos_num(it.seg), pdi->get_max_axial_pos_num(it.seg));
    it.tof = rng.range(pdi->get_min_tof_pos_num(), pdi->get_max_tof_pos_num());
    work.push_back(it);
  }
  // every viewgram of the negative segments is written exactly once (by whichever thread takes the item)
  for (int s = pdi->get_min_segment_num(); s < 0; ++s)
    for (int v = pdi->get_min_view_num(); v <= pdi->get_max_view_num(); ++v)
      for (int k = pdi->get_min_tof_pos_num(); k <= pdi->get_max_tof_pos_num(); ++k)
        work.insert(work.begin() + rng.range(0, (int)work.size()), Item{ 3, v, s, 0, k });
  phases(c, [&] {
  for (int which = 0; which < 2; ++which) {      // the Interfile data set, then the same through ProjDataInMemory
  shared_ptr<ProjData> pd = which == 0 ? pd_file : pd_mem;
  const std::string pre = which == 0 ? "io" : "mem";
  std::vector<double> dig(work.size() * 2, 0.);
  mark(which == 0 ? "io" : "mem");
#pragma omp parallel for schedule(dynamic, 1)
  for (int i = 0; i < (int)work.size(); ++i) {
    const Item& it = work[i];
    double sum = 0, wsum = 0;
    int n = 0;
    if (it.op == 0) {
      const Viewgram<float> vg = pd->get_viewgram(it.view, it.seg, false, it.tof);
      for (auto x = vg.begin_all_const(); x != vg.end_all_const(); ++x) { sum += *x; wsum += *x * (1 + (n++ % 7)); }
    } else if (it.op == 1) {
      const Sinogram<float> sg = pd->get_sinogram(it.ax, it.seg, false, it.tof);
      for (auto x = sg.begin_all_const(); x != sg.end_all_const(); ++x) { sum += *x; wsum += *x * (1 + (n++ % 7)); }
    } else if (it.op == 2) {
      // (ProjDataFromStream::get_bin_value / set_bin_value have no critical section and are not used by the
      //  operations of the property: not called concurrently here)
      const SegmentByView<float> sv = pd->get_segment_by_view(it.seg, it.tof);
      for (auto x = sv.begin_all_const(); x != sv.end_all_const(); ++x) { sum += *x; wsum += *x * (1 + (n++ % 7)); }
    } else {
      Viewgram<float> vg = pd->get_empty_viewgram(it.view, it.seg, false, it.tof);
      for (auto x = vg.begin_all(); x != vg.end_all(); ++x) *x = (float)((i * 31 + n++) % 512) * 0.25F;
      if (pd->set_viewgram(vg) != Succeeded::yes) error("set_viewgram failed");
      sum = n;
    }
    dig[(size_t)i * 2] = sum; dig[(size_t)i * 2 + 1] = wsum;
  }
  mark("end");
  out_fx(pre + ".read", dig);
  out_fx(pre + ".content", pd_vals(*pd));
  }
  });
}

// (g) other whole-data OpenMP loops on the same paths: BinNormalisation::apply/undo(ProjData&), multiply_crystal_factors,
// ML_norm fan data <-> projection data, the reductions of Array (sum, find_max, find_min, sum_positive)
static void wl_norm(const Cfg& c) {
  shared_ptr<ExamInfo> ex = make_exam();
  shared_ptr<ProjDataInfo> pdi = make_pdi(c);
  vh::Rng rng(c.data_seed);
  shared_ptr<ProjData> factors(new ProjDataInMemory(ex, pdi));
  fill_projdata(*factors, rng, 2, 9, 0.25F);
  BinNormalisationFromProjData norm(factors);
  if (norm.set_up(ex, pdi) != Succeeded::yes) error("normalisation set_up failed");
  shared_ptr<ProjData> src = make_projdata(c, ex, pdi, c.file_io);
  fill_projdata(*src, rng, 0, 40, 0.5F);
  Cfg cu = c; cu.maxT = 0; cu.tofMash = 0;
  shared_ptr<ProjDataInfo> updi = make_pdi(cu, true);          // uncompressed, non-TOF: crystal factors and fan data
  shared_ptr<ProjData> usrc(new ProjDataInMemory(ex, updi));
  fill_projdata(*usrc, rng, 0, 40, 0.5F);
  Array<2, float> eff(IndexRange2D(0, c.R - 1, 0, c.N - 1));
  for (int r = 0; r < c.R; ++r) for (int d = 0; d < c.N; ++d) eff[r][d] = rng.range(2, 9) * 0.25F;
  shared_ptr<Img> image = make_image(c, *pdi);
  fill_image(*image, rng, -8, 8, 0.25F);
  phases(c, [&] {
    shared_ptr<ProjData> work = make_projdata(c, ex, pdi, c.file_io);      // fresh copy of the data
    work->fill(*src);
    mark("norm.apply");
    norm.apply(*work);
    mark("end");
    out_fx("apply", pd_vals(*work));
    mark("norm.undo");
    norm.undo(*work);
    norm.undo(*work);
    mark("end");
    out_fx("undo", pd_vals(*work));
    shared_ptr<ProjData> cf(new ProjDataInMemory(ex, pdi));
    mark("crystal.factors");
    multiply_crystal_factors(*cf, eff, 0.5F);
    mark("end");
    out_fx("crystal", pd_vals(*cf));
    const int fan = 2 * (updi->get_max_tangential_pos_num() < -updi->get_min_tangential_pos_num() ? updi->get_max_tangential_pos_num() : -updi->get_min_tangential_pos_num()) + 1;
    FanProjData fd(c.R, c.N, c.R - 1, fan);
    shared_ptr<ProjData> back(new ProjDataInMemory(ex, updi));
    mark("fan");
    make_fan_data_remove_gaps(fd, *usrc);
    set_fan_data_add_gaps(*back, fd);
    mark("end");
    out_fx("fan", pd_vals(*back));
    mark("array");
    const std::vector<double> red = { image->sum(), image->sum_positive(), image->find_max(), image->find_min(), (double)image->size_all() / 64. };
    mark("end");
    out_fx("array", red);
  });
}

// (h) beyond the numeric clause: messages and guards
//  - info() / warning() from many threads through a harness-side aTextWriter that appends character by character to
//    one buffer WITHOUT any protection of its own (as std::cout does): every message must arrive whole
//  - a caller that is itself inside a parallel region: the library's "cannot be called inside a thread" guards
//    (BackProjectorByBin::start_accumulating_in_new_target / get_output) must raise an error and leave the data alone
struct CollectingWriter : public aTextWriter {
  mutable std::vector<char> buf;
  mutable volatile size_t pos = 0;
  CollectingWriter() : buf(1 << 20, 0) {}
  void write(const char* text) const override {
    for (const char* p = text; *p; ++p) {
      const size_t q = pos;
      if (q + 1 >= buf.size()) return;
      buf[q] = *p;
      if ((q & 15) == 7) sched_yield();
      pos = q + 1;
    }
  }
};
static void wl_sys(const Cfg& c) {
  shared_ptr<ExamInfo> ex = make_exam();
  shared_ptr<ProjDataInfo> pdi = make_pdi(c);
  shared_ptr<Img> image = make_image(c, *pdi);
  vh::Rng rng(c.data_seed);
  fill_image(*image, rng, 1, 8, 0.25F);
  shared_ptr<ProjMatrixByBin> pm = make_matrix(c);
  shared_ptr<BackProjectorByBin> bp(new BackProjectorByBinUsingProjMatrixByBin(pm));
  bp->set_up(pdi, image);
  shared_ptr<ProjData> data(new ProjDataInMemory(ex, pdi));
  fill_projdata(*data, rng, 0, 6, 0.5F);
  const int nmsg = 120;
  phases(c, [&] {
    // ---- messages
    CollectingWriter w;
    TextWriterHandle h;
    void* old_info = h.information_channel_ptr(); void* old_warn = h.warning_channel_ptr();
    h.set_information_channel(&w); h.set_warning_channel(&w);
    const int old_verbosity = Verbosity::get();
    Verbosity::set(1);
    mark("text");
#pragma omp parallel for schedule(dynamic, 1)
    for (int i = 0; i < nmsg; ++i) {
      const std::string body = "<msg " + std::to_string(i) + " " + std::string(20 + (i * 7) % 60, (char)('a' + i % 26)) + " " + std::to_string(i) + ">";
      if (i % 3 == 0) warning(body); else info(body);
    }
    mark("end");
    Verbosity::set(old_verbosity);
    h.set_information_channel((aTextWriter*)old_info); h.set_warning_channel((aTextWriter*)old_warn);
    {
      const std::string all(w.buf.data(), w.pos);
      std::vector<long long> cnt;
      size_t whole = 0;
      for (int i = 0; i < nmsg; ++i) {
        const std::string body = "<msg " + std::to_string(i) + " " + std::string(20 + (i * 7) % 60, (char)('a' + i % 26)) + " " + std::to_string(i) + ">";
        long long n = 0;
        for (size_t at = all.find(body); at != std::string::npos; at = all.find(body, at + 1)) ++n;
        cnt.push_back(n);
        whole += (size_t)n * body.size();
      }
      cnt.push_back((long long)all.size());        // nothing but the messages and their fixed decorations
      out_int("messages", cnt);
    }
    // ---- guards: calls that must be refused inside a parallel region
    shared_ptr<Img> target(image->get_empty_copy());
    int team = 0, refused = 0, accepted = 0;
    mark("guard");
#pragma omp parallel
    {
#pragma omp single
      team = omp_get_num_threads();
      int r = 0, a = 0;
      if (vh::threw([&] { bp->start_accumulating_in_new_target(); })) ++r; else ++a;
#pragma omp barrier
      if (vh::threw([&] { shared_ptr<Img> mine(image->get_empty_copy()); bp->get_output(*mine); })) ++r; else ++a;
#pragma omp critical(C18_GUARD_COUNT)
      { refused += r; accepted += a; }
    }
    mark("end");
    put_out(vh::Json("Guard").num("ph", g_phase).num("team", team).num("refused", refused).num("accepted", accepted));
    // ---- and the projector still works afterwards
    mark("bck");
    bp->back_project(*target, *data);
    mark("end");
    out_fx("bck.after", img_vals(*target));
  });
}

static int objs_of(const std::string& wl) { return wl == "lazy" ? 1 : 0; }
// number of cached matrix objects the calls can reach: the objective functions clone the back projector (and
// with it the matrix) for the sensitivity when the data are TOF
static int mats_of(const Cfg& c) {
  if (c.wl == "rows" || c.wl == "proj" || c.wl == "sys") return 1;
  if (c.wl == "ll" || c.wl == "lm") return c.maxT > 0 ? 2 : 1;
  return 0;
}
static void run_workload(const Cfg& c) {
  if (c.wl == "lazy") wl_lazy(c);
  else if (c.wl == "rows") wl_rows(c);
  else if (c.wl == "proj") wl_proj(c);
  else if (c.wl == "ll") wl_ll(c);
  else if (c.wl == "lm") wl_lm(c);
  else if (c.wl == "scat") wl_scat(c);
  else if (c.wl == "io") wl_io(c);
  else if (c.wl == "norm") wl_norm(c);
  else if (c.wl == "sys") wl_sys(c);
}

// configuration of instance `inst` of workload `wl`
static Cfg make_cfg(const std::string& wl, long inst, long round, uint64_t seed, int size, const std::string& scratch) {
  vh::Rng rng(seed * 7919ULL + (uint64_t)inst * 104729ULL + std::hash<std::string>()(wl) % 1000003ULL);
  Cfg c;
  c.wl = wl; c.scratch = scratch; c.data_seed = rng.next() % 1000000007ULL;
  // small geometries: every hook event is one step of the trace validation, so a run is kept to a few thousand events
  const bool tof = rng.range(0, 2) == 0;
  if (wl == "ll") { c.N = rng.pick(size ? std::vector<int>{ 12, 16, 24 } : std::vector<int>{ 8, 12, 16 }); c.R = (tof || c.N > 16) ? 2 : rng.range(2, 3); if (tof && c.N > (size ? 16 : 12)) c.N = 12; }
  else if (wl == "proj") { c.N = rng.pick(size ? std::vector<int>{ 16, 24, 32 } : std::vector<int>{ 12, 16, 24 }); c.R = tof ? 2 : rng.range(2, size ? 4 : 3); if (tof && c.N > 16) c.N = 16; }
  else if (wl == "lm") { c.N = rng.pick(std::vector<int>{ 12, 16 }); c.R = rng.range(2, 3); }
  else { c.N = rng.pick(std::vector<int>{ 12, 16, 24 }); c.R = rng.range(2, 3); }
  c.span = (c.R >= 3 && rng.range(0, 2) == 0) ? 3 : 1;
  c.maxDelta = c.span == 3 ? 1 : c.R - 1;
  c.mash = ((c.N / 2) % 2 == 0 && rng.range(0, 3) == 0) ? 2 : 1;
  const bool tof3 = rng.coin();
  c.maxT = tof ? (tof3 ? 9 : 5) : 0; c.tofMash = tof ? (tof3 ? 3 : 1) : 0;     // 3 or 5 TOF bins
  c.numTang = std::max(3, c.N / 2 - 1) | 1;
  c.nxy = 2 * (c.N / 4) + 3; c.nz = 2 * c.R - 1;
  c.ntl = rng.range(1, 2);
  c.sym = (!tof && rng.range(0, 3) == 0) ? rng.range(0, 31) : 31;
  c.basic_only = rng.range(0, 3) != 0;
  c.file_io = rng.coin();
  c.has_add = rng.coin(); c.has_norm = rng.coin();
  c.use_cache = true;
  const int nviews = c.N / 2 / c.mash;
  c.subsets = (nviews % 4 == 0 && rng.coin()) ? 2 : 1;
  // (tables 1-3 live in ProjDataInfoCylindrical(NoArcCorr), 4-5 in ProjDataInfoGenericNoArcCorr: alternate)
  if (wl == "lazy") { c.geom = round % 2 == 1 ? "BlocksOnCylindrical" : "Cylindrical"; c.span = 1; c.maxDelta = c.R - 1; c.mash = 1; c.maxT = 0; c.tofMash = 0;
    if (c.geom != "Cylindrical") c.N = rng.coin() ? 16 : 24;
    c.numTang = c.N - 1; }
  if (wl == "io") { c.file_io = true; }
  if (wl == "norm") { c.N = rng.coin() ? 8 : 12; c.R = 2; c.mash = 1; c.span = 1; c.maxDelta = 1; c.numTang = std::max(3, c.N / 2 - 1) | 1; c.nxy = 2 * (c.N / 4) + 3; c.nz = 3; }
  if (wl == "sys") { c.N = 12; c.R = 2; c.span = 1; c.maxDelta = 1; c.mash = 1; c.numTang = 5; c.nxy = 9; c.nz = 3; }
  if (wl == "scat") { c.N = rng.coin() ? 16 : 24; c.R = 2; c.numTang = 7; c.use_cache = rng.range(0, 3) != 0; c.maxT = 0; c.tofMash = 0; }
  if (wl == "lm") { c.mash = 1; c.span = 1; c.maxDelta = c.R - 1; c.file_io = false; c.subsets = ((c.N / 2) % 4 == 0 && rng.coin()) ? 2 : 1; if (c.N > 12 || c.R > 2) c.basic_only = true; }
  return c;
}

// one execution: fresh objects built and set up with c.T0 threads, then the compute calls once per entry of c.hist
static void one_run(const Cfg& c, long inst, int rep, uint64_t seed, bool is_ref) {
  g_is_ref = is_ref;
  g_phase = 0;
  {
    vh::Json j("Run");
    j.str("wl", c.wl).num("inst", inst).num("T", c.T0).arr("hist", c.hist).num("rep", rep).num("mode", c.hist_modes[0]).boolean("ref", is_ref)
        .num("objs", objs_of(c.wl)).num("mats", mats_of(c));
    g_text = j.done() + "\n"; ++g_lines; g_outs.clear();
    flush_text();                            // visible even if the run crashes
  }
  omp_set_dynamic(0);
  stir::set_num_threads(c.T0);
  std::string msg;
  uint64_t h = 0;
  for (int t : c.hist) h = h * 131 + (uint64_t)t;
  begin_recording(seed * 1315423911ULL + (uint64_t)inst * 2654435761ULL + h * 97 + (uint64_t)rep, c.hist_modes[0]);
  const bool err = vh::threw([&] { run_workload(c); }, &msg);
  end_recording();
  for (const std::string& f : g_files) { unlink((f + ".hs").c_str()); unlink((f + ".s").c_str()); }
  g_files.clear();
  g_text += g_outs; g_outs.clear();
  vh::Json e("EndRun");
  e.boolean("err", err).num("maxthreads", omp_get_max_threads());
  if (err) e.str("msg", msg.substr(0, 200));
  put(e);
  flush_text();
}

static int child_main(const Cfg& c0, long inst, uint64_t seed, int reps, int size, const std::string& path) {
  g_out = fopen(path.c_str(), "a");
  if (!g_out) return 3;
  vh::Rng rng(seed * 31ULL + (uint64_t)inst);
  Cfg c = c0;
  c.T0 = 1; c.hist = { 1 }; c.hist_modes = { 0 };
  one_run(c, inst, 0, seed, true);
  // thread counts: always 2 and one large count; "more threads than work items" = 40
  std::vector<int> pool = { 2, 3, 4, 8, 16, 40 };
  std::vector<int> Ts = { 2, rng.coin() ? 16 : 8, rng.coin() ? 3 : 4 };
  if (size) { Ts = pool; }
  else if (rng.range(0, 2) == 0) Ts.push_back(40);
  for (size_t ti = 0; ti < Ts.size(); ++ti)
    for (int r = 0; r < ((size || ti < 2) ? reps : 1); ++r) {     // (quick tier: repetitions for the first two counts only)
      const int T = Ts[ti];
      c.T0 = T; c.hist = { T }; c.hist_modes = { (r == 0) ? 2 : (int)(rng.next() % 5) };
      one_run(c, inst, r, seed, false);
    }
  // thread-count histories on the SAME objects: set_up with one count, then the counts go up and down
  // (a crash ends the child process: these runs come last)
  const int nhist = size ? 3 : 1;
  for (int k = 0; k < nhist; ++k) {
    std::vector<int> seqs = { 8, 2, 16, 1, 3, 4, 40 };
    for (int i = (int)seqs.size() - 1; i > 0; --i) std::swap(seqs[i], seqs[rng.range(0, i)]);
    seqs.resize(size ? 5 : 1);
    // make sure the history contains: more threads than at set_up, then fewer than before, then more again
    const int hi = rng.coin() ? 8 : 16, lo = rng.coin() ? 2 : 1;
    c.T0 = k % 2 == 0 ? rng.pick(std::vector<int>{ 2, 3, 4 }) : hi;
    c.hist = { hi, lo };
    for (int t : seqs) c.hist.push_back(t);
    c.hist_modes.clear();
    for (size_t i = 0; i < c.hist.size(); ++i) c.hist_modes.push_back(i == 0 ? 2 : (int)(rng.next() % 5));
    one_run(c, inst, 100 + k, seed, false);
  }
  fclose(g_out);
  return 0;
}

int main(int argc, char** argv) {
  if (argc < 7) return 2;
  // libgomp reads its environment when it is loaded: make idle threads sleep instead of spinning
  if (!getenv("OMP_WAIT_POLICY")) {
    setenv("OMP_WAIT_POLICY", "passive", 1); setenv("GOMP_SPINCOUNT", "0", 1); setenv("OMP_DYNAMIC", "false", 1);
    execv("/proc/self/exe", argv);
    return 3;
  }
  vh::quiet();
  if (!getenv("VERIF_STDERR")) { if (!freopen("/dev/null", "w", stderr)) return 3; if (!freopen("/dev/null", "w", stdout)) return 3; }
  const std::string path = argv[2], scratch = argv[3];
  const long ninst = atol(argv[4]);
  const int reps = atoi(argv[5]), size = atoi(argv[6]);
  std::vector<std::string> wls = { "lazy", "rows", "proj", "ll", "lm", "scat", "io", "norm", "sys" };
  if (argc > 7) {
    wls.clear();
    std::string s = argv[7], cur;
    for (char ch : s + ",") { if (ch == ',') { if (!cur.empty()) wls.push_back(cur); cur.clear(); } else cur += ch; }
  }
  const uint64_t seed = (uint64_t)vh::seed_from_env();
  const long limit = getenv("VERIF_C18_LIMIT") ? atol(getenv("VERIF_C18_LIMIT")) : 300;
  mkdir(scratch.c_str(), 0777);
  { FILE* f = fopen(path.c_str(), "w"); if (!f) return 3; fclose(f); }
  long id = 0;
  for (long i = 0; i < ninst; ++i)
    for (const std::string& wl : wls) {
      ++id;
      const Cfg c = make_cfg(wl, id, i, seed, size, scratch);
      {
        FILE* f = fopen(path.c_str(), "a");
        vh::Json j("Inst");
        j.num("inst", id);
        cfg_json(j, c);
        fputs((j.done() + "\n").c_str(), f);
        fclose(f);
      }
      const pid_t pid = fork();
      if (pid < 0) return 3;
      if (pid == 0) _exit(child_main(c, id, seed, reps, size, path));
      int status = 0;
      bool hang = false;
      const time_t t0 = time(nullptr);
      for (;;) {
        const pid_t r = waitpid(pid, &status, WNOHANG);
        if (r == pid) break;
        if (time(nullptr) - t0 > limit) { hang = true; kill(pid, SIGKILL); waitpid(pid, &status, 0); break; }
        rec::nap(20000);
      }
      FILE* f = fopen(path.c_str(), "a");
      if (hang) fputs((vh::Json("Hang").num("inst", id).num("limit", limit).done() + "\n").c_str(), f);
      else if (WIFSIGNALED(status)) fputs((vh::Json("Abort").num("inst", id).num("sig", WTERMSIG(status)).done() + "\n").c_str(), f);
      else if (WEXITSTATUS(status) != 0) fputs((vh::Json("Abort").num("inst", id).num("sig", -WEXITSTATUS(status)).done() + "\n").c_str(), f);
      fputs((vh::Json("EndInst").num("inst", id).done() + "\n").c_str(), f);
      fclose(f);
    }
  return 0;
}
