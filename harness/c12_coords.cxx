// C12 driver: records bin coordinates, lines of response, round trips, detector-pair lines and arc
// correction of the real STIR geometry classes.  No property formula, no expected value, no comparison
// here: every number is logged in natural units (value/unit rounded to an integer + residual in 1e-6
// units, encoding Q) or as a fixed-point observation (encoding F); TLC (Trace_Coordinates.tla) decides.
//   c12_coords db  <out.ndjson> <rows-per-config> <stage> <workdir>   scanner database + generated scanners
//   c12_coords arc <out.ndjson> <rows-per-config> <stage>             ArcCorrection on recorded rows
#include "vh_stir.h"
#include "stir/ProjDataInfoCylindricalArcCorr.h"
#include "stir/LORCoordinates.h"
#include "stir/ArcCorrection.h"
#include "stir/Sinogram.h"
#include "stir/TOF_conversions.h"
#include <set>
#include <algorithm>
#include <fstream>
using namespace stir;

static const double PI = 3.14159265358979323846;
static long cfg_id = 0;

struct QV { long long q, r; };
// natural-unit quantisation: integer multiple of `unit` + residual in 1e-6 units
static QV quant(double value, double unit) {
  const double x = value / unit;
  if (!std::isfinite(x) || std::fabs(x) > 1e9) return QV{ 999999999LL, 999999999LL };
  const long long q = std::llround(x);
  return QV{ q, std::llround((x - (double)q) * 1e6) };
}
struct QA {
  std::vector<long long> q, r;
  void add(QV v) { q.push_back(v.q); r.push_back(v.r); }
};
static void put(vh::Json& j, const char* k, const QV& v) { std::vector<long long> a{ v.q, v.r }; j.arr(k, a); }
static void put(vh::Json& j, const std::string& k, const QA& a) { j.arr(k.c_str(), a.q); j.arr((k + "r").c_str(), a.r); }

struct Cfg {
  int N = 0, R = 0, span = 1, maxDelta = 0, mash = 1, tofMash = 0, maxT = 0, numTang = 0;
  bool ge = false, arc = false;
  double dtilt = 0;          // azimuthal offset added by the driver through set_azimuthal_angle_offset (an input)
  std::string geom = "Cylindrical";
};

static void emit_config(vh::Trace& tr, const Cfg& c, const ProjDataInfoCylindrical& pdi, const std::string& name, const std::string& hist) {
  const Scanner& sc = *pdi.get_scanner_ptr();
  std::vector<std::vector<int>> segs;
  for (int s = pdi.get_min_segment_num(); s <= pdi.get_max_segment_num(); ++s)
    segs.push_back({ s, pdi.get_min_ring_difference(s), pdi.get_max_ring_difference(s), pdi.get_min_axial_pos_num(s), pdi.get_max_axial_pos_num(s) });
  vh::Json j("Config");
  j.num("id", ++cfg_id).str("name", name).str("hist", hist).str("geom", c.geom).boolean("arc", c.arc).num("N", c.N).num("R", c.R).num("span", c.span)
      .boolean("ge", c.ge).num("maxDelta", c.maxDelta).num("mash", c.N / 2 / pdi.get_num_views()).num("tofMash", pdi.get_tof_mash_factor()).num("maxT", c.maxT)
      .num("minTang", pdi.get_min_tangential_pos_num()).num("maxTang", pdi.get_max_tangential_pos_num())
      .num("minSeg", pdi.get_min_segment_num()).num("maxSeg", pdi.get_max_segment_num())
      .num("numViews", pdi.get_num_views()).num("minView", pdi.get_min_view_num())
      .num("minTof", pdi.get_min_tof_pos_num()).num("maxTof", pdi.get_max_tof_pos_num()).arr2("segs", segs)
      .num("maxBins", sc.get_max_num_non_arccorrected_bins())
      // parameters of the object's CURRENT state (they may have been changed through its setters)
      .num("tilt6", std::llround((sc.get_intrinsic_azimuthal_tilt() + c.dtilt) * 1e6))
      .num("radius3", std::llround(pdi.get_ring_radius() * 1e3))
      .num("spacing3", std::llround(pdi.get_ring_spacing() * 1e3))
      .num("bedh3", std::llround(pdi.get_bed_position_horizontal() * 1e3)).num("bedv3", std::llround(pdi.get_bed_position_vertical() * 1e3));
  if (c.arc) j.num("bin3", std::llround(static_cast<const ProjDataInfoCylindricalArcCorr&>(pdi).get_tangential_sampling() * 1e3));
  tr.emit(j);
}

// in-plane length of STIR's own end points of the line (LOR classes convert sinogram -> cylinder -> points)
static double chord_xy(const LORInAxialAndNoArcCorrSinogramCoordinates<float>& lor) {
  LORAs2Points<float> pts(lor);
  const double dx = (double)pts.p1().x() - pts.p2().x(), dy = (double)pts.p1().y() - pts.p2().y();
  return std::sqrt(dx * dx + dy * dy);
}

// one event per sinogram row (all tangential positions of one segment / axial position / view / TOF bin)
static void record_row(vh::Trace& tr, const Cfg& c, const ProjDataInfoCylindrical& pdi, int seg, int ax, int view, int tof) {
  const Scanner& sc = *pdi.get_scanner_ptr();
  const bool discrete = c.geom != "Cylindrical";          // Blocks / Generic: fixed-point observations only
  const double uA = PI / c.N;                             // half an unmashed view step
  const double uM = pdi.get_ring_spacing() / 4.0;         // quarter ring spacing (of the data's current sampling)
  const double tilt = sc.get_intrinsic_azimuthal_tilt() + c.dtilt;
  const double Reff = pdi.get_ring_radius();
  const double uS = c.arc ? static_cast<const ProjDataInfoCylindricalArcCorr&>(pdi).get_tangential_sampling() : 0.0;
  const int t0 = pdi.get_min_tangential_pos_num(), t1 = pdi.get_max_tangential_pos_num();
  const Bin b0(seg, view, ax, 0, tof);
  vh::Json j("Row");
  j.num("seg", seg).num("ax", ax).num("view", view).num("tof", tof).num("t0", t0);
  if (!discrete) {
    put(j, "phi", quant(pdi.get_phi(b0) - tilt, uA));
    put(j, "m", quant(pdi.get_m(b0), uM));
    put(j, "sm", quant(pdi.get_sampling_in_m(b0), uM));
  }
  if (pdi.is_tof_data()) {
    const double uK = tof_delta_time_to_mm(pdi.get_tof_mash_factor() * sc.get_size_of_timing_pos()) / 2.0;   // half a TOF-bin width
    put(j, "k", quant(pdi.get_k(b0), uK));
    put(j, "sk", quant(pdi.get_sampling_in_k(b0), uK));
    put(j, "dt", quant(pdi.get_tof_delta_time(b0), sc.get_size_of_timing_pos() / 2.0));
  }
  QA s, ss, th, lp, lb, z1, z2;
  std::vector<int> sw;
  std::vector<long long> fs, fphi, fm, fth, fthm, fmm;   // fixed-point observations (discrete geometries)
  for (int tp = t0; tp <= t1; ++tp) {
    const Bin b(seg, view, ax, tp, tof);
    LORInAxialAndNoArcCorrSinogramCoordinates<float> lor;
    pdi.get_LOR(lor, b);
    if (discrete) {
      fs.push_back(std::llround(pdi.get_s(b) * 1e3));
      fphi.push_back(std::llround(pdi.get_phi(b) * 1e6));
      fm.push_back(std::llround(pdi.get_m(b) * 1e3));
      fth.push_back(std::llround(pdi.get_tantheta(b) * 1e6));
      // the same in-plane line in the opposite segment / at the mirrored axial position
      if (-seg >= pdi.get_min_segment_num() && -seg <= pdi.get_max_segment_num())
        fthm.push_back(std::llround(pdi.get_tantheta(Bin(-seg, view, ax, tp, tof)) * 1e6));
      fmm.push_back(std::llround(pdi.get_m(Bin(seg, view, pdi.get_max_axial_pos_num(seg) + pdi.get_min_axial_pos_num(seg) - ax, tp, tof)) * 1e3));
      continue;
    }
    const double sv = pdi.get_s(b);
    if (c.arc) {
      s.add(quant(sv, uS));
      ss.add(quant(pdi.get_sampling_in_s(b), uS));
      lb.add(quant(lor.s(), uS));
    } else {
      s.add(quant(std::asin(sv / Reff), uA));
      lb.add(quant(lor.beta(), uA));
    }
    th.add(quant(pdi.get_tantheta(b) * chord_xy(lor), uM));
    lp.add(quant(lor.phi() - tilt, uA));
    z1.add(quant(lor.z1(), uM));
    z2.add(quant(lor.z2(), uM));
    sw.push_back(lor.is_swapped() ? 1 : 0);
  }
  if (discrete) { j.arr("fs", fs).arr("fphi", fphi).arr("fm", fm).arr("fth", fth).arr("fthm", fthm).arr("fmm", fmm); }
  else {
    put(j, "s", s); if (c.arc) put(j, "ss", ss);
    put(j, "th", th); put(j, "lp", lp); put(j, "lb", lb); put(j, "z1", z1); put(j, "z2", z2); j.arr("sw", sw);
  }
  tr.emit(j);
}

// round trip for a whole row.  kind 0: get_bin(get_LOR(bin)), the reported sinogram-coordinate line;
// kind 1: the same line handed over as two points (LORAs2Points on the line's own radius);
// kind 2: bin -> positions of its two detectors -> bin (find_cartesian_coordinates_of_detection and
//         find_bin_given_cartesian_coordinates_of_detection; uncompressed, unmashed data only)
static void record_rt(vh::Trace& tr, const Cfg& c, const ProjDataInfoCylindrical& pdi, int seg, int ax, int view, int tof, int kind) {
  const int t0 = pdi.get_min_tangential_pos_num(), t1 = pdi.get_max_tangential_pos_num();
  const bool discrete = c.geom != "Cylindrical";
  const auto* pc = dynamic_cast<const ProjDataInfoCylindricalNoArcCorr*>(&pdi);
  const auto* pg = dynamic_cast<const ProjDataInfoGenericNoArcCorr*>(&pdi);
  const auto* pb = dynamic_cast<const ProjDataInfoBlocksOnCylindricalNoArcCorr*>(&pdi);
  std::vector<int> ok, rs, ra, rv, rt, rk;
  std::vector<long long> dr;
  bool threw_any = false;
  for (int tp = t0; tp <= t1; ++tp) {
    const Bin b(seg, view, ax, tp, tof, 1.F);
    Bin nb;
    bool err = vh::threw([&] {
      if (kind == 2) {
        CartesianCoordinate3D<float> c1, c2;
        nb.set_bin_value(1.F);
        if (pc) { pc->find_cartesian_coordinates_of_detection(c1, c2, b); pc->find_bin_given_cartesian_coordinates_of_detection(nb, c1, c2); }
        else if (pb) { pb->find_cartesian_coordinates_of_detection(c1, c2, b); pb->find_bin_given_cartesian_coordinates_of_detection(nb, c1, c2); }
        else throw std::string("no detector-position API");
        return;
      }
      LORInAxialAndNoArcCorrSinogramCoordinates<float> lor;
      pdi.get_LOR(lor, b);
      // arc-corrected get_bin does not support TOF ("TODO NO TOF YET"): the line alone is converted
      const double dt = c.arc ? 0.0 : pdi.get_tof_delta_time(b);
      if (kind == 0) nb = pdi.get_bin(lor, dt);
      else {
        LORAs2Points<float> pts;
        lor.get_intersections_with_cylinder(pts, lor.radius());
        nb = pdi.get_bin(pts, dt);
      }
    });
    if (discrete) {
      // distance of the two crystals of the bin from the scanner axis: difference in 1e-4 mm
      CartesianCoordinate3D<float> c1, c2;
      if (pg) pg->find_cartesian_coordinates_of_detection(c1, c2, b);
      const double ra1 = std::sqrt((double)c1.x() * c1.x() + (double)c1.y() * c1.y()), ra2 = std::sqrt((double)c2.x() * c2.x() + (double)c2.y() * c2.y());
      dr.push_back(std::llround(std::fabs(ra1 - ra2) * 1e4));
    }
    if (err) { threw_any = true; ok.push_back(-1); rs.push_back(0); ra.push_back(0); rv.push_back(0); rt.push_back(0); rk.push_back(0); continue; }
    const bool hit = nb.get_bin_value() > 0;
    ok.push_back(hit ? 1 : 0);
    rs.push_back(hit ? nb.segment_num() : 0); ra.push_back(hit ? nb.axial_pos_num() : 0); rv.push_back(hit ? nb.view_num() : 0);
    rt.push_back(hit ? nb.tangential_pos_num() : 0); rk.push_back(hit ? nb.timing_pos_num() : 0);
  }
  vh::Json j("RT");
  j.num("seg", seg).num("ax", ax).num("view", view).num("tof", tof).num("t0", t0).num("kind", kind).boolean("err", threw_any)
      .arr("ok", ok).arr("rs", rs).arr("ra", ra).arr("rv", rv).arr("rt", rt).arr("rk", rk);
  if (discrete) j.arr("dr", dr);
  tr.emit(j);
}

// the straight line through the physical positions of two detectors (cylindrical scanners), as STIR's
// LOR classes describe it, together with the bin the pair is assigned to
static void record_pair_lines(vh::Trace& tr, const Cfg& c, const ProjDataInfoCylindricalNoArcCorr& pdi, long n, vh::Rng& rng) {
  const Scanner& sc = *pdi.get_scanner_ptr();
  const double uA = PI / c.N, uM = sc.get_ring_spacing() / 4.0, tilt = sc.get_intrinsic_azimuthal_tilt();
  const int tm = pdi.get_tof_mash_factor();
  for (long i = 0; i < n; ++i) {
    const int d1 = rng.range(0, c.N - 1);
    int d2 = rng.range(0, c.N - 2); if (d2 >= d1) ++d2;
    const int r1 = rng.range(0, c.R - 1), r2 = rng.range(0, c.R - 1);
    int t = 0;
    if (tm > 0) { const int tmax = pdi.get_max_tof_pos_num() * tm + tm / 2; t = rng.range(-tmax, tmax); }
    CartesianCoordinate3D<float> c1, c2;
    pdi.find_cartesian_coordinates_given_scanner_coordinates(c1, c2, r1, r2, d1, d2, t);
    LORAs2Points<float> pts(c1, c2);
    LORInAxialAndNoArcCorrSinogramCoordinates<float> lor;
    const bool okl = pts.change_representation(lor, sc.get_effective_ring_radius()) == Succeeded::yes;
    Bin b;
    const bool okb = pdi.get_bin_for_det_pos_pair(b, DetectionPositionPair<>(DetectionPosition<>(d1, r1, 0), DetectionPosition<>(d2, r2, 0), t)) == Succeeded::yes;
    vh::Json j("PL");
    j.num("d1", d1).num("r1", r1).num("d2", d2).num("r2", r2).num("t", t).boolean("okl", okl).boolean("ok", okb);
    j.num("seg", okb ? b.segment_num() : 0).num("ax", okb ? b.axial_pos_num() : 0).num("view", b.view_num()).num("tang", b.tangential_pos_num())
        .num("tof", b.timing_pos_num());
    if (okl) {
      put(j, "lp", quant(lor.phi() - tilt, uA)); put(j, "lb", quant(lor.beta(), uA));
      put(j, "z1", quant(lor.z1(), uM)); put(j, "z2", quant(lor.z2(), uM)); j.boolean("sw", lor.is_swapped());
    }
    tr.emit(j);
  }
}

// time difference -> TOF bin at points strictly inside the bins (odd multiples of a quarter timing position)
static void record_tof_bins(vh::Trace& tr, const ProjDataInfo& pdi) {
  if (!pdi.is_tof_data()) return;
  const Scanner& sc = *pdi.get_scanner_ptr();
  const int tm = pdi.get_tof_mash_factor();
  const long jmax = 4L * (pdi.get_max_tof_pos_num() * tm + tm / 2) + 1;
  std::vector<long long> js, bins;
  const long step = std::max(1L, (2 * jmax) / 400) | 1L;
  for (long j = -jmax; j <= jmax; j += 2 * ((step + 1) / 2)) {
    if (j % 2 == 0) continue;
    js.push_back(j);
    bins.push_back(pdi.get_tof_bin(j * (double)sc.get_size_of_timing_pos() / 4.0));
  }
  tr.emit(vh::Json("TB").arr("j", js).arr("bin", bins));
}

// choose rows: everything when few, otherwise the edges of every index range + seeded samples
static void record_config(vh::Trace& tr, const Cfg& c, const ProjDataInfoCylindrical& pdi, const std::string& name, long budget, vh::Rng& rng,
                          const std::string& hist = "fresh") {
  emit_config(tr, c, pdi, name, hist);
  double total = 0;
  for (int s = pdi.get_min_segment_num(); s <= pdi.get_max_segment_num(); ++s)
    total += (double)pdi.get_num_axial_poss(s) * pdi.get_num_views() * pdi.get_num_tof_poss();
  std::set<std::vector<int>> rows;
  if (total <= budget) {
    for (int s = pdi.get_min_segment_num(); s <= pdi.get_max_segment_num(); ++s)
      for (int a = pdi.get_min_axial_pos_num(s); a <= pdi.get_max_axial_pos_num(s); ++a)
        for (int v = pdi.get_min_view_num(); v <= pdi.get_max_view_num(); ++v)
          for (int k = pdi.get_min_tof_pos_num(); k <= pdi.get_max_tof_pos_num(); ++k) rows.insert({ s, a, v, k });
  } else {
    auto edge = [&](int lo, int hi) { const int r = rng.range(0, 7); return r == 0 ? lo : r == 1 ? hi : r == 2 ? std::min(hi, lo + 1) : r == 3 ? std::max(lo, hi - 1) : rng.range(lo, hi); };
    long guard = 0;
    while ((long)rows.size() < budget && ++guard < 20 * budget) {
      const int s = edge(pdi.get_min_segment_num(), pdi.get_max_segment_num());
      rows.insert({ s, edge(pdi.get_min_axial_pos_num(s), pdi.get_max_axial_pos_num(s)), edge(pdi.get_min_view_num(), pdi.get_max_view_num()),
                    edge(pdi.get_min_tof_pos_num(), pdi.get_max_tof_pos_num()) });
    }
  }
  for (auto& r : rows) {
    record_row(tr, c, pdi, r[0], r[1], r[2], r[3]);
    if (c.geom == "Cylindrical") record_rt(tr, c, pdi, r[0], r[1], r[2], r[3], 0);   // Generic get_bin only takes two-point lines
    record_rt(tr, c, pdi, r[0], r[1], r[2], r[3], 1);
    // detector positions carry no time information and exist per bin for uncompressed, unmashed data only
    if (!c.arc && c.span == 1 && !c.ge && c.mash == 1 && c.geom != "Generic" && pdi.get_tof_mash_factor() == 0) record_rt(tr, c, pdi, r[0], r[1], r[2], r[3], 2);
  }
  if (!c.arc && c.geom == "Cylindrical")
    record_pair_lines(tr, c, static_cast<const ProjDataInfoCylindricalNoArcCorr&>(pdi), std::max(20L, budget / 2), rng);
  record_tof_bins(tr, pdi);
}

// largest max_delta that ends a complete segment (-1: none)
static int complete_max_delta(int span, int R) {
  const int half0 = span % 2 ? (span - 1) / 2 : span / 2;
  if (half0 > R - 1) return -1;
  return half0 + (R - 1 - half0) / span * span;
}

static void run_cfg(vh::Trace& tr, Cfg c, const std::string& name, long budget, vh::Rng& rng, shared_ptr<Scanner> sc) {
  std::string msg;
  shared_ptr<ProjDataInfo> pdi;
  const bool bad = vh::threw([&] {
    const int views = c.N / 2 / c.mash;
    if (c.ge) pdi.reset(ProjDataInfo::ProjDataInfoGE(sc, c.maxDelta, views, c.numTang, c.arc, c.tofMash));
    else pdi = ProjDataInfo::construct_proj_data_info(sc, c.span, c.maxDelta, views, c.numTang, c.arc, c.tofMash);
  }, &msg);
  if (bad) { tr.emit(vh::Json("ConfigRejected").str("name", name).num("N", c.N).num("R", c.R).num("span", c.span).num("maxDelta", c.maxDelta).str("msg", msg)); return; }
  auto* p = dynamic_cast<ProjDataInfoCylindrical*>(pdi.get());
  if (!p) return;
  std::string m2;
  if (vh::threw([&] { record_config(tr, c, *p, name, budget, rng); }, &m2)) tr.emit(vh::Json("DriverError").str("name", name).str("msg", m2));
  // Re-use histories on the SAME object (its lazily filled tables have been used above): the coordinates
  // must be those of the new sampling.  The Config event describes the object's current state.
  const long b2 = std::max(2L, budget / 3);
  // A: fewer segments, narrower (asymmetric) tangential range
  {
    bool changed = false;
    if (vh::threw([&] {
          // symmetric and ASYMMETRIC segment ranges (more negative than positive segments, fewer, ending at 0)
          const int ms = p->get_max_segment_num();
          if (ms >= 1) {
            const int how = rng.range(0, 4);
            const int lo = how == 0 ? -(ms - 1) : how == 1 ? -ms : how == 2 ? -std::max(0, ms - 2) : how == 3 ? -ms : 0;
            const int hi = how == 0 ? ms - 1 : how == 1 ? std::max(0, ms - 2) : how == 2 ? ms : how == 3 ? 0 : ms;
            p->reduce_segment_range(lo, hi); changed = true;
          }
          const int t0 = p->get_min_tangential_pos_num(), t1 = p->get_max_tangential_pos_num();
          if (t0 + 1 <= 0 && t1 - 2 >= 0) { p->set_min_tangential_pos_num(t0 + 1); p->set_max_tangential_pos_num(t1 - 2); changed = true; }
        }, &m2)) { tr.emit(vh::Json("DriverError").str("name", name).str("msg", m2)); return; }
    if (changed && vh::threw([&] { record_config(tr, c, *p, name, b2, rng, "ranges"); }, &m2)) tr.emit(vh::Json("DriverError").str("name", name).str("msg", m2));
  }
  // B: more view mashing / other TOF mashing (classes that support it)
  if (c.geom == "Cylindrical") {
    bool changed = false;
    if (vh::threw([&] {
          // combine k views the documented way (set_num_views keeps the azimuthal offset: "you might have to call
          // set_azimuthal_angle_offset() as well"; this is what SSRB does)
          for (int k : { 2, 3 })
            if ((c.N / 2) % (c.mash * k) == 0) {
              const float offset = p->get_azimuthal_angle_offset() + p->get_azimuthal_angle_sampling() * (k - 1) / 2.F;
              p->set_num_views(p->get_num_views() / k);
              p->set_azimuthal_angle_offset(offset);
              c.mash *= k; changed = true; break;
            }
          if (p->get_tof_mash_factor() > 0)
            for (int tm : { 3, 1, 5 })
              if (tm != p->get_tof_mash_factor() && tm <= c.maxT && (c.maxT / tm) % 2 == 1) { p->set_tof_mash_factor(tm); c.tofMash = tm; changed = true; break; }
        }, &m2)) { tr.emit(vh::Json("DriverError").str("name", name).str("msg", m2)); return; }
    if (changed && vh::threw([&] { record_config(tr, c, *p, name, b2, rng, "views-tof"); }, &m2)) tr.emit(vh::Json("DriverError").str("name", name).str("msg", m2));
  }
  // C: the setters of the physical parameters, on the used object: ring spacing, bed position (no coordinate depends
  // on it), and for arc-corrected data tangential sampling, azimuthal offset, ring radius
  if (c.geom == "Cylindrical") {
    if (vh::threw([&] {
          p->set_ring_spacing(p->get_ring_spacing() * rng.pick(std::vector<float>{ 1.25F, 0.5F, 2.F }));
          p->set_bed_position_horizontal(12.5F); p->set_bed_position_vertical(-7.F);
          if (c.arc) {
            auto* pa = static_cast<ProjDataInfoCylindricalArcCorr*>(p);
            pa->set_tangential_sampling(pa->get_tangential_sampling() * rng.pick(std::vector<float>{ 0.75F, 1.5F }));
            const float d = rng.pick(std::vector<float>{ 0.0625F, -0.03125F });
            p->set_azimuthal_angle_offset(p->get_azimuthal_angle_offset() + d); c.dtilt += d;
            VectorWithOffset<float> radii(p->get_min_view_num(), p->get_max_view_num());
            radii.fill(p->get_ring_radius() * 1.125F);
            p->set_ring_radii_for_all_views(radii);
          }
        }, &m2)) { tr.emit(vh::Json("DriverError").str("name", name).str("msg", m2)); return; }
    if (vh::threw([&] { record_config(tr, c, *p, name, b2, rng, "params"); }, &m2)) tr.emit(vh::Json("DriverError").str("name", name).str("msg", m2));
  }
}

// Generic geometry: the crystal map lists detectors on a circle (psi = 2 pi d / N from the -y axis, ring r at
// z = (r - (R-1)/2) * spacing), i.e. the environment is the cylindrical lay-out handed over as a detector map.
static shared_ptr<Scanner> make_generic(int N, int R, const std::string& dir, float radius, float spacing) {
  const std::string fn = dir + "/c12_map_" + std::to_string(N) + "_" + std::to_string(R) + ".csv";
  std::ofstream f(fn);
  f.precision(9);
  for (int r = 0; r < R; ++r)
    for (int d = 0; d < N; ++d) {
      const double psi = 2 * PI * d / N;
      f << r << "," << d << "," << radius * std::sin(psi) << "," << -radius * std::cos(psi) << "," << (r - (R - 1) / 2.0) * spacing << "\n";
    }
  f.close();
  shared_ptr<Scanner> sc(new Scanner(Scanner::User_defined_scanner, "tinygeneric", N, R, N - 1, N - 1, radius, 0.F, spacing, 3.F, 0.F,
                                     1, 1, 1, 1, 1, 1, 1, -1.F, -1.F, (short)-1, -1.F, -1.F, "Generic", spacing, 1.F, spacing, 1.F, fn));
  return sc;
}

// One set_up of the ArcCorrection object `ac` (which may have been set up before: `uses` counts the
// earlier set_ups of this object) followed by recorded rows.  The ArcConfig event carries the parameters
// of the CURRENT set_up; TLC checks the rows exactly as for a fresh object.
//   variant 0: default range and bin size            1: nb1 bins, 2 x bin size     2: nb1 bins, 1.5 x bin size (same bins, other size)
//           3: nb2 = about half the bins, default size  4: nb2 bins, 0.75 x bin size                 5: 33 bins, default size (shared object across scanners)
static void arc_rows(vh::Trace& tr, ArcCorrection& ac, int& uses, const std::string& name, shared_ptr<Scanner> sc, int span, int numTang, int variant, long nrows, vh::Rng& rng) {
  const int N = sc->get_num_detectors_per_ring(), R = sc->get_num_rings();
  shared_ptr<ProjDataInfo> pdi;
  std::string msg;
  if (vh::threw([&] { pdi = ProjDataInfo::construct_proj_data_info(sc, span, std::min(R - 1, span / 2), N / 2, numTang, false, 0); }, &msg)) return;
  shared_ptr<const ProjDataInfo> cpdi = pdi;
  Succeeded ok = Succeeded::no;
  const float bs = sc->get_default_bin_size() > 0 ? sc->get_default_bin_size() : pdi->get_sampling_in_s(Bin(0, 0, 0, 0));
  const int nb1 = numTang | 1, nb2 = numTang / 2 + 1;
  if (variant == 0) ok = ac.set_up(cpdi);
  else if (variant == 1) ok = ac.set_up(cpdi, nb1, bs * 2);
  else if (variant == 2) ok = ac.set_up(cpdi, nb1, bs * 1.5F);
  else if (variant == 3) ok = ac.set_up(cpdi, nb2);
  else if (variant == 4) ok = ac.set_up(cpdi, nb2, bs * 0.75F);
  else ok = ac.set_up(cpdi, 33, bs);
  if (ok != Succeeded::yes) return;
  const int reuse = uses++;
  const ProjDataInfoCylindricalNoArcCorr& in = ac.get_not_arc_corrected_proj_data_info();
  const ProjDataInfoCylindricalArcCorr& out = ac.get_arc_corrected_proj_data_info();
  const int t0 = in.get_min_tangential_pos_num(), t1 = in.get_max_tangential_pos_num();
  const int o0 = out.get_min_tangential_pos_num(), o1 = out.get_max_tangential_pos_num();
  // edges of the input bins: half-way in angle between neighbouring lines, offset from STIR's LOR class
  QA eb; std::vector<long long> es;
  const double uE = PI / (2.0 * N);
  for (int tp = t0; tp <= t1 + 1; ++tp) {
    LORInAxialAndNoArcCorrSinogramCoordinates<float> la, lb;
    const int vmid = in.get_num_views() / 2;      // a view whose azimuthal angle (incl. tilt) is well inside (0, pi)
    in.get_LOR(la, Bin(0, vmid, 0, tp - 1)); in.get_LOR(lb, Bin(0, vmid, 0, tp));
    const float be = (la.beta() + lb.beta()) / 2;
    LORInAxialAndNoArcCorrSinogramCoordinates<float> le(0.F, 0.F, 0.F, be, la.radius());
    eb.add(quant(be, uE));
    es.push_back(vh::fx(le.s(), 12));
  }
  vh::Json jc("ArcConfig");
  jc.num("id", ++cfg_id).str("name", name).num("N", N).num("variant", variant).num("reuse", reuse).num("t0", t0).num("t1", t1).num("o0", o0).num("o1", o1)
      .num("dout12", vh::fx(out.get_tangential_sampling(), 12)).num("dout16", vh::fx(out.get_tangential_sampling(), 16)).num("sampling_s12", vh::fx(out.get_sampling_in_s(Bin(0, 0, 0, 0)), 12));
  put(jc, "eb", eb); jc.arr("es", es);
  tr.emit(jc);
  // rows are the views of one sinogram (public API: Sinogram -> Sinogram)
  Sinogram<float> sin_in = in.get_empty_sinogram(0, 0);
  const long nr = std::min<long>(nrows, in.get_num_views());
  std::vector<std::vector<int>> ivs;
  std::vector<int> kinds;
  for (long row = 0; row < nr; ++row) {
    std::vector<int> iv;
    const int kind = row == 0 ? 0 : row == 1 ? 1 : 2 + (int)(row % 2);   // 0: all ones, 1: all sevens, 2: random, 3: sparse
    for (int tp = t0; tp <= t1; ++tp) {
      int v = kind == 0 ? 1 : kind == 1 ? 7 : kind == 2 ? rng.range(0, 15) : (rng.range(0, 9) == 0 ? rng.range(1, 15) : 0);
      sin_in[(int)row][tp] = (float)v; iv.push_back(v);
    }
    ivs.push_back(iv); kinds.push_back(kind);
  }
  Sinogram<float> sin_out = ac.do_arc_correction(sin_in);
  for (long row = 0; row < nr; ++row) {
    std::vector<long long> ov;
    for (int tp = o0; tp <= o1; ++tp) ov.push_back(vh::fx(sin_out[(int)row][tp], 10));
    tr.emit(vh::Json("Arc").num("kind", kinds[row]).arr("inp", ivs[row]).arr("out", ov));
  }
}

int main(int argc, char** argv) {
  if (argc < 5) return 2;
  vh::install_terminate(); vh::quiet();
  if (!getenv("VERIF_STDERR")) { if (!freopen("/dev/null", "w", stderr)) return 3; }
  const std::string mode = argv[1];
  vh::Trace tr(argv[2]);
  const long budget = atol(argv[3]);
  const int stage = atoi(argv[4]);
  vh::Rng rng(vh::seed_from_env());
  if (mode == "db") {
    const std::string work = argc > 5 ? argv[5] : "/var/tmp";
    // every predefined scanner with a discrete cylindrical / blocks lay-out
    for (int t = Scanner::E931; t < Scanner::User_defined_scanner; ++t) {
      shared_ptr<Scanner> sc;
      if (vh::threw([&] { sc.reset(new Scanner(static_cast<Scanner::Type>(t))); })) continue;
      if (sc->get_type() == Scanner::Unknown_scanner || sc->get_type() == Scanner::HiDAC) continue;
      const int N = sc->get_num_detectors_per_ring(), R = sc->get_num_rings();
      if (N < 4 || N % 2 || R < 1) continue;
      const std::string geom = sc->get_scanner_geometry();
      for (int variant = 0; variant < 6; ++variant) {
        Cfg c; c.N = N; c.R = R; c.geom = geom;
        c.maxT = sc->is_tof_ready() ? sc->get_max_num_timing_poss() : 0;
        c.numTang = std::min(sc->get_max_num_non_arccorrected_bins(), std::min(N - 3, 4 * N / 5));
        c.span = 1; c.maxDelta = R - 1;
        if (geom != "Cylindrical" && variant != 0) continue;      // Blocks/Generic: span 1, no mashing, non-TOF
        if (variant == 1) { c.span = std::min(2 * R - 1, 3); c.maxDelta = complete_max_delta(c.span, R); if (c.maxDelta < 1) continue; for (int m : { 2, 3, 4, 5 }) if ((N / 2) % m == 0) { c.mash = m; break; } }
        if (variant == 2) { c.span = std::min(2 * R - 1, 11); if (c.span % 2 == 0) c.span--; c.maxDelta = complete_max_delta(c.span, R); if (c.maxDelta < 0) continue; c.numTang = std::max(1, c.numTang / 2); }
        if (variant == 3) { if (c.maxT <= 0) continue; int m = 1; for (int k : { 3, 5, 9, 11, 13 }) if (c.maxT % k == 0 && (c.maxT / k) % 2 == 1) { m = k; break; } if ((c.maxT / m) % 2 == 0) continue; c.tofMash = m; c.maxDelta = std::min(R - 1, 3); }
        if (variant == 4) { c.arc = true; c.numTang = sc->get_default_num_arccorrected_bins(); if (c.numTang < 1) continue; c.span = std::min(2 * R - 1, 3); c.maxDelta = complete_max_delta(c.span, R); if (c.maxDelta < 1) continue; }
        if (variant == 5) { c.ge = true; c.maxDelta = std::min(R - 1, 4); if (c.maxDelta < 1) continue; c.numTang = std::max(1, c.numTang - 1); }
        if (stage == 0 && variant >= 4 && (t % 3) != (int)(vh::seed_from_env() % 3)) continue;
        shared_ptr<Scanner> sc2(new Scanner(*sc));
        run_cfg(tr, c, sc->get_name(), budget, rng, sc2);
      }
    }
    // generated scanners: small and big rings, spans, mashing, TOF, tilt, arc-corrected, blocks, generic.
    // Templates stay inside the quantifier: segments are complete (max_delta ends a segment), the
    // non-arc-corrected range stays below 0.8 N bins (|s| < 0.95 R, never neighbouring detectors).
    const std::vector<int> Ns = stage ? std::vector<int>{ 4, 6, 8, 12, 16, 20, 24, 32, 64, 100, 256, 500, 720, 1000 } : std::vector<int>{ 4, 8, 12, 16, 32, 100, 500 };
    for (int N : Ns)
      for (int R : { 1, 2, 3, 5, 8 }) {
        if (N > 100 && R > 3) continue;
        for (int variant = 0; variant < (stage ? 12 : 7); ++variant) {
          Cfg c; c.N = N; c.R = R; c.maxT = 0;
          c.span = R > 1 ? rng.pick(std::vector<int>{ 1, 1, 2, 3, 5 }) : 1;
          if (c.span > 2 * R - 1) c.span = 1;
          {
            const int half0 = c.span % 2 ? (c.span - 1) / 2 : c.span / 2;
            const int kmax = (R - 1 - half0) / c.span;
            if (kmax < 0) { c.span = 1; c.maxDelta = rng.range(0, R - 1); }
            else c.maxDelta = half0 + rng.range(0, kmax) * c.span;
          }
          c.mash = rng.pick(std::vector<int>{ 1, 1, 2, 3, 4 }); if ((N / 2) % c.mash) c.mash = 1;
          const int maxbins = std::max(1, std::min(N - 3, 4 * N / 5));
          c.numTang = rng.coin() ? maxbins : std::max(1, rng.range(N / 3, maxbins));
          float tilt = 0.F;
          const int v6 = variant % 7;
          if (v6 == 1) { c.maxT = rng.pick(std::vector<int>{ 5, 9, 13, 15 }); c.tofMash = rng.pick(std::vector<int>{ 1, 3, 5 }); if (c.tofMash > c.maxT || (c.maxT / c.tofMash) % 2 == 0) c.tofMash = 1; }
          if (v6 == 2) { c.arc = true; c.numTang = rng.range(std::max(1, N / 2), 2 * N); }
          if (v6 == 3) { c.ge = true; c.span = 1; if (R < 2) continue; c.maxDelta = rng.range(1, R - 1); }
          if (v6 == 4) tilt = rng.pick(std::vector<float>{ -0.31F, -0.05F, 0.07F, 0.4F });
          if (v6 == 5) {
            c.geom = rng.coin() ? "BlocksOnCylindrical" : "Generic";
            if (N < 8 || N > 100) continue;
            c.span = 1; c.mash = 1; c.maxDelta = R - 1;
          }
          if (v6 == 6) { c.arc = true; c.numTang = rng.range(std::max(1, N / 2), N); c.maxT = 9; c.tofMash = rng.pick(std::vector<int>{ 1, 3 }); tilt = rng.coin() ? 0.F : 0.11F; }
          shared_ptr<Scanner> sc;
          std::string msg;
          if (vh::threw([&] {
                if (c.geom == "Generic") sc = make_generic(N, R, work, std::max(40.F, N * 4.F / 6.2831853F * 1.2F), 4.F);
                else sc = vh::make_scanner(N, R, c.maxT, c.geom, 4.F, c.arc ? N - 1 : maxbins, tilt);
              }, &msg)) continue;
          run_cfg(tr, c, "gen", budget, rng, sc);
        }
      }
  } else if (mode == "arc") {
    ArcCorrection shared_ac; int shared_uses = 0;
    for (int t = Scanner::E931; t < Scanner::User_defined_scanner; ++t) {
      shared_ptr<Scanner> sc;
      if (vh::threw([&] { sc.reset(new Scanner(static_cast<Scanner::Type>(t))); })) continue;
      if (sc->get_type() == Scanner::Unknown_scanner || sc->get_type() == Scanner::HiDAC) continue;
      const int N = sc->get_num_detectors_per_ring(), R = sc->get_num_rings();
      if (N < 4 || N % 2 || R < 1 || sc->get_scanner_geometry() != "Cylindrical") continue;
      if (stage == 0 && (t % 4) != (int)(vh::seed_from_env() % 4)) continue;
      const int nt = std::min(std::min(sc->get_max_num_non_arccorrected_bins(), N - 1), 380);
      // history on ONE object: fresh set_up, then re-use with (other bins, other size), (same bins, other size), ...
      ArcCorrection ac; int uses = 0;
      for (int variant = 0; variant < 5; ++variant) {
        shared_ptr<Scanner> sc2(new Scanner(*sc));
        vh::threw([&] { arc_rows(tr, ac, uses, sc->get_name(), sc2, 1, nt, variant, variant == 0 ? budget : std::max(4L, budget / 2), rng); });
      }
      // one object shared by all scanners: same number of bins, other scanner / bin size
      {
        shared_ptr<Scanner> sc2(new Scanner(*sc));
        vh::threw([&] { arc_rows(tr, shared_ac, shared_uses, sc->get_name(), sc2, 1, nt, 5, 4, rng); });
      }
    }
    for (int N : { 8, 16, 32, 64, 128, 256 }) {
      ArcCorrection ac; int uses = 0;
      const int nt = rng.range(N / 2, N - 1);
      for (int variant = 0; variant < 5; ++variant) {
        shared_ptr<Scanner> sc = vh::make_scanner(N, 2, 0, "Cylindrical");
        vh::threw([&] { arc_rows(tr, ac, uses, "gen", sc, 1, nt, variant, variant == 0 ? budget : std::max(4L, budget / 2), rng); });
      }
    }
  }
  return 0;
}
