// C05 driver: drives the real PoissonLogLikelihoodWithLinearModelForMeanAndProjData on exact instances
// supplied through the explicit-matrix seam and records inputs and outputs as ndjson.
// No property formula, no expected value, no comparison here: TLC (Trace_PoissonLL.tla) decides.
//
//   c05_poissonll opts   <out.ndjson> <scratch-dir> <num-instances>   random option sets x random exact instances,
//                                                                     requests in random order
//   c05_poissonll orders <out.ndjson> <scratch-dir> <max-kinds>       every order of first use of the kinds of request
//                                                                     (max-kinds 4: value/gradient/sensitivity/Hessian product;
//                                                                      6: + gradient-plus-sensitivity, approximate Hessian)
//
// The only arithmetic on the inputs done here is the *construction* of exact instances
// (DESIGN.md C05): data y_b = r_b * d_b^2 with d_b = (P lambda)_b + a_b, so that the quotients the
// implementation forms are exactly representable; TLC recomputes d from the logged P, lambda, a and rejects
// the Instance line if the instance is not exact.
#include "c05_seam.h"
#include "stir/recon_buildblock/PoissonLogLikelihoodWithLinearModelForMeanAndProjData.h"
#include "stir/recon_buildblock/QuadraticPrior.h"
#include "stir/recon_buildblock/BinNormalisationFromProjData.h"
#include "stir/recon_buildblock/ChainedBinNormalisation.h"
#include "stir/recon_buildblock/TrivialBinNormalisation.h"
#include "stir/ProjDataInMemory.h"
#include "stir/RelatedViewgrams.h"
#include "stir/IndexRange3D.h"
#include "stir/Succeeded.h"
#include <algorithm>
#include <cstring>
#include <new>
#include <set>
#include <csignal>
using namespace stir;
using namespace c05;

typedef PoissonLogLikelihoodWithLinearModelForMeanAndProjData<Img> PLL;

// use_tofsens has no setter (parsing key only): a derived class sets the protected member
class OF : public PLL {
public:
  void set_use_tofsens(bool v) { this->use_tofsens = v; }
  bool get_use_tofsens() const { return this->use_tofsens; }
};

// ---------------------------------------------------------------- recording

static std::vector<Req> all_requests(const Opts& o, vh::Rng& rng, bool with_addsens, bool with_approx) {
  std::vector<Req> r;
  for (int s = -1; s < o.N; ++s) {
    const bool p = o.prior;
    // with a prior: one of the two variants at random for every request, the other one for every third
    auto both = [&](Kind k) {
      const bool pen = p && rng.coin();
      r.push_back(Req{ k, s, pen });
      if (p && rng.range(0, 2) == 0) r.push_back(Req{ k, s, !pen });
    };
    both(Value);
    both(Grad);
    both(Hess);
    if (with_approx) both(ApproxHess);
    r.push_back(Req{ Sens, s, false });
    if (s >= 0) {
      r.push_back(Req{ GradPlusSens, s, false });
      if (with_addsens) r.push_back(Req{ AddSens, s, false });
    }
  }
  for (size_t i = r.size(); i > 1; --i) std::swap(r[i - 1], r[rng.next() % i]);
  return r;
}

// one life of an objective function: construct (in poisoned storage), configure, set_up, requests
// the public setters whose use after set_up requires a new set_up ("After using any of these, you have to call set_up()")
static const char* setter_names[] = { "set_num_subsets", "set_max_segment_num_to_process", "set_zero_seg0_end_planes", "set_use_subset_sensitivities",
                                      "set_proj_data_sptr", "set_input_data", "set_additive_proj_data_sptr", "set_normalisation_sptr",
                                      "set_projector_pair_sptr", "set_sensitivity_filename" };
static const int num_setters = 10;

// setter >= 0: set-up protocol run - requests before set_up, set_up + requests, the setter, requests (all must be refused),
// set_up again + requests
static void run(vh::Trace& tr, const Sys& s, const Matrix& m, const Inst& in0, const std::vector<Req>* fixed_reqs, vh::Rng& rng,
                const std::string& scratch, bool write_sens, int setter = -1) {
  Inst in = in0;
  const Opts& o = in.o;
  shared_ptr<Img> lam = image_from(s, in.lam), x = image_from(s, in.x);
  std::vector<float> yf(in.y.begin(), in.y.end()), af(in.a.begin(), in.a.end());
  shared_ptr<ProjData> y = make_pd(s, s.t.proj_data_info, yf, false);
  shared_ptr<ProjData> a;
  if (o.additive) a = make_pd(s, s.t.proj_data_info, af, false);
  shared_ptr<RecNorm> rec;
  shared_ptr<BinNormalisation> norm = make_norm(s, in, &rec);
  shared_ptr<vh::ExplicitProjMatrix> pm;
  shared_ptr<ProjectorByBinPair> pp = vh::make_explicit_projector_pair(m.data, shared_ptr<vh::XmObserver>(), &pm);
  pm->enable_cache(o.cache);
  shared_ptr<QuadraticPrior<float>> prior;
  if (o.prior) {
    // explicit dyadic weights (the default 1/distance weights are not exactly representable), factor 12 so that the
    // share of a subset (1/num_subsets) is exact for 1..4 subsets
    prior.reset(new QuadraticPrior<float>(false, 12.F));
    Array<3, float> w(IndexRange3D(-1, 1, -1, 1, -1, 1));
    for (int dz = -1; dz <= 1; ++dz) for (int dy = -1; dy <= 1; ++dy) for (int dx = -1; dx <= 1; ++dx)
      w[dz][dy][dx] = (dz == 0 && dy == 0 && dx == 0) ? 0.F : ((std::abs(dz) + std::abs(dy) + std::abs(dx)) == 1 ? 1.F : 0.5F);
    prior->set_weights(w);
  }

  Obj<OF> ob;
  ob.make(o.fill);
  OF& of = *ob.of;
  of.set_proj_data_sptr(y);
  of.set_projector_pair_sptr(pp);
  if (o.additive) of.set_additive_proj_data_sptr(a);
  of.set_normalisation_sptr(norm);
  of.set_zero_seg0_end_planes(o.zero);
  of.set_max_segment_num_to_process(o.maxseg);
  of.set_use_subset_sensitivities(o.uss);
  of.set_num_subsets(o.N);
  of.set_use_tofsens(o.tofsens);
  if (o.prior) of.set_prior_sptr(prior);
  const std::string sensfile = scratch + "/c05_sens.hv", subsensfiles = scratch + "/c05_subsens_%d.hv";
  if (o.supplied || write_sens) {
    if (o.uss) of.set_subsensitivity_filenames(subsensfiles); else of.set_sensitivity_filename(sensfile);
  }
  of.set_recompute_sensitivity(!o.supplied);

  Opts cur = o;
  // one set_up + request sequence; reuse = the same object is set up again after some options were changed
  auto life = [&](const Opts& o, bool reuse) -> bool {
  // the prior's own answers (its share is what the penalised quantities must differ by; the prior itself is C09's subject)
  emit_system(tr, m);
  vh::Json ji("Instance");
  ji.boolean("reuse", reuse);
  ji.num("sys", m.id).boolean("tof", s.tof).boolean("tofSensAsked", o.tofsens).boolean("tofNorm", o.tofnorm).boolean("additive", o.additive)
      .str("norm", norm_names[o.norm]).boolean("wrapNorm", o.wrapnorm).boolean("zero", o.zero).num("maxSegAsked", o.maxseg).boolean("uss", o.uss)
      .num("N", o.N).boolean("prior", o.prior).boolean("supplied", o.supplied).boolean("cache", o.cache).num("fill", o.fill).num("family", o.family).boolean("approx", o.approx)
      .arr("lam", in.lam).arr("x", in.x).arr("y", in.y).arr("a", in.a).arr("ef", in.e);
  if (o.prior) {
    shared_ptr<Img> g(lam->get_empty_copy()), h(lam->get_empty_copy()), ah(lam->get_empty_copy());
    g->fill(0.F); h->fill(0.F); ah->fill(0.F);
    prior->set_up(lam);
    double pv = 0;
    const bool perr = vh::threw([&] {
      pv = prior->compute_value(*lam);
      prior->compute_gradient(*g, *lam);
      prior->accumulate_Hessian_times_input(*h, *lam, *x);
      prior->add_multiplication_with_approximate_Hessian(*ah, *x);
    });
    std::vector<long long> gv, hv, av;
    bool ex = !perr;
    auto fxv = [&](const Img& im, std::vector<long long>& v) {
      for (auto it = im.begin_all_const(); it != im.end_all_const(); ++it) { const double sc = std::ldexp((double)*it, 4); const long long q = std::llround(sc); if ((double)q != sc) ex = false; v.push_back(q); }
    };
    fxv(*g, gv); fxv(*h, hv); fxv(*ah, av);
    const double pvs = std::ldexp(pv, 10);
    if ((double)std::llround(pvs) != pvs) ex = false;
    ji.num("pVal", std::llround(pvs)).arr("pGrad", gv).arr("pHess", hv).arr("pApprox", av).boolean("pEx", ex);
  }
  tr.emit(ji);
  if (setter >= 0 && !reuse)
    for (Kind k : { Value, Grad, GradPlusSens, Hess, ApproxHess }) do_request(tr, of, rec, Req{ k, 0, false }, *lam, *x, rng);   // use before set_up

  std::string msg;
  bool ok = false;
  const bool err = vh::threw([&] { ok = of.set_up(lam) == Succeeded::yes; }, &msg);
  vh::Json js("SetUp");
  js.boolean("err", err).boolean("ok", ok).boolean("tofSens", of.get_use_tofsens()).num("maxSeg", of.get_max_segment_num_to_process());
  if (err) js.str("msg", msg.substr(0, 120));
  norm_uses(js, rec);
  tr.emit(js);
  if (err || !ok) return false;

  std::vector<Req> reqs;
  if (fixed_reqs) reqs = *fixed_reqs;
  else reqs = all_requests(o, rng, !o.supplied, o.approx);
  for (const Req& q : reqs) do_request(tr, of, rec, q, *lam, *x, rng);
  return true;
  };
  if (!life(cur, false)) return;
  if (setter >= 0) {
    switch (setter) {
    case 0: cur.N = cur.N == 2 ? 4 : 2; of.set_num_subsets(cur.N); break;
    case 1: cur.maxseg = cur.maxseg == 1 ? 2 : 1; of.set_max_segment_num_to_process(cur.maxseg); break;
    case 2: cur.zero = !cur.zero; of.set_zero_seg0_end_planes(cur.zero); break;
    case 3: cur.uss = !cur.uss; of.set_use_subset_sensitivities(cur.uss); break;
    case 4: for (auto& v : in.y) v *= 2;   // other data (still an exact instance: r doubled)
            { std::vector<float> y2(in.y.begin(), in.y.end()); y = make_pd(s, s.t.proj_data_info, y2, false); }
            of.set_proj_data_sptr(y); break;
    case 5: of.set_input_data(y); break;
    case 6: of.set_additive_proj_data_sptr(a); break;
    case 7: of.set_normalisation_sptr(norm); break;
    case 8: of.set_projector_pair_sptr(pp); break;
    default: of.set_sensitivity_filename(""); break;
    }
    tr.emit(vh::Json("Setter").str("name", setter_names[setter]));
    for (Kind k : { Value, Grad, GradPlusSens, Hess, ApproxHess }) do_request(tr, of, rec, Req{ k, 0, false }, *lam, *x, rng);   // must be refused
    life(cur, true);
    return;
  }
  // every third object (random option sets only): change options through the setters and set the SAME object up again
  if (!fixed_reqs && !o.supplied && !write_sens && rng.range(0, 2) == 0) {
    cur.zero = rng.coin();
    cur.maxseg = rng.range(0, 2);
    cur.N = rng.range(1, 4);
    cur.uss = cur.N == 3 ? true : rng.coin();
    of.set_zero_seg0_end_planes(cur.zero);
    of.set_max_segment_num_to_process(cur.maxseg);
    of.set_use_subset_sensitivities(cur.uss);
    of.set_num_subsets(cur.N);
    life(cur, true);
  }
}

// Re-use history across data geometries: ONE objective-function object is set up for system A, serves requests, then
// gets the data, additive term, normalisation and projector pair of system B (another number of TOF bins / segments /
// views / tangential positions) through the setters, is set up again and serves requests - judged against system B.
static void run_regeo(vh::Trace& tr, const Sys& sa, const Sys& sb, vh::Rng& rng, int fill) {
  const Sys* ss[2] = { &sa, &sb };
  Obj<OF> ob;
  ob.make(fill);
  OF& of = *ob.of;
  // keep everything of both lives alive until the object is gone
  std::vector<shared_ptr<ProjData>> keep_pd;
  std::vector<shared_ptr<BinNormalisation>> keep_norm;
  std::vector<shared_ptr<ProjectorByBinPair>> keep_pp;
  Opts o;
  o.additive = rng.coin();
  o.norm = rng.range(0, 4);
  o.zero = rng.coin();
  o.N = rng.range(1, 2);
  o.uss = rng.coin();
  o.prior = false;
  o.cache = rng.coin();
  o.wrapnorm = false;
  o.fill = fill;
  o.family = o.additive ? 1 : 2;
  o.approx = true;
  for (int life = 0; life < 2; ++life) {
    const Sys& s = *ss[life];
    o.tofsens = s.tof && rng.coin();
    o.maxseg = rng.range(-1, s.t.proj_data_info->get_max_segment_num());
    Matrix m = o.family == 2 ? make_matrix(tr, s, rng, 1, 2, true) : make_matrix(tr, s, rng, 2, 2, true);
    Inst in = make_inst(s, m, rng, o);
    shared_ptr<Img> lam = image_from(s, in.lam), x = image_from(s, in.x);
    std::vector<float> yf(in.y.begin(), in.y.end()), af(in.a.begin(), in.a.end());
    shared_ptr<ProjData> y = make_pd(s, s.t.proj_data_info, yf, false), a;
    if (o.additive) a = make_pd(s, s.t.proj_data_info, af, false);
    shared_ptr<RecNorm> rec;
    shared_ptr<BinNormalisation> norm = make_norm(s, in, &rec);
    shared_ptr<vh::ExplicitProjMatrix> pm;
    shared_ptr<ProjectorByBinPair> pp = vh::make_explicit_projector_pair(m.data, shared_ptr<vh::XmObserver>(), &pm);
    pm->enable_cache(o.cache);
    keep_pd.push_back(y); keep_pd.push_back(a); keep_norm.push_back(norm); keep_pp.push_back(pp);
    of.set_proj_data_sptr(y);
    of.set_projector_pair_sptr(pp);
    if (o.additive) of.set_additive_proj_data_sptr(a);
    of.set_normalisation_sptr(norm);
    of.set_zero_seg0_end_planes(o.zero);
    of.set_max_segment_num_to_process(o.maxseg);
    of.set_use_subset_sensitivities(o.uss);
    of.set_num_subsets(o.N);
    of.set_use_tofsens(o.tofsens);
    of.set_recompute_sensitivity(true);
    emit_system(tr, m);
    tr.emit(vh::Json("Instance").boolean("reuse", life == 1).boolean("regeo", true).num("sys", m.id).boolean("tof", s.tof).boolean("tofSensAsked", o.tofsens).boolean("tofNorm", false)
                .boolean("additive", o.additive).str("norm", norm_names[o.norm]).boolean("wrapNorm", false).boolean("zero", o.zero).num("maxSegAsked", o.maxseg)
                .boolean("uss", o.uss).num("N", o.N).boolean("prior", false).boolean("supplied", false).boolean("cache", o.cache).num("fill", fill).num("family", o.family)
                .boolean("approx", true).num("numBins", (long)s.bins.size()).arr("lam", in.lam).arr("x", in.x).arr("y", in.y).arr("a", in.a).arr("ef", in.e));
    std::string msg;
    bool ok = false;
    const bool err = vh::threw([&] { ok = of.set_up(lam) == Succeeded::yes; }, &msg);
    vh::Json js("SetUp");
    js.boolean("err", err).boolean("ok", ok).boolean("tofSens", of.get_use_tofsens()).num("maxSeg", of.get_max_segment_num_to_process());
    if (err) js.str("msg", msg.substr(0, 120));
    norm_uses(js, rec);
    tr.emit(js);
    if (err || !ok) return;
    std::vector<Req> reqs = all_requests(o, rng, true, true);
    for (const Req& q : reqs) do_request(tr, of, rec, q, *lam, *x, rng);
  }
}

static Opts random_opts(const Sys& s, vh::Rng& rng, long i) {
  Opts o;
  o.tofsens = s.tof && rng.coin();
  o.additive = rng.coin();
  o.norm = rng.range(0, 4);
  o.tofnorm = s.tof && o.norm != 0 && rng.range(0, 2) == 0;  // TOF-dependent efficiencies (switches TOF sensitivities on)
  o.zero = rng.coin();
  o.maxseg = rng.range(-1, 2);
  o.N = rng.range(1, 4);
  o.uss = o.N == 3 ? true : rng.coin();   // 3 subsets of 4 views are unbalanced: legal only with subset sensitivities
  o.prior = rng.range(0, 2) == 0;
  o.cache = rng.range(0, 3) != 0;
  o.wrapnorm = rng.range(0, 4) != 0;
  static const int fills[] = { 0x00, 0xFF, 0x01 };
  o.fill = fills[i % 3];
  o.family = rng.range(0, 4) < 2 ? 0 : (rng.coin() ? 1 : 2);
  o.approx = o.family != 0 && rng.coin();
  if (o.family == 1) o.additive = true;
  if (o.family == 2) o.additive = false;
  return o;
}

// the other C05 drivers (own namespaces), compiled into this translation unit
#include "c05_realproj.cxx"
#include "c05_listmode.cxx"
#include "c05_patlak.cxx"

int main(int argc, char** argv) {
  if (argc < 5) { fprintf(stderr, "usage: c05_poissonll opts|orders <out.ndjson> <scratch-dir> <count>\n"); return 2; }
  vh::quiet();
  vh::install_terminate();
  install_signal_handlers();
  const std::string mode = argv[1], scratch = argv[3];
  if (mode == "real") return c05real::entry(argc, argv);
  if (mode == "lm") return c05lm::entry(argc, argv);
  if (mode == "patlak") return c05patlak::entry(argc, argv);
  const long count = atol(argv[4]);
  vh::Trace tr(argv[2]);
  vh::Rng rng(vh::seed_from_env());
  Sys sys[2] = { make_sys(false), make_sys(true) };

  if (mode == "opts") {
    Matrix m[2][2];   // [tof][power-of-two rows]
    for (long i = 0; i < count; ++i) {
      const int t = (i / 2) % 2;  // alternate non-TOF / TOF
      Opts o = random_opts(sys[t], rng, i);
      const int p2rows = o.family == 2 ? 1 : 0;
      // a new matrix every 8th instance of its kind (rows with one entry of weight 1 or 2 for the family without additive term)
      if (!m[t][p2rows].data || rng.range(0, 7) == 0)
        m[t][p2rows] = p2rows ? make_matrix(tr, sys[t], rng, 1, 2, true) : make_matrix(tr, sys[t], rng, o.family == 1 ? 2 : 3, o.family == 1 ? 2 : 3, true);
      else if (o.family == 1) {
        // power-of-two family with additive term needs small weights: re-draw when the current matrix is a general one
        bool small = true;
        for (auto& r : m[t][0].rows) { if (r.size() > 2) small = false; for (auto& e : r) if (e.second > 2) small = false; }
        if (!small) m[t][0] = make_matrix(tr, sys[t], rng, 2, 2, true);
      }
      Inst in = make_inst(sys[t], m[t][p2rows], rng, o);
      // every 5th instance: sensitivities supplied from file (written by a first object, read by a second one whose
      // first request after set_up is then served without any sensitivity computation having taken place)
      if (i % 5 == 4) {
        Inst first = in;
        first.o.supplied = false;
        run(tr, sys[t], m[t][p2rows], first, nullptr, rng, scratch, true);
        in.o.supplied = true;
        run(tr, sys[t], m[t][p2rows], in, nullptr, rng, scratch, false);
      } else
        run(tr, sys[t], m[t][p2rows], in, nullptr, rng, scratch, false);
    }
  } else if (mode == "orders") {
    // every order of first use of the kinds of request, on a fresh object each, for the set-up classes that matter for
    // the set-up flags: non-TOF; TOF with TOF sensitivities; TOF with non-TOF sensitivities (other projector and
    // other normalisation set-up for the sensitivity); sensitivities computed by set_up or supplied from file
    const int nk = (int)count >= 6 ? 6 : 4;
    std::vector<int> perm;
    for (int t = 0; t < 2; ++t)
      for (int ts = 0; ts < (t ? 2 : 1); ++ts)
        for (int supplied = 0; supplied < 2; ++supplied) {
          Opts o;
          o.tofsens = ts == 1;
          o.additive = true;
          o.norm = supplied ? 2 : 4;
          o.zero = true;
          o.maxseg = 1;
          o.N = 2;
          o.uss = supplied == 0;
          o.prior = false;
          o.family = 1;
          o.approx = true;
          Matrix m = make_matrix(tr, sys[t], rng, 2, 2, true);
          Inst in = make_inst(sys[t], m, rng, o);
          if (supplied) {
            Inst first = in;
            first.o.supplied = false;
            std::vector<Req> none;
            run(tr, sys[t], m, first, &none, rng, scratch, true);
            in.o.supplied = true;
          }
          // kinds: 0 Value 1 Grad 2 Sens(=add_subset_sensitivity; not available when supplied) 3 Hess 4 GradPlusSens 5 ApproxHess
          std::vector<int> kinds;
          for (int k = 0; k < nk; ++k) if (!(supplied && k == 2)) kinds.push_back(k);
          std::sort(kinds.begin(), kinds.end());
          long pi = 0;
          do {
            std::vector<Req> reqs;
            for (int k : kinds) reqs.push_back(Req{ k == 2 ? AddSens : (Kind)k, (int)(pi % o.N), false });
            // then once more in the same order with the other subset (second use after every kind has been used)
            for (int k : kinds) reqs.push_back(Req{ k == 2 ? AddSens : (Kind)k, (int)((pi + 1) % o.N), false });
            static const int fills[] = { 0x00, 0xFF, 0x01 };
            // supplied sensitivities (no sensitivity pass in set_up, so the first request meets the flags as constructed):
            // every fill pattern for every order; otherwise the patterns alternate
            for (int f = 0; f < 3; ++f) {
              if (!supplied && f != pi % 3) continue;
              in.o.fill = fills[f];
              run(tr, sys[t], m, in, &reqs, rng, scratch, false);
            }
            ++pi;
          } while (std::next_permutation(kinds.begin(), kinds.end()));
        }
  } else if (mode == "regeo") {
    // base geometry (8 detectors, 3 rings, 3 tangential positions, 3 TOF bins) against one changed in ONE dimension,
    // in both directions: more TOF bins, no TOF, fewer segments, more views, more tangential positions
    std::vector<Sys> g;
    g.push_back(make_sys_geo(8, 3, 3, 3));
    g.push_back(make_sys_geo(8, 3, 3, 5));
    g.push_back(make_sys_geo(8, 3, 3, 0));
    g.push_back(make_sys_geo(8, 2, 3, 3));
    g.push_back(make_sys_geo(12, 3, 3, 3));
    g.push_back(make_sys_geo(8, 3, 5, 3));
    static const int fills[] = { 0x00, 0xFF, 0x01 };
    long k = 0;
    for (long rep = 0; rep < count; ++rep)
      for (size_t v = 1; v < g.size(); ++v) {
        run_regeo(tr, g[0], g[v], rng, fills[k++ % 3]);
        run_regeo(tr, g[v], g[0], rng, fills[k++ % 3]);
      }
  } else if (mode == "setters") {
    // set-up protocol: every public setter x non-TOF / TOF x storage fill patterns
    for (long rep = 0; rep < count; ++rep)
      for (int t = 0; t < 2; ++t)
        for (int st = 0; st < num_setters; ++st) {
          Opts o;
          o.tofsens = t == 1 && rng.coin();
          o.additive = true;
          o.norm = 1 + rng.range(0, 3);
          o.zero = rng.coin();
          o.maxseg = 1;
          o.N = 2;
          o.uss = true;
          o.prior = false;
          o.family = 1;
          o.approx = true;
          static const int fills[] = { 0x00, 0xFF, 0x01 };
          o.fill = fills[(st + rep) % 3];
          Matrix m = make_matrix(tr, sys[t], rng, 2, 2, true);
          Inst in = make_inst(sys[t], m, rng, o);
          std::vector<Req> reqs;
          for (Kind k : { Value, Grad, GradPlusSens, Hess, ApproxHess, Sens }) reqs.push_back(Req{ k, (int)rng.range(0, 1), false });
          run(tr, sys[t], m, in, &reqs, rng, scratch, false, st);
        }
  } else {
    fprintf(stderr, "unknown mode\n");
    return 2;
  }
  tr.emit(vh::Json("End").num("lines", tr.lines));
  return 0;
}
