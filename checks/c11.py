"""C11 -- arrays behave as index-range maps under any history and stay in bounds.
1. TLC model-checks the specifications themselves: VecAbstract (declarative clauses of the property for
   every operation in every state reachable by a bounded history), VecImpl (pointer-level transcription of
   VectorWithOffset.inl: memory safety + refinement of VecAbstract), ArrayND (nested ranges, row-major
   iteration, growth).  MC_VecAbstract also writes the operation alphabet.
2. The driver (ASan/UBSan) steps real VectorWithOffset<int>, NumericVectorWithOffset<float>, Array<1,float>
   through every edge of the bounded state graph over that alphabet, and through long seeded random
   histories (also Array<2..4,float>); it only records what the API answers.
3. TLC (Trace_VecAbstract / Trace_ArrayND) must explain every recorded line; a sanitizer report is an
   Abort line, which no specification explains."""
import concurrent.futures as cf
import json, os, re, shutil, time
from . import lib

SAN_ENV = {"UBSAN_OPTIONS": "print_stacktrace=1:halt_on_error=1:abort_on_error=1:exitcode=78",
           "ASAN_OPTIONS": "detect_leaks=0:abort_on_error=0:exitcode=77:allocator_may_return_null=1"}
MAX_RESTARTS = 12
TYPES1 = ["VI", "NF", "A1"]


def _summary(out):
    m = re.findall(r"^\{\"evaluations\".*\}$", out, re.M)
    return json.loads(m[-1]) if m else {}


def _last_line(path):
    try:
        with open(path, "rb") as f:
            f.seek(0, 2)
            n = f.tell()
            f.seek(max(0, n - 200000))
            ls = f.read().decode("utf8", "replace").splitlines()
        return ls[-1] if ls else ""
    except OSError:
        return ""


def _repair(path):
    """a driver that died inside a sanitizer report flushed an Abort line; drop a torn last line if any"""
    good = []
    with open(path) as f:
        for l in f:
            if l.endswith("}\n"):
                good.append(l)
    with open(path, "w") as f:
        f.writelines(good)


def bfs_replay(ctx, exe, ty, sel, alpha, depth, K, env):
    """every edge of the implementation's state graph to `depth`; a sanitizer abort ends the process:
    the edge is recorded as Abort (by the driver's death callback) and skipped on the restart"""
    poison = os.path.join(ctx.work, "poison_%s_%s.txt" % (ty, sel))
    open(poison, "w").close()
    outs, summ, aborts = [], {}, 0
    for k in range(MAX_RESTARTS + 1):
        out = os.path.join(ctx.work, "bfs_%s_%s.%d.ndjson" % (ty, sel, k))
        rc, o = lib.run_driver(exe, ["bfs", ty, alpha, depth, out, poison, K], env=env, timeout=2400, allow_fail=True)
        if rc == 0:
            outs.append(out)
            summ = _summary(o)
            break
        if rc in (77, 78, 79) and '"e":"Abort"' in _last_line(out):
            aborts += 1
            # keep only the Abort line of an interrupted run (the restart repeats everything else)
            ab = os.path.join(ctx.work, "bfs_%s_%s.%d.abort.ndjson" % (ty, sel, k))
            with open(ab, "w") as f:
                f.write(_last_line(out) + "\n")
            os.remove(out)
            outs.append(ab)
            continue
        raise lib.ModelFailure("driver bfs %s failed rc=%d:\n%s" % (ty, rc, o[-2000:]))
    return outs, summ, aborts


def rand_traces(ctx, exe, mode, ty, nseq, length, env):
    outs, first, evals, aborts = [], 0, 0, 0
    for k in range(MAX_RESTARTS + 1):
        if first >= nseq:
            break
        out = os.path.join(ctx.work, "%s_%s.%d.ndjson" % (mode, ty, k))
        rc, o = lib.run_driver(exe, [mode, ty, out, first, nseq - first, length], env=env, timeout=2400, allow_fail=True)
        outs.append(out)
        if rc == 0:
            evals += _summary(o).get("evaluations", 0)
            break
        last = _last_line(out)
        if rc in (77, 78, 79) and '"e":"Abort"' in last:
            aborts += 1
            _repair(out)
            m = re.search(r'"seq":(\d+)', last)
            first = int(m.group(1)) + 1 if m else nseq
            continue
        raise lib.ModelFailure("driver %s %s failed rc=%d:\n%s" % (mode, ty, rc, o[-2000:]))
    return outs, evals, aborts


_OP1 = re.compile(r'\{"e":"(?:Edge|Step)",("ty":"\w+","op":\{[^{}]*\},"res":-?\d+,"err":(?:true|false))')
_OPN = re.compile(r'\{"e":"Step",("ty":"N\d","op":\{"k":"\w+","t":\d,"a":-?\d+,"b":-?\d+,"c":\[[-\d,]*\])')


class _Lazy:
    """records of a chunk, parsed on demand"""
    def __init__(self, lines):
        self.lines = lines

    def __getitem__(self, i):
        return json.loads(self.lines[i])


def _replay_file(ctx, recs, i, name):
    """two-line reproduction of the unexplained record recs[i]: the state it started from + the record"""
    r = recs[i]
    out = []
    if r.get("e") in ("Edge", "Step"):
        j = i - 1
        while j >= 0 and not (recs[j].get("e") in ("Pre", "Init") or (recs[j].get("e") == "Step" and r["e"] == "Step")):
            j -= 1
        if j >= 0:
            pre = {"e": "Pre", "ty": r.get("ty", ""), "post": recs[j]["post"]}
            for key in ("D", "K", "hist"):
                if key in recs[j]:
                    pre[key] = recs[j][key]
            out.append(pre)
    out.append(r)
    p = os.path.join(ctx.work, name)
    lib.write_ndjson(p, out)
    return p


def _module_for(path):
    with open(path) as f:
        head = f.read(4000)
    return "Trace_ArrayND" if re.search(r'"ty":"N\d"', head) else "Trace_VecAbstract"


def validate(ctx, files, jobs):
    """TLC explains every line or names it; returns number of lines validated"""
    known_ids = {k["id"]: k for k in ctx.known}
    by_mod = {}
    for p in files:
        by_mod.setdefault(_module_for(p), []).append(p)
    for mod, ps in by_mod.items():
        def one(p, mod=mod):
            ok, r, at = lib.validate_trace(mod, p, timeout=2400, heap="3g", env={"JAVA_TOOL_OPTIONS": "-Xss32m"})
            return (p, ok, r, at)
        with cf.ThreadPoolExecutor(max(1, jobs)) as ex:
            res = list(ex.map(one, ps))
        for (p, ok, r, at) in res:
            with open(p) as f:
                lines = f.readlines()
            recs = _Lazy(lines)
            ctx.evaluations += len(lines)
            ctx.transitions += r.generated
            ctx.states += r.distinct
            if at is not None or not ok:
                ctx.violation("trace not consumed by %s (line %s)" % (mod, at), p)
                continue
            # coverage counters: histories, distinct (type, operation with arguments, error flag) triples
            for line in lines:
                if line.startswith('{"e":"Edge"'):
                    ctx.traces += 1
                elif line.startswith('{"e":"Config"') and '"mode":"bfs"' not in line:
                    ctx.traces += 1
                m = _OP1.match(line) or _OPN.match(line)
                if m:
                    ctx.distinct.add(m.group(1))
            bad = lib.unexplained(r)
            new = []
            for (ln, cls) in bad:
                if cls in known_ids:
                    ctx.known_hits[cls] = known_ids[cls].get("what", "")
                else:
                    new.append(ln)
            if new:
                ctx.extra["unexplained_lines"] = ctx.extra.get("unexplained_lines", 0) + len(new)
            for ln in new[:3]:
                if len(ctx.violations) >= 12:
                    break
                rec = recs[ln - 1]
                rp = _replay_file(ctx, recs, ln - 1, "violation-%s-%d.ndjson" % (os.path.basename(p).replace(".ndjson", ""), ln))
                what = "sanitizer report / abort inside %s" % json.dumps(rec.get("op")) if rec.get("e") == "Abort" \
                    else "recorded step not explained by the specification: %s" % json.dumps({k: rec.get(k) for k in ("ty", "op", "err")})
                ctx.violation(what[:300], rp, rec=rec)
            if len(new) > 3:
                ctx.notes.append("%s: %d unexplained lines" % (os.path.basename(p), len(new)))


def run(ctx):
    q = ctx.quick
    env = dict(SAN_ENV)
    env["VERIF_SEED"] = str(ctx.seed)
    if ctx.replay:
        validate(ctx, [ctx.replay], 1)
        ctx.states = max(ctx.states, 1)
        ctx.transitions = max(ctx.transitions, 1)
        ctx.sample(lib.read_ndjson(ctx.replay)[-1])
        return ctx.finish(rule="replay of one recorded step")
    workers = 4 if q else 8
    # bounded-exhaustive passes: (name, alphabet, history length, configuration of MC_VecAbstract)
    if q:
        passes = [("full", "full", 3, "MC_VecAbstract"), ("core", "core", 4, "MC_VecAbstract")]
    else:
        passes = [("full", "full", 4, "MC_VecAbstract_thorough"), ("core", "core", 5, "MC_VecAbstract_thorough"),
                  ("wide", "full", 3, "MC_VecAbstract_wide")]
    alphas, blocks = {}, {}
    for name, sel, depth, cfg in passes:
        # the alphabet of the pass: written by TLC from the same module (history length 0: no exploration)
        alphas[name] = os.path.join(ctx.work, "alphabet_%s.ndjson" % name)
        r0 = lib.tlc("MC_VecAbstract", cfg=cfg, workers=1, timeout=600, heap="2g",
                     env={"ALPHABET_OUT": alphas[name], "C11_SEL": sel, "C11_DEPTH": "0"})
        if not r0.ok or not os.path.exists(alphas[name]):
            raise lib.ModelFailure("alphabet generation failed:\n" + r0.out[-2000:])
        with open(os.path.join(lib.SPEC, cfg + ".cfg")) as f:
            blocks[name] = int(re.search(r"\bK = (\d+)", f.read()).group(1))     # cells of the external block

    # 1. model checks of the specifications (in the background while the driver is built and run)
    def model_checks():
        res = []
        if os.environ.get("C11_SKIP_MC"):
            return res
        for name, sel, depth, cfg in passes:
            res.append(("MC_VecAbstract", "%s: %s alphabet, histories <= %d" % (cfg, sel, depth),
                        lib.tlc("MC_VecAbstract", cfg=cfg, workers=workers, timeout=2400, heap="6g",
                                env={"C11_SEL": sel, "C11_DEPTH": str(depth)})))
        for mod in ("MC_VecImpl", "MC_ArrayND"):
            if os.path.exists(os.path.join(lib.SPEC, mod + ".tla")):
                c = mod if q else mod + "_thorough"
                res.append((mod, c, lib.tlc(mod, cfg=c, workers=workers, timeout=2400, heap="6g")))
        return res
    pool = cf.ThreadPoolExecutor(8)
    mc_future = pool.submit(model_checks)

    # 2. record
    # (C11_DRIVER / C11_SKIP_MC: used only by the local mutation trials described in notes/C11.md)
    exe = os.environ.get("C11_DRIVER") or lib.build_driver("c11_arrays", san=True, extra=["-fwrapv"])
    futs = {}
    for ty in TYPES1:
        for name, sel, depth, cfg in passes:
            futs[("bfs", ty + "-" + name)] = pool.submit(bfs_replay, ctx, exe, ty, name, alphas[name], depth, blocks[name], env)
        futs[("rand", ty)] = pool.submit(rand_traces, ctx, exe, "rand", ty, 30 if q else 150, 300 if q else 1000, env)
    # multi-dimensional arrays: (dimension, sequences, length)
    for d, n, ln in ([(2, 6, 100), (3, 6, 100)] if q else [(2, 40, 250), (3, 40, 200), (4, 20, 150)]):
        futs[("nd", str(d))] = pool.submit(rand_traces, ctx, exe, "nd", str(d), n, ln, env)
    files = []
    aborts = 0
    for key, f in futs.items():
        r = f.result()
        files += r[0]
        aborts += r[2]
        if key[0] == "bfs":
            ctx.extra.setdefault("bfs", {})[key[1]] = r[1]
    lib.log('C11: recorded %d files, %.0fs' % (len(files), time.time() - ctx.t0))
    # 3. validate
    chunks = []
    for p in files:
        boundary = "Pre" if os.path.basename(p).startswith("bfs") else "Config"
        nd = os.path.basename(p).startswith("nd")
        chunks += [c[0] for c in lib.split_trace(p, os.path.join(ctx.work, "chunks"), maxlines=600 if nd else 15000, boundary=boundary)]
    validate(ctx, chunks, 4 if q else 8)
    lib.log('C11: validated %d chunks, %.0fs' % (len(chunks), time.time() - ctx.t0))
    for mod, cfg, r in mc_future.result():
        ctx.mc_must_pass(r, "%s (%s)" % (mod, cfg), mod)
    pool.shutdown()
    lib.log('C11: model checks done, %.0fs' % (time.time() - ctx.t0))
    for c in chunks[:1]:
        recs = lib.read_ndjson(c)
        for rec in recs[5:2000:400]:
            ctx.sample({k: rec.get(k) for k in ("e", "ty", "op", "err", "post")})
    ctx.extra["sanitizer_aborts"] = aborts
    ctx.extra["passes"] = ["%s: %s alphabet (%d operations, block of %d cells), histories <= %d" % (n, sel, sum(1 for _ in open(alphas[n])), blocks[n], d)
                           for n, sel, d, c in passes]
    ctx.exhaustive = False
    ctx.assumptions = ["the observable fields of the two objects (index range, contents, capacity, capacity_min_index, ownership, "
                       "block cell) determine their future behaviour: a history is not extended when they were reached before",
                       "values are small integers (exact in float); uninitialised / overflowed / non-integer values are recorded as "
                       "'unspecified' and never compared", "ASan/UBSan detect the out-of-bounds accesses that occur"]
    return ctx.finish(rule="traces = histories executed on the real classes (every edge of the bounded state graph is one history, every "
                      "random sequence is one); evaluations = recorded lines validated by TLC; distinct_nontrivial = distinct (type, "
                      "operation with arguments, error flag) triples whose step changed the observable state or reported an error")
