"""C20 - component-based normalisation: conversions are lossless, components multiply, ML steps descend.
1. TLC model-checks spec/MLNorm.tla itself (MC_MLNorm): the theorems about the fan representation for
   every small configuration with and without virtual crystals (M0-M5) and the algebra / fixed points of
   the ML updates on tiny scanners (F1-F4).
2. TLC generates the replay instances (Gen_MLNorm: scanner / data configurations and their tables of
   geometric classes); the driver builds the real scanners and projection data, runs the real functions
   of stir/ML_norm.h on them (a distinct integer per bin, powers of two, dyadic data) and records
   arguments and results exactly; TLC (Trace_MLNorm) must explain every recorded line.
Python only orchestrates, counts and maps TLC's classes to VIOLATION / KNOWN-FINDING."""
import json, os
from . import lib

EVENTS = ["MakeFan", "SetFan", "ApplyEff", "ApplyGeo", "ApplyBlock", "FanSums", "IterEff", "IterGeo", "IterBlock", "KLStep",
          "DetPair", "SetDetPair", "ProjFanSums", "EffFanSums", "IterEffNoModel", "MLE", "MLEStep", "NormEff", "Reuse", "Abort"]
MUST = [e for e in EVENTS if e != "Abort"]


def scenario_slice(recs, line):
    start = 0
    for k in range(line - 1, -1, -1):
        if recs[k]["e"] == "Config":
            start = k
            break
    return recs[start:line]


def brief(rec):
    return {k: (v if not isinstance(v, list) or len(v) <= 12 else "[%d values]" % len(v)) for k, v in rec.items()}


def run(ctx):
    q = ctx.quick
    # ---------------------------------------------------------------- 1. model check of the specification
    cfg = "MC_MLNorm" if q else "MC_MLNorm_thorough"
    r = lib.tlc("MC_MLNorm", cfg=cfg, workers=4 if q else 8, timeout=1500, heap="6g")
    ctx.mc_must_pass(r, "theorems M0-M5 (fan representation), F1-F4 (ML algebra) (%s)" % cfg, "MC_MLNorm")
    if r.depth < 8:     # configuration, memo, six theorems of the "geo" family: every theorem was evaluated
        raise lib.ModelFailure("MC_MLNorm reached depth %d only: not every theorem was evaluated" % r.depth)
    # a specification whose theorems cannot fail proves nothing: the same model with the fan size after gap
    # removal one too small must violate M2/M3
    rb = lib.tlc("MC_MLNorm", cfg="MC_MLNorm_smallfan", workers=2, timeout=600, heap="4g")
    if not rb.violation:
        raise lib.ModelFailure("MC_MLNorm with a fan that is too small violates no theorem: the model is vacuous")
    ctx.notes.append("model with the fan one too small violates a theorem (as it must)")
    # ---------------------------------------------------------------- 2. generate, record
    env = {"VERIF_SEED": str(ctx.seed)}
    if ctx.replay:
        traces = [ctx.replay]
    else:
        gen = os.path.join(ctx.work, "gen.ndjson")
        rg = lib.tlc("Gen_MLNorm", cfg="Gen_MLNorm" if q else "Gen_MLNorm_thorough", workers=1, timeout=900, heap="6g", env={"GEN": gen})
        if not rg.ok or not os.path.exists(gen):
            raise lib.ModelFailure("Gen_MLNorm failed:\n" + rg.out[-3000:])
        ctx.add_mc(rg, "Gen_MLNorm (configurations and geometric classes)")
        exe = lib.build_driver("c20_mlnorm")
        t = os.path.join(ctx.work, "replay.ndjson")
        # thorough: all option sets (geometric / block step on / off, 1-4 outer iterations) of the whole estimation function
        lib.run_driver(exe, ["replay" if q else "replayfull", gen, t], env=env, timeout=1200)
        # block factors on a fan that contains pairs of crystals of one block (known finding C20-block-samepair)
        t2 = os.path.join(ctx.work, "samepair.ndjson")
        lib.run_driver(exe, ["samepair", t2], env=env, timeout=600)
        traces = [t, t2]
        if not q:
            # the same replay (quick family) and the same-block case against the ASan/UBSan-instrumented STIR
            # libraries: a memory error inside the code under test ends the child process of that configuration
            # and becomes an Abort line, which the specification rejects
            exe_san = lib.build_driver("c20_mlnorm", santree=True)
            gen_q = os.path.join(ctx.work, "gen_quick.ndjson")
            rq = lib.tlc("Gen_MLNorm", cfg="Gen_MLNorm", workers=1, timeout=900, heap="6g", env={"GEN": gen_q})
            if not rq.ok or not os.path.exists(gen_q):
                raise lib.ModelFailure("Gen_MLNorm (quick family) failed:\n" + rq.out[-3000:])
            t3 = os.path.join(ctx.work, "replay_san.ndjson")
            lib.run_driver(exe_san, ["replay", gen_q, t3], env={"VERIF_SEED": str(ctx.seed + 1000)}, timeout=1500)
            t4 = os.path.join(ctx.work, "samepair_san.ndjson")
            lib.run_driver(exe_san, ["samepair", t4], env=env, timeout=600)
            traces += [t3, t4]
    # ---------------------------------------------------------------- 3. validate
    chunks = []
    for t in traces:
        chunks += lib.split_trace(t, os.path.join(ctx.work, "chunks"), maxlines=90 if q else 110)
    res = lib.validate_parallel("Trace_MLNorm", [c[0] for c in chunks], jobs=4 if q else 8, timeout=1500, heap="3g")
    known_ids = {k["id"] for k in ctx.known}
    count = {e: 0 for e in EVENTS}
    nconf = 0
    for (p, ok, r, at) in res:
        recs = lib.read_ndjson(p)
        ctx.evaluations += len(recs)
        ctx.transitions += r.generated
        ctx.states += r.distinct
        cid = None
        for rec in recs:
            if rec["e"] == "Config":
                nconf += 1
                ctx.traces += 1
                cid = tuple(rec[k] for k in ("N", "R", "pbT", "vT", "pbA", "vA", "maxSeg", "minTang", "maxTang"))
                if nconf % 5 == 1:
                    ctx.sample({k: rec[k] for k in ("name", "N", "R", "pbT", "vT", "pbA", "vA", "maxSeg", "minTang", "maxTang", "geo", "block")})
            elif rec["e"] == "ConfigRejected":
                ctx.traces += 1
            elif cid is not None:
                if rec["e"] in count:
                    count[rec["e"]] += 1
                ctx.nontrivial(str(cid) + rec["e"] + str(rec.get("apply", "")) + str(rec.get("src", "")) + str(rec.get("it", "")) + str(rec.get("seg", "")) + str(rec.get("ax", "")) +
                               str(rec.get("kind", "")) + str(rec.get("j", "")) + str(rec.get("round", "")) + str(rec.get("data", "")) + str([rec.get(k) for k in ("exact", "doGeo", "doBlock", "niter", "neff")] if rec["e"] == "MLE" else ""))
        if at is not None or not ok:
            ctx.violation("trace not consumed (line %s)" % at, p)
            continue
        newbad = []
        for (ln, cls) in lib.unexplained(r):
            if cls in known_ids:
                ctx.known_hits[cls] = [x for x in ctx.known if x["id"] == cls][0]["what"]
            else:
                newbad.append((ln, cls))
        if newbad:
            ln, cls = newbad[0]
            rp = os.path.join(ctx.work, "violation-" + os.path.basename(p))
            lib.write_ndjson(rp, scenario_slice(recs, ln))
            ctx.violation("%d recorded call(s) not explained by MLNorm.tla (class %s), first (line %d): %s" % (
                len(newbad), cls, ln, json.dumps(brief(recs[ln - 1]))[:500]), rp)
    ctx.extra["configurations"] = nconf
    ctx.extra["calls"] = count
    if not ctx.replay and not ctx.violations:
        idle = [e for e in MUST if count[e] == 0]
        if idle:
            raise lib.ModelFailure("no recorded call of %s: the replay is vacuous" % idle)
    ctx.exhaustive = False
    ctx.assumptions = [
        "uniqueness of the in-plane coordinates of a detector pair (Geometry T1) is model-checked by C01 for small rings; here the "
        "bin<->entry tables are re-verified for every replayed configuration by the forward map and a count",
        "virtual crystals exist only for predefined scanner types: generated scanners with gaps are resized Siemens mMR / ECAT 1080 objects (one virtual crystal per block)",
        "fan size after gap removal smaller than the number of physical detectors, block periods dividing the fan data (documented preconditions of FanProjData / GeoData3D)"]
    return ctx.finish(rule="one evaluation = one recorded call of a function of stir/ML_norm.h (conversion to / from fan data, apply / un-apply of "
                      "efficiencies, geometric and block factors, fan sums, one ML update, one KL evaluation, one call of the whole estimation function or "
                      "the state it wrote after one component step) with all arguments and results, explained by "
                      "TLC; distinct_nontrivial = distinct (configuration, kind of call, arguments' register) combinations")
