"""C12 — bin coordinates, lines of response and detector positions agree.
1. TLC proves the theorems of Coordinates.tla (closed-form coordinates = averages over the detector pairs
   of Geometry.tla; the idealised nearest-detector round trip only yields near bins or the allowed
   misses) for every small configuration.
2. The driver records what the real geometry classes answer for the whole scanner database and for
   generated scanners (coordinates in natural units, reported lines, round trips, detector-pair lines,
   TOF bins, arc correction of recorded rows), both for fresh objects and along RE-USE HISTORIES of the
   same object (ProjDataInfo after reduce_segment_range (also asymmetric) / set_min,max_tangential_pos_num / set_num_views +
   set_azimuthal_angle_offset / set_tof_mash_factor / set_ring_spacing / set_bed_position / arc-corrected:
   set_tangential_sampling, set_ring_radii_for_all_views; one ArcCorrection object set up several times in a
   row, also across scanners); TLC (Trace_Coordinates) must explain every line exactly as for a fresh object."""
import os, json
from . import lib

KNOWN_WHAT = {}


def _bins(rec):
    e = rec["e"]
    if e == "Row":
        return len(rec.get("s", rec.get("fs", [])))
    if e == "RT":
        return len(rec["ok"])
    if e == "TB":
        return len(rec["j"])
    if e == "Arc":
        return len(rec["out"])
    return 1


def run(ctx):
    q = ctx.quick
    # 1. model check of the specification itself
    cfg = "MC_Coordinates" if q else "MC_Coordinates_thorough"
    r = lib.tlc("MC_Coordinates", cfg=cfg, workers=4 if q else 8, timeout=2400, heap="6g" if q else "12g")
    ctx.mc_must_pass(r, "theorems C1-C6 (%s)" % cfg, "MC_Coordinates")
    # 2. record
    traces = []
    if ctx.replay:
        traces = [ctx.replay]
    else:
        exe = lib.build_driver("c12_coords")
        env = {"VERIF_SEED": str(ctx.seed)}
        t1 = os.path.join(ctx.work, "db.ndjson")
        lib.run_driver(exe, ["db", t1, 8 if q else 40, 0 if q else 1, ctx.work], env=env, timeout=1500)
        t2 = os.path.join(ctx.work, "arc.ndjson")
        lib.run_driver(exe, ["arc", t2, 10 if q else 40, 0 if q else 1], env=env, timeout=900)
        traces = [t1, t2]
    # 3. validate (chunks in parallel)
    chunks = []
    for t in traces:
        chunks += lib.split_trace(t, os.path.join(ctx.work, "chunks"), maxlines=1400 if q else 2500)
    res = lib.validate_parallel("Trace_Coordinates", [c[0] for c in chunks], jobs=4 if q else 8, timeout=2400)
    known_ids = {k["id"]: k for k in ctx.known}
    nconf = 0
    kinds = {}
    for (p, ok, r, at) in res:
        recs = lib.read_ndjson(p)
        ctx.traces += 1
        ctx.transitions += r.generated
        ctx.states += r.distinct
        cid = None
        for rec in recs:
            if rec["e"] in ("Config", "ArcConfig"):
                if rec["e"] == "Config":
                    cid = (rec["name"], rec["geom"], rec["arc"], rec["N"], rec["R"], rec["span"], rec["ge"], rec["maxDelta"], rec["mash"],
                           rec["tofMash"], rec["minTang"], rec["maxTang"], rec["tilt6"])
                else:
                    cid = (rec["name"], "arc-correction", rec["N"], rec["variant"], rec["t0"], rec["t1"], rec["o0"], rec["o1"])
                nconf += 1
                ctx.evaluations += 1
                # re-use histories: the same object after range / view / TOF changes, or set up again
                hk = "hist:" + (rec.get("hist", "fresh") if rec["e"] == "Config" else ("arc-reused" if rec.get("reuse", 0) > 0 else "arc-fresh"))
                kinds[hk] = kinds.get(hk, 0) + 1
                if nconf % 61 == 1:
                    ctx.sample({k: rec[k] for k in rec if k not in ("segs", "eb", "ebr", "es")})
            else:
                n = _bins(rec)
                ctx.evaluations += n
                key = rec["e"] + str(rec.get("kind", ""))
                kinds[key] = kinds.get(key, 0) + n
                if cid:
                    ctx.nontrivial(str(cid) + key)
        if at is not None or not ok:
            ctx.violation("trace not consumed (line %s)" % at, p)
            continue
        bad = lib.unexplained(r)
        newbad = []
        for (ln, cls) in bad:
            if cls in known_ids:
                ctx.known_hits[cls] = known_ids[cls]["what"][:220]
            else:
                newbad.append(ln)
        if newbad:
            # replay file: the configuration line + the unexplained lines
            cfgline, out = None, []
            for i, rec in enumerate(recs, 1):
                if rec["e"] in ("Config", "ArcConfig"):
                    cfgline = rec
                if i in newbad[:20]:
                    if cfgline is not None and cfgline not in out:
                        out.append(cfgline)
                    if rec is not cfgline:
                        out.append(rec)
            rp = os.path.join(ctx.work, "violation-" + os.path.basename(p))
            lib.write_ndjson(rp, out)
            last = out[-1]
            brief = {k: last[k] for k in last if not isinstance(last[k], list)}
            ctx.violation("%d recorded lines not explained by Coordinates.tla, first: %s" % (len(newbad), json.dumps(brief)[:240]), rp)
    # vacuity guard: every kind of observation the driver claims to record must be present
    if not ctx.replay:
        missing = [k for k in ("Row", "RT0", "RT1", "RT2", "PL", "TB", "Arc0", "Arc1", "Arc2", "Arc3",
                                    "hist:fresh", "hist:ranges", "hist:views-tof", "hist:params", "hist:arc-fresh", "hist:arc-reused") if kinds.get(k, 0) == 0]
        if missing or nconf < 50:
            raise lib.ModelFailure("recorded trace lacks observations of kind %s (%d configurations)" % (missing, nconf))
    ctx.extra["configurations"] = nconf
    ctx.extra["observations_by_kind"] = kinds
    ctx.exhaustive = False
    ctx.assumptions = [
        "closed-form coordinates = detector-pair averages (C1, C2) and the round-trip theorem (C4, C5) are model-checked for N <= %d detectors, R <= %d rings (N = 4 up to %d rings) and assumed for larger scanners, where every recorded bin is compared with the closed forms" % ((6, 3, 5) if q else (8, 3, 6)),
        "agreement is decided in natural units with residual <= 1e-3 unit; quantities involving the chord length (tan theta, end points of the reported line, detector-pair lines) only for |s| <= 0.95 R",
        "arc-corrected bins whose line does not cross the detector ring (|s| >= R) have no line of response: nothing claimed",
        "Blocks/Generic: only the discrete clauses (round trip, monotone/antisymmetric s on the representation next to the view angle, opposite obliqueness) are decided; Generic scanners are the cylindrical lay-out handed over as a crystal map",
        "stateful objects are exercised along re-use histories (recorded events carry the parameters of the CURRENT state); set_num_views is used the documented way, together with set_azimuthal_angle_offset (as SSRB does)",
        "templates inside the quantifier: complete segments (no C01-truncseg class), non-arc-corrected tangential range <= 0.8 N bins",
    ]
    return ctx.finish(rule="one evaluation = one bin of a recorded sinogram row (coordinates / reported line / round trip of that bin), one detector-pair line, "
                      "one TOF sample point, one output bin of an arc-corrected row, or one configuration line; "
                      "distinct_nontrivial = distinct (configuration, kind of observation) combinations validated")
