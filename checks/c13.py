"""C13 — bin normalisation: apply and undo are inverse and match the bin efficiency.
1. TLC model-checks Norm.tla itself (MC_Norm): on a tiny acquisition system every history of apply / undo calls
   on related viewgrams (every symmetry grouping) and on whole data sets, for every single class and every
   chain, leaves each bin at original * efficiency^(#undo - #apply) with the ABSTRACT efficiency (chain =
   product, non-TOF factors ignore the TOF index, trivial changes nothing, set-up state machine).
2. The driver records what the real classes do (FromProjData, a WithCalibration class with the base-class
   default apply/undo, PETFromComponents, FromAttenuationImage, Chained 1-3 deep, Trivial): mode "exact" with
   power-of-two factors and data (exponents, encoding E), mode "att" with attenuation images (fixed-point
   logarithms, encoding F).  TLC (Trace_Norm) must explain every recorded line."""
import os, json, re
from . import lib

STATE_EVENTS = ("Config", "Obj", "Mod", "SetUp", "SetCalib", "AttGeom", "AttImg", "AttTab")
MC_ACTIONS = ("DoSetUp", "DoRelated", "DoRelatedSmall", "DoWhole", "DoSetCalib", "DoModify")


def _sig(o):
    """class signature of an object tree, e.g. Chain(PD,Chain(Trivial,Cal))"""
    if o.get("cls") == "Chain":
        return "Chain(%s,%s)" % (_sig(o["first"]), _sig(o["second"]))
    if o.get("cls") == "PD":
        return "PD-tof" if o["g"]["tofMash"] > 0 else "PD"
    if o.get("cls") == "Comp":
        return "Comp%d%d%d" % (o["hasEff"], o["hasGeo"], o["hasBlk"])
    return o.get("cls", "?")


def _short(rec):
    out = {}
    for k, v in rec.items():
        if k in ("in", "out", "lg", "effs"):
            s = json.dumps(v, separators=(",", ":"))
            out[k] = s if len(s) <= 160 else s[:160] + "..."
        elif k == "obj":
            out[k] = _sig(v)
        else:
            out[k] = v
    return out


def _model_check(ctx, cfg, workers, timeout):
    r = lib.tlc("MC_Norm", cfg=cfg, workers=workers, timeout=timeout, heap="6g", coverage=True)
    ctx.mc_must_pass(r, "per-bin efficiency law for every history (%s)" % cfg, "MC_Norm")
    # vacuity guard: every action of the model (each disjunct of Next: DoSetUp, DoRelated, DoRelatedSmall, DoWhole,
    # DoSetCalib) must have been taken.  TLC attributes disjuncts under a quantifier to "Next (line col line col)".
    acts = re.findall(r"<(\w+) line \d+, col \d+ to line \d+, col \d+ of module MC_Norm(?: \((\d+) \d+ \d+ \d+\))?>: (\d+):(\d+)", r.out)
    taken = [(a, ln, int(d), int(g)) for (a, ln, d, g) in acts if a != "Init"]
    if len(taken) < len(MC_ACTIONS):
        raise lib.ModelFailure("MC_Norm (%s): coverage lists %d actions, expected %d" % (cfg, len(taken), len(MC_ACTIONS)))
    for (a, ln, d, g) in taken:
        if g == 0:
            raise lib.ModelFailure("MC_Norm (%s): action %s (line %s) was never taken" % (cfg, a, ln))


def run(ctx):
    q = ctx.quick
    # the drivers are built while TLC model-checks (the shared build trees are behind file locks that other checks
    # may hold for minutes)
    import concurrent.futures as cf
    pool = cf.ThreadPoolExecutor(2)
    fut_exe = None if ctx.replay else pool.submit(lib.build_driver, "c13_norm")
    fut_san = None if (ctx.replay or q) else pool.submit(lib.build_driver, "c13_norm", None, False, False, False, (), True)
    # 1. model check of the specification itself
    if q:
        _model_check(ctx, "MC_Norm", 4, 600)                # chains <= 2, one view, one tangential position
    else:
        _model_check(ctx, "MC_Norm_thorough", 8, 1100)      # chains <= 3, two tangential positions
        _model_check(ctx, "MC_Norm_views", 8, 1100)         # two views: the groupings that relate views
    # 2. record
    if ctx.replay:
        traces = [ctx.replay]
    else:
        exe = fut_exe.result()
        traces = []
        seeds = [ctx.seed] if q else [ctx.seed, ctx.seed + 100]
        for sd in seeds:
            for mode in ("exact", "att"):
                t = os.path.join(ctx.work, "%s-%d.ndjson" % (mode, sd))
                lib.run_driver(exe, [mode, t, 0 if q else 1], env={"VERIF_SEED": str(sd)}, timeout=900)
                traces.append(t)
        if not q:
            # the same driver against the ASan/UBSan-instrumented STIR libraries: an access outside an array inside
            # the normalisation classes stops the run and leaves an Abort line, which the specification never explains
            exes = fut_san.result()
            for mode in ("exact", "att"):
                t = os.path.join(ctx.work, "%s-san.ndjson" % mode)
                rc, out = lib.run_driver(exes, [mode, t, 0], env={"VERIF_SEED": str(ctx.seed + 7)}, timeout=1500, allow_fail=True)
                if rc != 0:
                    with open(t, "a") as f:
                        f.write(json.dumps({"e": "Abort", "rc": rc, "why": out[-400:]}) + "\n")
                traces.append(t)
    pool.shutdown(wait=False)
    # 3. validate (chunks in parallel)
    chunks = []
    for t in traces:
        chunks += lib.split_trace(t, os.path.join(ctx.work, "chunks"), maxlines=1500 if q else 4000)
    res = lib.validate_parallel("Trace_Norm", [c[0] for c in chunks], jobs=4 if q else 8, timeout=1500)
    known_ids = {k["id"] for k in ctx.known}
    nconf, chords, per_event, nsample = 0, 0, {}, 0
    for (p, ok, r, at) in res:
        recs = lib.read_ndjson(p)
        ctx.traces += 1
        ctx.evaluations += len(recs)
        ctx.transitions += r.generated
        ctx.states += r.distinct
        m = re.search(r'"STATS",\s*(\d+)', r.out)
        if m:
            chords += int(m.group(1))
        cfgname, osig = "", ""
        for i, rec in enumerate(recs, 1):
            e = rec["e"]
            per_event[e] = per_event.get(e, 0) + 1
            if e == "Config":
                cfgname = rec["name"]
                nconf += 1
            elif e == "Obj":
                osig = _sig(rec["obj"])
            if e in ("RV", "Whole", "RVF", "WholeF"):
                g = rec["G"]
                ctx.nontrivial("|".join([cfgname.split(" ")[0], osig, e, rec["op"], rec["sym"], str(rec["err"]), "%d..%d" % (g["minSeg"], g["maxSeg"]), str(g["tofMash"])]))
                nsample += 1
                if nsample % 997 == 1:
                    ctx.sample({"object": osig, "config": cfgname, "line": _short(rec)})
            elif e in ("SetUp", "Triv", "Eff", "AttTab", "SetCalib", "Mod"):
                ctx.nontrivial("|".join([cfgname.split(" ")[0], osig, e, str(rec.get("ok")), str(rec.get("err")), str(rec.get("val")), str(rec.get("what"))]))
        if at is not None or not ok:
            ctx.violation("trace not consumed (line %s)" % at, p)
            continue
        bad = lib.unexplained(r)
        newbad = []
        for (ln, cls) in bad:
            if cls in known_ids:
                k = [x for x in ctx.known if x["id"] == cls][0]
                ctx.known_hits[cls] = k["what"]
            else:
                newbad.append(ln)
        if newbad:
            # replay file: the state-carrying lines (configuration, object, set-up, attenuation tables) that precede
            # the unexplained lines + those lines
            out = []
            keep = set(newbad[:20])
            last = max(keep)
            for i, rec in enumerate(recs, 1):
                if i > last:
                    break
                if rec["e"] in STATE_EVENTS or i in keep:
                    out.append(rec)
            rp = os.path.join(ctx.work, "violation-" + os.path.basename(p))
            lib.write_ndjson(rp, out)
            first = recs[newbad[0] - 1]
            ctx.violation("%d recorded calls not explained by Norm.tla, first (line %d): %s" % (len(newbad), newbad[0], json.dumps(_short(first))[:400]), rp)
    # vacuity guards on the recorded material (a replayed file is whatever it is)
    if not ctx.replay:
        for e in ("RV", "Whole", "RVF", "WholeF", "Eff", "Triv", "SetUp", "AttTab", "SetCalib", "Mod"):
            if per_event.get(e, 0) == 0:
                raise lib.ModelFailure("no %s line was recorded" % e)
        if chords == 0:
            raise lib.ModelFailure("no exponent instance (axis-parallel chord through a uniform box) was judged")
    ctx.extra["configurations"] = nconf
    ctx.extra["lines_per_event"] = per_event
    ctx.extra["attenuation_chord_instances"] = chords
    ctx.exhaustive = False
    ctx.assumptions = [
        "ACF = exp(line integral) is decided only (i) in closed form on axis-parallel chords of direct planes through uniform boxes whose whole tube lies inside the box and "
        "(ii) as relations between recorded tables (ACF(0)=1, ACF(mu1+mu2)=ACF(mu1)ACF(mu2), monotone, >=1); the numeric content of oblique / partially covered lines of response is not decided",
        "PETFromComponents: uncompressed non-TOF data, odd number of tangential positions, no detector pair inside one block, ONE uniform geometric factor (the symmetry mapping of a "
        "non-uniform GeoData3D is not specified here)",
        "a chain with an absent member cannot be constructed through the public API (the constructor dereferences both members); one-member chains are chains with the trivial normalisation",
        "tolerances of the fixed-point comparisons are operators of Norm.tla (OpTol, HomTol, ChordTol)"]
    return ctx.finish(rule="one evaluation = one recorded line (a call of set_up / apply / undo on related viewgrams or a whole data set / get_bin_efficiency for all bins / is_trivial with "
                      "its complete input and output); distinct_nontrivial = distinct (system, class tree of the object, kind of call, apply|undo, symmetry grouping, error flag, segment range, TOF) combinations validated")
