"""C08 — OSSPS sub-iterations follow the preconditioned relaxed update within bounds.
1. TLC model-checks OSSPS.tla (MC_OSSPS): the step law in fixed point driven by the implementation-shaped object
   (precomputed denominator that the first sub-iteration of a run modifies, absolute sub-iteration counter) for every
   configuration of a small family and EVERY history of reference run / crash / resume from any saved image / set_up and
   run again: bounds, denominator = definition, schedule, resume = uninterrupted, ascent direction, fixed point.  Five
   defective variants of the object (stale denominator after set_up, relaxation index / subset counted from the start of
   the run, missing penalty term, voxels of zero sensitivity zeroed again when a run is resumed) must each be refuted by TLC.
2. The driver runs the real OSSPSReconstruction (real projection-data objective function through the explicit-matrix
   seam, real QuadraticPrior, real image files) and records: one sub-iteration from EXACT instances; free-running
   reconstructions of 3 full iterations with resumption from the image saved after every sub-iteration, the same object
   set up and run again, objects with another history, median filters on.
3. TLC (Trace_OSSPS) must explain every recorded line: on exact instances it evaluates gradient, denominator and the
   update itself from the logged P, y, a, lambda, weights, kappa (equality); on free runs it applies the law to the
   recorded previous image, sub-gradient and denominator (fixed point, tolerance StepTol of the spec), compares resumed /
   repeated runs with the reference run bit for bit, and checks [0, U] on float bit patterns."""
import os, json, time
from . import lib

VARIANTS = ["stale_den", "relative_index", "relative_subset", "no_prior_term", "refill_on_resume", "silent_rerun"]
ACTIONS = ["SetUpFresh", "SubIter", "Crash", "Resume", "Again", "RerunWithoutSetUp"]
BEYOND = {"denfile", "refuse-rdp", "refuse-alpha0", "refuse-wrongden", "randomise", "writeUpdate", "writeUpdate-exact", "logcosh", "enforcePos-resume",
          "upper-bound-0", "huge-gamma", "one-subiteration", "scale", "scale-eff", "scale-eff-large", "scale-eff-fresh-start"}
RUN_KINDS = ["scaled", "single", "fresh", "resume", "again", "history", "reuse", "denfile", "refuse", "nosetup"]


def _groups(recs):
    """index ranges [i, j) of the System groups of a chunk"""
    starts = [i for i, r in enumerate(recs) if r["e"] == "System"] or [0]
    return [(a, b) for a, b in zip(starts, starts[1:] + [len(recs)])]


def _prior_kind(cfg):
    return ("none" if not cfg["prior"] else "quadratic") + ("+kappa" if cfg["kappa"] else "") + ("+recompute" if cfg["dep"] else "") + (
        "+defaultweights" if cfg.get("defaultWeights") else "")


def run(ctx):
    q = ctx.quick
    W = 4 if q else 8
    t0 = time.time()
    # ---- 1. model checks of the specification itself
    cfg = "MC_OSSPS" if q else "MC_OSSPS_thorough"
    r = lib.tlc("MC_OSSPS", cfg=cfg, workers=W, timeout=2400, heap="6g", coverage=True)
    ctx.mc_must_pass(r, "OSSPS object + step law, every history (%s)" % cfg, "MC_OSSPS")
    for act in ACTIONS:
        if r.coverage.get(act, (0, 0))[0] == 0:
            raise lib.ModelFailure("MC_OSSPS: action %s never taken" % act)
    import concurrent.futures as cf
    with cf.ThreadPoolExecutor(6) as ex:
        refuted = list(ex.map(lambda v: lib.tlc("MC_OSSPS", cfg="MC_OSSPS_" + v, workers=1, timeout=600, heap="2g", tag="MC_OSSPS_" + v), VARIANTS))
    for v, rv in zip(VARIANTS, refuted):
        if not rv.violation:
            raise lib.ModelFailure("MC_OSSPS with Variant=%s was not refuted: the model lost its bite" % v)
    ctx.notes.append("MC_OSSPS variants %s: each refuted by TLC as required" % ", ".join(VARIANTS))
    t1 = time.time()

    # ---- 2. record
    exe = lib.build_driver("c08_ossps")
    t2 = time.time()
    scratch = os.path.join(ctx.work, "scratch")
    os.makedirs(scratch, exist_ok=True)
    traces = []
    if ctx.replay:
        traces = [ctx.replay]
    else:
        seeds = [ctx.seed] if q else [ctx.seed, ctx.seed + 1000, ctx.seed + 2000]
        jobs = []
        for s in seeds:
            sd = os.path.join(scratch, "s%d" % s)      # the drivers run concurrently: one scratch directory each
            for mode, args in (("exact", [400 if q else 2000]), ("runs", [40 if q else 100, 0 if q else 1])):
                os.makedirs(os.path.join(sd, mode), exist_ok=True)
                t = os.path.join(ctx.work, "%s-%d.ndjson" % (mode, s))
                jobs.append(([mode, t, os.path.join(sd, mode)] + args, {"VERIF_SEED": str(s)}))
                traces.append(t)
        with cf.ThreadPoolExecutor(W) as ex:
            list(ex.map(lambda j: lib.run_driver(exe, j[0], env=j[1], timeout=1500, allow_fail=True), jobs))
    for t in traces:
        if not os.path.exists(t) or os.path.getsize(t) == 0:
            raise lib.ModelFailure("no trace recorded: %s" % t)
    t3 = time.time()

    # ---- 3. validate (chunks start at a System line; every System group is self-contained)
    chunks = []
    for t in traces:
        chunks += lib.split_trace(t, os.path.join(ctx.work, "chunks"), maxlines=1500 if q else 4000, boundary="System")
    res = lib.validate_parallel("Trace_OSSPS", [c[0] for c in chunks], jobs=W, timeout=1500, heap="3g")
    ctx.notes.append("wall: model checks %.0fs, build %.0fs, recording %.0fs, trace validation %.0fs" % (t1 - t0, t2 - t1, t3 - t2, time.time() - t3))
    seen = {"kinds": set(), "N": set(), "prior": set(), "parse": set(), "filter": set(), "clamp": set(), "additive": set(), "ubound": set(), "exact": set(), "holeresume": set(), "beyond": set()}
    nruns = nsteps = nresume = 0
    nknown = [0]
    nfreshlarge = [0]
    last_scale = {}
    hole = False
    for (p, ok, r, at) in res:
        recs = lib.read_ndjson(p)
        ctx.transitions += r.generated
        ctx.states += r.distinct
        if at is not None or not ok:
            ctx.violation("trace not consumed (line %s)" % at, p)
            continue
        cfg, run_ = None, None
        for rec in recs:
            e = rec["e"]
            if e == "ScaleOf":
                seen["beyond"].add("scale" if rec.get("mode") == "data" else "scale-eff")
                if rec.get("mode") == "eff" and abs(rec["by"]) >= 20:
                    seen["beyond"].add("scale-eff-large")
            if e == "ScaleOf":
                last_scale = rec
            if e == "Run" and rec["kind"] == "scaled" and rec["start"] == 1:
                seen["beyond"].add("scale-eff-fresh-start")
                if last_scale.get("mode") == "eff" and last_scale["by"] >= 25:      # sensitivities below 1e-5
                    nfreshlarge[0] += 1
            if e == "System":
                hole = any(len(col) == 0 for col in rec["cols"])       # a voxel no bin sees (zero sensitivity)
            elif e == "Config":
                cfg = rec
            elif e == "Run" and cfg is not None:
                run_ = rec
                nruns += 1
                nresume += rec["kind"] == "resume"
                seen["kinds"].add(rec["kind"])
                seen["N"].add(cfg["N"])
                seen["prior"].add(_prior_kind(cfg))
                seen["parse"].add(cfg["viaParse"])
                seen["filter"].add(cfg["filter"] if (cfg["filterInt"] > 0 or cfg["post"]) else "none")
                seen["additive"].add(cfg["additive"])
                seen["ubound"].add(cfg["uInf"])
                seen["exact"].add(cfg["exact"])
                # the sections beyond the property's quantifier
                for tag, on in (("denfile", rec["kind"] == "denfile"), ("refuse-rdp", rec["kind"] == "refuse" and cfg.get("priorType") == "rdp"),
                                ("refuse-alpha0", rec["kind"] == "refuse" and cfg["aN"] == 0), ("refuse-wrongden", rec["kind"] == "refuse" and cfg.get("denFile") == "wrong"),
                                ("randomise", cfg.get("randomise")), ("writeUpdate", cfg.get("writeUpdate")), ("writeUpdate-exact", cfg.get("writeUpdate") and cfg["exact"]),
                                ("logcosh", cfg.get("priorType") == "logcosh"), ("enforcePos-resume", cfg.get("enforcePos") and rec["start"] > 1),
                                ("upper-bound-0", (not cfg["uInf"]) and cfg["uN"] == 0), ("huge-gamma", cfg["gN"] >= 256), ("one-subiteration", rec["kind"] == "fresh" and rec["last"] == 1)):
                    if on:
                        seen["beyond"].add(tag)
                if hole and cfg["prior"] and rec["start"] > 1:
                    seen["holeresume"].add((cfg["exact"], rec["kind"]))
                if nruns % 173 == 1:
                    ctx.sample({"config": {k: cfg[k] for k in ("exact", "N", "startSubset", "aN", "aK", "gN", "gK", "uInf", "uN", "uK", "prior", "kappa", "dep", "beta", "filter", "filterInt", "viaParse", "additive")},
                                "run": {k: rec[k] for k in ("kind", "from", "start", "last", "twice")}})
            elif e == "Step" and cfg is not None and run_ is not None:
                nsteps += 1
                # which clamp was met in this sub-iteration (measured, for the evidence only)
                lo = any(a == 0 and b != 0 for a, b in zip(rec["b1"], rec["b0"]))
                hi = (not cfg["uInf"]) and any(a == cfg["uN"] * 2 ** (rec["kl"] - cfg["uK"]) for a in rec["lam1"])
                seen["clamp"].add((lo, hi))
                ctx.nontrivial((cfg["exact"], cfg["N"], _prior_kind(cfg), cfg["uInf"], cfg["viaParse"], cfg["additive"], run_["kind"], hole, cfg.get("priorType"), cfg.get("randomise"), cfg.get("writeUpdate"), cfg.get("denFile"), cfg.get("enforcePos"),
                                rec["k"] // cfg["N"], rec["sub"], lo, hi, cfg["filter"] if cfg["filterInt"] > 0 or cfg["post"] else "none"))
        known_ids = {k["id"] for k in ctx.known}
        bad = []
        for (ln, cls) in lib.unexplained(r):
            if cls in known_ids:      # classified by the specification (Classify in Trace_OSSPS.tla) as a known finding
                ctx.known_hits[cls] = [k for k in ctx.known if k["id"] == cls][0]["what"]
                nknown[0] += 1
            else:
                bad.append(ln)
        if bad:
            # replay file: the System group(s) holding unexplained lines (the reference run of a group is needed by the later runs)
            out, badrecs = [], []
            for (a, b) in _groups(recs):
                if any(a < ln <= b for ln in bad):
                    out += recs[a:b]
            for ln in bad[:3]:
                badrecs.append({k: v for k, v in recs[ln - 1].items() if k in ("e", "kind", "cfg", "k", "sub", "err", "ok", "msg", "from", "start", "last")})
            rp = os.path.join(ctx.work, "violation-" + os.path.basename(p))
            lib.write_ndjson(rp, out)
            kinds = sorted({recs[b - 1]["e"] for b in bad})
            ctx.violation("%d recorded lines not explained by OSSPS.tla (%s), first: %s" % (len(bad), ",".join(kinds), json.dumps(badrecs)[:300]), rp)
    ctx.traces = nruns
    ctx.evaluations = nsteps
    # ---- vacuity guards: the recorded executions must contain what the check claims to exercise
    if not ctx.replay:
        for t in traces:
            with open(t, "rb") as fh:
                fh.seek(max(0, os.path.getsize(t) - 200))
                tail = fh.read().decode("utf8", "replace")
            if '"e":"End"' not in tail and '"e":"Abort"' not in tail:
                raise lib.ModelFailure("trace %s is truncated (driver died outside a recorded call)" % t)
        missing = [k for k in RUN_KINDS if k not in seen["kinds"]]
        # (a crash inside the code under test ends the trace with an Abort line, which is a VIOLATION: coverage is then moot)
        if not ctx.violations and (missing or not {1, 2, 3, 4} <= seen["N"] or len(seen["prior"]) < 5 or len(seen["parse"]) < 2 or len(seen["filter"]) < 3
                or len(seen["additive"]) < 2 or len(seen["ubound"]) < 2 or len(seen["exact"]) < 2
                or not any(c[0] for c in seen["clamp"]) or not any(c[1] for c in seen["clamp"])
                # prior + voxel of zero sensitivity + run started at a sub-iteration > 1: free (resume) and exact (single)
                or (False, "resume") not in seen["holeresume"] or (True, "single") not in seen["holeresume"]
                or not BEYOND <= seen["beyond"] or nfreshlarge[0] < 3):
            raise lib.ModelFailure("recorded traces do not cover the option space: %s missing=%s" % ({k: sorted(map(str, v)) for k, v in seen.items()}, missing))
    ctx.extra["runs"] = nruns
    ctx.extra["sub_iterations"] = nsteps
    ctx.extra["resumed_runs"] = nresume
    ctx.extra["fresh_starts_with_sensitivities_below_1e-5"] = nfreshlarge[0]
    ctx.extra["lines_classified_as_known_finding"] = nknown[0]
    ctx.exhaustive = False
    ctx.assumptions = [
        "toy geometry: user-defined 8-detector 3-ring scanner (4 views, 108 bins), 2x2x3 image, explicit integer system matrix; num_subsets 1..4 (3 with subset sensitivities)",
        "exact one-step instances: columns of P, data y = c (P 1) = q (P lambda + a) with c, q powers of two, alpha/(1+gamma n) dyadic, denominators powers of two <= 128: every float operation of the update is exact, TLC demands equality (one ulp where the value exceeds 24 bits)",
        "free-running trajectories: the law is applied to the RECORDED previous image, sub-gradient and denominator (that the sub-gradient itself equals its definition is decided on the exact instances and by C05); tolerance StepTol of OSSPS.tla (quantisation of the records, a few units of 2^-12)",
        "relaxation index n = subiteration_num div num_subsets (what the code computes; the other reading (k-1) div N is a documentation question)",
        "where the denominator is not positive (a voxel no bin sees, no prior) the implementation's threshold value is not modelled: the law is decided there only for a vanishing gradient",
        "filters: median filters only (cannot leave [min,max] of their input); only the bounds are decided with filters on; subset order not randomised",
    ]
    return ctx.finish(rule="one evaluation = one recorded OSSPS sub-iteration (update_estimate + end_of_iteration_processing of the real class) whose new image TLC compared with the law; "
                      "traces = set_up + reconstruct runs validated (single exact steps, reference runs, resumed runs from every saved image, repeated and re-used objects); "
                      "distinct_nontrivial = distinct (exact/free, num_subsets, prior kind, bounded?, parsed?, additive?, kind of run, zero-sensitivity voxel?, relaxation index, subset, lower clamp met, upper clamp met, filter) combinations")
