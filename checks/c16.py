"""C16 — single-scatter simulation: symmetric, linear, never negative, independent of caching and history.
1. TLC checks Scatter.tla exhaustively (all short call histories on one object: stale cache reads
   impossible, setters clear the set-up flag, compute before set_up is an error) and shows that four
   versions of the model with one forgotten invalidation each DO violate it.
2. The driver records seeded setter / set_up / process_data histories on real SingleScatterSimulation
   objects (plus freshly configured objects with the same final settings) together with the
   scatter-cache hook events; TLC (Trace_Scatter) must explain every line.
Python only orchestrates, counts and maps TLC's classes to VIOLATION / KNOWN-FINDING."""
import json, os, re
from . import lib

BUGS = ["toggle", "actkeep", "effkeep", "asukeep", "codesetup", "codesetupauto"]
ACTIONS = ["SetAct", "SetAtt", "SetSp", "Downsample", "SetTmpl", "SetEnergy", "SetCache", "SetOut", "SetUp", "Compute",
           "SetThr", "SetRnd", "SetZoom", "DsScanner", "DsImages"]
COUNTERS = ["fresh", "same", "cache", "add", "scale", "zero", "sym", "symOut", "errCompute", "errSetUp", "keep", "hit", "off", "compute", "stale",
            "thr", "rnd", "zoomSet", "dsScanner", "dsImages", "parse", "roundTrip", "phys", "rndCompute", "attGets", "rederive"]
MUST_BE_EXERCISED = ["fresh", "cache", "add", "scale", "zero", "sym", "symOut", "errCompute", "errSetUp", "keep", "hit", "off",
                     "thr", "rnd", "zoomSet", "dsScanner", "dsImages", "parse", "roundTrip", "phys", "rndCompute"]


def counts_of(r):
    i = r.out.find('"COUNTS"')
    if i < 0:
        return None
    j = r.out.find(">>", i)
    return {k: int(v) for k, v in re.findall(r"(\w+) \|-> (\d+)", r.out[i:j])}


def scenario_slice(recs, line):
    """the scenario (Config line .. next Config) that contains 1-based line `line`, cut after that line"""
    start = 0
    for k in range(line - 1, -1, -1):
        if recs[k]["e"] == "Config":
            start = k
            break
    return recs[start:line]


def run(ctx):
    q = ctx.quick
    # ---------------------------------------------------------------- 1. model checks
    cfg = "MC_Scatter" if q else "MC_Scatter_thorough"
    r = lib.tlc("MC_Scatter", cfg=cfg, workers=4 if q else 8, timeout=1500, heap="6g", coverage=True)
    ctx.mc_must_pass(r, "all call histories on one object (%s)" % cfg, "MC_Scatter")
    for a in ACTIONS:
        if r.coverage.get(a, (0, 0))[1] == 0:
            raise lib.ModelFailure("MC_Scatter: action %s never taken (vacuous model check)" % a)
    # the same with automatic down-sampling settings (the derived scatter-point image then depends on the template)
    ra = lib.tlc("MC_Scatter", cfg="MC_Scatter_auto" if q else "MC_Scatter_auto_thorough", workers=4 if q else 8, timeout=1500, heap="6g")
    ctx.mc_must_pass(ra, "automatic zoom settings", "MC_Scatter")
    for b in BUGS:
        rb = lib.tlc("MC_Scatter", cfg="MC_Scatter_bug_" + b, workers=2, timeout=600, heap="4g")
        if not rb.violation:
            raise lib.ModelFailure("MC_Scatter with forgotten invalidation '%s' does not violate any invariant: the model is vacuous" % b)
        ctx.notes.append("model with bug '%s' violates %s (as it must)" % (b, ",".join(re.findall(r"Invariant (\w+) is violated", rb.out))))
    # ---------------------------------------------------------------- 2. record
    env = {"VERIF_SEED": str(ctx.seed)}
    if ctx.replay:
        traces = [ctx.replay]
    else:
        exe = lib.build_driver("c16_scatter")
        runs = [("h0", 24, 40, 0)] if q else [("h0", 64, 60, 0), ("h1", 40, 50, 1), ("h2", 8, 24, 2)]
        traces = []
        for (name, nscen, steps, size) in runs:
            t = os.path.join(ctx.work, name + ".ndjson")
            lib.run_driver(exe, ["hist", t, nscen, steps, size], env=env, timeout=1500)
            traces.append(t)
        if not q:
            # the same histories against the ASan/UBSan-instrumented STIR libraries: a memory error inside
            # the cache code ends the child process and becomes an Abort line (rejected by the specification)
            exe_san = lib.build_driver("c16_scatter", santree=True)
            t = os.path.join(ctx.work, "hsan.ndjson")
            lib.run_driver(exe_san, ["hist", t, 16, 40, 0], env={"VERIF_SEED": str(ctx.seed + 1000)}, timeout=1500)
            traces.append(t)
    # ---------------------------------------------------------------- 3. validate
    chunks = []
    for t in traces:
        chunks += lib.split_trace(t, os.path.join(ctx.work, "chunks"), maxlines=600 if q else 900)
    res = lib.validate_parallel("Trace_Scatter", [c[0] for c in chunks], jobs=4 if q else 8, timeout=1500, heap="3g")
    known_ids = {k["id"] for k in ctx.known}
    total = {k: 0 for k in COUNTERS}
    nscen = 0
    for (p, ok, r, at) in res:
        recs = lib.read_ndjson(p)
        ctx.evaluations += len(recs)
        ctx.transitions += r.generated
        ctx.states += r.distinct
        for rec in recs:
            if rec["e"] == "Config":
                nscen += 1
                ctx.traces += 1
                if nscen % 9 == 1:
                    ctx.sample({k: rec[k] for k in ("id", "k", "autoZoom", "N", "R", "eres", "win", "rels")})
            elif rec["e"] == "Abort":
                ctx.traces += 1
            else:
                ctx.nontrivial([rec["e"], rec.get("id", rec.get("zoom", rec.get("b"))), rec.get("err"), rec.get("asu"), rec.get("uc"),
                                [e[:3] for e in rec.get("ev", [])]])
                if rec["e"] == "SetUp" and len(ctx.samples) < 6 and rec.get("ev") and nscen % 9 == 2:
                    ctx.sample({k: rec[k] for k in ("e", "o", "err", "asu", "uc", "np", "ev")})
        if at is not None or not ok:
            ctx.violation("trace not consumed (line %s)" % at, p)
            continue
        c = counts_of(r)
        if c is None:
            raise lib.ModelFailure("Trace_Scatter printed no COUNTS for %s:\n%s" % (p, r.out[-2000:]))
        for k in COUNTERS:
            total[k] += c.get(k, 0)
        newbad = []
        for (ln, cls) in lib.unexplained(r):
            if cls in known_ids:
                ctx.known_hits[cls] = [x for x in ctx.known if x["id"] == cls][0]["what"]
            else:
                newbad.append((ln, cls))
        if newbad:
            ln, cls = newbad[0]
            rp = os.path.join(ctx.work, "violation-" + os.path.basename(p))
            lib.write_ndjson(rp, scenario_slice(recs, ln))
            rec = recs[ln - 1]
            brief = {k: v for k, v in rec.items() if k not in ("g", "out", "m", "pa", "pb", "acts")}
            ctx.violation("%d recorded call(s) not explained by Scatter.tla (class %s), first: %s" % (len(newbad), cls, json.dumps(brief)[:600]), rp)
    ctx.extra["scenarios"] = nscen
    ctx.extra["comparisons"] = total
    if not ctx.replay and not ctx.violations:
        idle = [k for k in MUST_BE_EXERCISED if total[k] == 0]
        if idle:
            raise lib.ModelFailure("clauses never exercised by the recorded histories (vacuous run): %s" % idle)
    ctx.exhaustive = False
    ctx.assumptions = [
        "the attenuation cache has no read hook: its content is validated through the removal / allocation events and the outputs only",
        "outputs are compared in fixed point (one scale per scenario, max < 2^28): equality clauses within 1 unit + 2^-22 relative, linearity within 2^-18 relative (single-precision accumulation of the line integrals)",
        "attenuation threshold and random placement of scatter points are fixed at construction (not among the settings the property quantifies over)"]
    return ctx.finish(rule="one evaluation = one recorded public call on a real SingleScatterSimulation (with its cache hook events, flags and, for process_data / "
                      "detector-pair estimates, all output values); traces = scenarios (one history object + its freshly configured twins); distinct_nontrivial = distinct "
                      "(call, argument, error flag, flags after the call, cache events) combinations; coverage.comparisons counts the output relations TLC checked "
                      "(fresh = history vs fresh object, cache = cache on vs off, add/scale/zero = linearity, sym = detector exchange)")
