"""C03 — system-matrix rows do not depend on symmetries, caching or request history.
1. TLC proves, for every small configuration, that the transcribed symmetry algebra is consistent with
   the nominal line geometry (Symmetries.tla, theorems S1-S3, guards of the switches) and that the row
   cache / set-up life cycle returns the row of the current geometry after every short history
   (MatrixCache.tla; three deliberately faulty variants must be refuted: vacuity guard).
2. The driver records what the real classes answer: basic bin / symmetry operation / related bins for
   every bin under every requested switch setting, and the rows returned along seeded request histories
   (all switch settings x cache modes, repeats, clear_cache, cache-mode changes, re-set_up for the same and
   other geometries) together with the cache call-outs and directly computed reference rows.
3. TLC (Trace_Symmetries, Trace_MatrixCache) must explain every recorded line."""
import os, json, time, re
import concurrent.futures as cf
from . import lib

KNOWN_CLASS = "C03-zoutside"


def _model_checks(ctx):
    q = ctx.quick
    w = 4 if q else 8
    for cfg in (["MC_Symmetries"] if q else ["MC_Symmetries", "MC_Symmetries_thorough", "MC_Symmetries_thorough2", "MC_Symmetries_thorough3", "MC_Symmetries_thorough4"]):
        r = lib.tlc("MC_Symmetries", cfg=cfg, workers=w, timeout=2400, heap="6g")
        ctx.mc_must_pass(r, "symmetry algebra S1-S3, switch guards, every operation class used (%s)" % cfg, "MC_Symmetries")
    lib.log("  [%4.0fs] MC_Symmetries done" % (time.time() - ctx.t0))
    r = lib.tlc("MC_RowOps", cfg="MC_RowOps" if q else "MC_RowOps_thorough", workers=w, timeout=1500, heap="6g")
    ctx.mc_must_pass(r, "row operations of ProjMatrixElemsForOneBin: merge leaves no voxel twice, keeps the union and the sums; sort keeps the multiset", "MC_RowOps")
    r = lib.tlc("MC_MatrixCache", cfg="MC_MatrixCache" if q else "MC_MatrixCache_thorough", workers=w, timeout=1500, heap="6g")
    ctx.mc_must_pass(r, "row cache and set-up life cycle, all short histories; cache key injective (S4)", "MC_MatrixCache")
    # vacuity guard: each faulty variant of the model must violate an invariant
    for d in ("skipsetup", "stalecache", "basickey"):
        r = lib.tlc("MC_MatrixCache", cfg="MC_MatrixCache_" + d, workers=2, timeout=600, heap="4g")
        if not r.violation:
            raise lib.ModelFailure("faulty variant '%s' of MatrixCache.tla is not refuted: the invariants have lost their teeth" % d)
        ctx.notes.append("faulty model variant %s refuted after %d states" % (d, r.generated))
    if not q:
        # every action of the cache model is taken (coverage of a shallow run)
        r = lib.tlc("MC_MatrixCache", cfg="MC_MatrixCache_cov", workers=2, timeout=900, heap="4g", coverage=True)
        acts = re.findall(r"^<(\w+) line \d+, col \d+ to line \d+, col \d+ of module MC_MatrixCache[^>]*>: (\d+):(\d+)", r.out, re.M)
        dead = [a for a in acts if int(a[2]) == 0]
        if not r.ok or len(acts) < 7 or dead:
            raise lib.ModelFailure("coverage of MC_MatrixCache: %s" % (dead or acts))
        ctx.notes.append("coverage: all %d action disjuncts of MC_MatrixCache taken" % len(acts))
    lib.log("  [%4.0fs] MC_MatrixCache (+3 faulty variants) done" % (time.time() - ctx.t0))


def _block_replay(recs, at):
    """replay file for an unexplained line of a rows trace: the Config block's geometry and reference
    lines and the history (from its New line) that contains line `at` (1-based)"""
    cfg = max(i for i in range(at) if recs[i]["e"] == "Config")
    new = max([i for i in range(cfg, at) if recs[i]["e"] == "New"] or [cfg])
    head = [recs[i] for i in range(cfg, new) if recs[i]["e"] in ("Config", "Geom", "Ref")]
    return head + recs[new:at]


def _validate(ctx, module, chunks, jobs, boundary):
    res = lib.validate_parallel(module, [c[0] for c in chunks], jobs=jobs, timeout=2400, heap="4g")
    known_ids = {k["id"] for k in ctx.known}
    stats = {"tie": 0}
    for (p, ok, r, at) in res:
        recs = lib.read_ndjson(p)
        ctx.evaluations += len(recs)
        ctx.transitions += r.generated
        ctx.states += r.distinct
        key = None
        for rec in recs:
            e = rec["e"]
            if e == "SymCfg":
                ctx.traces += 1
                key = ("sym", rec["N"], rec["R"], rec["span"], rec["maxDelta"], rec["mash"], rec["tofMash"], rec["nppr1024"], rec["oz1024"], tuple(rec["eff"]))
                if rec["id"] % 61 == 1:
                    ctx.sample({k: rec[k] for k in ("e", "geom", "N", "R", "span", "maxDelta", "mash", "tofMash", "zmax", "nppr1024", "sw", "eff")}, cap=3)
            elif e == "Sym":
                ctx.nontrivial(str(key) + rec["op"])
            elif e == "Reset":
                ctx.traces += 1
                key = ("rowops",)
            elif e in ("MergeAB", "SortA", "SortB", "EraseAtA", "ScaleA", "CopyAB"):
                ctx.nontrivial("rowops" + e + str(min(len(rec["A"]), 6)) + str(min(len(rec["B"]), 6)))
            elif e == "Config":
                fam = rec["family"]
            elif e == "New":
                ctx.traces += 1
                key = ("rows", fam, tuple(rec.get("sw", [rec.get("keepAll")])), rec["cacheOn"], rec["basicOnly"])
                if ctx.traces % 53 == 0 or len(ctx.samples) < 4:
                    ctx.sample({"e": "New", "family": fam, "impl": rec.get("impl"), "sw": rec.get("sw", [rec.get("keepAll")]), "cacheOn": rec["cacheOn"], "basicOnly": rec["basicOnly"]})
            elif e in ("Get", "SetUp", "Clear"):
                ctx.nontrivial(str(key) + e + str(len(rec.get("hooks", []))) + str(rec.get("gid", "")))
        if at is not None or not ok:
            ctx.violation("trace not consumed by %s (line %s)" % (module, at), p)
            continue
        newbad = []
        for (ln, cls) in lib.unexplained(r):
            if cls in known_ids:
                ctx.known_hits[cls] = [x for x in ctx.known if x["id"] == cls][0]["what"]
            else:
                newbad.append((ln, cls))
        if newbad:
            ln = newbad[0][0]
            if module == "Trace_MatrixCache":
                out = _block_replay(recs, ln)
            elif module == "Trace_RowOps":
                start = max(i for i in range(ln) if recs[i]["e"] == "Reset")
                out = recs[start:ln]
            else:
                cfg = max(i for i in range(ln) if recs[i]["e"] == "SymCfg")
                out = [recs[cfg]] + ([recs[ln - 1]] if ln - 1 != cfg else [])
            rp = os.path.join(ctx.work, "violation-" + os.path.basename(p))
            lib.write_ndjson(rp, out)
            what = json.dumps({k: v for k, v in recs[ln - 1].items() if k not in ("row", "segs", "axial")})[:240]
            ctx.violation("%d recorded lines not explained by %s (class %s), first: %s" % (len(newbad), module, newbad[0][1], what), rp)
    return stats


def _detect_fixes():
    """The proposed patches notes/C03-fix-1.diff and -3.diff change which symmetries the classes keep; the
    specification has both variants (Symmetries!UadbFixApplied, InterpSquareFixApplied), selected by an
    environment variable that is set iff the patched lines are present in the source tree under test."""
    def has(path, text):
        try:
            return text in open(os.path.join(lib.REPO, path)).read()
        except OSError:
            return False
    if has("src/recon_buildblock/ProjMatrixByBinUsingRayTracing.cxx", "use_actual_detector_boundaries is incompatible with the"):
        os.environ["C03_UADB_FIXED"] = "1"
    if has("src/recon_buildblock/ProjMatrixByBinUsingInterpolation.cxx", "Disabling the 90degrees_min_phi symmetry"):
        os.environ["C03_INTERP_SQUARE_FIXED"] = "1"
    if has("src/recon_buildblock/ProjMatrixByBinFromFile.cxx", "caching cannot be disabled for this class"):
        os.environ["C03_FROMFILE_GUARD_FIXED"] = "1"


def run(ctx):
    q = ctx.quick
    _detect_fixes()
    env = {"VERIF_SEED": str(ctx.seed)}
    jobs = 4 if q else 8
    if ctx.replay:
        first = lib.read_ndjson(ctx.replay)[0]["e"]
        module = "Trace_Symmetries" if first in ("SymCfg", "SymRejected") else "Trace_RowOps" if first == "Reset" else "Trace_MatrixCache"
        _validate(ctx, module, [(ctx.replay, 1)], 1, None)
        return ctx.finish(rule="replay of one recorded execution")
    # 1. model checks of the specification; the driver is built and run meanwhile
    with cf.ThreadPoolExecutor(2) as ex:
        fut = ex.submit(_model_checks, ctx) if not os.environ.get("C03_SKIP_MC") else None
        exe = lib.build_driver("c03_matrix")
        t1 = os.path.join(ctx.work, "sym.ndjson")
        lib.run_driver(exe, ["sym", t1, 0 if q else 1], env=env, timeout=1200)
        t3 = os.path.join(ctx.work, "rowops.ndjson")
        lib.run_driver(exe, ["rowops", t3, 0 if q else 1], env=env, timeout=600)
        tc = os.path.join(ctx.work, "count.ndjson")
        lib.run_driver(exe, ["count", tc, 0 if q else 1], env=env, timeout=300)
        nfam = lib.read_ndjson(tc)[0]["families"]
        t2s = [os.path.join(ctx.work, "rows%d.ndjson" % k) for k in range(nfam)]
        with cf.ThreadPoolExecutor(min(jobs, 4)) as ex2:   # one process per family of geometries
            list(ex2.map(lambda k: lib.run_driver(exe, ["rows", t2s[k], 0 if q else 1, k], env=env, timeout=2400), range(nfam)))
        lib.log("  [%4.0fs] traces recorded" % (time.time() - ctx.t0))
        if fut:
            fut.result()
    # 2. validate
    c1 = lib.split_trace(t1, os.path.join(ctx.work, "chunks"), maxlines=25000, boundary="SymCfg")
    c2 = []
    for t2 in t2s:
        c2 += lib.split_trace(t2, os.path.join(ctx.work, "chunks"), maxlines=6000, boundary="Config")
    _validate(ctx, "Trace_Symmetries", c1, jobs, "SymCfg")
    lib.log("  [%4.0fs] %d symmetry chunks validated" % (time.time() - ctx.t0, len(c1)))
    _validate(ctx, "Trace_MatrixCache", c2, jobs, "Config")
    _validate(ctx, "Trace_RowOps", lib.split_trace(t3, os.path.join(ctx.work, "chunks"), maxlines=8000, boundary="Reset"), jobs, "Reset")
    ctx.exhaustive = False
    ctx.assumptions = [
        "the numeric content of a ray-traced row is not specified: rows are compared with rows computed directly by the same class (no symmetries, no cache) within RowAbsTol = 2^-14 + 2^-12 relative",
        "transforming the directly computed row of the basic bin by the chosen operation gives the row of the bin: model-checked as S1/S2 on the nominal line geometry for small configurations, observed on recorded rows for the generated geometries",
        "cylindrical non-arc-corrected data, odd span, use_actual_detector_boundaries = false, restrict_to_cylindrical_FOV = true; BlocksOnCylindrical only for the switch guards",
        "bins whose ray runs along a voxel-column boundary (view at 0/90 degrees, s on a boundary within 2^-10 voxel) are screened out of the row comparison by Tie() on logged geometry",
    ]
    return ctx.finish(rule="one evaluation = one recorded line explained by TLC: a reference row, a call on the matrix under test (request with its "
                      "cache call-outs and returned row, set_up, clear_cache, mode change) or an answer of the symmetries object for one bin "
                      "(basic bin, operation class, its action on a bin and two voxels, related bins); traces = recorded object histories + "
                      "symmetry configurations; distinct_nontrivial = distinct (geometry/setting, kind of answer) combinations")
