"""C15 — rebinning and resampling conserve counts and physical positions.
1. TLC proves the theorems of Rebin.tla (over Geometry.tla: the geometry SSRB constructs is a Michelogram;
   SSRBMap(BinOf_in(pair)) = BinOf_out(pair) for every detector pair with TOF index when covered; nothing is lost
   without trimming) and of Zoom.tla (exact rational overlap interpolation: sum, centre of mass, uniform regions,
   separability, composition of per-axis zooms) for every small configuration; vacuity guards must be refuted.
2. The driver records what the real SSRB overloads, LmToProjData / ProjDataInMemory histogramming, zoom_image and
   zoom_image_in_place (all overloads, in-place and two-step variants) and find_centre_of_gravity_in_mm answer;
   TLC (Trace_Rebin, Trace_Zoom) must explain every recorded line."""
import os, json, concurrent.futures as cf
from . import lib


def _mc(ctx, module, cfg, workers, what, refute=False, timeout=2400, heap="6g"):
    r = lib.tlc(module, cfg=cfg, workers=workers, timeout=timeout, heap=heap)
    if refute:
        # a vacuity guard: the invariant claims that the antecedent of a theorem is never satisfiable
        if not r.violation:
            raise lib.ModelFailure("vacuity guard %s was not refuted rc=%d:\n%s" % (cfg, r.rc, r.out[-2000:]))
        ctx.notes.append("%s: refuted as required (%d states)" % (what, r.distinct))
        ctx.states += r.distinct
        ctx.transitions += r.generated
    else:
        ctx.mc_must_pass(r, what, module)
    return r


def _blocks(recs, starts):
    """[(first_index, last_index)] of the executions / instances (a block starts at a line whose e is in starts)"""
    out, cur = [], None
    for i, r in enumerate(recs):
        if r["e"] in starts:
            if cur is not None:
                out.append((cur, i - 1))
            cur = i
    if cur is not None:
        out.append((cur, len(recs) - 1))
    return out


def run(ctx):
    q = ctx.quick
    W = 4 if q else 8
    # 1. model checks of the specifications (two TLC runs at a time)
    jobs = [("MC_Rebin", "MC_Rebin" if q else "MC_Rebin_thorough", "Rebin theorems G1 G2 Commute Subset Conserve Nest TofK", False),
            ("MC_Zoom", "MC_Zoom" if q else "MC_Zoom_thorough", "Zoom theorems Sum Com Uniform Shift Relabel Separable", False),
            ("MC_Rebin", "MC_Rebin_even", "Rebin theorems on even spans (segments kept or all combined)", False),
            ("MC_Rebin", "MC_Rebin_vac1", "vacuity guard: some pair is covered, rebinned across segments and views", True),
            ("MC_Rebin", "MC_Rebin_vac2", "vacuity guard: some parameter set combining segments and TOF bins trims nothing", True),
            ("MC_Zoom", "MC_Zoom_vac", "vacuity guard: some zoomed and shifted grid covers a non-trivial image", True)]
    # TLC parallelises these models poorly (few initial states): several runs at a time instead
    if q:
        jobs = [j for j in jobs if j[1] != "MC_Rebin_even"]     # even spans: model check in the thorough tier, traces in both
    with cf.ThreadPoolExecutor(3 if q else 2) as ex:
        futs = [ex.submit(_mc, ctx, m, c, 1 if q else 4, what, ref, 3000, "4g" if q else "6g") for (m, c, what, ref) in jobs]
        for f in futs:
            f.result()
    # 2. record
    traces = []     # (module, path, boundary)
    if ctx.replay:
        first = lib.read_ndjson(ctx.replay)[0]["e"]
        traces = [("Trace_Rebin", ctx.replay, "Config")] if first in ("Config", "Ev", "Hist", "Rebin", "End") else \
                 [("Trace_Rebin", ctx.replay, first)] if first in ("Inv", "Ext", "Down", "Interp") else \
                 [("Trace_Zoom", ctx.replay, "ZIn" if first.startswith("Z") else "VIn" if first.startswith("V") else "RIn")]
    else:
        exe = lib.build_driver("c15_rebin_zoom")
        env = {"VERIF_SEED": str(ctx.seed)}
        scratch = os.path.join(ctx.work, "files")
        os.makedirs(scratch, exist_ok=True)
        t1 = os.path.join(ctx.work, "ssrb.ndjson")
        lib.run_driver(exe, ["ssrb", t1, 60 if q else 160, 0 if q else 1, scratch], env=env, timeout=1200)
        t2 = os.path.join(ctx.work, "zoom.ndjson")
        lib.run_driver(exe, ["zoom", t2, 160 if q else 2000, 0 if q else 1], env=env, timeout=1200)
        t3 = os.path.join(ctx.work, "zoomr.ndjson")
        lib.run_driver(exe, ["zoomr", t3, 160 if q else 2000, 0 if q else 1], env=env, timeout=1200)
        traces = [("Trace_Rebin", t1, "Config"), ("Trace_Zoom", t2, "ZIn"), ("Trace_Zoom", t3, "RIn")]
        # beyond the property's sentences: the other index maps (self-contained lines)
        for (mode, n_q, n_t, mod, b) in (("inv", 120, 800, "Trace_Rebin", "Inv"), ("ext", 100, 500, "Trace_Rebin", "Ext"),
                                         ("down", 100, 500, "Trace_Rebin", "Down"), ("interp", 40, 200, "Trace_Rebin", "Interp"),
                                         ("zview", 100, 800, "Trace_Zoom", "VIn")):
            t = os.path.join(ctx.work, mode + ".ndjson")
            lib.run_driver(exe, [mode, t, n_q if q else n_t, 0 if q else 1], env=env, timeout=1200)
            traces.append((mod, t, b))
    # 3. validate (chunks in parallel)
    work = []
    for (mod, t, b) in traces:
        for (p, first) in lib.split_trace(t, os.path.join(ctx.work, "chunks"), maxlines=500 if q else 4000, boundary=b):
            work.append((mod, p, b))

    def one(w):
        ok, r, at = lib.validate_trace(w[0], w[1], timeout=2400, heap="4g")
        return (w, ok, r, at)
    with cf.ThreadPoolExecutor(W) as ex:
        results = list(ex.map(one, work))
    known = {k["id"]: k for k in ctx.known}
    nexec = {"Trace_Rebin": 0, "Trace_Zoom": 0}
    for ((mod, p, b), ok, r, at) in results:
        recs = lib.read_ndjson(p)
        ctx.traces += 1
        ctx.evaluations += len(recs)
        ctx.transitions += r.generated
        ctx.states += r.distinct
        cur = None
        for rec in recs:
            e = rec["e"]
            if e == "Config":
                nexec[mod] += 1
                cur = ("ssrb", rec["span"], rec["segComb"], rec["viewComb"], rec["trim"], rec["tofComb"], rec["tofMash"], rec["maxSegArg"] >= 0, rec["err"])
                ctx.nontrivial(cur)
                if nexec[mod] % 61 == 1:
                    ctx.sample({k: rec[k] for k in ("N", "R", "span", "maxDelta", "mash", "tofMash", "maxT", "segComb", "viewComb", "trim", "maxSegArg", "tofComb", "err")})
            elif e in ("Hist", "Rebin") and cur:
                ctx.nontrivial(cur + (e, rec.get("which", rec.get("via")), rec.get("route", rec.get("norm")), len(rec["nz"]) > 0))
            elif e in ("ZIn", "RIn"):
                nexec[mod] += 1
                cur = (e, rec["opt"], rec["twoD"], tuple(zip(rec["P"], rec["Q"])) if e == "ZIn" else tuple(1 if z > 65536 else -1 if z < 65536 else 0 for z in rec["zf"]))
                if nexec[mod] % 211 == 1:
                    ctx.sample({k: rec[k] for k in ("e", "lo", "hi", "n", "opt") + (("P", "Q", "o") if e == "ZIn" else ("zf", "off"))})
            elif e in ("ZOut", "ROut", "VOut") and cur:
                ctx.nontrivial(cur + (rec["call"],))
            elif e == "VIn":
                nexec[mod] += 1
                cur = (e, rec["P"], rec["Q"], rec["view"] == 0, rec["seg"] == 0)
            elif e == "Inv":
                ctx.nontrivial((e, rec["kind"], rec["span"], rec["tofMash"] > 0, len(rec.get("nz", [])) > 0))
            elif e == "Ext":
                ctx.nontrivial((e, tuple(x > 0 for x in rec["ext"]), rec["minT"] == -rec["maxT"]))
            elif e == "Down":
                ctx.nontrivial((e, rec["maxSeg"] > 0, rec["newR"], rec["newN"] > rec["N"]))
            elif e == "Interp":
                ctx.nontrivial((e, rec["span"], rec["ospan"], rec["mash"], rec["omash"]))
        if at is not None or not ok:
            ctx.violation("trace not consumed (line %s)" % at, p)
            continue
        bad = lib.unexplained(r)
        newbad = []
        for (ln, cls) in bad:
            if cls in known:
                ctx.known_hits[cls] = known[cls]["what"]
            else:
                newbad.append(ln)
        if newbad:
            # replay file: the executions / instances that contain unexplained lines (at most 5)
            blocks = _blocks(recs, {b})
            out, n = [], 0
            for (i0, i1) in blocks:
                if any(i0 + 1 <= ln <= i1 + 1 for ln in newbad):
                    out += recs[i0:i1 + 1]
                    n += 1
                    if n >= 5:
                        break
            rp = os.path.join(ctx.work, "violation-" + os.path.basename(p))
            lib.write_ndjson(rp, out or recs)
            firstbad = recs[newbad[0] - 1]
            ctx.violation("%d recorded lines not explained by %s, first: %s" % (len(newbad), "Rebin.tla" if mod == "Trace_Rebin" else "Zoom.tla",
                                                                               json.dumps(firstbad)[:220]), rp)
    ctx.extra["ssrb_executions"] = nexec["Trace_Rebin"]
    ctx.extra["zoom_instances"] = nexec["Trace_Zoom"]
    ctx.exhaustive = False
    ctx.assumptions = [
        "generated cylindrical scanners (4..16 detectors per ring, 1..7 rings), odd spans, input data outside the C01-truncseg class",
        "the commuting relation is demanded where the coarse TOF bins are unions of fine ones (odd num_tof_bins_to_combine, or unmashed input); for an even factor on "
        "mashed input only the weaker relation PermOk (every count in a TOF bin whose k-interval contains the centre of its input bin)",
        "inverse_SSRB / extend_segment / interpolate_projdata / downsample_scanner / zoom_viewgram(s) (beyond the property's sentences): exact instances only "
        "(direct sinograms with the same m or half-way, 180-degree data with >= 5 views, same-scanner sampling ratios 1 and 2 with linear B-splines and symmetric tangential "
        "ranges, cylindrical scanners, arc-corrected viewgrams at phi = 0 and pi/2)",
        "zoom: exact replay for zooms p/q with p, q in 1..3, offsets and origins in quarter voxels, integer images; arbitrary zooms in [0.3, 3] through the "
        "relations between observations (fixed point 2^-8 values, 2^-10 mm)"]
    return ctx.finish(rule="one evaluation = one recorded line of the real code explained by TLC: SSRB geometry (Config), real fine / coarse histogram, real SSRB output "
                      "(in-memory, Interfile, normalised), or one zoomed image of one call variant (grid, every voxel, sum, centre of gravity); "
                      "distinct_nontrivial = distinct (parameter class, kind of line / call variant) combinations validated")
