"""C09 — priors: value, gradient and Hessian are mutually consistent and convex.
1. TLC model-checks Priors.tla itself (MC_Priors): on every small grid / stencil / kappa pattern /
   image the documented quadratic formulas satisfy every clause of the property in exact integer
   arithmetic; the RDP derivative formulas (quotient rule) are bracketed by unit differences of the
   potential they differentiate; the fixed-point RDP Hessian is symmetric and PSD up to its tolerance.
2. The driver records what the real QuadraticPrior / RelativeDifferencePrior / LogcoshPrior / PLSPrior
   return: "exact" = integer instances (TLC recomputes every number), "rel" = dyadic random images on
   anisotropic grids (TLC checks relations between pairs of observations and finite-difference
   brackets).  TLC (Trace_Priors) must explain every recorded line."""
import os, json
from . import lib

KEYS = ("prior", "mode", "dims", "wr", "route")


def _record(ctx, exe, mode, n, big, seed, name, san=False):
    t = os.path.join(ctx.work, name)
    env = {"VERIF_SEED": str(seed)}
    if san:
        # PLSPrior with only_2D binds references to null shared_ptrs (UBSan stops there; not a clause of C09, see notes/C09.md)
        env["C09_SKIP_PLS2D"] = "1"
    rc, out = lib.run_driver(exe, [mode, t, n, big], env=env, timeout=1500, allow_fail=True)
    if rc != 0:
        # a sanitizer report / crash inside the code under test: the truncated trace gets an Abort line,
        # which the specification never explains (TLC reports it)
        if rc in (77, 78) or san:
            with open(t, "a") as f:
                f.write(json.dumps({"e": "Abort", "rc": rc, "why": out[-400:]}) + "\n")
        else:
            raise lib.ModelFailure("driver failed rc=%d: %s %s\n%s" % (rc, exe, mode, out[-3000:]))
    return t


def run(ctx):
    q = ctx.quick
    # 1. model check of the specification itself
    cfg = "MC_Priors" if q else "MC_Priors_thorough"
    r = lib.tlc("MC_Priors", cfg=cfg, workers=4 if q else 8, timeout=400 if q else 1500, heap="6g")
    ctx.mc_must_pass(r, "clauses of the property for the specification's formulas (%s)" % cfg, "MC_Priors")
    # 2. record
    if ctx.replay:
        traces = [ctx.replay]
    else:
        exe = lib.build_driver("c09_priors")
        traces = []
        seeds = [ctx.seed] if q else [ctx.seed, ctx.seed + 100]
        for sd in seeds:
            traces.append(_record(ctx, exe, "exact", 240 if q else 1600, 1, sd, "exact-%d.ndjson" % sd))
            traces.append(_record(ctx, exe, "rel", 200 if q else 1200, 1, sd, "rel-%d.ndjson" % sd))
            traces.append(_record(ctx, exe, "hist", 160 if q else 1200, 1, sd, "hist-%d.ndjson" % sd))
            traces.append(_record(ctx, exe, "frp", 80 if q else 600, 1, sd, "frp-%d.ndjson" % sd))
        if not q:
            # the same drivers against the ASan/UBSan-instrumented STIR libraries: an access outside the
            # image (border voxels) aborts the run and leaves an Abort line
            exes = lib.build_driver("c09_priors", santree=True)
            traces.append(_record(ctx, exes, "exact", 120, 1, ctx.seed + 7, "exact-san.ndjson", san=True))
            traces.append(_record(ctx, exes, "rel", 120, 1, ctx.seed + 7, "rel-san.ndjson", san=True))
            traces.append(_record(ctx, exes, "hist", 120, 1, ctx.seed + 7, "hist-san.ndjson", san=True))
            traces.append(_record(ctx, exes, "frp", 60, 1, ctx.seed + 7, "frp-san.ndjson", san=True))
    # 3. validate (chunks in parallel)
    chunks = []
    for t in traces:
        chunks += lib.split_trace(t, os.path.join(ctx.work, "chunks"), maxlines=6000 if q else 12000, boundary="New" if "hist" in os.path.basename(t) else "Config")
    res = lib.validate_parallel("Trace_Priors", [c[0] for c in chunks], jobs=4 if q else 8, timeout=1500)
    known_ids = {k["id"] for k in ctx.known}
    nconf = 0
    per_prior = {}
    for (p, ok, r, at) in res:
        recs = lib.read_ndjson(p)
        ctx.traces += 1
        ctx.evaluations += len(recs)
        ctx.transitions += r.generated
        ctx.states += r.distinct
        cid = None
        cfgline = {}
        for i, rec in enumerate(recs, 1):
            if rec["e"] in ("Config", "New"):
                cid = "|".join(str(rec.get(k)) for k in KEYS) + "|k%d" % (1 if rec.get("kappa") or rec.get("hasKappa") else 0)
                nconf += 1
                per_prior[rec["prior"] + "/" + rec["mode"]] = per_prior.get(rec["prior"] + "/" + rec["mode"], 0) + 1
                if nconf % 131 == 1:
                    ctx.sample({k: rec[k] for k in rec if k not in ("w", "kappa")})
                    if i < len(recs):
                        ctx.sample({k: (v if not isinstance(v, list) or len(v) <= 12 else v[:12] + ["..."]) for k, v in recs[min(i + 2, len(recs) - 1)].items()})
            elif cid:
                ctx.nontrivial(cid + "|" + rec["e"])
            cfgline[i] = cid
        if at is not None or not ok:
            ctx.violation("trace not consumed (line %s)" % at, p)
            continue
        bad = lib.unexplained(r)
        newbad = []
        for (ln, cls) in bad:
            if cls in known_ids:
                k = [x for x in ctx.known if x["id"] == cls][0]
                ctx.known_hits[cls] = k["what"]
            else:
                newbad.append(ln)
        if newbad:
            # replay file: the configuration (and image) lines the unexplained lines depend on + those lines
            out, cfg_rec, img_rec, emitted = [], None, None, set()
            for i, rec in enumerate(recs, 1):
                if rec["e"] in ("Config", "New"):
                    cfg_rec, img_rec = (i, rec), None
                elif rec["e"] == "Image":
                    img_rec = (i, rec)
                if i in newbad[:20]:
                    for dep in (cfg_rec, img_rec):
                        if dep is not None and dep[0] not in emitted and dep[0] != i:
                            out.append(dep[1])
                            emitted.add(dep[0])
                    if i not in emitted:
                        out.append(rec)
                        emitted.add(i)
            rp = os.path.join(ctx.work, "violation-" + os.path.basename(p))
            lib.write_ndjson(rp, out)
            first = recs[newbad[0] - 1]
            ctx.violation("%d recorded observations not explained by Priors.tla, first: %s" % (len(newbad), json.dumps(first)[:300]), rp)
    ctx.extra["configurations"] = nconf
    ctx.extra["configurations_per_prior_and_mode"] = per_prior
    ctx.exhaustive = False
    ctx.assumptions = [
        "user weights are non-negative; weights that are not symmetric (w[dr] # w[-dr]) or not zero at the centre are driven too and are the known findings C09-asymweights / C09-centreweight",
        "log-cosh and PLS: the numeric content of value/gradient/Hessian is not recomputed (transcendental potentials); 'gradient is the derivative of the value' and "
        "'Hessian is the derivative of the gradient' are decided by finite-difference brackets between recorded observations (steps 2^-4, 2^-8 resp. 2^-6) where convexity / monotonicity "
        "justify them (see notes/C09.md); positive semi-definiteness is checked on recorded directions, not proved",
        "single-precision tolerances are operators of Priors.tla (AgreesFix/Slack, ScaleAgrees, FDVTol, FDGTol)"]
    return ctx.finish(rule="one evaluation = one recorded line (a call or a pair/tuple of calls of the GeneralisedPrior API with all inputs needed to judge it); "
                      "distinct_nontrivial = distinct (prior, mode, image shape, stencil radii, configuration route, kappa yes/no, kind of observation) combinations validated")
