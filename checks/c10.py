"""C10 — image files round-trip voxel positions, values and exam information.
1. TLC model-checks the write / read maps of ImageIO.tla (geometry re-normalisation, quantisation with
   automatic / user scale, exam information the format stores, every truncation length) on small images.
2. The driver records real round trips through InterfileOutputFileFormat, the Interfile and Multi formats
   for dynamic and parametric images and read_from_file (every NumericType x ByteOrder x scale setting,
   seeded geometry / values / exam information) and decodes the written files with its own reader;
   it also truncates data files at every length.  TLC (Trace_ImageIO) must explain every recorded line."""
import json, os, re
from . import lib

BAD_RE = re.compile(r'<<\s*(\d+),\s*"([^"]+)",\s*"([^"]+)"\s*>>')


def unexplained3(r):
    i = r.out.find('"UNEXPLAINED"')
    if i < 0:
        return []
    j = r.out.find("Model checking completed", i)
    return [(int(a), b, c) for a, b, c in BAD_RE.findall(r.out[i:j if j > 0 else len(r.out)])]


def case_summary(img, wr):
    g = img["geo"][0]
    return {"kind": img["kind"], "format": img["fmt"], "datasets": img["nd"], "min": g["min"], "size": g["size"], "origin_8th_mm": g["org"],
            "voxel_8th_mm": g["vox"], "values": img["dist"], "exponent": img["vexp"], "type": wr["type"], "byte_order": wr["bo"],
            "scale": "auto" if wr["scaleM"] == 0 else "2^%d" % wr["scaleE"], "modality": img["exam"]["mod"],
            "frames_ms": img["exam"]["frames"], "radionuclide": img["exam"]["rn"]}


def run(ctx):
    q = ctx.quick
    # 1. model check of the specification itself (every action must be taken)
    cfg = "MC_ImageIO" if q else "MC_ImageIO_thorough"
    r = lib.tlc("MC_ImageIO", cfg=cfg, workers=4 if q else 8, timeout=1200, heap="6g", coverage=True)
    ctx.mc_must_pass(r, "write/read maps satisfy the property (%s)" % cfg, "MC_ImageIO")
    for act in ("Write", "TruncateAct", "Read"):
        if act in r.coverage and r.coverage[act][0] == 0:
            raise lib.ModelFailure("MC_ImageIO: action %s never taken" % act)
    # 2. record
    exe = lib.build_driver("c10_imageio")
    env = {"VERIF_SEED": str(ctx.seed)}
    if ctx.replay:
        traces = [ctx.replay]
    else:
        t1 = os.path.join(ctx.work, "roundtrips.ndjson")
        lib.run_driver(exe, ["rt", t1, 640 if q else 8000, 0 if q else 1], env=env, timeout=900)
        t2 = os.path.join(ctx.work, "truncations.ndjson")
        lib.run_driver(exe, ["trunc", t2, 0 if q else 1], env=env, timeout=900)
        t0 = os.path.join(ctx.work, "geometry-family.ndjson")
        lib.run_driver(exe, ["geo", t0, 0], env=env, timeout=900)
        traces = [t0, t1, t2]
        if not q:
            # a second seeded family, and a pass with the ASan/UBSan-instrumented STIR libraries: a sanitizer
            # report inside write_to_file / read_from_file is a violation (memory safety of the IO path).
            t3 = os.path.join(ctx.work, "roundtrips-b.ndjson")
            lib.run_driver(exe, ["rt", t3, 4000, 1], env={"VERIF_SEED": str(ctx.seed + 1000)}, timeout=900)
            traces.append(t3)
            exe_san = lib.build_driver("c10_imageio", santree=True)
            # while the overflow in stir::round is open (known finding C10-roundint; UBSan stops at it) the pass
            # leaves out the three types wider than int
            stage = 2 if any(k["id"] == "C10-roundint" for k in ctx.known) else 0
            for mode, args, name in (("rt", [700, stage], "san-roundtrips.ndjson"), ("trunc", [stage], "san-truncations.ndjson")):
                tp = os.path.join(ctx.work, name)
                rc, out = lib.run_driver(exe_san, [mode, tp] + args, env=dict(env, VERIF_STDERR="1"), timeout=1200, allow_fail=True)
                rep = [l for l in out.splitlines() if "runtime error:" in l or "ERROR: AddressSanitizer" in l or "ERROR: LeakSanitizer" in l]
                if rc in (77, 78) or rep:
                    ctx.violation("sanitizer report in the image IO path: %s" % (rep[0][:200] if rep else "exit %d" % rc), tp)
                elif rc != 0:
                    raise lib.ModelFailure("sanitized driver failed rc=%d:\n%s" % (rc, out[-2000:]))
                traces.append(tp)
            ctx.notes.append("sanitizer pass (ASan/UBSan STIR libraries): %s" % ("without UINT/LONG/ULONG (C10-roundint open)" if stage == 2 else "all types"))
    # 3. validate (chunks in parallel; every case starts with its own Env line)
    chunks = []
    for t in traces:
        chunks += lib.split_trace(t, os.path.join(ctx.work, "chunks"), maxlines=900 if q else 2500, boundary="Env")
    res = lib.validate_parallel("Trace_ImageIO", [c[0] for c in chunks], jobs=4 if q else 8, timeout=1500, heap="3g")
    known_ids = {k["id"] for k in ctx.known}
    ncases = ntrunc = 0
    for (p, ok, r, at) in res:
        recs = lib.read_ndjson(p)
        ctx.traces += 1
        ctx.transitions += r.generated
        ctx.states += r.distinct
        img = wr = None
        for rec in recs:
            e = rec["e"]
            if e == "Env":
                continue
            ctx.evaluations += 1
            if e == "Img":
                img = rec
                ncases += 1
            elif e == "Write":
                wr = rec
                if ncases % 97 == 1 and img is not None:
                    ctx.sample(case_summary(img, wr))
            if e == "Trunc":
                ntrunc += 1
            if img is not None and wr is not None:
                g = img["geo"][0]
                ctx.nontrivial("%s|%s|%s|%s|%s|%s|%s|%s|%s" % (e if e != "Trunc" else "Trunc%d/%d" % (rec.get("file", 1), rec["len"]), img["kind"], img["fmt"], wr["type"], wr["bo"],
                                                             "auto" if wr["scaleM"] == 0 else wr["scaleE"] - img["vexp"], img["dist"], img["vexp"], g["size"]))
        if at is not None or not ok:
            ctx.violation("trace not consumed (line %s)" % at, p)
            continue
        newbad = []
        for (ln, cls, why) in unexplained3(r):
            if cls in known_ids:
                k = [x for x in ctx.known if x["id"] == cls][0]
                ctx.known_hits[cls] = k["what"]
            else:
                newbad.append((ln, cls, why))
        if newbad:
            # replay file: for each unexplained line its Env / Img / Write context + the line itself
            out, seen = [], set()
            for (ln, cls, why) in newbad[:10]:
                rec = recs[ln - 1]
                ctxl = [i for i in range(ln) if recs[i]["e"] == "Env" or (recs[i].get("id") == rec.get("id") and recs[i]["e"] in ("Img", "Write"))]
                last_env = max([i for i in ctxl if recs[i]["e"] == "Env"] or [0])
                for i in [last_env] + [i for i in ctxl if recs[i]["e"] != "Env"] + [ln - 1]:
                    if i not in seen:
                        seen.add(i)
                        out.append(recs[i])
            rp = os.path.join(ctx.work, "violation-" + os.path.basename(p))
            lib.write_ndjson(rp, out)
            ln, cls, why = newbad[0]
            rec = recs[ln - 1]
            ctx.violation("%d recorded lines not explained by ImageIO.tla; first: %s line of case %s fails clause %s (%s)" % (
                len(newbad), rec["e"], rec.get("id"), why, cls), rp)
    ctx.extra["round_trips"] = ncases
    ctx.extra["truncations"] = ntrunc
    ctx.exhaustive = False
    ctx.assumptions = [
        "voxel sizes, origins and positions are multiples of 1/8 mm, voxel values m*2^e with |m| < 2^23 (exact in single precision); "
        "the half-step bound of non-power-of-two scale factors is decided in fixed point with the named allowances HalfStep + FloatSlack (2^-20 relative)",
        "the driver's own header/raw-data reader (harness/c10_imageio.cxx) is trusted to decode the files it logs",
        "exam information: modality, patient position, time frames, radionuclide (name, half life, branching ratio), energy window, calibration factor; "
        "documented defaults are named deviations (no frames -> one empty frame, energy window only when both thresholds > 0, default radionuclide of the modality, "
        "native byte order for the dynamic/parametric Interfile formats)"]
    return ctx.finish(rule="one evaluation = one recorded line (image handed to write_to_file, files found after write_to_file as decoded by the driver's own reader, "
                      "image returned by read_from_file, outcome of read_from_file on a data file cut at one length) decided by TLC; "
                      "distinct_nontrivial = distinct (kind of line, container, format, number type, byte order, scale setting, value distribution, exponent, size) combinations")
