"""C18 — multi-threaded execution gives the single-thread result under every schedule.
1. TLC checks the process model Threads.tla exhaustively (every interleaving of the double-checked-locking
   table initialisation, the locked row cache, the dynamic work distribution with per-thread accumulators and
   the reduction, the I/O critical section): all invariants, no deadlock, termination under weak fairness;
   six versions of the model with one protection removed each MUST violate an invariant.
2. The OpenMP driver records executions of the real code (fresh objects per run, 1 thread = reference, then
   2..40 threads with seeded yields / sleeps injected at the hook points); TLC (Trace_Threads) must explain
   every hook event with the same rules and compares every numeric output with the 1-thread run.
Python only orchestrates, counts and maps TLC's verdicts to VIOLATION lines."""
import json, os, re, time
from . import lib

BUGS = ["nocritical", "flagfirst", "nolock", "noreduce", "noiolock", "sharedacc", "staleacc", "notextlock", "noguard"]
ACTIONS = ["ReadFlag", "EnterCritical", "RecheckFlag", "Fill1", "Fill2", "SetFlag", "LeaveCritical", "UseTable", "Take", "Seek", "ReadIO",
           "LockLookup", "Find", "Compute", "LockInsert", "Count", "Insert", "Accumulate", "Reduce"]
# several calls on the same objects with a changing number of active threads (StartCall): quick / thorough configurations
CALLS = {True: ["MC_Threads_calls3"], False: ["MC_Threads_calls_thorough", "MC_Threads_calls3"]}
MORE = {True: [], False: ["MC_Threads_thorough4"]}      # 4 threads
WORKLOADS = ["lazy", "rows", "proj", "ll", "lm", "scat", "io", "norm", "sys"]


def counts_of(r):
    i = r.out.find('"COUNTS"')
    if i < 0:
        return None
    j = r.out.find(">>", i)
    return {k: int(v) for k, v in re.findall(r"(\w+) \|-> (\d+)", r.out[i:j])}


def instance_slice(recs, line):
    """the instance (Inst .. EndInst) containing 1-based line `line`"""
    start = 0
    for k in range(min(line, len(recs)) - 1, -1, -1):
        if recs[k]["e"] == "Inst":
            start = k
            break
    end = len(recs)
    for k in range(start + 1, len(recs)):
        if recs[k]["e"] == "Inst":
            end = k
            break
    return recs[start:end], start


def run(ctx):
    q = ctx.quick
    # ---------------------------------------------------------------- 1. model checks
    cfg = "MC_Threads" if q else "MC_Threads_thorough"
    r = lib.tlc("MC_Threads", cfg=cfg, workers=4 if q else 8, timeout=1500, heap="6g", coverage=True, deadlock=True)
    ctx.mc_must_pass(r, "all interleavings, safety + deadlock freedom (%s)" % cfg, "MC_Threads")
    cov = dict(r.coverage)
    # the small configurations run side by side (1-2 workers each)
    import concurrent.futures as cf
    jobs = [(cc, "all interleavings, safety + deadlock freedom (%s)" % cc, True) for cc in MORE[q]]
    jobs += [(cc, "repeated calls with changing thread counts: result = items of this call only (%s)" % cc, True) for cc in CALLS[q]]
    jobs += [("MC_Threads_live" if q else "MC_Threads_live_thorough", "termination under weak fairness (FairSpec)", True)]
    if not q:
        jobs += [("MC_Threads_live_calls_thorough", "termination under weak fairness, repeated calls (FairSpec)", True)]
    jobs += [("MC_Threads_bug_" + b, b, False) for b in BUGS]

    def one(job):
        cc, what, must_pass = job
        return job, lib.tlc("MC_Threads", cfg=cc, workers=1 if q else 2, timeout=1500, heap="3g", coverage=must_pass, deadlock=True, tag=cc)
    with cf.ThreadPoolExecutor(4) as ex:
        results = list(ex.map(one, jobs))
    for (cc, what, must_pass), rr in results:
        if must_pass:
            ctx.mc_must_pass(rr, what + " [" + cc + "]", "MC_Threads")
            for a, v in rr.coverage.items():
                if a not in cov or cov[a][1] == 0:
                    cov[a] = v
        else:
            if not rr.violation:
                raise lib.ModelFailure("MC_Threads with protection '%s' removed does not violate any invariant: the model is vacuous" % what)
            ctx.notes.append("model with bug '%s' violates %s (as it must)" % (what, ",".join(re.findall(r"Invariant (\w+) is violated", rr.out))))
    for a in ACTIONS + ["StartCall", "LogBegin", "LogEnd", "NestedCall"]:
        if cov.get(a, (0, 0))[1] == 0:
            raise lib.ModelFailure("MC_Threads: action %s never taken (vacuous model check)" % a)
    lib.log("C18: model checks done at %.0fs" % (time.time() - ctx.t0))
    # ---------------------------------------------------------------- 2. record
    env = {"VERIF_SEED": str(ctx.seed), "OMP_WAIT_POLICY": "passive", "GOMP_SPINCOUNT": "0", "OMP_DYNAMIC": "false", "OMP_NUM_THREADS": "4"}
    if ctx.replay:
        traces = [ctx.replay]
    else:
        exe = lib.build_driver("c18_threads", omp=True)
        scratch = os.path.join(ctx.work, "scratch")
        os.makedirs(scratch, exist_ok=True)
        # (name, instances per workload, repetitions per thread count, size class, seed offset)
        plan = [("q", 2, 2, 0, 0)] if q else [("t0", 5, 3, 0, 0), ("t1", 2, 2, 1, 500), ("t2", 5, 3, 0, 900)]
        traces = []
        for (name, ninst, reps, size, off) in plan:
            t = os.path.join(ctx.work, name + ".ndjson")
            e = dict(env)
            e["VERIF_SEED"] = str(ctx.seed + off)
            lib.run_driver(exe, ["run", t, scratch, ninst, reps, size], env=e, timeout=2400)
            traces.append(t)
        for f in os.listdir(scratch):
            try:
                os.remove(os.path.join(scratch, f))
            except OSError:
                pass
    lib.log("C18: recording done at %.0fs" % (time.time() - ctx.t0))
    # ---------------------------------------------------------------- 3. validate
    chunks = []
    for t in traces:
        chunks += lib.split_trace(t, os.path.join(ctx.work, "chunks"), maxlines=12000 if q else 30000, boundary="Inst")
    res = lib.validate_parallel("Trace_Threads", [c[0] for c in chunks], jobs=4 if q else 8, timeout=2400, heap="3g")
    total = {"ev": 0, "out": 0, "runs": 0}
    seen_wl, seen_T, nref, nruns, nhist, nphase = set(), set(), 0, 0, 0, 0
    races = {"lazy_lost_race_table%d" % i: 0 for i in range(1, 6)}
    races["cache_insert_lost_race"] = 0
    for (p, ok, r, at) in res:
        recs = lib.read_ndjson(p)
        ctx.transitions += r.generated
        ctx.states += r.distinct
        for rec in recs:
            # (counting only) how often the recorded schedules really raced for a first use
            if rec["e"] == "lazy.enter" and rec["v"] == 1:
                races["lazy_lost_race_table%d" % rec["id"]] += 1
            elif rec["e"] == "cache.insert" and rec["c"] == 1:
                races["cache_insert_lost_race"] += 1
            if rec["e"] == "Run":
                nruns += 1
                nref += 1 if rec["ref"] else 0
                seen_wl.add(rec["wl"]); seen_T.add(rec["T"])
                seen_T.update(rec["hist"])
                nhist += 1 if len(rec["hist"]) > 1 else 0
                nphase += len(rec["hist"])
                ctx.nontrivial([rec["wl"], rec["T"], rec["hist"] if len(rec["hist"]) == 1 else "history", rec["mode"]])
                if nruns % 37 == 2 or (len(rec["hist"]) > 1 and nhist % 9 == 1):
                    ctx.sample({k: rec[k] for k in ("wl", "inst", "T", "hist", "rep", "mode")}, cap=8)
        if at is not None or not ok:
            ctx.violation("trace not consumed (line %s)" % at, p)
            continue
        c = counts_of(r)
        if c is None:
            raise lib.ModelFailure("Trace_Threads printed no COUNTS for %s:\n%s" % (p, r.out[-2000:]))
        for k in total:
            total[k] += c.get(k, 0)
        badl = lib.unexplained(r)
        if badl:
            # C18 traces are re-validated, not re-recorded: the verdict must repeat on the same file
            ok2, r2, at2 = lib.validate_trace("Trace_Threads", p, timeout=2400, heap="3g")
            if lib.unexplained(r2) != badl:
                raise lib.ModelFailure("validation of %s is not repeatable: %s vs %s" % (p, badl, lib.unexplained(r2)))
        done_inst = set()
        known_ids = {k["id"] for k in ctx.known}
        for (ln, cls) in badl:
            if cls in known_ids:
                # classified by the trace specification (Classify): a run that raises the thread count after set_up
                ctx.known_hits[cls] = [x for x in ctx.known if x["id"] == cls][0]["what"]
                continue
            sl, start = instance_slice(recs, ln)
            inst = sl[0].get("inst") if sl else None
            if inst in done_inst:
                continue
            done_inst.add(inst)
            rp = os.path.join(ctx.work, "violation-%s-inst%s.ndjson" % (os.path.basename(p).replace(".ndjson", ""), inst))
            lib.write_ndjson(rp, sl)
            rec = recs[ln - 1]
            runrec = None
            for k in range(ln - 1, -1, -1):
                if recs[k]["e"] == "Run":
                    runrec = recs[k]
                    break
            brief = {k: v for k, v in rec.items() if k != "v"}
            ctx.violation("%s: recorded execution not explained by the thread model, workload %s, threads %s, line %d of the instance: %s" % (
                cls, sl[0].get("wl") if sl else "?", ("%s at set_up, then %s" % (runrec.get("T"), runrec.get("hist"))) if runrec else "?", ln - start, json.dumps(brief)[:300]), rp, rec=None)
    ctx.traces = total["runs"]
    ctx.evaluations = total["ev"] + total["out"]
    ctx.extra["runs_recorded"] = nruns
    ctx.extra["reference_runs"] = nref
    ctx.extra["thread_count_history_runs"] = nhist
    ctx.extra["phases_recorded"] = nphase
    ctx.extra["hook_events_checked"] = total["ev"]
    ctx.extra["outputs_compared"] = total["out"]
    ctx.extra["thread_counts"] = sorted(seen_T)
    ctx.extra["first_use_races_recorded"] = races
    if not ctx.replay and not ctx.violations:
        missing = [w for w in WORKLOADS if w not in seen_wl]
        idle = [k for k, v in races.items() if v == 0]
        if idle:
            raise lib.ModelFailure("vacuous run: no first-use race was recorded for %s" % idle)
        if nhist == 0:
            raise lib.ModelFailure("vacuous run: no thread-count history was recorded")
        if missing or total["runs"] == 0 or total["out"] == 0 or not (seen_T & {16, 40}):
            raise lib.ModelFailure("vacuous run: workloads missing %s, runs %d, outputs %d, thread counts %s" % (missing, total["runs"], total["out"], sorted(seen_T)))
    ctx.exhaustive = False
    ctx.assumptions = [
        "real schedules are sampled (OpenMP dynamic scheduling on a loaded machine plus seeded yields/sleeps injected at every hook point), not enumerated; exhaustiveness over interleavings holds for the model only",
        "hook events do not identify the object: the flag of a lazy table is tracked across critical sections only in the workloads that reach exactly one geometry object; elsewhere each critical section is checked on its own (mutual exclusion is global in both cases)",
        "numeric outputs are compared with the 1-thread run of the same calls in fixed point: |a-b| <= 2^-14 * max|reference array| + 2 units (integer-valued outputs exactly)",
        "the critical sections around stream / in-memory I/O carry no call-out: they are validated through the outputs of workloads that read and write Interfile projection data on disk"]
    return ctx.finish(rule="one trace = one recorded execution (run) of a workload with fresh objects at a given thread count and perturbation schedule, validated event by event; "
                      "one evaluation = one hook event explained by the thread model (mutual exclusion, flag after fill, complete table at use, cache content, one effective insert, "
                      "work items vs 1-thread run, reduction covering every accumulator) or one output array compared with the 1-thread run; "
                      "distinct_nontrivial = distinct (workload, thread count, perturbation mode) combinations")
