"""C14 — list-mode histogramming and the list-mode likelihood agree with the event list.
1. TLC proves on LmToProj.tla that the implementation-shaped machine of LmToProjData::process_data
   (frames, passes over segment / TOF batches, rewind to the saved frame start, save) ends every frame with
   the ABSTRACT histogram of the stream for every num_segments_in_memory x num_TOF_bins_in_memory, that
   after every pass exactly the saved segments hold it, and that the frames of a partition add up; and TLC
   must REFUTE the model of the code's treatment of frames without a time mark (vacuity guard).
2. The driver serves in-memory list-mode streams to the real LmToProjData through the list-mode seam and
   records every call through the seam, the lm.* hook events and the output after every pass; TLC
   (Trace_LmToProj) must explain every line by the machine and every frame by the abstract histogram.
3. The gradients / data terms / sensitivities of the real list-mode objective function and of the
   projection-data objective function on the histogram are recorded (exact instances on the explicit-matrix
   seam, fixed point with the ray-tracing matrix); TLC compares them (and computes the exact ones itself).
Python only orchestrates, counts and maps TLC's verdicts."""
import concurrent.futures as cf
import json, os, re, time
from . import lib

ACTIONS = ["ANewFrame", "ABatch", "ASkipRecord", "ASkipEof", "ASavePosition", "AFrameStart", "ASetPosition", "ARewind",
           "AReadTime", "AReadEvent", "AReadEof", "ABatchSave"]
HIST_EVENTS = ["NewFrame", "Batch", "R", "Sv", "FrameStart", "St", "Rewind", "Save", "Out", "End"]


def _model_checks(ctx):
    q = ctx.quick
    cfgs = ["MC_LmToProj", "MC_LmToProj_frames"] if q else ["MC_LmToProj_thorough", "MC_LmToProj_frames_thorough", "MC_LmToProj_deep", "MC_LmToProj_segrange"]

    def one(c):
        return (c, lib.tlc("MC_LmToProj", cfg=c, workers=4, timeout=600 if q else 1500, heap="6g", coverage=True, tag=c))
    with cf.ThreadPoolExecutor(1 if q else 2) as ex:
        res = list(ex.map(one, cfgs))
    # the model of the unchanged code's treatment of a frame without a time mark must be refuted
    ru = lib.tlc("MC_LmToProj", cfg="MC_LmToProj_unpatched", workers=2, timeout=300, heap="4g", tag="MC_LmToProj_unpatched")
    return res, ru


def _record(ctx, exe, exe_omp):
    q = ctx.quick
    env = {"VERIF_SEED": str(ctx.seed)}
    w = ctx.work
    os.makedirs(os.path.join(w, "files"), exist_ok=True)
    # OpenMP runs: few threads, no spinning (the machine is shared)
    omp = {"OMP_NUM_THREADS": "3", "OMP_WAIT_POLICY": "passive", "GOMP_SPINCOUNT": "0"}
    cache = os.path.join(w, "cache")
    os.makedirs(cache, exist_ok=True)
    jobs = [("hist", exe, ["hist", os.path.join(w, "hist.ndjson"), 24 if q else 150, 36 if q else 50, 0 if q else 1, os.path.join(w, "files")], {}),
            ("allbatch", exe, ["allbatch", os.path.join(w, "allbatch.ndjson"), 3 if q else 8, 18 if q else 40], {}),
            ("long", exe, ["long", os.path.join(w, "long.ndjson"), 1 if q else 3, 2000 if q else 10000], {}),
            ("reuse", exe, ["reuse", os.path.join(w, "reuse.ndjson"), 16 if q else 120, 20 if q else 40, os.path.join(w, "files")], {}),
            ("ecat", exe, ["ecat", os.path.join(w, "ecat.ndjson"), 12 if q else 120, 40 if q else 80], {}),
            ("gradx", exe, ["gradx", os.path.join(w, "gradx.ndjson"), 16 if q else 200, 0 if q else 1, cache], {}),
            ("gradx-omp", exe_omp, ["gradx", os.path.join(w, "gradx-omp.ndjson"), 16 if q else 150, 0 if q else 1, cache], omp),
            ("grad", exe, ["grad", os.path.join(w, "grad.ndjson"), 12 if q else 80, 0 if q else 1, cache], {}),
            ("grad-omp", exe_omp, ["grad", os.path.join(w, "grad-omp.ndjson"), 10 if q else 150, 0 if q else 1, cache], omp)]
    out = []
    for name, x, args, e in jobs:
        ee = dict(env)
        ee.update(e)
        lib.run_driver(x, args, env=ee, timeout=900)
        out.append((name, args[1]))
    return out


STARTS = ("Config", "GConfig", "EConfig")


def _execution(recs, ln):
    """the lines of the execution that contains (1-based) line ln: (first line number, records)"""
    a = ln - 1
    while a > 0 and recs[a]["e"] not in STARTS:
        a -= 1
    b = a + 1
    while b < len(recs) and recs[b]["e"] not in STARTS:
        b += 1
    return a + 1, recs[a:b]


def _cover(r):
    """the coverage counters printed by Trace_LmToProj (decided by TLC on accepted lines)"""
    i = r.out.find('"COVER"')
    if i < 0:
        return {}
    j = r.out.find("]", i)
    return {k: int(v) for k, v in re.findall(r"(\w+) \|-> (\d+)", r.out[i:j])}


def run(ctx):
    q = ctx.quick
    t0 = time.time()
    # many JVMs run side by side on a shared machine: keep each one's GC / JIT thread pools small
    os.environ.setdefault("JAVA_TOOL_OPTIONS", "-XX:ParallelGCThreads=2 -XX:CICompilerCount=2")
    pool = cf.ThreadPoolExecutor(2)
    mc_future = None if ctx.replay else pool.submit(_model_checks, ctx)
    # ---- record
    if ctx.replay:
        traces = [("replay", ctx.replay)]
    else:
        exe = lib.build_driver("c14_lmtoproj")
        exe_omp = lib.build_driver("c14_lmtoproj", omp=True)
        lib.log("C14: drivers built %.0fs" % (time.time() - t0))
        traces = _record(ctx, exe, exe_omp)
        lib.log("C14: traces recorded %.0fs" % (time.time() - t0))
    # ---- validate: the executions are independent; concatenate the traces per kind and cut them into chunks
    chunks = []
    if ctx.replay:
        first = open(ctx.replay).readline()
        chunks = [("replay", c[0]) for c in lib.split_trace(ctx.replay, os.path.join(ctx.work, "chunks"), maxlines=10 ** 9,
                                                             boundary="GConfig" if '"e":"GConfig"' in first else "EConfig" if '"e":"EConfig"' in first else "Config")]
    else:
        for kind, boundary, per in (("hist", "Config", 6000 if q else 15000), ("grad", "GConfig", 1500 if q else 4000), ("ecat", "EConfig", 10 ** 9)):
            cat = os.path.join(ctx.work, kind + "-all.ndjson")
            with open(cat, "w") as f:
                for name, t in traces:
                    k = "grad" if name.startswith("grad") else "ecat" if name == "ecat" else "hist"
                    if k == kind:
                        f.write(open(t).read())
            for c in lib.split_trace(cat, os.path.join(ctx.work, "chunks"), maxlines=per, boundary=boundary):
                chunks.append((kind, c[0]))
    res = lib.validate_parallel("Trace_LmToProj", [c[1] for c in chunks], jobs=4 if q else 8, timeout=1500, heap="3g")
    lib.log("C14: %d chunks validated %.0fs" % (len(chunks), time.time() - t0))
    known_ids = {k["id"]: k for k in ctx.known}
    seen_events = set()
    nexec = {}
    cover = {}
    changed_kinds = set()
    for (name, _), (p, ok, r, at) in zip(chunks, res):
        recs = lib.read_ndjson(p)
        ctx.traces += 1
        ctx.transitions += r.generated
        ctx.states += r.distinct
        bad = lib.unexplained(r)
        badlines = {ln for ln, _ in bad}
        for k, v in _cover(r).items():
            cover[k] = cover.get(k, 0) + v
        if at is not None or not ok:
            ctx.violation("trace not consumed (line %s)" % at, p)
            continue
        # count what was validated
        cur, cfg, dead = None, None, False
        for i, rec in enumerate(recs, 1):
            e = rec["e"]
            if e in STARTS:
                cfg = rec
                dead = False
                nexec[name] = nexec.get(name, 0) + 1
                if nexec[name] % 37 == 1:
                    ctx.sample({k: rec[k] for k in rec if k not in ("segs", "rows", "lam", "add")})
                sig = (e, rec["N"], rec["R"], rec["span"], rec["mash"], rec["tofMash"], rec["maxTang"] - rec["minTang"], rec["maxSeg"],
                       rec.get("segIM"), rec.get("tofIM"), rec.get("storeP"), rec.get("storeD"), rec.get("nStore", 0) > 0,
                       len(rec.get("frames", [])), rec.get("numSubsets"), rec.get("hasAdd"), rec.get("cache"), rec.get("disk"))
            if e in STARTS and rec.get("reuse"):
                changed_kinds.add((e, rec.get("changed")))
            if i in badlines:
                dead = True
            if dead or cfg is None:
                continue
            ctx.evaluations += 1
            seen_events.add(e)
            if e == "Out" and rec["nz"]:
                ctx.nontrivial(json.dumps(sig) + "Out%s" % rec.get("part"))
            elif e in ("Grad", "Sens", "Hess") and any(rec["pd"]):
                ctx.nontrivial(json.dumps(sig) + e + str(rec.get("plusSens")))
            elif e == "W":
                ctx.nontrivial(json.dumps(sig) + "W%s%s%s" % (rec["isEvent"], rec["isTime"], rec.get("ok")))
            elif e in ("St", "Rewind"):
                ctx.nontrivial(json.dumps(sig) + e)
        # verdicts
        for ln, cls in bad:
            if cls in known_ids:
                ctx.known_hits[cls] = known_ids[cls]["what"]
                continue
            first, ex = _execution(recs, ln)
            if recs[ln - 1]["e"] == "Abort" and ln >= 2 and recs[ln - 2]["e"] == "End":
                raise lib.ModelFailure("the driver aborted between two executions (outside the code under test), after %s" % json.dumps(ex[0])[:300])
            if cls == "bad-config":
                raise lib.ModelFailure("driver produced an execution outside the domain of LmToProj.tla: %s" % json.dumps(ex[0])[:400])
            rp = os.path.join(ctx.work, "violation-%s-%d.ndjson" % (os.path.basename(p).replace(".ndjson", ""), ln))
            lib.write_ndjson(rp, ex)
            ctx.violation("execution not explained by LmToProj.tla%s at its line %d: %s | configuration %s" % (
                " (signature of %s)" % cls if cls != "new" else "", ln - first + 1, json.dumps(recs[ln - 1])[:160], json.dumps({k: ex[0][k] for k in ex[0] if k not in ("segs", "rows", "lam", "add")})[:300]), rp)
    if not ctx.replay:
        missing = [e for e in HIST_EVENTS + ["Grad", "Sens", "Hess", "W"] if e not in seen_events]
        if missing and not ctx.violations:
            raise lib.ModelFailure("vacuity guard: no validated event of kind %s in the recorded traces" % missing)
        # (+ re-used LmToProjData / list-mode objective objects, sub-gradients with >= 3 subsets and real symmetries,
        #  "maximum segment number to process" 0 and max + 1)
        # what TLC saw in the ACCEPTED executions: later passes (rewinds) over a frame without time mark, time marks exactly
        # on a frame end, empty frames, gradients over several event batches (re-read and cached on disk), TOF ECAT words
        ctx.extra["cover"] = cover
        ctx.extra["reuse_changed"] = sorted("%s:%s" % k for k in changed_kinds)
        want = {("Config", k) for k in ("storeD", "storeP", "nStore", "frames", "template", "input", "segIM", "tofIM", "prefix")} | \
               {("GConfig", k) for k in ("numSubsets", "maxSegProc", "frame", "cache")}
        if want - changed_kinds and not ctx.violations:
            raise lib.ModelFailure("vacuity guard: no re-use history changed %s" % sorted(want - changed_kinds))
        idle = [k for k in ("emptyFrameRewind", "boundaryMark", "emptyOut", "multiBatchMem", "multiBatchDisk", "ecatTofWords",
                             "reuse", "reuseObj", "subsets3", "segZero", "segRefused") if cover.get(k, 0) == 0]
        if idle and not ctx.violations:
            raise lib.ModelFailure("vacuity guard: no accepted recorded execution exercised %s" % idle)
        ctx.extra["executions"] = nexec
    # ---- model checks
    if mc_future is not None:
        mcs, ru = mc_future.result()
        lib.log("C14: model checks done %.0fs" % (time.time() - t0))
        cov = {}
        for c, r in mcs:
            ctx.mc_must_pass(r, "machine = abstract histogram, all batch sizes (%s)" % c, "MC_LmToProj")
            for a, (n, _) in r.coverage.items():
                cov[a] = cov.get(a, 0) + n
        idle = [a for a in ACTIONS if cov.get(a, 0) == 0]
        if idle:
            raise lib.ModelFailure("vacuity guard: actions never taken in MC_LmToProj: %s" % idle)
        if not ru.violation:
            raise lib.ModelFailure("vacuity guard: the model of a frame without a time mark handled as in the unchanged code "
                                   "was not refuted by TLC (InvOut does not bite)")
        ctx.notes.append("MC_LmToProj_unpatched refuted as expected (%d states)" % ru.distinct)
    ctx.exhaustive = False
    ctx.assumptions = [
        "machine = abstract histogram is model-checked for streams of up to %d records over a 4-detector, 2-ring TOF geometry and assumed beyond; "
        "recorded executions of up to 400 records (100 with num_events_to_store) are additionally compared with the abstract histogram directly" % (3 if q else 5),
        "time marks are non-decreasing; frame ends later than 10 ms (an end of at most 10 ms means 'until the end of the stream' in the code); "
        "frame definitions and num_events_to_store are not combined (documented as alternatives)",
        "cylindrical scanners, odd spans, last segment not truncated to one ring difference (C01-truncseg class excluded)",
        "for TOF data the full gradient (data term minus sensitivity) is not compared: the projection-data objective subtracts the TOF sensitivity in "
        "projection space, both classes document the non-TOF sensitivity as an approximation; data terms and sensitivities are compared"]
    return ctx.finish(rule="one evaluation = one recorded line of an accepted execution (a call through the list-mode seam, a hook event of "
                      "process_data, an output snapshot compared bin by bin, a gradient/sensitivity comparison); distinct_nontrivial = distinct "
                      "(geometry, settings, kind) combinations with a non-empty output, a rewind, or a non-zero gradient")
