"""C05 — Poisson log-likelihood quantities equal their textbook definition.
1. TLC checks the theorems of PoissonLL.tla (gradient+sensitivity = gradient + sensitivity, subsets sum to
   the full data, Hessian symmetric / negative semi-definite, unused bins irrelevant) on small exact
   instances, and LLSetup.tla (set-up bookkeeping) for every order of requests; the pre-fix guard variant
   must be refuted by TLC (the model keeps seeing defect 4).
2. The driver runs the real PoissonLogLikelihoodWithLinearModelForMeanAndProjData on exact instances through
   the explicit-matrix seam (random option sets x random instances, requests in random order; every order of
   first use on fresh objects constructed in 0x00/0xFF/0x01-filled storage) and records inputs and outputs.
3. TLC (Trace_PoissonLL) computes every expected array from the logged P, y, a, n, lambda and must explain
   every recorded line."""
import os, json, time
from . import lib

KINDS = ["Value", "Grad", "GradPlusSens", "Sens", "AddSens", "HessTimes", "ApproxHess"]


def _validate_jobs(jobs, workers, timeout):
    """jobs: [(label, module, path)] -> [(label, module, path, accepted, TlcResult, rejected_at)], validated concurrently"""
    import concurrent.futures as cf

    def one(j):
        ok, r, at = lib.validate_trace(j[1], j[2], timeout=timeout, heap="3g")
        return (j[0], j[1], j[2], ok, r, at)
    with cf.ThreadPoolExecutor(max(1, workers)) as ex:
        return list(ex.map(one, jobs))


def _module_of(path):
    """which trace specification a (replay) trace belongs to: decided by the keys of its first lines"""
    head = ""
    with open(path) as f:
        for _ in range(3):
            head += f.readline()[:4000]
    if '"lm":' in head:
        return "Trace_PoissonLLLm"
    if '"patlak":' in head:
        return "Trace_PoissonLLPatlak"
    if '"ps":' in head or '"K":' in head or '"sw":' in head:
        return "Trace_PoissonLLReal"
    return "Trace_PoissonLL"


def _context(recs, i):
    """replay file for the unexplained line i (0-based): its System, Instance, SetUp and the requests of that
    object up to and including the line (the set-up bookkeeping depends on the requests before it)"""
    j = i
    while j >= 0 and recs[j]["e"] != "Instance":
        j -= 1
    k = j
    while k >= 0 and recs[k]["e"] != "System":
        k -= 1
    out = []
    if k >= 0:
        out.append(recs[k])
    if j >= 0:
        out += recs[j:i + 1]
    else:
        out.append(recs[i])
    return out


def run(ctx):
    q = ctx.quick
    W = 4 if q else 8
    t0 = time.time()
    # ---- 1. model checks of the specification itself
    cfg = "MC_PoissonLL" if q else "MC_PoissonLL_thorough"
    r = lib.tlc("MC_PoissonLL", cfg=cfg, workers=W, timeout=2400, heap="6g")
    ctx.mc_must_pass(r, "theorems of PoissonLL on small exact instances (%s)" % cfg, "MC_PoissonLL")
    cfg = "MC_LLSetup" if q else "MC_LLSetup_thorough"
    r = lib.tlc("MC_LLSetup", cfg=cfg, workers=2, timeout=600, heap="3g", coverage=True)
    ctx.mc_must_pass(r, "set-up bookkeeping, every order of requests (%s)" % cfg, "MC_LLSetup")
    for act in ("Request", "SetUpAgain", "Setter"):
        if r.coverage.get(act, (0, 0))[0] == 0:
            raise lib.ModelFailure("MC_LLSetup: action %s never taken" % act)
    r = lib.tlc("MC_LLSetup", cfg="MC_LLSetup_reverted", workers=1, timeout=300, heap="2g")
    if not r.violation:
        raise lib.ModelFailure("MC_LLSetup with the pre-fix guard (Variant=reverted) was not refuted: the set-up model lost its bite")
    ctx.notes.append("MC_LLSetup Variant=reverted (guard of the value path before fix c8fce4c19): refuted by TLC as required")

    t1 = time.time()
    # ---- 2. record.  Families: (label, trace module, traces, chunk size)
    scratch = os.path.join(ctx.work, "scratch")
    os.makedirs(scratch, exist_ok=True)
    fams = []
    if ctx.replay:
        fams = [("replay", _module_of(ctx.replay), [ctx.replay], 4000)]
    else:
        # one executable for all C05 drivers (c05_poissonll.cxx #includes the others: one library build, one link)
        exe = lib.build_driver("c05_poissonll")
        exe_real = exe_lm = exe
        t2 = time.time()
        seam = []
        seeds = [ctx.seed] if q else [ctx.seed, ctx.seed + 1000, ctx.seed + 2000]
        for s in seeds:
            t = os.path.join(ctx.work, "opts-%d.ndjson" % s)
            lib.run_driver(exe, ["opts", t, scratch, 300 if q else 1200], env={"VERIF_SEED": str(s)}, timeout=900, allow_fail=True)
            seam.append(t)
        t = os.path.join(ctx.work, "orders.ndjson")
        lib.run_driver(exe, ["orders", t, scratch, 4 if q else 6], env={"VERIF_SEED": str(ctx.seed)}, timeout=900, allow_fail=True)
        seam.append(t)
        t = os.path.join(ctx.work, "setters.ndjson")
        lib.run_driver(exe, ["setters", t, scratch, 1 if q else 6], env={"VERIF_SEED": str(ctx.seed)}, timeout=900, allow_fail=True)
        seam.append(t)
        t = os.path.join(ctx.work, "regeo.ndjson")
        lib.run_driver(exe, ["regeo", t, scratch, 2 if q else 12], env={"VERIF_SEED": str(ctx.seed)}, timeout=900, allow_fail=True)
        seam.append(t)
        fams.append(("seam", "Trace_PoissonLL", seam, 4000 if q else 12000))
        t = os.path.join(ctx.work, "real.ndjson")
        lib.run_driver(exe_real, ["real", t, scratch, 16 if q else 64], env={"VERIF_SEED": str(ctx.seed)}, timeout=900, allow_fail=True)
        fams.append(("real", "Trace_PoissonLLReal", [t], 60 if q else 150))
        t = os.path.join(ctx.work, "listmode.ndjson")
        lib.run_driver(exe_lm, ["lm", t, scratch, 40 if q else 400], env={"VERIF_SEED": str(ctx.seed)}, timeout=900, allow_fail=True)
        fams.append(("lm", "Trace_PoissonLL", [t], 1500 if q else 4000))
        t = os.path.join(ctx.work, "patlak.ndjson")
        lib.run_driver(exe, ["patlak", t, scratch, 30 if q else 400], env={"VERIF_SEED": str(ctx.seed)}, timeout=900, allow_fail=True)
        fams.append(("patlak", "Trace_PoissonLLPatlak", [t], 1500 if q else 3000))
    traces = [t for f in fams for t in f[2]]
    for t in traces:
        if not os.path.exists(t) or os.path.getsize(t) == 0:
            raise lib.ModelFailure("no trace recorded: %s" % t)

    t3 = time.time()
    # ---- 3. validate (chunks start at a System line; every chunk is self-contained)
    jobs = []
    for (label, module, trs, maxlines) in fams:
        for t in trs:
            for c in lib.split_trace(t, os.path.join(ctx.work, "chunks"), maxlines=maxlines, boundary="System"):
                jobs.append((label, module, c[0]))
    res = _validate_jobs(jobs, W, 1500)
    ctx.notes.append("wall: model checks %.0fs, recording %.0fs, trace validation %.0fs" % (t1 - t0, t3 - t1, time.time() - t3))
    seen = {"kinds": set(), "tof": set(), "norm": set(), "N": set(), "fill": set(), "flags": set(), "refused": 0, "real_sw": set(), "real_kinds": set(), "lm": set(), "patlak": set(), "regeo": set()}
    nobj = 0
    famcount = {}
    for (label, module, p, ok, r, at) in res:
        recs = lib.read_ndjson(p)
        ctx.transitions += r.generated
        ctx.states += r.distinct
        if at is not None or not ok:
            ctx.violation("trace not consumed (line %s)" % at, p)
            continue
        inst = None
        prev_bins = None
        for rec in recs:
            e = rec["e"]
            if e == "Instance":
                inst = rec
                nobj += 1
                if label == "seam" and rec.get("regeo"):
                    # re-use of one object across data geometries: (bins before, bins now) of every second life
                    if rec["reuse"] and prev_bins is not None:
                        seen["regeo"].add((prev_bins, rec["numBins"]))
                    prev_bins = rec["numBins"]
                if label == "seam":
                    seen["tof"].add((rec["tof"], rec["tofSensAsked"]))
                    seen["norm"].add(rec["norm"])
                    seen["N"].add(rec["N"])
                    seen["fill"].add(rec["fill"])
                    for k in ("additive", "zero", "uss", "prior", "supplied", "cache", "tofNorm"):
                        seen["flags"].add((k, rec[k]))
                    seen["flags"].add(("maxSeg", rec["maxSegAsked"]))
                    if nobj % 211 == 1:
                        ctx.sample({k: rec[k] for k in ("tof", "tofSensAsked", "tofNorm", "additive", "norm", "zero", "maxSegAsked", "uss", "N", "prior", "supplied", "cache", "fill", "family")})
                elif label == "real":
                    seen["real_sw"].add((tuple(rec["sw"]), rec["tof"], rec["tofSensAsked"]))
                elif label == "patlak":
                    seen["patlak"].add((rec["F"], rec["family"] != 0, rec["uss"], rec["N"] > 1))
                elif label == "lm":
                    seen["lm"].add((rec["tof"], rec["disk"], rec["batch"] > 0, rec["uss"], rec["N"] > 1))
            elif e in KINDS + ["ValueDiff"] and inst is not None:
                ctx.evaluations += 1
                famcount[label] = famcount.get(label, 0) + 1
                if rec.get("err"):
                    seen["refused"] += 1
                if label == "seam":
                    seen["kinds"].add(e)
                    ctx.nontrivial((inst["tof"], inst["tofSensAsked"], inst["tofNorm"], inst["additive"], inst["norm"], inst["zero"], inst["maxSegAsked"],
                                    inst["uss"], inst["N"], inst["prior"], inst["supplied"], inst["family"] != 0, e, rec["pen"], rec["sub"] < 0))
                else:
                    if label == "real":
                        seen["real_kinds"].add(e)
                    ctx.nontrivial((label, str(inst.get("sw")), inst.get("tof"), inst.get("tofSensAsked"), inst.get("zero"), inst.get("maxSegAsked"), inst.get("uss"),
                                    inst.get("N"), inst.get("norm"), e, rec.get("pen"), rec["sub"] < 0))
        known_ids = {k["id"]: k for k in ctx.known}
        bad = []
        for (ln, cls) in lib.unexplained(r):
            if cls in known_ids:
                ctx.known_hits[cls] = known_ids[cls]["what"][:300]
            else:
                bad.append(ln)
        if bad:
            first = bad[0] - 1
            rp = os.path.join(ctx.work, "violation-" + os.path.basename(p))
            lib.write_ndjson(rp, _context(recs, first))
            kinds = sorted({recs[b - 1]["e"] for b in bad})
            ctx.violation("%d recorded lines not explained by %s (%s), first: %s" % (
                len(bad), module, ",".join(kinds), json.dumps({k: v for k, v in recs[first].items() if k not in ("bins", "rows", "cols", "ntcols")})[:260]), rp)
    ctx.traces = nobj
    ctx.notes.append("requests validated per family: %s" % json.dumps(famcount, sort_keys=True))
    # ---- vacuity guards: the recorded executions must contain what the check claims to exercise
    if not ctx.replay:
        for t in traces:
            with open(t, "rb") as fh:
                fh.seek(max(0, os.path.getsize(t) - 200))
                tail = fh.read().decode("utf8", "replace")
            if '"e":"End"' not in tail and '"e":"Abort"' not in tail:
                raise lib.ModelFailure("trace %s is truncated (driver died outside a recorded call)" % t)
        missing = [k for k in KINDS if k not in seen["kinds"]]
        if (len(seen["tof"]) < 3 or len(seen["norm"]) < 5 or not {1, 2, 3, 4} <= seen["N"] or len(seen["fill"]) < 3 or missing
                or len(seen["flags"]) < 18 or seen["refused"] < 100 or len(seen["real_sw"]) < 4 or len(seen["real_kinds"]) < 6 or len(seen["lm"]) < 8 or len(seen["patlak"]) < 6 or len(seen["regeo"]) < 8):
            raise lib.ModelFailure("recorded traces do not cover the option space: %s missing=%s" % ({k: (sorted(map(str, v)) if isinstance(v, set) else v) for k, v in seen.items()}, missing))
    ctx.extra["objects"] = nobj
    ctx.exhaustive = False
    ctx.assumptions = [
        "exact instances only: integer matrix P (weights 1..3), lambda 1..4, data y = r d^2, efficiencies 2^-2..2^0 on a user-defined 8-detector, 3-ring scanner (108 bins, 324 with 3 TOF positions), 12 voxels; float arithmetic is exact there, so the comparison is equality",
        "the log-likelihood value is compared with its definition only on instances whose means are powers of two (tolerance 6 * 2^-10); elsewhere only 'sum over subsets = full data' and 'penalised = unpenalised - prior share' are decided for it",
        "the approximate Hessian is compared with -P^T(n^2 Px / y) only where y is a power of two",
        "the prior's own value/gradient/Hessian products are taken from the real QuadraticPrior (they are C09's subject); C05 decides that the objective function subtracts exactly that share",
        "the clamps of divide_and_truncate (quotient > 10^4, numerator < 10^-6 max) are avoided by construction: the property speaks of bins with ybar > 0 only",
    ]
    return ctx.finish(rule="one evaluation = one request to the real objective function (value, gradient, gradient+sensitivity, (subset) sensitivity, "
                      "add_subset_sensitivity, Hessian-times-vector, approximate Hessian; subset or full data; penalised or not) whose recorded result TLC compared "
                      "with the value it computed from the logged P, y, a, n, lambda; traces = objective-function objects (set_up + request sequence) validated; "
                      "distinct_nontrivial = distinct (option set, kind of request, penalised, subset/full) combinations")
