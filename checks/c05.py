"""C05 — Poisson log-likelihood quantities equal their textbook definition.
1. TLC checks the theorems of PoissonLL.tla (gradient+sensitivity = gradient + sensitivity, subsets sum to
   the full data, Hessian symmetric / negative semi-definite, unused bins irrelevant) on small exact
   instances, and LLSetup.tla (set-up bookkeeping) for every order of requests; the pre-fix guard variant
   must be refuted by TLC (the model keeps seeing defect 4).
2. The driver runs the real PoissonLogLikelihoodWithLinearModelForMeanAndProjData on exact instances through
   the explicit-matrix seam (random option sets x random instances, requests in random order; every order of
   first use on fresh objects constructed in 0x00/0xFF/0x01-filled storage) and records inputs and outputs.
3. TLC (Trace_PoissonLL) computes every expected array from the logged P, y, a, n, lambda and must explain
   every recorded line."""
import os, json, time
from . import lib

KINDS = ["Value", "Grad", "GradPlusSens", "Sens", "AddSens", "HessTimes", "ApproxHess"]


def _validate(paths, jobs, timeout):
    return lib.validate_parallel("Trace_PoissonLL", paths, jobs=jobs, timeout=timeout, heap="3g")


def _context(recs, i):
    """replay file for the unexplained line i (0-based): its System, Instance, SetUp and the requests of that
    object up to and including the line (the set-up bookkeeping depends on the requests before it)"""
    j = i
    while j >= 0 and recs[j]["e"] != "Instance":
        j -= 1
    k = j
    while k >= 0 and recs[k]["e"] != "System":
        k -= 1
    out = []
    if k >= 0:
        out.append(recs[k])
    if j >= 0:
        out += recs[j:i + 1]
    else:
        out.append(recs[i])
    return out


def run(ctx):
    q = ctx.quick
    W = 4 if q else 8
    t0 = time.time()
    # ---- 1. model checks of the specification itself
    cfg = "MC_PoissonLL" if q else "MC_PoissonLL_thorough"
    r = lib.tlc("MC_PoissonLL", cfg=cfg, workers=W, timeout=2400, heap="6g")
    ctx.mc_must_pass(r, "theorems of PoissonLL on small exact instances (%s)" % cfg, "MC_PoissonLL")
    cfg = "MC_LLSetup" if q else "MC_LLSetup_thorough"
    r = lib.tlc("MC_LLSetup", cfg=cfg, workers=2, timeout=600, heap="3g", coverage=True)
    ctx.mc_must_pass(r, "set-up bookkeeping, every order of requests (%s)" % cfg, "MC_LLSetup")
    for act in ("Request", "SetUpAgain"):
        if r.coverage.get(act, (0, 0))[0] == 0:
            raise lib.ModelFailure("MC_LLSetup: action %s never taken" % act)
    r = lib.tlc("MC_LLSetup", cfg="MC_LLSetup_reverted", workers=1, timeout=300, heap="2g")
    if not r.violation:
        raise lib.ModelFailure("MC_LLSetup with the pre-fix guard (Variant=reverted) was not refuted: the set-up model lost its bite")
    ctx.notes.append("MC_LLSetup Variant=reverted (guard of the value path before fix c8fce4c19): refuted by TLC as required")

    t1 = time.time()
    # ---- 2. record
    exe = lib.build_driver("c05_poissonll")
    t2 = time.time()
    scratch = os.path.join(ctx.work, "scratch")
    os.makedirs(scratch, exist_ok=True)
    traces = []
    if ctx.replay:
        traces = [ctx.replay]
    else:
        seeds = [ctx.seed] if q else [ctx.seed, ctx.seed + 1000, ctx.seed + 2000]
        for s in seeds:
            t = os.path.join(ctx.work, "opts-%d.ndjson" % s)
            rc, out = lib.run_driver(exe, ["opts", t, scratch, 300 if q else 2000], env={"VERIF_SEED": str(s)}, timeout=900, allow_fail=True)
            traces.append(t)
        t = os.path.join(ctx.work, "orders.ndjson")
        lib.run_driver(exe, ["orders", t, scratch, 4 if q else 6], env={"VERIF_SEED": str(ctx.seed)}, timeout=900, allow_fail=True)
        traces.append(t)
    for t in traces:
        if not os.path.exists(t) or os.path.getsize(t) == 0:
            raise lib.ModelFailure("no trace recorded: %s" % t)

    t3 = time.time()
    # ---- 3. validate (chunks start at a System line; every chunk is self-contained)
    chunks = []
    for t in traces:
        chunks += lib.split_trace(t, os.path.join(ctx.work, "chunks"), maxlines=4000 if q else 12000, boundary="System")
    res = _validate([c[0] for c in chunks], W, 1500)
    ctx.notes.append("wall: model checks %.0fs, build %.0fs, recording %.0fs, trace validation %.0fs" % (t1 - t0, t2 - t1, t3 - t2, time.time() - t3))
    seen = {"kinds": set(), "tof": set(), "norm": set(), "N": set(), "fill": set(), "flags": set()}
    nobj = 0
    for (p, ok, r, at) in res:
        recs = lib.read_ndjson(p)
        ctx.transitions += r.generated
        ctx.states += r.distinct
        if at is not None or not ok:
            ctx.violation("trace not consumed (line %s)" % at, p)
            continue
        inst = None
        for rec in recs:
            e = rec["e"]
            if e == "Instance":
                inst = rec
                nobj += 1
                seen["tof"].add((rec["tof"], rec["tofSensAsked"]))
                seen["norm"].add(rec["norm"])
                seen["N"].add(rec["N"])
                seen["fill"].add(rec["fill"])
                for k in ("additive", "zero", "uss", "prior", "supplied", "cache", "tofNorm"):
                    seen["flags"].add((k, rec[k]))
                seen["flags"].add(("maxSeg", rec["maxSegAsked"]))
                if nobj % 211 == 1:
                    ctx.sample({k: rec[k] for k in ("tof", "tofSensAsked", "tofNorm", "additive", "norm", "zero", "maxSegAsked", "uss", "N", "prior", "supplied", "cache", "fill", "family")})
            elif e in KINDS and inst is not None:
                ctx.evaluations += 1
                seen["kinds"].add(e)
                ctx.nontrivial((inst["tof"], inst["tofSensAsked"], inst["tofNorm"], inst["additive"], inst["norm"], inst["zero"], inst["maxSegAsked"],
                                inst["uss"], inst["N"], inst["prior"], inst["supplied"], inst["family"] != 0, e, rec["pen"], rec["sub"] < 0))
        bad = [ln for (ln, cls) in lib.unexplained(r)]
        if bad:
            first = bad[0] - 1
            rp = os.path.join(ctx.work, "violation-" + os.path.basename(p))
            lib.write_ndjson(rp, _context(recs, first))
            kinds = sorted({recs[b - 1]["e"] for b in bad})
            ctx.violation("%d recorded lines not explained by PoissonLL/LLSetup (%s), first: %s" % (
                len(bad), ",".join(kinds), json.dumps({k: v for k, v in recs[first].items() if k not in ("bins", "rows", "cols")})[:260]), rp)
    ctx.traces = nobj
    # ---- vacuity guards: the recorded executions must contain what the check claims to exercise
    if not ctx.replay:
        for t in traces:
            with open(t, "rb") as fh:
                fh.seek(max(0, os.path.getsize(t) - 200))
                tail = fh.read().decode("utf8", "replace")
            if '"e":"End"' not in tail and '"e":"Abort"' not in tail:
                raise lib.ModelFailure("trace %s is truncated (driver died outside a recorded call)" % t)
        missing = [k for k in KINDS if k not in seen["kinds"]]
        if (len(seen["tof"]) < 3 or len(seen["norm"]) < 5 or not {1, 2, 3, 4} <= seen["N"] or len(seen["fill"]) < 3 or missing
                or len(seen["flags"]) < 18):
            raise lib.ModelFailure("recorded traces do not cover the option space: %s missing=%s" % ({k: sorted(map(str, v)) for k, v in seen.items()}, missing))
    ctx.extra["objects"] = nobj
    ctx.exhaustive = False
    ctx.assumptions = [
        "exact instances only: integer matrix P (weights 1..3), lambda 1..4, data y = r d^2, efficiencies 2^-2..2^0 on a user-defined 8-detector, 3-ring scanner (108 bins, 324 with 3 TOF positions), 12 voxels; float arithmetic is exact there, so the comparison is equality",
        "the log-likelihood value is compared with its definition only on instances whose means are powers of two (tolerance 6 * 2^-10); elsewhere only 'sum over subsets = full data' and 'penalised = unpenalised - prior share' are decided for it",
        "the approximate Hessian is compared with -P^T(n^2 Px / y) only where y is a power of two",
        "the prior's own value/gradient/Hessian products are taken from the real QuadraticPrior (they are C09's subject); C05 decides that the objective function subtracts exactly that share",
        "the clamps of divide_and_truncate (quotient > 10^4, numerator < 10^-6 max) are avoided by construction: the property speaks of bins with ybar > 0 only",
    ]
    return ctx.finish(rule="one evaluation = one request to the real objective function (value, gradient, gradient+sensitivity, (subset) sensitivity, "
                      "add_subset_sensitivity, Hessian-times-vector, approximate Hessian; subset or full data; penalised or not) whose recorded result TLC compared "
                      "with the value it computed from the logged P, y, a, n, lambda; traces = objective-function objects (set_up + request sequence) validated; "
                      "distinct_nontrivial = distinct (option set, kind of request, penalised, subset/full) combinations")
