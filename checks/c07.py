"""C07 — OSMAPOSL sub-iterations follow the EM / one-step-late update and are restartable.
1. TLC checks OSMAPOSL.tla itself: the clauses that relate the update law to the rest of the property
   (non-negativity, zero where the subset sensitivity is zero, count preservation, EM fixed point, the documented
   bounds of the MAP denominator, one-step-late monotonicity) on a family of small exact instances, and the restart
   state machine (every configuration, every interruption point); two deliberately wrong restart variants
   (sub-iterations renumbered from 1; zeros replaced on set_up = the known finding) must be refuted.
2. The driver runs the real OSMAPOSLReconstruction on tiny systems through the explicit-matrix seam: `exact`
   (every sub-iteration restarted from an exact integer state) and `free` (free-running reconstructions whose saved
   iterates are read back, then resumed from every interruption point) and records inputs and outputs.
3. TLC (Trace_OSMAPOSL) recomputes every sub-iteration from the logged P, y, a, n and the recorded previous image
   and compares resumed with uninterrupted runs bit for bit; it must explain every recorded line."""
import os, json, re, time
import concurrent.futures as cf
from . import lib

KNOWN_CLASSES = ("C07-restart-positivity",)


def _context(recs, i):
    """replay file for the unexplained line i (0-based): the System line, the Instance and every line of that
    reconstruction object up to and including the line (the restart comparison needs the saved images before it)"""
    j = i
    while j >= 0 and recs[j]["e"] != "Instance":
        j -= 1
    k = j
    while k >= 0 and recs[k]["e"] != "System":
        k -= 1
    if j < 0 or k < 0:
        return [recs[i]]
    return [recs[k]] + recs[j:i + 1]


def _model_checks(ctx, q):
    """returns a list of thunks' results; each run is a model check of the specification itself"""
    out = []
    cfg = "MC_OSMAPOSL" if q else "MC_OSMAPOSL_thorough"
    r = lib.tlc("MC_OSMAPOSL", cfg=cfg, workers=2 if q else 6, timeout=2400, heap="4g", tag="MC_OSMAPOSL-thm")
    out.append(("theorems", cfg, r))
    cfg = "MC_OSMAPOSL_restart" if q else "MC_OSMAPOSL_restart_thorough"
    r = lib.tlc("MC_OSMAPOSL", cfg=cfg, workers=1 if q else 2, timeout=1200, heap="3g", coverage=True, tag="MC_OSMAPOSL-restart")
    out.append(("restart", cfg, r))
    for cfg in ("MC_OSMAPOSL_renumber", "MC_OSMAPOSL_eip"):
        r = lib.tlc("MC_OSMAPOSL", cfg=cfg, workers=1, timeout=300, heap="2g", tag=cfg)
        out.append(("refute", cfg, r))
    return out


def run(ctx):
    q = ctx.quick
    W = 4 if q else 8
    t0 = time.time()
    pool = cf.ThreadPoolExecutor(1)
    mc_future = pool.submit(_model_checks, ctx, q)      # runs while the driver is built and records

    # ---- record
    exe = lib.build_driver("c07_osmaposl")
    t1 = time.time()
    scratch = os.path.join(ctx.work, "scratch")
    os.makedirs(scratch, exist_ok=True)
    traces = []
    if ctx.replay:
        traces = [ctx.replay]
    else:
        seeds = [ctx.seed] if q else [ctx.seed, ctx.seed + 1000, ctx.seed + 2000]
        jobs = []
        for s in seeds:
            for mode, n in (("exact", 240 if q else 900), ("free", 48 if q else 180)):
                t = os.path.join(ctx.work, "%s-%d.ndjson" % (mode, s))
                sd = os.path.join(scratch, "%s-%d" % (mode, s))      # saved iterates of concurrent runs must not collide
                os.makedirs(sd, exist_ok=True)
                jobs.append((t, [mode, t, sd, n, 0 if q else 1], {"VERIF_SEED": str(s)}))
                traces.append(t)
        with cf.ThreadPoolExecutor(2 if q else 6) as ex:
            list(ex.map(lambda j: lib.run_driver(exe, j[1], env=j[2], timeout=1500, allow_fail=True), jobs))
    for t in traces:
        if not os.path.exists(t) or os.path.getsize(t) == 0:
            raise lib.ModelFailure("no trace recorded: %s" % t)
    t2 = time.time()

    # ---- the model checks of the specification must have passed
    for (what, cfg, r) in mc_future.result():
        if what == "refute":
            if not r.violation:
                raise lib.ModelFailure("%s was not refuted: the restart model lost its bite" % cfg)
            ctx.notes.append("%s (deliberately wrong restart variant): refuted by TLC as required" % cfg)
            continue
        ctx.mc_must_pass(r, "%s (%s)" % (what, cfg), "MC_OSMAPOSL")
        if what == "restart":
            for act in ("StepU", "Interrupt", "StepR"):
                if r.coverage.get(act, (0, 0))[0] == 0:
                    raise lib.ModelFailure("MC_OSMAPOSL restart model: action %s never taken" % act)
    t3 = time.time()

    # ---- validate (chunks start at a System line; every reconstruction object is preceded by its System line)
    chunks = []
    for t in traces:
        chunks += lib.split_trace(t, os.path.join(ctx.work, "chunks"), maxlines=1200 if q else 4000, boundary="System")
    res = lib.validate_parallel("Trace_OSMAPOSL", [c[0] for c in chunks], jobs=W, timeout=1500, heap="3g")
    ctx.notes.append("wall: build %.0fs, recording %.0fs, waiting for model checks %.0fs, trace validation %.0fs" % (t1 - t0, t2 - t1, t3 - t2, time.time() - t3))
    known_ids = {k["id"] for k in ctx.known}
    seen = {"N": set(), "flags": set(), "prior": set(), "setup": set(), "mode": set(), "variant": set(), "kinds": set(), "changes": set(), "scales": set()}
    nreuse = 0
    nscale = 0
    tot = [0] * 7
    nobj = 0
    nsteps = 0
    for (p, ok, r, at) in res:
        recs = lib.read_ndjson(p)
        ctx.transitions += r.generated
        ctx.states += r.distinct
        if at is not None or not ok:
            ctx.violation("trace not consumed (line %s)" % at, p)
            continue
        m = re.search(r'"COUNTS",\s*<<([^>]*)>>', r.out)
        if not m:
            raise lib.ModelFailure("Trace_OSMAPOSL printed no COUNTS for %s" % p)
        for i, x in enumerate(m.group(1).split(",")):
            tot[i] += int(x)
        inst = None
        for rec in recs:
            e = rec["e"]
            seen["kinds"].add(e)
            if e == "Instance":
                inst = rec
                nobj += 1
                seen["N"].add(rec["N"])
                seen["mode"].add(rec["mode"])
                if rec.get("reuse"):
                    nreuse += 1
                    seen["changes"].add((rec["mode"], rec["change"]))
                seen["flags"].add(("zero", rec.get("zero", False)))
                seen["flags"].add(("maxSeg", rec.get("maxSeg", -1) >= 0))
                seen["prior"].add((rec["prior"], rec["mult"] if rec["prior"] else False))
                for k in ("additive", "norm", "uss"):
                    seen["flags"].add((k, rec[k]))
                seen["flags"].add(("iuf", rec["iuf"] > 0))
                seen["flags"].add(("iif", rec["iif"] > 0))
                if nobj % 97 == 1:
                    ctx.sample({k: rec[k] for k in ("mode", "N", "startSubset", "additive", "norm", "uss", "prior", "mult", "beta", "iuf", "iif", "K")})
            elif e == "SetUp":
                seen["setup"].add(rec["ok"])
                ctx.evaluations += 1
            elif e in ("Step", "Cont", "Resume", "Final", "Scale") and inst is not None:
                ctx.evaluations += 1
                if e == "Step":
                    nsteps += 1
                if e == "Resume":
                    seen["variant"].add(rec["variant"])
                if e == "Scale":
                    nscale += 1
                    seen["scales"].add((rec["ki"], rec["kd"]))
                ctx.nontrivial((inst["mode"], inst.get("change", ""), inst["N"], inst["additive"], inst["norm"], inst["uss"], inst["prior"], inst["mult"] if inst["prior"] else False,
                                inst["iuf"] > 0, inst["iif"] > 0, e, rec.get("variant", -1), rec.get("ki", 0), rec.get("kd", 0)))
        newbad = []
        for (ln, cls) in lib.unexplained(r):
            if cls == "domain":
                continue
            if cls in KNOWN_CLASSES and cls in known_ids:
                k = [x for x in ctx.known if x["id"] == cls][0]
                ctx.known_hits[cls] = k["what"]
            else:
                newbad.append((ln, cls))
        if newbad:
            first = newbad[0][0] - 1
            rp = os.path.join(ctx.work, "violation-" + os.path.basename(p))
            lib.write_ndjson(rp, _context(recs, first))
            kinds = sorted({recs[b - 1]["e"] + ("/" + c if c != "new" else "") for (b, c) in newbad})
            ctx.violation("%d recorded lines not explained by OSMAPOSL.tla (%s), first: %s" % (
                len(newbad), ",".join(kinds), json.dumps({k: v for k, v in recs[first].items() if k not in ("bins", "rows", "cols", "a", "ef")})[:300]), rp)
    ctx.traces = nobj
    law, ll, cons, cont, dom, known, new = tot
    ctx.extra.update({"objects": nobj, "reuse_histories": nreuse, "scaled_subiterations": nscale, "reuse_changes": sorted({c for (mo, c) in seen["changes"]}), "steps_recorded": nsteps, "steps_law_evaluated": law, "loglikelihood_clauses": ll,
                      "count_clauses": cons, "restart_images_compared_equal": cont, "steps_outside_arithmetic_domain": dom,
                      "lines_matching_known_finding": known})
    # ---- vacuity guards: the recorded executions must contain what the check claims to exercise
    if not ctx.replay:
        for t in traces:
            with open(t, "rb") as fh:
                fh.seek(max(0, os.path.getsize(t) - 200))
                tail = fh.read().decode("utf8", "replace")
            if '"e":"End"' not in tail and '"e":"Abort"' not in tail:
                raise lib.ModelFailure("trace %s is truncated (driver died outside a recorded call)" % t)
        problems = []
        if not {1, 2, 3, 4, 6} <= seen["N"]:
            problems.append("numbers of subsets %s" % sorted(seen["N"]))
        if len(seen["flags"]) < 14:
            problems.append("flags %s" % sorted(seen["flags"]))
        if not {(0, False), (1, False), (1, True), (2, False), (2, True)} <= seen["prior"]:
            problems.append("priors %s" % sorted(seen["prior"]))
        if seen["setup"] != {True, False} or seen["mode"] != {"exact", "free"} or seen["variant"] != {0, 1, 2, 3, 4, 5}:
            problems.append("set-up verdicts / modes / restart variants %s %s %s" % (seen["setup"], seen["mode"], seen["variant"]))
        if len({c for (mo, c) in seen["changes"] if mo == "exact"}) < 9 or len({c for (mo, c) in seen["changes"] if mo == "free"}) < 8:
            problems.append("re-use histories %s" % sorted(seen["changes"]))
        if len(seen["scales"]) < 8 or nscale < 100:
            problems.append("scaled sub-iterations %d %s" % (nscale, sorted(seen["scales"])))
        if not {"Step", "Start", "Final", "Resume", "Cont", "Scale"} <= seen["kinds"]:
            problems.append("kinds %s" % sorted(seen["kinds"]))
        # (the counts are of clauses that HELD; when lines were rejected the violations are the result, not the counts)
        if not ctx.violations and (law < 300 or ll < 20 or cons < 8 or cont < 300 or dom * 10 > nsteps):
            problems.append("too few evaluated clauses: law %d, log-likelihood %d, counts %d, restart %d, outside domain %d of %d steps" % (law, ll, cons, cont, dom, nsteps))
        if problems:
            raise lib.ModelFailure("recorded traces do not cover what the check claims: " + "; ".join(problems))
    ctx.exhaustive = False
    ctx.assumptions = [
        "tiny systems through the explicit-matrix seam: user-defined 8- and 12-detector, 2-ring scanners (4 and 6 views, 48 and 72 bins), 2x2x2 images, integer matrix P (rows of up to 3 voxels, weights 1..3, one voxel no bin sees, one voxel only the first view sees), efficiencies 2^-2..2^0, additive term 0..3",
        "exact mode: integer images 0..6 and data y = q d, the update law is evaluated by TLC in integer arithmetic (28-bit fixed point with explicit floors), tolerance a few units of 2^-12 plus 2^-16 relative; free-running mode: the law is applied to the RECORDED previous image (fixed point 2^-12), tolerance derived from that rounding by first-order error propagation (doubled)",
        "steps whose quotient y/(P lambda + a) exceeds 128 for a bin feeding a non-zero voxel, or whose prior gradient exceeds 2^14, are outside the range the specification's arithmetic covers: they are counted (steps_outside_arithmetic_domain), not decided, except for non-negativity, zeros and the log-likelihood clause",
        "the prior's gradient is taken from the real prior object at the image BEFORE the step (the priors themselves are C09's subject); C07 decides how OSMAPOSL uses it (one step late, /num_subsets in the additive model, clamps)",
        "log-likelihood monotonicity is decided on recorded values of compute_objective_function_without_penalty (the value itself is C05's subject)",
        "with inter-update / inter-iteration filters only non-negativity (and zeros where the subset sensitivity is zero, unless the inter-iteration filter fired) is claimed for the sub-iterations in which a filter fires; the other sub-iterations of such runs must follow the law",
        "subsets: every number 1..views+1 is tried; OSMAPOSL must set up exactly the balanced ones (views % N = 0 with the trivial symmetries of the seam)",
    ]
    return ctx.finish(rule="one evaluation = one recorded line that TLC explained: a set_up verdict, a sub-iteration (Step: new image vs the law applied by TLC to the previous image, "
                      "non-negativity, zeros, log-likelihood and count clauses where they apply), a resume (Resume: file read back = image saved; set_up leaves it alone) or an image of a resumed run "
                      "compared bit for bit with the uninterrupted run (Cont); traces = reconstruction objects; distinct_nontrivial = distinct (mode, subsets, additive, normalisation, "
                      "subset sensitivities, prior, MAP model, filters, kind of line, restart variant) combinations; coverage.* counts are printed by TLC (COUNTS)")
