"""C04 — matched forward/back projector pairs are linear, adjoint and additive over pieces.
1. TLC model-checks Projectors.tla: linearity, <A x, y> = <x, A^T y> for all x, y in {-1,0,1}^n on a
   5-bin x 4-voxel integer system and on every piece (subset, group, window) of a structured system
   under every symmetry class, additivity of subsets / groups / window tilings, and the frame
   conditions of the code-shaped operations along every short history; four deliberately faulty
   variants of the operations must be refuted (the invariants bite).
2. The driver records, for every block (geometry x projector pair x symmetry switches x cache mode),
   the matrix entries of every bin obtained through every route of the API (whole data, every
   (subset_num, num_subsets), every group of related viewgrams, seeded axial/tangential windows,
   on-the-fly ray tracing), forward with unit images and back with unit data, and seeded histories of
   calls with small integer images / data.  TLC (Trace_Projectors) must explain every recorded line."""
import concurrent.futures as cf
import copy, json, os, re, time
from . import lib

ACTIONS = ("Eval", "SetInput", "ForwardSubset", "ForwardGroup", "StartNewTarget", "BackSubset", "BackGroup", "GetOutput")
FAULTS = ("zero_inverted", "stride_forward_only", "output_resets", "window_off_by_one")


def _blocks_of(path):
    """[(first line index, last line index (exclusive))] of the Config blocks of a trace file"""
    starts = []
    n = 0
    with open(path) as f:
        for n, l in enumerate(f, 1):
            if l.startswith('{"e":"Config"') or l.startswith('{"e":"ConfigRejected"'):
                starts.append(n - 1)
    return [(s, (starts[i + 1] if i + 1 < len(starts) else n)) for i, s in enumerate(starts)]


def _guard_cases(ctx, lines):
    """vacuity guards: copies of a recorded block (with the on-the-fly route and histories) with recorded fields altered;
    every alteration must be rejected at its line (with its class where one is given).  Alterations of lines that are
    independent observations (Bin, Scaled, OtfGroup) share one copy; each alteration of a history has its own copy.
    Returns [(name, path, line, class or None)]"""
    cases = []
    e = [json.loads(l) for l in lines]
    shared = copy.deepcopy(e)
    shared_path = os.path.join(ctx.work, "guard-independent-lines.ndjson")
    used = set()

    def on_shared(name, pred, f, cls=None):
        for i, r in enumerate(e):
            if i not in used and pred(r):
                used.add(i)
                f(shared[i])
                cases.append((name, shared_path, i + 1, cls))
                return
        raise lib.ModelFailure("vacuity guards: no suitable recorded line for " + name)

    def own(name, i, f, cls=None):
        m = copy.deepcopy(e)
        f(m[i])
        p = os.path.join(ctx.work, "guard-%s.ndjson" % name)
        lib.write_ndjson(p, m)
        cases.append((name, p, i + 1, cls))

    def rich(r):
        return r["e"] == "Bin" and len(r["B"]) > 3 and r["FS"] and r["BG"] and len(r["O"]) > 1 and r["BK"] and len(r["BK"][0][1]) > 1
    on_shared("back-entry-2ulp", rich, lambda r: r["B"][2].__setitem__(1, r["B"][2][1] + 2), "F-differs-from-Bt")
    on_shared("subset-row-moved", rich, lambda r: r["FS"][0].__setitem__(1, (r["FS"][0][1] + 1) % r["FS"][0][0]), "forward-subset")
    on_shared("group-row-dropped", rich, lambda r: r["BG"].pop(), "back-group")
    on_shared("window-entry-dropped", lambda r: r["e"] == "Bin" and r["FW"], lambda r: r["FW"][0][1].pop(), "forward-window")
    on_shared("on-the-fly-1pc", rich, lambda r: r["O"][1].__setitem__(2, int(r["O"][1][2] * 1.01) + 6), "on-the-fly")
    on_shared("scaled-back-entry-mantissa", rich, lambda r: r["BK"][0][1][1].__setitem__(1, r["BK"][0][1][1][1] + 1), "back-not-homogeneous")
    on_shared("scaled-forward-entry-dropped", rich, lambda r: r["FK"][-1][1].pop(), "forward-not-homogeneous")
    # a scaled call whose result is not the exponent-shifted result of the unscaled call: one voxel lost (set to zero)
    on_shared("scaled-back-voxel-lost", lambda r: r["e"] == "Scaled" and not r["fwd"] and any(r["ord2"]),
              lambda r: r["ord2"].__setitem__([n for n, v in enumerate(r["ord2"]) if v != 0][0], 0), "back-not-homogeneous")
    # a deviation of the on-the-fly group call (one bin of the window keeps its old value)

    def big(r):
        return max(abs(r["fx"][n] - r["y"][n] * 65536) for n in range(len(r["y"])) if r["y"][n] != 0)
    on_shared("on-the-fly-group-bin-kept", lambda r: r["e"] == "OtfGroup" and any(r["y"]) and big(r) > 32768,
              lambda r: (lambda n: r["fx"].__setitem__(n, r["y"][n] * 65536))(
                  max((abs(r["fx"][n] - r["y"][n] * 65536), n) for n in range(len(r["y"])) if r["y"][n] != 0)[1]), "on-the-fly-group")
    lib.write_ndjson(shared_path, shared)

    def prevdata(k):
        return [r for r in e[:k] if "ord" in r and r["e"] in ("SetData", "ForwardSubset", "ForwardGroup")][-1]
    done = set()
    for k, r in enumerate(e):
        if r["e"] == "HistStart" and r["h"] > 0:
            break
        if r["e"] == "ForwardSubset" and r["N"] > 1:
            pd = prevdata(k)
            same = [q for q in range(len(pd["ord"])) if pd["ord"][q] == r["ord"][q] and pd["ord"][q] != 0]
            zeros = [q for q in range(len(pd["ord"])) if r["ord"][q] == 0 and pd["ord"][q] != 0]
            if not r["zero"] and same and "frame" not in done:
                done.add("frame")
                own("untouched-bin-1ulp", k, lambda x, q=same[0]: x["ord"].__setitem__(q, x["ord"][q] + 1), "forward-subset-frame")
            if r["zero"] and zeros and "zero" not in done:
                done.add("zero")
                own("zeroed-bin-kept", k, lambda x, q=zeros[0], v=pd: (x["ord"].__setitem__(q, v["ord"][q]), x["fx"].__setitem__(q, v["fx"][q])), "forward-subset-frame")
        if r["e"] in ("GetOutput", "BackInto") and "out" not in done and max(abs(v) for v in r["fx"]) > 65536:
            done.add("out")
            q = [n for n, v in enumerate(r["fx"]) if abs(v) > 65536][0]
            own("output-voxel-1pc", k, lambda x, q=q: x["fx"].__setitem__(q, int(x["fx"][q] * 1.01)), "output-differs")
    if len(done) < 2:
        raise lib.ModelFailure("vacuity guards: the recorded history contains no suitable events (%s)" % sorted(done))
    return cases


def run(ctx):
    q = ctx.quick
    W = 4 if q else 8
    pool = cf.ThreadPoolExecutor(W + 2)
    # ------------------------------------------------------------------ 1. model checks (run while the driver records)
    def mc_main():
        return lib.tlc("MC_Projectors", cfg="MC_Projectors" if q else "MC_Projectors_thorough", workers=W, timeout=2400, heap="6g", coverage=True)

    def mc_fault(f):
        return f, lib.tlc("MC_Projectors", cfg="MC_Projectors_fault_" + f, workers=1, timeout=900, heap="2g", tag="MC_Projectors-" + f)
    fut_main = pool.submit(mc_main)
    fut_faults = [pool.submit(mc_fault, f) for f in (FAULTS[:2] if q else FAULTS)]
    # ------------------------------------------------------------------ 2. record
    exe = lib.build_driver("c04_projectors")
    env = {"VERIF_SEED": str(ctx.seed)}
    tier = 0 if q else 1
    traces = []
    if ctx.replay:
        traces = [ctx.replay]
    else:
        lst = os.path.join(ctx.work, "blocks.txt")
        lib.run_driver(exe, ["list", lst, tier], env=env, timeout=120)
        blocks = [l.split() for l in open(lst) if l.strip()]
        # one trace file per group of blocks of similar total size (small blocks share a TLC run)
        groups, cur, w = [], [], 0
        for b in blocks:
            cost = int(b[2]) + 20
            if cur and w + cost > (100 if q else 260):
                groups.append(cur)
                cur, w = [], 0
            cur.append(int(b[0]))
            w += cost
        if cur:
            groups.append(cur)

        def rec(g):
            p = os.path.join(ctx.work, "blocks-%03d-%03d.ndjson" % (g[0], g[-1]))
            lib.run_driver(exe, ["run", p, tier, g[0], g[-1]], env=env, timeout=2400)
            return p
        traces = list(pool.map(rec, groups))
        # set_up histories of single projector objects (rows after every set_up next to those of a fresh object)
        rp = os.path.join(ctx.work, "reuse.ndjson")
        lib.run_driver(exe, ["reuse", rp, tier], env=env, timeout=2400)
        traces += [c[0] for c in lib.split_trace(rp, os.path.join(ctx.work, "reuse"), maxlines=900 if q else 1500, boundary="ReuseStep")]
    ctx.notes.append("build + record: %.0f s after start (%d trace files)" % (time.time() - ctx.t0, len(traces)))
    # ------------------------------------------------------------------ 3. validate (and the vacuity guards on a recorded block)
    t0 = time.time()
    guards = []
    if not ctx.replay:
        for p in traces:
            for (a, b) in _blocks_of(p):
                lines = open(p).read().splitlines(True)[a:b]
                c = json.loads(lines[0])
                if c["e"] == "Config" and c["otf"] and c["hist"]:
                    guards = _guard_cases(ctx, lines)
                    break
            if guards:
                break
        if not guards:
            raise lib.ModelFailure("no recorded block with the on-the-fly route and histories (needed for the vacuity guards)")
        # a re-used object whose row differs from the fresh object's row in the last bit
        rl = [json.loads(l) for l in open(os.path.join(ctx.work, "reuse", "reuse.001.ndjson")).read().splitlines()[:82]]
        k = [i for i, r in enumerate(rl) if r["e"] == "Same" and r["F"]]
        if not k:
            raise lib.ModelFailure("vacuity guards: no recorded Same line with a non-empty row")
        rl[k[0]]["F"][0][1] += 1
        gp = os.path.join(ctx.work, "guard-reuse.ndjson")
        lib.write_ndjson(gp, rl)
        guards.append(("reused-object-row-1ulp", gp, k[0] + 1, "reuse-differs-from-fresh"))

    def val(p):
        return (p,) + lib.validate_trace("Trace_Projectors", p, timeout=2400, heap="3g")
    with cf.ThreadPoolExecutor(W) as ex:
        gpaths = sorted({g[1] for g in guards})
        allres = list(ex.map(val, traces + gpaths))
    res = allres[:len(traces)]
    gres = {p: r for (p, ok, r, at) in allres[len(traces):]}
    ctx.notes.append("trace validation: %d TLC runs (+ %d guard runs), %.0f s" % (len(traces), len(gres), time.time() - t0))
    known_ids = {k["id"] for k in ctx.known}
    nblocks = nhist = nbins = nevents = 0
    nsame = {"reuse": 0, "zindex": 0, "xshift": 0}
    for (p, ok, r, at) in res:
        ctx.transitions += r.generated
        ctx.states += r.distinct
        bl = _blocks_of(p)
        cfgname, routes = "?", ""
        with open(p) as f:
            for ln, line in enumerate(f, 1):
                ev = line[6:line.index('"', 6)]
                ctx.evaluations += 1
                if ev == "Config":
                    c = json.loads(line)
                    nblocks += 1
                    ctx.traces += 1
                    cfgname = "%s|%s|%d|%d|%s|%d|%d|%s" % (c["geom"], c["pair"], c["N"], c["R"], c["eff"], c["cache"], c["ntl"], c["maxTof"])
                    if nblocks % 17 == 1:
                        ctx.sample({k: c[k] for k in ("name", "pair", "geom", "N", "R", "views", "maxSeg", "maxTof", "nb", "nv", "req", "eff", "cache", "ntl", "Ns", "otf", "hist")})
                elif ev == "Bin":
                    nbins += 1
                    m = re.search(r'"b":\[(-?\d+),(-?\d+),(-?\d+),', line)
                    # distinct non-trivial case: (block configuration, segment, view) with a non-empty row
                    if '"F":[]' not in line:
                        ctx.nontrivial("B|%s|%s|%s" % (cfgname, m.group(1), m.group(3)))
                elif ev == "Same":
                    m = re.search(r'"ctx":"(\w+)","name":"([^"]+)","pair":"(\w+)","step":(-?\d+)', line)
                    if '"F":[]' not in line or '"B":[[' in line:
                        nsame[m.group(1)] += 1          # lines with a non-empty row
                        ctx.nontrivial("S|%s|%s|%s" % (m.group(1), m.group(2), m.group(4)))
                elif ev in ("ReuseStep", "XYShift", "OtfRefused"):
                    if ev == "ReuseStep":
                        ctx.traces += 0
                    if (nevents + nbins) % 5 == 0:
                        d = json.loads(line)
                        ctx.sample({k: v for k, v in d.items() if k != "msg"}, cap=9)
                elif ev == "HistStart":
                    nhist += 1
                    ctx.traces += 1
                elif ev not in ("Col", "ConfigRejected", "HistRejected"):
                    nevents += 1
                    m = re.search(r'"N":(\d+)', line)
                    ctx.nontrivial("H|%s|%s|%s" % (cfgname, ev, m.group(1) if m else ""))
                    if nevents % 397 == 1:
                        d = json.loads(line)
                        ctx.sample({k: (v if not isinstance(v, list) or len(v) <= 8 else v[:8] + ["..."]) for k, v in d.items()})
        if at is not None or not ok:
            ctx.violation("trace not consumed by Trace_Projectors (line %s)" % at, p)
            continue
        bad = lib.unexplained(r)
        newbad = []
        for (ln, cls) in bad:
            ids = cls.split("+")        # a line may show several known findings at once
            if all(i in known_ids for i in ids):
                for i in ids:
                    ctx.known_hits[i] = [x for x in ctx.known if x["id"] == i][0]["what"]
            else:
                newbad.append((ln, cls))
        if newbad:
            # replay file: the whole block of the first unexplained line (Bin / Col lines are addressed by position)
            ln0 = newbad[0][0]
            blk = [b for b in bl if b[0] < ln0 <= b[1]] or [(0, ln0)]
            lines = open(p).read().splitlines(True)[blk[0][0]:blk[0][1]]
            rp = os.path.join(ctx.work, "violation-" + os.path.basename(p))
            open(rp, "w").writelines(lines)
            c0 = json.loads(lines[0])
            rec = json.loads(lines[ln0 - 1 - blk[0][0]])
            brief = {k: v for k, v in rec.items() if not isinstance(v, list) or len(v) < 12}
            classes = sorted({cls for _, cls in newbad})
            ctx.violation("%d recorded lines not explained by Trace_Projectors (%s); first: line %d of block %s: %s" % (
                len(newbad), ", ".join(classes), ln0 - blk[0][0], c0.get("name", "?"), json.dumps(brief)[:260]), rp)
    # the vacuity guards (only meaningful when the recorded block itself was accepted)
    if not ctx.violations:
        for g in guards:
            lines = [ln for ln, cls in lib.unexplained(gres[g[1]]) if g[3] is None or cls == g[3]]
            if g[2] not in lines:
                raise lib.ModelFailure("vacuity guard: Trace_Projectors accepted a corrupted trace (%s, line %d; reported %s)" % (g[0], g[2], lib.unexplained(gres[g[1]])[:12]))
        for p in gres:
            os.remove(p)
        if guards:
            ctx.notes.append("vacuity guards: Trace_Projectors rejects %d alterations of a recorded block, each at the altered line with the expected class (%s)" % (len(guards), ", ".join(g[0] for g in guards)))
    # ------------------------------------------------------------------ 4. the model checks
    r = fut_main.result()
    ctx.mc_must_pass(r, "Projectors: theorems on every piece + frame conditions along all histories (%s)" % ("depth 3, N<=2, 2 classes" if q else "depth 3, N<=3, 5 classes"), "MC_Projectors")
    for a in ACTIONS:
        if a not in r.coverage or r.coverage[a][0] == 0:
            raise lib.ModelFailure("MC_Projectors: action %s never taken" % a)
    for f in fut_faults:
        name, rf = f.result()
        if not rf.violation:
            raise lib.ModelFailure("vacuity guard: the invariants of MC_Projectors hold for the faulty operation '%s'" % name)
        ctx.notes.append("vacuity guard: faulty model '%s' violates %s (%d states)" % (name, "/".join(sorted(set(re.findall(r"Invariant (\w+) is violated", rf.out)))), rf.distinct))
    pool.shutdown()
    if not ctx.replay and (nsame["reuse"] == 0 or nsame["zindex"] == 0):
        raise lib.ModelFailure("no non-empty Same lines recorded (re-use / index conventions): %s" % nsame)
    ctx.extra.update({"same_lines_reuse": nsame["reuse"], "same_lines_index_conventions": nsame["zindex"] + nsame["xshift"], "blocks": nblocks, "histories": nhist, "bin_lines": nbins, "history_events": nevents})
    ctx.exhaustive = False
    ctx.assumptions = [
        "which view/segment pairs a subset or a group of related viewgrams consists of is C06's result (Subsets.tla: Processed, Orbit); it is re-checked here only through the recorded entries",
        "the numeric content of a matrix row is not specified (C03/C04 limit): F is what forward_project returns for unit images",
        "histories use integer images in -2..2 and data in -3..3; sums are recomputed by TLC in fixed point 2^-16 from the recorded F with the tolerance SumTol of the specification",
        "on-the-fly ray tracing is compared where it documents applicability: cylindrical non-TOF data, even number of views, one tangential ray, default symmetry switches, z voxel size = half the ring spacing"]
    return ctx.finish(rule="one evaluation = one recorded line: a Bin line carries the matrix entries of one bin through every route (forward/back x whole / every (s,N) / group / windows / on-the-fly), "
                      "a history line one call with the complete data or image after it; distinct_nontrivial = distinct (block configuration, segment, view) with a non-empty row "
                      "+ distinct (block configuration, call kind, number of subsets) among the history events")
