"""C17 - text and header input is parsed faithfully or rejected, never mis-handled.
1. TLC model-checks the line machine of spec/KeyParser.tla (every action the code performs is a named
   action; the property sentences are invariants; an action census guards against vacuity).
2. (a) TLC enumerates ALL line sequences over the line alphabet (spec/Gen_KeyParser.tla); the driver
   feeds each one to a real stir::KeyParser (ASan/UBSan-instrumented STIR libraries, child processes)
   and records verdict + final variables; (b) the driver mutates Interfile headers written by the
   library itself at line level and records what the real readers do with them; (c) for every
   registered name of every registry it records parameter_info() -> parse -> parameter_info().
3. TLC (spec/Trace_KeyParser.tla) must explain every recorded line.  Python only orchestrates."""
import os, json, re, glob, time, concurrent.futures as cf
from . import lib

_T = [time.time()]


def _lap(what):
    lib.log("  [c17] %-28s %5.1fs" % (what, time.time() - _T[0]))
    _T[0] = time.time()

ACTIONS = ["ContinueLine", "SkipBlankLine", "StartKey", "FirstLineBeforeStart", "StartKeyAgain", "StopKey", "NoOpLine",
           "IgnoreBadValue", "AssignScalar", "AssignIndexed", "IndexError", "EofBeforeStart", "EofAccept"]
ASAN = "detect_leaks=0:abort_on_error=0:exitcode=77:allocator_may_return_null=1:max_allocation_size_mb=%d:symbolize=%d"


def _split(path, outdir, n, tag):
    """split an ndjson file into n files of consecutive lines (no boundary needed: lines are independent)"""
    os.makedirs(outdir, exist_ok=True)
    lines = open(path).read().splitlines()
    per = max(1, (len(lines) + n - 1) // n)
    out = []
    for k in range(0, len(lines), per):
        p = os.path.join(outdir, "%s.%03d.ndjson" % (tag, k // per + 1))
        with open(p, "w") as f:
            f.write("\n".join(lines[k:k + per]) + "\n")
        out.append(p)
    return out


def _model_check(ctx):
    q = ctx.quick
    r = lib.tlc("MC_KeyParser", cfg="MC_KeyParser" if q else "MC_KeyParser_thorough", workers=4 if q else 8, timeout=900, heap="6g")
    ctx.mc_must_pass(r, "line machine: fold = incremental machine, stored at index, aliases, spelling (%s)" % ("MaxFull=3" if q else "MaxFull=4"), "MC_KeyParser")
    # action census (vacuity guard): every named action must occur in the reachable states
    dump = os.path.join(ctx.work, "census")
    r2 = lib.tlc("MC_KeyParser", cfg="MC_KeyParser_census", workers=2, timeout=300, heap="4g", extra=["-dump", dump], tag="MC_KeyParser-census")
    if not r2.ok:
        raise lib.ModelFailure("census run failed:\n" + r2.out[-2000:])
    txt = open(dump + ".dump").read()
    cnt = {a: len(re.findall(r'act \|-> "%s"' % a, txt)) for a in ACTIONS}
    os.remove(dump + ".dump")
    missing = [a for a, c in cnt.items() if c == 0]
    if missing:
        raise lib.ModelFailure("actions never taken in MC_KeyParser: %s" % missing)
    ctx.extra["action_census"] = cnt


def _replay_a(ctx, exe):
    """TLC enumerates the line sequences, the driver replays them; returns trace chunk paths"""
    q = ctx.quick
    nparts = 1 if q else 8
    gens = [os.path.join(ctx.work, "gen.%d.ndjson" % k) for k in range(nparts)]

    def gen_one(k):
        r = lib.tlc("Gen_KeyParser", cfg="Gen_KeyParser" if q else "Gen_KeyParser_thorough", workers=1, timeout=1500, heap="6g",
                    env={"GEN": gens[k], "PART": str(k)}, tag="Gen_KeyParser-%d" % k)
        if not r.ok or not os.path.exists(gens[k]):
            raise lib.ModelFailure("Gen_KeyParser failed:\n" + r.out[-3000:])
        return r
    with cf.ThreadPoolExecutor(nparts) as ex:
        for r in ex.map(gen_one, range(nparts)):
            ctx.add_mc(r, "Gen_KeyParser (enumeration of line sequences)")
    gen = os.path.join(ctx.work, "gen.ndjson")
    with open(gen, "w") as f:
        for g in gens:
            f.write(open(g).read())
            os.remove(g)
    parts = _split(gen, os.path.join(ctx.work, "gen"), 4 if q else 8, "gen")
    os.remove(gen)
    outs = [p.replace("gen.", "a.") for p in parts]
    env = {"VERIF_SEED": str(ctx.seed), "ASAN_OPTIONS": ASAN % (8, 0)}

    def one(i):
        lib.run_driver(exe, ["replay", parts[i], outs[i]], env=env, timeout=1500)
    with cf.ThreadPoolExecutor(len(parts)) as ex:
        list(ex.map(one, range(len(parts))))
    for p, o in zip(parts, outs):
        n1, n2 = sum(1 for _ in open(p)), sum(1 for _ in open(o))
        if n1 != n2:
            raise lib.ModelFailure("replay recorded %d of %d sequences (%s)" % (n2, n1, o))
    return outs


def _headers_b(ctx, exe):
    """line-level mutations of headers written by the library, one driver process per reader"""
    npd = 3 if ctx.quick else 6
    jobs = [("img_direct", 0, 1), ("img_generic", 0, 1)] + [(r, p, npd) for r in ("pd_direct", "pd_generic") for p in range(npd)]
    outs = [os.path.join(ctx.work, "b.%s.%d.ndjson" % (r, p)) for (r, p, n) in jobs]
    env = {"VERIF_SEED": str(ctx.seed), "ASAN_OPTIONS": ASAN % (256, 0), "UBSAN_OPTIONS": "print_stacktrace=1:halt_on_error=1:exitcode=78:symbolize=0"}

    def one(i):
        r, p, n = jobs[i]
        w = os.path.join(ctx.work, "hdr-%s-%d" % (r, p))
        os.makedirs(w, exist_ok=True)
        lib.run_driver(exe, ["hdr", w, outs[i], 0 if ctx.quick else 1, r, p, n], env=env, timeout=1500)
    with cf.ThreadPoolExecutor(8) as ex:
        list(ex.map(one, range(len(jobs))))
    for o in outs:
        if sum(1 for _ in open(o)) < 50:
            raise lib.ModelFailure("header mutation run recorded too little: " + o)
    return outs


def _group(paths, n, outdir, tag):
    """concatenate trace files into n files (every file starts with its own Hdr lines, so this is safe)"""
    os.makedirs(outdir, exist_ok=True)
    sizes = sorted(((os.path.getsize(p), p) for p in paths), reverse=True)
    bins = [[0, []] for _ in range(n)]
    for sz, p in sizes:
        b = min(bins, key=lambda x: x[0])
        b[0] += sz
        b[1].append(p)
    out = []
    for i, (sz, ps) in enumerate(bins):
        if not ps:
            continue
        o = os.path.join(outdir, "%s.%02d.ndjson" % (tag, i + 1))
        with open(o, "w") as f:
            for p in ps:
                f.write(open(p).read())
        out.append(o)
    return out


def _roundtrip_c(ctx, exe):
    out = os.path.join(ctx.work, "c.ndjson")
    lib.run_driver(exe, ["roundtrip", out], env={"ASAN_OPTIONS": ASAN % (256, 0)}, timeout=600)
    if sum(1 for _ in open(out)) < 40:
        raise lib.ModelFailure("round trip recorded too few registered names")
    return [out]


def _validate(ctx, chunks, jobs):
    res = lib.validate_parallel("Trace_KeyParser", chunks, jobs=jobs, timeout=1500, heap="3g")
    known_ids = {k["id"] for k in ctx.known}
    for (p, ok, r, at) in res:
        recs = lib.read_ndjson(p)
        ctx.traces += 1
        ctx.evaluations += len(recs)
        ctx.transitions += r.generated
        ctx.states += r.distinct
        for rec in recs:
            if rec["e"] == "Run":
                ctx.nontrivial("a:" + ",".join(str(i) for i in rec["gen"]["ids"]) + ("n" if rec["gen"]["nl"] else "") + ("c" if rec["gen"].get("crlf") else ""))
                ctx.extra["replayed_sequences"] = ctx.extra.get("replayed_sequences", 0) + 1
            elif rec["e"] == "Mut":
                ctx.nontrivial("b:%d:%s:%s:%d:%s:%s" % (rec["hid"], rec["reader"], rec["mut"], rec["at"], "|".join(rec["fresh"]), rec["nl"]))
                ctx.extra["header_mutations"] = ctx.extra.get("header_mutations", 0) + 1
                k = "header_outcomes_" + rec["obs"]["verdict"]
                ctx.extra[k] = ctx.extra.get(k, 0) + 1
            elif rec["e"] == "RT":
                ctx.nontrivial("c:" + rec["registry"] + ":" + rec["name"])
                ctx.extra["registered_names"] = ctx.extra.get("registered_names", 0) + 1
                if rec["constructed"]:
                    ctx.extra["round_trips"] = ctx.extra.get("round_trips", 0) + 1
        if at is not None or not ok:
            ctx.violation("trace not consumed (line %s)" % at, p)
            continue
        newbad = []
        for (ln, cls) in lib.unexplained(r):
            if cls in known_ids:
                k = [x for x in ctx.known if x["id"] == cls][0]
                ctx.known_hits[cls] = k["what"]
            else:
                newbad.append(ln)
        if newbad:
            # replay file: the unexplained lines, each "Mut" line preceded by the "Hdr" line it refers to
            out, hdrs, have = [], {}, None
            for i, rec in enumerate(recs, 1):
                if rec["e"] == "Hdr":
                    hdrs[rec["hid"]] = rec
                if i in newbad[:50]:
                    if rec["e"] == "Mut" and have != rec["hid"] and rec["hid"] in hdrs:
                        out.append(hdrs[rec["hid"]])
                        have = rec["hid"]
                    out.append(rec)
            rp = os.path.join(ctx.work, "violation-" + os.path.basename(p))
            lib.write_ndjson(rp, out)
            first = [x for x in out if x["e"] != "Hdr" or len(out) == 1][0]
            ctx.violation("%d recorded outcomes not explained by KeyParser.tla, first: %s" % (len(newbad), json.dumps(first)[:300]), rp)


def run(ctx):
    q = ctx.quick
    if ctx.replay:
        _validate(ctx, [ctx.replay], 1)
        return ctx.finish(rule="replay of a saved trace")
    _T[0] = time.time()
    _model_check(ctx)
    _lap("model check + census")
    exe = lib.build_driver("c17_keyparser", santree=True)
    _lap("build driver")
    chunks = _replay_a(ctx, exe)
    _lap("generate + replay (a)")
    for c in chunks[:1]:
        recs = lib.read_ndjson(c)
        for rec in recs[5:400:131]:
            ctx.sample({"fed": rec["fed"], "obs": rec["obs"]})
    bchunks = _headers_b(ctx, exe)
    for rec in lib.read_ndjson(bchunks[0])[3:200:67]:
        if rec["e"] == "Mut":
            ctx.sample({k: rec[k] for k in ("reader", "mut", "at", "fresh", "obs")})
    _lap("header mutations (b)")
    cchunks = _roundtrip_c(ctx, exe)
    _lap("round trips (c)")
    bc = _group(bchunks + cchunks, 4 if q else 8, os.path.join(ctx.work, "chunks"), "bc")
    _validate(ctx, chunks + bc, 4 if q else 8)
    _lap("trace validation")
    if not ctx.violations and (ctx.extra.get("round_trips", 0) < 20 or ctx.extra.get("header_outcomes_accepted", 0) < 100):
        raise lib.ModelFailure("too few round trips / accepted headers recorded: the recording is not exercising the code")
    ctx.exhaustive = False
    ctx.extra["line_alphabet"] = 67
    ctx.extra["sequence_bound"] = "all sequences of <= %d physical lines over the 67-line alphabet (with and without a final newline; CR LF line ends for <= 2 lines and wherever a line is continued) + all of <= %d lines whose inner lines are among 11 core lines" % ((3, 4) if q else (3, 5))
    ctx.assumptions = ["memory safety is observed (ASan/UBSan) on the enumerated inputs only; coverage-guided byte-level fuzzing is a different technique and is not done"]
    return ctx.finish(rule="one evaluation = one recorded outcome of the real code (a line sequence fed to a real KeyParser, a mutated header fed to a real "
                           "Interfile reader, a parameter_info -> parse -> parameter_info round trip); distinct_nontrivial = distinct inputs validated")
