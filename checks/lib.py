"""Common machinery for the model-based checks: builds, TLC invocation, trace validation,
evidence, known findings.  The C++ drivers only drive and record; every verdict comes from TLC."""
import fcntl, glob, hashlib, json, os, re, shutil, subprocess, sys, time

V = os.path.dirname(os.path.dirname(os.path.abspath(__file__)))
# VERIF_REPO / VERIF_BUILD / VERIF_EVIDENCE let tools/mutant_run check a scratch copy of the sources
# (selftests, seeded changes) without touching /repo, /verif/.build or the committed evidence.
B = os.environ.get("VERIF_BUILD", os.path.join(V, ".build"))
REPO = os.environ.get("VERIF_REPO", "/repo")
EVID = os.environ.get("VERIF_EVIDENCE", os.path.join(V, "evidence"))
SPEC = os.path.join(V, "spec")
HARNESS = os.path.join(V, "harness")
NCPU = os.cpu_count() or 4


class ModelFailure(Exception):
    """Tooling problem (build, TLC parse error, time-out): exit 2, never a VIOLATION."""


def log(*a):
    print(*a, flush=True)


def sh(cmd, timeout=1800, env=None, cwd=None, check=False, stdin=None):
    e = dict(os.environ)
    if env:
        e.update(env)
    try:
        p = subprocess.run(cmd, shell=isinstance(cmd, str), stdout=subprocess.PIPE, stderr=subprocess.STDOUT,
                           timeout=timeout, env=e, cwd=cwd, text=True, errors="replace", input=stdin)
    except subprocess.TimeoutExpired as ex:
        out = ex.stdout if isinstance(ex.stdout, str) else (ex.stdout or b"").decode("utf8", "replace")
        return 124, out
    if check and p.returncode != 0:
        raise ModelFailure("command failed (%d): %s\n%s" % (p.returncode, cmd, p.stdout[-3000:]))
    return p.returncode, p.stdout


# ------------------------------------------------------------------ builds

def _locked(name):
    os.makedirs(B, exist_ok=True)
    f = open(os.path.join(B, ".lock-" + name), "w")
    fcntl.flock(f, fcntl.LOCK_EX)
    return f


def build_stir(omp=False, tree=None):
    """Incremental rebuild of the STIR libraries from /repo's working tree (hooks on).
    tree: "stir" (default), "stir-omp" (OpenMP), "stir-san" (ASan/UBSan-instrumented libraries)."""
    tree = tree or ("stir-omp" if omp else "stir")
    d = os.path.join(B, tree)
    if not os.path.exists(os.path.join(d, "build.ninja")):
        rc, out = sh([os.path.join(V, "bin", "setup")], timeout=3000, env={"VERIF_REPO": REPO, "VERIF_BUILD": B, "VERIF_TREES": tree})
        if rc != 0:
            raise ModelFailure("bin/setup failed:\n" + out[-3000:])
    os.makedirs(os.path.join(B, "drivers"), exist_ok=True)
    lk = _locked(tree + "-b")
    try:
        t = time.time()
        rc, out = sh(["ninja", "-C", d, "-j%d" % NCPU], timeout=3000)
        if rc != 0:
            raise ModelFailure("STIR build failed (%s):\n%s" % (tree, out[-4000:]))
    finally:
        lk.close()
    return d


SYSLIBS = ("-lSM -lICE -lX11 -lXext -lcurses -L/usr/lib/x86_64-linux-gnu/hdf5/serial -lhdf5_cpp -lhdf5 "
           "-lcrypto -lcurl -lpthread -lsz -lz -ldl -lm")


def _stir_link(tree):
    d = os.path.join(B, tree)
    regs = sorted(glob.glob(os.path.join(d, "src/CMakeFiles/stir_registries.dir/*/*.o")))
    libs = sorted(glob.glob(os.path.join(d, "src/*/lib*.a")) + glob.glob(os.path.join(d, "src/*/*/lib*.a")))
    return regs, libs


def _includes(tree):
    d = os.path.join(B, tree)
    return ["-I" + os.path.join(REPO, "src/include"), "-I" + os.path.join(d, "src/include"),
            "-I/usr/include/hdf5/serial", "-I" + os.path.join(HARNESS, "common")]


def build_driver(name, sources=None, omp=False, san=False, header_only=False, extra=(), santree=False):
    """Compile harness/<name>.cxx against the freshly built STIR tree.  Re-compiles whenever a
    dependency (any /repo header it includes, any STIR library, its own sources) is newer.
    san: ASan/UBSan on the driver translation unit (instruments header-only code under test);
    santree: additionally link the ASan/UBSan-instrumented STIR libraries (.build/stir-san)."""
    tree = "stir-san" if santree else ("stir-omp" if omp else "stir")
    san = san or santree
    build_stir(omp, tree=tree)
    sources = sources or [os.path.join(HARNESS, name + ".cxx")]
    out = os.path.join(B, "drivers", name + ("-omp" if omp else "") + ("-san" if san else "") + ("tree" if santree else ""))
    os.makedirs(os.path.dirname(out), exist_ok=True)
    dep = out + ".d"
    regs, libs = ([], []) if header_only else _stir_link(tree)
    need = not os.path.exists(out)
    if not need:
        mt = os.path.getmtime(out)
        deps = list(sources) + libs + regs
        if os.path.exists(dep):
            txt = open(dep).read().replace("\\\n", " ")
            deps += [x for x in txt.split(":", 1)[-1].split() if x]
        else:
            need = True
        for x in deps:
            try:
                if os.path.getmtime(x) > mt:
                    need = True
                    break
            except OSError:
                need = True
                break
    if not need:
        return out
    lk = _locked("drv-" + os.path.basename(out))
    try:
        cmd = ["g++", "-std=gnu++17", "-O1" if san else "-O2", "-g1", "-DNDEBUG", "-DUCL_STIR_VERIF", "-Wno-deprecated-declarations",
               "-MMD", "-MF", dep] + _includes(tree) + list(extra)
        if omp:
            cmd.append("-fopenmp")
        if san:
            cmd += ["-fsanitize=address,undefined", "-fno-omit-frame-pointer", "-fno-sanitize-recover=undefined"]
        cmd += sources + ["-o", out]
        if not header_only:
            cmd += regs + ["-Wl,--start-group"] + libs + ["-Wl,--end-group"] + SYSLIBS.split()
        rc, o = sh(cmd, timeout=1500)
        if rc != 0:
            raise ModelFailure("driver build failed: %s\n%s" % (name, o[-5000:]))
    finally:
        lk.close()
    return out


def run_driver(exe, args, timeout=900, env=None, allow_fail=False):
    e = {"STIR_CONFIG_DIR": os.path.join(REPO, "src/config"),
         "ASAN_OPTIONS": "detect_leaks=0:abort_on_error=0:exitcode=77:allocator_may_return_null=1",
         "UBSAN_OPTIONS": "print_stacktrace=1:halt_on_error=1:exitcode=78"}
    if env:
        e.update(env)
    t = time.time()
    # drivers run in the scratch area: STIR writes some files (e.g. list-mode cache files my_CACHE<n>.bin) to the
    # current directory when no path is configured
    os.makedirs(os.path.join(B, "work", "cwd"), exist_ok=True)
    rc, out = sh([exe] + [str(a) for a in args], timeout=timeout, env=e, cwd=os.path.join(B, "work", "cwd"))
    if rc == 124:
        raise ModelFailure("driver timed out: %s %s" % (exe, args))
    if rc != 0 and not allow_fail:
        raise ModelFailure("driver failed rc=%d: %s %s\n%s" % (rc, exe, args, out[-3000:]))
    return rc, out


# ------------------------------------------------------------------ TLC

TLAJAR = "/opt/veriftools/tla/tla2tools.jar"
_COMM = None


def _classpath():
    global _COMM
    if _COMM is None:
        c = glob.glob("/opt/veriftools/tla/*.jar")
        _COMM = ":".join(sorted(c, key=lambda x: (not x.endswith("tla2tools.jar"), x)))
    return _COMM


class TlcResult:
    def __init__(self, rc, out):
        self.rc, self.out = rc, out
        m = re.findall(r"(\d+) states generated, (\d+) distinct states found", out)
        self.generated = int(m[-1][0]) if m else 0
        self.distinct = int(m[-1][1]) if m else 0
        m = re.search(r"The depth of the complete state graph search is (\d+)", out)
        self.depth = int(m.group(1)) if m else 0
        self.ok = rc == 0 and "Model checking completed. No error has been found" in out or \
            (rc == 0 and "Finished in" in out and "Error:" not in out)
        self.violation = rc in (12, 13) or "is violated" in out or "Post-condition" in out and "violated" in out
        self.coverage = {}
        for mm in re.finditer(r"<(\w+) line \d+, col \d+ to line \d+, col \d+ of module (\w+)>: (\d+):(\d+)", out):
            self.coverage[mm.group(1)] = (int(mm.group(3)), int(mm.group(4)))

    def printed(self):
        """values printed with PrintT(<<...>>) as raw strings"""
        return [l for l in self.out.splitlines() if l.startswith("<<") or l.startswith('"')]


def tlc(module, cfg=None, specdir=None, workers=None, timeout=1500, env=None, simulate=None, depth=None,
        coverage=False, heap="8g", extra=(), deadlock=False, dfs=False, tag=None):
    """Run TLC on spec/<specdir>/<module>.tla.  Returns TlcResult; raises ModelFailure on parse
    errors / time-outs (never reported as a violation)."""
    specdir = specdir or SPEC
    tag = tag or module
    meta = os.path.join(B, "tlc-meta", "%s-%d-%d" % (tag, os.getpid(), int(time.time() * 1000) % 100000000))
    os.makedirs(meta, exist_ok=True)
    w = workers or min(NCPU, 8)
    jopts = ["-XX:+UseParallelGC", "-Xmx" + heap, "-Dtlc2.TLC.stopAfter=%d" % (timeout + 60)]
    if dfs:
        jopts.append("-Dtlc2.tool.queue.IStateQueue=StateDeque")
    cmd = ["java"] + jopts + ["-cp", _classpath(), "tlc2.TLC", "-workers", str(w), "-metadir", meta,
                              "-config", (cfg or module) + ".cfg", "-noGenerateSpecTE"]
    if not deadlock:
        cmd.append("-deadlock")
    if simulate:
        cmd += ["-simulate", "num=%d" % simulate]
        if depth:
            cmd += ["-depth", str(depth)]
    if coverage:
        cmd += ["-coverage", "1"]
    cmd += list(extra) + [module + ".tla"]
    try:
        rc, out = sh(cmd, timeout=timeout, env=env, cwd=specdir)
    finally:
        shutil.rmtree(meta, ignore_errors=True)
    if rc == 124:
        raise ModelFailure("TLC timed out on %s (%ds)" % (module, timeout))
    r = TlcResult(rc, out)
    if ("Parsing or semantic analysis failed" in out or "Error: " in out and not r.violation and rc not in (0, 12, 13)
            or rc in (150, 151, 152, 153, 154, 155, 1, 255)) and not r.violation:
        raise ModelFailure("TLC failed on %s rc=%d:\n%s" % (module, rc, out[-4000:]))
    return r


def validate_trace(module, trace, specdir=None, timeout=1500, env=None, heap="8g", cfg=None, dfs=False):
    """Trace validation: TLC consumes the ndjson trace through IOEnv.TRACE.  Returns
    (accepted, TlcResult, rejected_at) — rejected_at is the 1-based line of the first line that the
    specification could not explain (from the REJECTED_AT print of the trace spec) or None."""
    e = {"TRACE": os.path.abspath(trace)}
    if env:
        e.update(env)
    r = tlc(module, cfg=cfg, specdir=specdir, workers=1, timeout=timeout, env=e, heap=heap, dfs=dfs,
            tag=module + "-" + os.path.basename(trace))
    accepted = r.rc == 0 and not r.violation and "REJECTED_AT" not in r.out
    at = None
    m = re.search(r"REJECTED_AT\D+(\d+)", r.out)
    if m:
        at = int(m.group(1))
    if not accepted and at is None and not r.violation:
        raise ModelFailure("trace validation of %s ended abnormally rc=%d:\n%s" % (trace, r.rc, r.out[-4000:]))
    return accepted, r, at


def unexplained(r):
    """[(line, class)] from the UNEXPLAINED print of a collecting trace spec"""
    i = r.out.find('"UNEXPLAINED"')
    if i < 0:
        return []
    j = r.out.find("Model checking completed", i)
    return [(int(a), b) for a, b in re.findall(r'<<\s*(\d+),\s*"([^"]+)"\s*>>', r.out[i:j if j > 0 else len(r.out)])]


def split_trace(path, outdir, maxlines=30000, boundary="Config"):
    """Split an ndjson trace at `boundary` events into chunks of about maxlines lines; returns
    [(chunkpath, first_line_number_in_original)]"""
    os.makedirs(outdir, exist_ok=True)
    chunks, cur, n, start, k = [], None, 0, 1, 0
    key = '"e":"%s"' % boundary
    with open(path) as f:
        for ln, line in enumerate(f, 1):
            if cur is None or (n >= maxlines and key in line[:40]):
                if cur:
                    cur.close()
                k += 1
                p = os.path.join(outdir, "%s.%03d.ndjson" % (os.path.basename(path).replace(".ndjson", ""), k))
                cur = open(p, "w")
                chunks.append((p, ln))
                n = 0
            cur.write(line)
            n += 1
    if cur:
        cur.close()
    return chunks


def validate_parallel(module, paths, jobs=8, timeout=1500, heap="4g", specdir=None):
    """validate several traces concurrently; returns list of (path, accepted, TlcResult, rejected_at)"""
    import concurrent.futures as cf

    def one(p):
        ok, r, at = validate_trace(module, p, specdir=specdir, timeout=timeout, heap=heap)
        return (p, ok, r, at)
    with cf.ThreadPoolExecutor(max(1, jobs)) as ex:
        return list(ex.map(one, paths))


def read_ndjson(path):
    out = []
    with open(path) as f:
        for l in f:
            l = l.strip()
            if l:
                out.append(json.loads(l))
    return out


def write_ndjson(path, recs):
    with open(path, "w") as f:
        for r in recs:
            f.write(json.dumps(r, separators=(",", ":")) + "\n")


# ------------------------------------------------------------------ known findings

def load_known(pid):
    p = os.path.join(V, "known_findings.jsonl")
    res = []
    if os.path.exists(p):
        for l in open(p):
            l = l.strip()
            if l and not l.startswith("#"):
                d = json.loads(l)
                if d.get("property") == pid and d.get("status") == "known":
                    res.append(d)
    return res


def match_known(known, rec):
    """A rejected trace line `rec` (dict) matches a known finding iff every key of the finding's
    signature is present in the record with an equal value (lists: the record's value must be one of them
    when the signature value is {"in": [...]})."""
    for k in known:
        sig = k.get("signature", {})
        ok = True
        for key, val in sig.items():
            rv = rec.get(key, None)
            if isinstance(val, dict) and "in" in val:
                if rv not in val["in"]:
                    ok = False
            elif rv != val:
                ok = False
            if not ok:
                break
        if ok and sig:
            return k
    return None


# ------------------------------------------------------------------ check context

class Ctx:
    def __init__(self, pid, tier, seed, replay=None):
        self.pid, self.tier, self.seed, self.replay = pid, tier, seed, replay
        self.t0 = time.time()
        self.states = 0
        self.transitions = 0
        self.traces = 0
        self.evaluations = 0
        self.distinct = set()
        self.samples = []
        self.violations = []      # (what, replay_path)
        self.known_hits = {}      # id -> text
        self.notes = []
        self.exhaustive = False
        self.extra = {}
        self.assumptions = []
        self.work = os.path.join(B, "work", pid)
        shutil.rmtree(self.work, ignore_errors=True)
        os.makedirs(self.work, exist_ok=True)
        self.known = load_known(pid)
        self.replays = os.path.join(V if EVID.startswith(V) else EVID, "replays", pid)

    @property
    def quick(self):
        return self.tier == "quick"

    def add_mc(self, r, what=""):
        self.states += r.distinct
        self.transitions += r.generated
        self.notes.append("%s: %d generated / %d distinct states, depth %d" % (what or "tlc", r.generated, r.distinct, r.depth))

    def sample(self, s, cap=6):
        if len(self.samples) < cap:
            self.samples.append(s)

    def nontrivial(self, key):
        self.distinct.add(key if isinstance(key, (str, int)) else json.dumps(key, sort_keys=True))

    def save_replay(self, src, name=None):
        os.makedirs(self.replays, exist_ok=True)
        dst = os.path.join(self.replays, name or os.path.basename(src))
        if os.path.abspath(src) != os.path.abspath(dst):
            shutil.copyfile(src, dst)
        return dst

    def violation(self, what, replay_src, rec=None):
        """Report a violation unless the failing record matches a known finding."""
        if rec is not None:
            k = match_known(self.known, rec)
            if k:
                self.known_hits[k["id"]] = k.get("what", "")
                return False
        p = self.save_replay(replay_src) if replay_src and os.path.exists(replay_src) else (replay_src or "-")
        self.violations.append((what, p))
        return True

    def mc_must_pass(self, r, what, module):
        """A model check of the specification itself: a violation there is a defect of the model
        (ModelFailure), never of the implementation."""
        if not r.ok:
            raise ModelFailure("model check %s (%s) did not pass rc=%d:\n%s" % (module, what, r.rc, r.out[-3000:]))
        self.add_mc(r, what)

    def finish(self, level="model_checking", rule="", explanation=""):
        for kid, what in sorted(self.known_hits.items()):
            log("KNOWN-FINDING: property=%s %s [%s]" % (self.pid, what, kid))
        for what, p in self.violations:
            log("VIOLATION property=%s replay=%s  (%s)" % (self.pid, p, what))
        cov = {"states": max(self.states, 0), "transitions": max(self.transitions, 0),
               "traces_validated_against_impl": self.traces, "samples": self.samples or ["(none)"],
               "evaluations": self.evaluations, "distinct_nontrivial": len(self.distinct),
               "rule": rule, "exhaustive": self.exhaustive, "notes": self.notes,
               "known_findings_hit": sorted(self.known_hits)}
        cov.update(self.extra)
        ev = {"property_id": self.pid, "tier": self.tier, "seed": self.seed, "level": level, "coverage": cov,
              "assumptions": self.assumptions, "wall_s": round(time.time() - self.t0, 1),
              "violations": len(self.violations)}
        os.makedirs(EVID, exist_ok=True)
        with open(os.path.join(EVID, self.pid + ".json"), "w") as f:
            json.dump(ev, f, indent=1)
        log("%s %s: states=%d transitions=%d traces=%d evaluations=%d distinct=%d wall=%.0fs violations=%d" % (
            self.pid, self.tier, self.states, self.transitions, self.traces, self.evaluations, len(self.distinct),
            time.time() - self.t0, len(self.violations)))
        return 1 if self.violations else 0
