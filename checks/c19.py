"""C19 — Fourier transforms invert and filters are the convolutions they claim to be.
1. TLC proves the theorems of Conv.tla (separable = successive 1-D in any axis order = N-D convolution with the tensor
   kernel, symmetric form, boundary conditions, mean preservation, padded periodic convolution = direct convolution when
   nothing can wrap) and of DFT4.tla (inverse, impulse, Parseval, axis order, the FFT algorithm, real-data packing, the
   convolution theorem) exhaustively on small instances.  For longer 1-D transforms the spec characterises the transform
   through its own observed twiddle table (TableOk/PowerOk/ValuesOk).
2. The driver records what STIR's filters and transforms return (exact dyadic instances for the convolution filters,
   fixed-point observations for the DFT routes and the Gaussian/Metz filters); TLC (Trace_Conv, Trace_DFT4) must explain
   every recorded line.  Python only orchestrates and counts."""
import os, json, time, concurrent.futures as cf
from . import lib

CONV_EVENTS = {"C1", "CS", "CN", "SEP", "DF", "MEAN", "MED", "THR", "TRUNC", "CHAIN", "ON1", "ELT", "RAMP", "RT"}
DFT_EVENTS = {"FI", "RC", "TW", "TWN"}


def _split(path, outdir, parts, tag):
    """independent lines: cut the file into `parts` pieces of about equal size (bytes)"""
    os.makedirs(outdir, exist_ok=True)
    lines = open(path).readlines()
    total = sum(len(x) for x in lines)
    target = max(1, total // max(1, parts))
    out, cur, size, first = [], [], 0, 1
    for i, ln in enumerate(lines, 1):
        cur.append(ln)
        size += len(ln)
        if size >= target and len(out) < parts - 1:
            p = os.path.join(outdir, "%s.%03d.ndjson" % (tag, len(out) + 1))
            open(p, "w").writelines(cur)
            out.append((p, first))
            cur, size, first = [], 0, i + 1
    if cur:
        p = os.path.join(outdir, "%s.%03d.ndjson" % (tag, len(out) + 1))
        open(p, "w").writelines(cur)
        out.append((p, first))
    return out


def _key(rec):
    e = rec.get("e")
    if e == "C1":
        return (e, rec["bc"], rec["klo"], len(rec["k"]), rec["dlo"], len(rec["d"]), rec["olo"], rec["inpl"])
    if e == "CS":
        return (e, len(rec["h"]), rec["dlo"], len(rec["d"]))
    if e in ("CN", "DF"):
        return (e, rec["dim"], tuple(rec["klo"]), tuple(rec["kn"]), tuple(rec["dn"]), tuple(rec["on"]))
    if e == "SEP":
        return (e, rec["via"], tuple(rec["klo"]), tuple(len(x) for x in rec["kv"]), tuple(rec["bc"]), tuple(rec["dn"]))
    if e == "MEAN":
        return (e, rec.get("filter"), tuple(rec.get("fwhm", [])), tuple(rec.get("vox", [])), tuple(rec.get("mk", [])), tuple(rec.get("power", [])))
    if e == "FI":
        return (e, rec["dim"], tuple(rec["n"]), rec["sign"], rec["kind"])
    if e == "RC":
        return (e, rec["dim"], tuple(rec["n"]), rec["sign"])
    if e in ("TW", "TWN"):
        return (e, tuple(rec["n"]), rec["sign"])
    if e == "MED":
        return (e, rec["kind"], rec["via"], tuple(rec["r"]), tuple(rec["dn"]))
    if e in ("THR", "TRUNC"):
        return (e, rec["via"], tuple(rec["dlo"]), tuple(rec["dn"]), rec.get("rim"), rec.get("strict"))
    if e == "CHAIN":
        return (e, rec["shape"], rec["via"], tuple(st["t"] for st in rec["stages"]))
    if e == "ON1":
        return (e, rec["dim"], rec["via"], rec["bc"], rec["klo"], len(rec["k"]), tuple(rec["dn"]), tuple(rec["on"]))
    if e == "ELT":
        return (e, rec["fn"], rec["dim"], tuple(rec["n"]))
    if e == "RAMP":
        return (e, rec["L"], rec["alpha"], rec["fc"])
    if e == "RT":
        return (e, rec.get("type"), tuple(rec.get("dn", [])))
    return (str(e),)


def run(ctx):
    q = ctx.quick
    t0 = time.time()
    # 1. model checks of the specifications themselves (two TLC runs side by side)
    with cf.ThreadPoolExecutor(2) as ex:
        f1 = ex.submit(lib.tlc, "MC_Conv", cfg="MC_Conv" if q else "MC_Conv_thorough", workers=3 if q else 6, timeout=1500, heap="6g")
        f2 = ex.submit(lib.tlc, "MC_DFT4", cfg="MC_DFT4" if q else "MC_DFT4_thorough", workers=1 if q else 2, timeout=1500, heap="4g")
        r1, r2 = f1.result(), f2.result()
    ctx.mc_must_pass(r1, "theorems of Conv.tla (separable, symmetric, boundary, mean, padded periodic = direct)", "MC_Conv")
    ctx.mc_must_pass(r2, "theorems of DFT4.tla (inverse, impulse, Parseval, axes, FFT algorithm, real packing, convolution theorem)", "MC_DFT4")
    t1w = time.time()
    # 2. record
    jobs = []   # (module, trace)
    if ctx.replay:
        recs = lib.read_ndjson(ctx.replay)
        for mod, evs in (("Trace_Conv", CONV_EVENTS), ("Trace_DFT4", DFT_EVENTS)):
            part = [r for r in recs if r.get("e") in evs]
            if mod == "Trace_Conv":
                part += [r for r in recs if r.get("e") not in CONV_EVENTS | DFT_EVENTS]   # unknown lines are never accepted
            if part:
                p = os.path.join(ctx.work, "replay-" + mod + ".ndjson")
                lib.write_ndjson(p, part)
                jobs.append((mod, p, 1))
    else:
        exe = lib.build_driver("c19_fourier")
        env = {"VERIF_SEED": str(ctx.seed)}
        t1 = os.path.join(ctx.work, "conv.ndjson")
        lib.run_driver(exe, ["conv", t1, 300 if q else 6000, 0 if q else 1], env=env, timeout=600)
        t2 = os.path.join(ctx.work, "dft.ndjson")
        lib.run_driver(exe, ["dft", t2, 256 if q else 2048, 1 if q else 2, 256 if q else 1024, 512 if q else 4096], env=env, timeout=600)
        t3 = os.path.join(ctx.work, "filt.ndjson")
        lib.run_driver(exe, ["filt", t3, 45 if q else 400], env=env, timeout=900)
        t4 = os.path.join(ctx.work, "more.ndjson")
        lib.run_driver(exe, ["more", t4, 40 if q else 600], env=env, timeout=900)
        jobs = [("Trace_Conv", t1, 2 if q else 6), ("Trace_DFT4", t2, 4 if q else 8), ("Trace_Conv", t3, 2 if q else 8), ("Trace_Conv", t4, 1 if q else 4)]
    t2w = time.time()
    # 3. validate (pieces in parallel; the lines are independent observations)
    pieces = []
    for mod, t, parts in jobs:
        for p, first in _split(t, os.path.join(ctx.work, "chunks"), parts, os.path.basename(t).replace(".ndjson", "")):
            pieces.append((mod, p))
    results = []
    with cf.ThreadPoolExecutor(4 if q else 8) as ex:
        futs = [(mod, p, ex.submit(lib.validate_trace, mod, p, timeout=2400, heap="4g")) for mod, p in pieces]
        for mod, p, f in futs:
            ok, r, at = f.result()
            results.append((mod, p, ok, r, at))
    ctx.notes.append("wall: model checks %.0f s, recording %.0f s, trace validation %.0f s" % (t1w - t0, t2w - t1w, time.time() - t2w))
    known_ids = {k["id"] for k in ctx.known}
    counts = {}
    for mod, p, ok, r, at in results:
        recs = lib.read_ndjson(p)
        ctx.traces += 1
        ctx.evaluations += len(recs)
        ctx.transitions += r.generated
        ctx.states += r.distinct
        for rec in recs:
            counts[rec.get("e")] = counts.get(rec.get("e"), 0) + 1
            ctx.nontrivial(_key(rec))
        if at is not None or not ok:
            ctx.violation("trace not consumed (line %s)" % at, p)
            continue
        newbad = []
        for ln, cls in lib.unexplained(r):
            if cls == "undecided":
                raise lib.ModelFailure("%s line %d: the probe array does not contain the filter's impulse response; no verdict" % (p, ln))
            if cls in known_ids:
                ctx.known_hits[cls] = [x for x in ctx.known if x["id"] == cls][0]["what"]
            else:
                newbad.append(ln)
        if newbad:
            out = [recs[i - 1] for i in newbad[:20]]
            rp = os.path.join(ctx.work, "violation-" + os.path.basename(p))
            lib.write_ndjson(rp, out)
            kinds = {}
            for i in newbad:
                kinds[recs[i - 1].get("e")] = kinds.get(recs[i - 1].get("e"), 0) + 1
            ctx.violation("%d recorded results not explained by %s, kinds %s, first: %s" % (len(newbad), mod.replace("Trace_", "") + ".tla", json.dumps(kinds, sort_keys=True), json.dumps(out[0])[:200]), rp)
    for e in ("C1", "DF", "FI", "RC", "TW", "TWN", "MEAN", "SEP", "CN", "CS", "MED", "THR", "TRUNC", "CHAIN", "ON1", "ELT", "RAMP", "RT"):
        if not ctx.replay and not ctx.violations and counts.get(e, 0) == 0:
            raise lib.ModelFailure("no %s event recorded" % e)
    for rec in (lib.read_ndjson(pieces[0][1])[:2] if pieces else []):
        ctx.sample({k: (v if not isinstance(v, list) or len(v) <= 8 else v[:8] + ["..."]) for k, v in rec.items()})
    ctx.extra["events"] = counts
    ctx.exhaustive = False
    ctx.assumptions = [
        "beyond the property text (named sections of Conv.tla / Trace_Conv.tla): median, minimal, threshold, truncate-to-FOV, chained processors, ramp filter relations, elementwise abs/log/exp relations, function objects on the first index, parameter_info -> parse round trips, data longer than the padded length",
        "single-precision error model of the FFT (Higham, Theorem 24.2) with eta = 2^-20 per stage bounds the fixed-point tolerances (named operators FxTol, DFTRouteTol)",
        "transform values: exactly for lengths 1, 2, 4 per axis; 1-D lengths up to 1024 through the observed twiddle table (character of Z_n pinned by w[n/4] = i^sign and the quadrant condition) to about 1E-4 absolute per twiddle and 1% per value; multi-dimensional transforms of longer axes only through relations between observations (inverse, Parseval, impulse, real vs complex)",
        "Gaussian/Metz kernels are observed through the impulse response of the same filter; Metz tolerance 2^-10 because the kernel is cut at 1E-4 of its centre value",
    ]
    return ctx.finish(rule="one evaluation = one recorded call of a STIR filter or transform (inputs, outputs) explained by TLC; "
                      "distinct_nontrivial = distinct (event kind, index ranges / shapes / boundary condition / filter parameters) combinations")
