"""C06 — ordered subsets partition the data; every subset is used once per full iteration.
1. TLC model-checks Subsets.tla (partition / balance theorems for every configuration and number of
   subsets) and IterSchedule.tla (the schedule state machine, all small schedules); the model of the
   code before fix 1938172c2 must violate the invariants (the invariants bite).
2. The driver records what the real code answers: symmetries objects (is_basic, find_basic, related),
   detail::find_basic_vs_nums_in_subset for every subset of every number of subsets, the balance verdict
   of the objective function, the viewgrams actually touched by projectors / objective function per
   subset, and the subset numbers real OSMAPOSL / OSSPS reconstructions hand to a recording objective
   function.  TLC (Trace_Subsets, Trace_IterSchedule) must explain every recorded line."""
import json, os
from . import lib


def _corrupt_guard(ctx, module, srcs, mutations):
    """vacuity guard: recorded lines with one field altered each (each mutation alters a different line) must ALL be
    rejected by the trace spec.  mutations: [(function(recs) -> index of the altered record or None, description)]"""
    recs = []
    for s in srcs:
        recs += lib.read_ndjson(s)
    altered = []
    for fn, what in mutations:
        i = fn(recs, set(altered))
        if i is None:
            raise lib.ModelFailure("could not build the corrupted trace (%s)" % what)
        altered.append(i)
    p = os.path.join(ctx.work, "corrupt-%s.ndjson" % module)
    lib.write_ndjson(p, recs)
    ok, r, at = lib.validate_trace(module, p, timeout=600, heap="3g")
    bad = {ln for ln, _ in lib.unexplained(r)}
    for i, (fn, what) in zip(altered, mutations):
        if (i + 1) not in bad:
            raise lib.ModelFailure("vacuity guard: %s accepted a corrupted line (%s)" % (module, what))
        ctx.notes.append("vacuity guard: %s rejects a trace with %s" % (module, what))


def _first_lines(path, pred, n):
    out = []
    with open(path) as f:
        for l in f:
            out.append(l)
            if len(out) >= n and pred(l):
                break
    return out


def run(ctx):
    q = ctx.quick
    W = 4 if q else 8
    # ------------------------------------------------------------------ 1. model checks of the specifications
    r = lib.tlc("MC_Subsets", cfg="MC_Subsets" if q else "MC_Subsets_thorough", workers=W, timeout=1500, heap="6g")
    ctx.mc_must_pass(r, "Subsets T1-T5, every configuration x number of subsets (%s)" % ("views<=24" if q else "views<=96"), "MC_Subsets")
    r = lib.tlc("MC_IterSchedule", cfg="MC_IterSchedule" if q else "MC_IterSchedule_thorough", workers=W, timeout=1500, heap="6g", coverage=True)
    ctx.mc_must_pass(r, "IterSchedule: once per full iteration, all schedules (%s)" % ("N<=4" if q else "N<=5"), "MC_IterSchedule")
    if "NextSubiter" not in r.coverage or r.coverage["NextSubiter"][0] == 0:
        raise lib.ModelFailure("MC_IterSchedule: action NextSubiter never taken")
    r = lib.tlc("MC_IterEvents", cfg="MC_IterEvents" if q else "MC_IterEvents_thorough", workers=W, timeout=1500, heap="6g")
    ctx.mc_must_pass(r, "IterSchedule event schedule: EvTheorems (final iterate written last, after post-filter; written = multiples of save + last; ...) for every small event configuration", "MC_IterEvents")
    r = lib.tlc("MC_IterSchedule", cfg="MC_IterSchedule_unfixed", workers=2, timeout=600, heap="2g")
    if not r.violation:
        raise lib.ModelFailure("vacuity guard: the schedule invariants hold for the model of the unfixed get_subset_num")
    ctx.notes.append("vacuity guard: model of get_subset_num before fix 1938172c2 violates the schedule invariants (%d states)" % r.distinct)
    # ------------------------------------------------------------------ 2. record
    import time as _t
    ctx.notes.append("model checks: %.0f s" % (_t.time() - ctx.t0))
    exe = lib.build_driver("c06_subsets")
    env = {"VERIF_SEED": str(ctx.seed)}
    jobs = []   # (module, trace)
    if ctx.replay:
        head = open(ctx.replay).readline()
        jobs.append(("Trace_IterSchedule" if ('"SchedRun"' in head or '"EventRun"' in head or '"RandStats"' in head) else "Trace_Subsets", ctx.replay))
    else:
        t1 = os.path.join(ctx.work, "subsets.ndjson")
        lib.run_driver(exe, ["subsets", t1, 0 if q else 1], env=env, timeout=1200)
        t2 = os.path.join(ctx.work, "proj.ndjson")
        lib.run_driver(exe, ["proj", t2, 0 if q else 1], env=env, timeout=1200)
        t3 = os.path.join(ctx.work, "sched.ndjson")
        lib.run_driver(exe, ["sched", t3, 4 if q else 6, 3 if q else 4, 0 if q else 1], env=env, timeout=1200)
        t4 = os.path.join(ctx.work, "recon.ndjson")
        t5 = os.path.join(ctx.work, "reconsched.ndjson")
        lib.run_driver(exe, ["recon", t4, t5, 0 if q else 1], env=env, timeout=1200)
        t6 = os.path.join(ctx.work, "events.ndjson")
        lib.run_driver(exe, ["events", t6, 0 if q else 1], env=env, timeout=1200)
        jobs += [("Trace_Subsets", t1), ("Trace_Subsets", t2), ("Trace_IterSchedule", t3), ("Trace_Subsets", t4), ("Trace_IterSchedule", t5),
                 ("Trace_IterSchedule", t6)]
    ctx.notes.append("build + record: %.0f s after start" % (_t.time() - ctx.t0))
    # ------------------------------------------------------------------ 3. validate
    nconf = nrun = nsub = nev = 0
    import concurrent.futures as cf, time
    t0 = time.time()
    work = []   # (module, chunk path)
    for module, t in jobs:
        if module == "Trace_Subsets":
            chunks = lib.split_trace(t, os.path.join(ctx.work, "chunks"), maxlines=6000 if q else 3000)
            if not ctx.replay and os.path.getsize(t) > 30e6:
                os.remove(t)     # keep the scratch directory small: the chunks are copies
        else:
            chunks = [(t, 1)]
        work += [(module, c[0]) for c in chunks]

    def one(mp):
        ok, r, at = lib.validate_trace(mp[0], mp[1], timeout=2400, heap="3g")
        return (mp[0], mp[1], ok, r, at)
    with cf.ThreadPoolExecutor(W) as ex:
        allres = list(ex.map(one, work))
    ctx.notes.append("trace validation: %d TLC runs, %.0f s" % (len(work), time.time() - t0))
    for module in ("Trace_Subsets", "Trace_IterSchedule"):
        res = [(p, ok, r, at) for (m, p, ok, r, at) in allres if m == module]
        for (p, ok, r, at) in res:
            recs = lib.read_ndjson(p)
            ctx.traces += 1
            ctx.evaluations += len(recs)
            ctx.transitions += r.generated
            ctx.states += r.distinct
            cfg = None
            for rec in recs:
                if rec["e"] == "Config":
                    cfg = rec
                    nconf += 1
                    if nconf % 397 == 1:
                        ctx.sample({k: rec[k] for k in ("kind", "views", "maxSeg", "req", "eff", "tof", "mash")})
                elif rec["e"] == "Subsets" and cfg:
                    nsub += 1
                    ctx.nontrivial("S%s|%s|%d|%d|%d" % (cfg["kind"], cfg["eff"], cfg["views"], cfg["maxSeg"], rec["N"]))
                elif rec["e"] in ("Touched", "Sweep") and cfg:
                    ctx.nontrivial("T%s|%s|%s|%d|%d|%d|%s" % (rec["op"], cfg["kind"], cfg["eff"], cfg["views"], cfg["maxTof"], rec.get("N", 0), rec.get("s", -1)))
                elif rec["e"] == "EventRun":
                    nev += 1
                    ctx.nontrivial("E%s" % json.dumps([rec[k] for k in ("algo", "N", "startSubiter", "numSubiters", "save", "iuInt", "hasIU", "iiInt", "hasII", "hasPF",
                                                                       "report", "writeUpdate", "disableOutput", "randomise", "resume")]))
                    if nev % 173 == 1:
                        ctx.sample({k: rec[k] for k in ("algo", "N", "startSubiter", "numSubiters", "save", "iuInt", "iiInt", "hasPF", "report", "resume", "ev", "files", "disk")})
                elif rec["e"] == "RandStats":
                    ctx.nontrivial("X%d" % rec["N"])
                elif rec["e"] == "SchedRun":
                    nrun += 1
                    ctx.nontrivial("R%s|%d|%d|%d|%d|%s|%d|%d" % (rec["algo"], rec["N"], rec["startSubset"], rec["startSubiter"], rec["numSubiters"],
                                                                  rec["randomise"], rec["maxSubsets"], rec["reuseN"]))
                    if nrun % 211 == 1:
                        ctx.sample({k: rec[k] for k in ("algo", "N", "startSubset", "startSubiter", "numSubiters", "randomise", "subsets")})
            if at is not None or not ok:
                ctx.violation("trace not consumed by %s (line %s)" % (module, at), p)
                continue
            bad = lib.unexplained(r)
            known_ids = {k["id"] for k in ctx.known}
            newbad = []
            for (ln, cls) in bad:
                if cls in known_ids:
                    ctx.known_hits[cls] = [x for x in ctx.known if x["id"] == cls][0]["what"]
                else:
                    newbad.append(ln)
            if newbad:
                # replay file: for every unexplained line its configuration context (Config/Basic/Related) + the line
                out, ctxl, done = [], [], set()
                for i, rec in enumerate(recs, 1):
                    if rec["e"] == "Config":
                        ctxl = [rec]
                    elif rec["e"] in ("Basic", "Related"):
                        ctxl.append(rec)
                    if i in newbad[:12]:
                        for x in ctxl:
                            if id(x) not in done and x is not rec:
                                out.append(x)
                                done.add(id(x))
                        if id(rec) not in done:
                            out.append(rec)
                            done.add(id(rec))
                rp = os.path.join(ctx.work, "violation-" + os.path.basename(p))
                lib.write_ndjson(rp, out)
                last = recs[newbad[0] - 1]
                brief = {k: v for k, v in last.items() if not isinstance(v, list) or len(v) < 40}
                c0 = [x for x in recs[:newbad[0]] if x["e"] == "Config"]
                ctx.violation("%d recorded lines not explained by %s, first: %s%s" % (
                    len(newbad), module, json.dumps(brief)[:300], (" in " + json.dumps({k: c0[-1][k] for k in ("kind", "views", "maxSeg", "eff")})) if c0 else ""), rp)
    # ------------------------------------------------------------------ 4. vacuity guards on recorded traces
    if not ctx.replay:
        sub_chunk = os.path.join(ctx.work, "chunks", "subsets.001.ndjson")
        head = _first_lines(sub_chunk, lambda l: '"e":"Config"' in l, 400)[:-1]
        small = os.path.join(ctx.work, "guard-src.ndjson")
        open(small, "w").writelines(head)

        def drop_view(recs, used):
            for i, rec in enumerate(recs):
                if i not in used and rec["e"] == "Subsets" and rec["N"] >= 2 and len(rec["subs"][1]) > 0:
                    rec["subs"][1] = rec["subs"][1][:-1]
                    return i
            return None

        def flip_bal(recs, used):
            for i, rec in enumerate(recs):
                if i not in used and rec["e"] == "Subsets" and rec["N"] >= 2:
                    rec["bal"] = not rec["bal"]
                    return i
            return None
        _corrupt_guard(ctx, "Trace_Subsets", [small], [(drop_view, "one view/segment removed from a subset"), (flip_bal, "the balance verdict inverted")])
        shead = os.path.join(ctx.work, "guard-sched.ndjson")
        open(shead, "w").writelines(open(t3).readlines()[:200] + open(t6).readlines()[:120])

        def repeat_subset(recs, used):
            for i, rec in enumerate(recs):
                if i not in used and rec["e"] == "SchedRun" and rec["used"] >= 2 and len(rec["subsets"]) >= 2 * rec["used"] and rec["startSubiter"] == 1:
                    rec["subsets"][1] = rec["subsets"][0]
                    return i
            return None

        def drop_final_write(recs, used):
            for i, rec in enumerate(recs):
                if i not in used and rec["e"] == "EventRun" and rec["ev"] and rec["ev"][-1][0] == 7 and not rec["err"]:
                    rec["ev"] = rec["ev"][:-1]
                    return i
            return None

        def filter_one_late(recs, used):
            for i, rec in enumerate(recs):
                if i not in used and rec["e"] == "EventRun" and not rec["err"]:
                    for e in rec["ev"]:
                        if e[0] == 5 and e[1] + 1 <= rec["numSubiters"]:
                            e[1] += 1
                            return i
            return None

        def wrong_file_name(recs, used):
            for i, rec in enumerate(recs):
                if i not in used and rec["e"] == "EventRun" and rec["files"] and not rec["err"]:
                    rec["files"][-1] = rec["files"][-1] + "0"
                    return i
            return None
        _corrupt_guard(ctx, "Trace_IterSchedule", [shead],
                       [(repeat_subset, "a subset used twice in one full iteration"), (drop_final_write, "the write of the final iterate removed"),
                        (filter_one_late, "an inter-iteration filter application moved to the next sub-iteration"),
                        (wrong_file_name, "a file name altered")])
    ctx.extra["configurations"] = nconf
    ctx.extra["subset_tables"] = nsub
    ctx.extra["schedule_runs"] = nrun
    ctx.extra["event_runs"] = nev
    if nconf == 0 and not ctx.replay:
        raise lib.ModelFailure("no configuration was recorded")
    ctx.exhaustive = not q
    ctx.assumptions = [
        "segment ranges are symmetric (-k..k, k = 0..2 of span-1 data with 3 rings), as produced by max_segment_num_to_process / reduce_segment_range",
        "TOF bins are handled by the callers' loop over all timing positions: checked on the viewgrams actually read/written for the small TOF configurations of the `proj' trace, taken as uniform for larger ones",
        "which element of a symmetry orbit is the basic one is left to the implementation (only exactly-one-per-orbit and consistency of is_basic / find_basic / related are demanded)",
        "randomised schedules: any order is accepted; a run continued inside a full iteration need not complement the subsets used before the interruption (the order is not saved by STIR)"]
    return ctx.finish(rule="one evaluation = one recorded line: a configuration's basic/related tables, the subset lists of all subsets for one "
                      "number of subsets + balance verdict, the viewgrams touched by one projector/objective-function call, or one complete "
                      "reconstruction run (subset numbers of all sub-iterations); distinct_nontrivial = distinct (class, views, segment range, "
                      "num_subsets) tables, (operation, configuration, subset) calls and schedule configurations validated",
                      explanation="thorough: ALL views 1..96 x num_subsets 1..views(+1) x 3 segment ranges x 7 switch settings (5 classes)" if not q else "")
