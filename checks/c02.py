"""C02 — projection data are one coherent array across access paths, layouts and files.
1. TLC model-checks ProjDataStore.tla (MC_ProjDataStore): layout position = declarative rank = bijection for both
   storage orders x every segment permutation x TOF/non-TOF; the implementation-shaped stream procedures keep the
   stream coherent with the abstract array after every request of every short history.
2. The driver drives the real stores (ProjDataFromStream on an fstream, ProjDataInterfile, stream + separately
   written header, ProjDataInMemory) through every access path and records every call together with the whole data
   file as decoded by its own independent reader after the call returned (the writer is never closed).
3. TLC (Trace_ProjDataStore) must explain every recorded line.  The driver records only; TLC decides."""
import json, os, shutil
from . import lib

MOD = "Trace_ProjDataStore"


def _executions(path):
    """split a recorded file into executions: [(first_line_no, [records])], one per Config line"""
    recs = lib.read_ndjson(path)
    out, cur, start = [], None, 0
    for i, r in enumerate(recs, 1):
        if r.get("e") == "Config":
            if cur:
                out.append((start, cur))
            cur, start = [r], i
        elif cur is not None:
            cur.append(r)
    if cur:
        out.append((start, cur))
    return recs, out


def _inrange_key(cfg, r):
    """coarse label only used to count distinct kinds of evidence (never for a verdict)"""
    if cfg["backing"] == "multi":
        return ("multi", cfg["K"], tuple(cfg["kinds"]), r["e"], bool(r.get("err")))
    return (cfg["backing"], cfg["byView"], cfg["maxTof"] > cfg["minTof"], cfg["type"], cfg["big"], cfg["fresh"], cfg["off"] > 0,
            cfg.get("scale", 1), r["e"], bool(r.get("err")), r.get("w", 1))


def run(ctx):
    q = ctx.quick
    workers = 4 if q else 8
    # 1. model check of the specification
    cfg = "MC_ProjDataStore" if q else "MC_ProjDataStore_thorough"
    r = lib.tlc("MC_ProjDataStore", cfg=cfg, workers=workers, timeout=1100, heap="6g", coverage=q)   # action coverage is checked in the quick tier (same actions)
    ctx.mc_must_pass(r, "layout theorems T1-T3 + coherence of every short history (%s)" % cfg, "MC_ProjDataStore")
    for act in ("SetBin", "SetSino", "SetView", "SetSegV", "SetSegS", "SetRel", "Fill", "FillFrom", "Sapyb", "FillWide"):
        if act in r.coverage and r.coverage[act][0] == 0:
            raise lib.ModelFailure("MC_ProjDataStore: action %s never taken (vacuous model)" % act)
    # 2. record
    env = {"VERIF_SEED": str(ctx.seed)}
    if not q:
        env["C02_DEEP"] = "1"      # deeper bounds: 4 rings (up to 7 segments), 5 TOF bins more often
    scratch = "/var/tmp/C02-data-%d" % os.getpid()
    traces = []
    san_trace = None
    crashed = None
    if ctx.replay:
        traces = [ctx.replay]
    else:
        os.makedirs(scratch, exist_ok=True)
        try:
            exe = lib.build_driver("c02_projdata")
            t1 = os.path.join(ctx.work, "rand.ndjson")
            rc1, o1 = lib.run_driver(exe, ["rand", t1, 96 if q else 360, 110 if q else 260, scratch], env=env, timeout=900, allow_fail=True)
            t2 = os.path.join(ctx.work, "exh.ndjson")
            rc2, o2 = lib.run_driver(exe, ["exh", t2, 2 if q else 1000, scratch], env=env, timeout=900, allow_fail=True)
            # one more index (beyond the property's statement): MultipleProjData / DynamicProjData
            t3 = os.path.join(ctx.work, "multi.ndjson")
            rc3, o3 = lib.run_driver(exe, ["multi", t3, 24 if q else 100, 40 if q else 60, scratch], env=env, timeout=900, allow_fail=True)
            traces = [t for t in (t1, t2, t3) if os.path.exists(t) and os.path.getsize(t) > 0]
            # a crash outside a call on the store (exit 3, e.g. a corrupted heap found later) is a tooling failure UNLESS the
            # lines recorded before it already contain calls the specification cannot explain (then those are reported)
            if rc1 != 0 or rc2 != 0 or rc3 != 0:
                crashed = "driver ended abnormally (rand rc=%d, exh rc=%d, multi rc=%d)\n%s" % (rc1, rc2, rc3, (o1 + o2 + o3)[-1500:])
            if not q:
                # the same kind of histories against the ASan/UBSan-instrumented libraries: a sanitizer report inside a
                # call is an Abort line, which the specification never accepts
                exs = lib.build_driver("c02_projdata", santree=True)
                san_trace = os.path.join(ctx.work, "san.ndjson")
                e2 = dict(env)
                e2["C02_NO_OORSEG"] = "1"
                e2["VERIF_SEED"] = str(ctx.seed + 1000)
                e2["VERIF_STDERR"] = "1"      # keep the sanitizer's report
                rc, out = lib.run_driver(exs, ["rand", san_trace, 100, 120, scratch], env=e2, timeout=900, allow_fail=True)
                if rc not in (0, 77, 78):
                    raise lib.ModelFailure("sanitized driver failed rc=%d\n%s" % (rc, out[-2000:]))
                if rc != 0:
                    # sanitizer report: keep it with the trace; the truncated trace ends in the call that died
                    # (a partial last line - the process died while writing - is dropped first)
                    data = open(san_trace, "rb").read() if os.path.exists(san_trace) else b""
                    data = data[: data.rfind(b"\n") + 1]
                    i = out.find("ERROR: AddressSanitizer")
                    i = out.find("runtime error") if i < 0 else i
                    with open(san_trace, "wb") as f:
                        f.write(data)
                        f.write((json.dumps({"e": "Abort", "sanitizer": out[max(i, 0):][:1500] if i >= 0 else out[-1500:]}) + "\n").encode())
                traces.append(san_trace)
        finally:
            shutil.rmtree(scratch, ignore_errors=True)
    # 3. validate (chunks in parallel; every chunk starts at a Config line)
    chunks = []
    for t in traces:
        chunks += lib.split_trace(t, os.path.join(ctx.work, "chunks"), maxlines=4000 if q else 9000)
    res = lib.validate_parallel(MOD, [c[0] for c in chunks], jobs=4 if q else 8, timeout=1500, heap="3g")
    known_ids = {k["id"]: k for k in ctx.known}
    nconf = 0
    seen = {}
    for (p, ok, r, at) in res:
        recs, execs = _executions(p)
        ctx.evaluations += len(recs)
        ctx.transitions += r.generated
        ctx.states += r.distinct
        for (start, ex) in execs:
            ctx.traces += 1
            nconf += 1
            cfgr = ex[0]
            if nconf % 131 == 1 and cfgr["backing"] != "multi":
                ctx.sample({k: cfgr[k] for k in ("backing", "fresh", "byView", "seq", "off", "type", "big", "minSeg", "maxSeg", "ax",
                                                 "maxView", "minTang", "maxTang", "minTof", "maxTof", "n")})
            for rec in ex[1:]:
                ctx.nontrivial(_inrange_key(cfgr, rec))
                k = (rec["e"], bool(rec.get("err")))
                seen[k] = seen.get(k, 0) + 1
            k = ("Config:" + cfgr["backing"], bool(cfgr.get("err") or cfgr.get("herr")))
            seen[k] = seen.get(k, 0) + 1
            if cfgr.get("scale", 1) != 1:
                seen[("Config:scaled", False)] = seen.get(("Config:scaled", False), 0) + 1
        if at is not None or not ok:
            ctx.violation("trace not consumed (line %s)" % at, p)
            continue
        newbad = []
        for (ln, cls) in lib.unexplained(r):
            if cls in known_ids:
                ctx.known_hits[cls] = known_ids[cls]["what"]
            else:
                newbad.append(ln)
        if newbad:
            # replay file: the execution (Config line + its history) up to the first unexplained line
            first = newbad[0]
            ex = [e for e in execs if e[0] <= first][-1]
            rp = os.path.join(ctx.work, "violation-" + os.path.basename(p))
            lib.write_ndjson(rp, ex[1][: first - ex[0] + 1])
            ctx.violation("%d recorded calls not explained by ProjDataStore.tla, first (line %d): %s"
                          % (len(newbad), first, json.dumps(recs[first - 1])[:260]), rp)
    if crashed and not ctx.violations:
        raise lib.ModelFailure(crashed)
    if not ctx.replay and not ctx.violations:
        # vacuity guard: the recording must contain every kind of call, accepted and (where out-of-range requests exist) refused
        need = [(e, False) for e in ("SetBin", "SetSino", "SetView", "SetSegV", "SetSegS", "SetRel", "Fill", "FillFrom", "FillIter", "IterSet",
                                     "IterCopy", "GetBin", "GetSino", "GetView", "GetSegV", "GetSegS", "GetRel", "CopyTo", "CloneMem", "Reopen",
                                     "WriteToFile", "Config:stream", "Config:interfile", "Config:hdrstream", "Config:memory", "Config:sstream",
                                     # round 2: arithmetic / bulk, re-use histories, one more index
                                     "Xapyb", "XapybV", "Sapyb", "SapybV", "AddPD", "SubPD", "MulPD", "DivPD", "AddF", "SubF", "MulF", "DivF",
                                     "Stats", "Subset", "FillWide", "StdSeq", "Reattach", "Second", "Config:multi", "MFill", "MCopy", "MGet",
                                     "MSetSub", "MReplace", "MCalib", "MDivDur", "MRead", "Config:scaled")]
        need += [(e, True) for e in ("SetBin", "SetSino", "SetView", "SetSegV", "SetSegS", "GetBin", "GetSino", "GetView", "GetSegV", "GetSegS",
                                     "Config:interfile", "Config:hdrstream", "FillNarrow", "ArithBad")]
        missing = [k for k in need if not seen.get(k)]
        if missing:
            raise lib.ModelFailure("recording is vacuous for %s" % missing)
    ctx.extra["calls_by_kind"] = {"%s%s" % (k[0], "/refused" if k[1] else ""): v for k, v in sorted(seen.items())}
    ctx.extra["store_executions"] = nconf
    ctx.exhaustive = False
    ctx.assumptions = [
        "values are small positive integers (exact in every on-disk type, below the 1.01 safety margin of find_scale_factor); on-disk scale "
        "factor 1, or 2 / 4 on integer on-disk types with values that are multiples of it (exact)",
        "TOF bins are stored in increasing order (changing the sequence of timing bins is documented as unsupported)",
        "exam-information fields left unspecified by the writer (radionuclide 'Unknown', no time frame) may come back as the reader's documented default",
        "related viewgrams are requested for symmetric segment ranges only (the PET symmetries presuppose them)",
        "requests with an out-of-range SEGMENT are made only where the request can be formed without asking the geometry object about that segment "
        "(single bins, sinograms, get_viewgram, get_segment_by_*)",
        "arithmetic operations are recorded on stores whose on-disk type holds the results exactly (int, uint, long, ulong, float, double, memory), "
        "|values| < 2e6; a division always undoes the multiplication made just before it; sum() is compared within the single-precision "
        "accumulation bound, sums of squares exactly where they fit 32-bit integers",
        "MultipleProjData/DynamicProjData (one more index) is outside C02's statement: checked as a sequence of stores, reported under C02 only as noted in notes/C02.md",
    ]
    return ctx.finish(rule="one trace = one recorded execution of a real store (one Config line and its history); one evaluation = one recorded call "
                      "(arguments, result, and the whole data file decoded by the independent reader after the call) explained by TLC; "
                      "distinct_nontrivial = distinct (backing, storage order, TOF, number type, byte order, fresh/pre-sized, offset, call, error) combinations")
