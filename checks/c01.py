"""C01 — detector pairs and sinogram bins form a consistent partition.
1. TLC proves the theorems of Geometry.tla for every small configuration: the partition theorems T1-T7, sizes (T8),
   view subsets (T9), legal in-place changes (T13) in MC_Geometry; equality / containment order of configurations
   (T10-T12) and the comparison operators of positions, pairs and bins (T14) in MC_GeometryOrder.
2. The driver records what the real geometry classes answer (exhaustively for small generated scanners incl.
   BlocksOnCylindrical and Generic, sampled for the whole scanner database and rings up to 1000 detectors; fresh
   objects, objects whose copies were changed, objects changed in place; view subsets; operator== / >=; scanner
   consistency and equality); TLC (Trace_Geometry) must explain every recorded line."""
import os, json
import concurrent.futures as cf
from . import lib


def run(ctx):
    q = ctx.quick
    # 1. model checks of the specification itself (run concurrently with recording; 4 workers each in the quick tier)
    # thorough MC_Geometry: two families (N <= 12, R <= 3, TOF mashing <= 5) and (N <= 8, R <= 4, TOF mashing <= 3); the single
    # (12, 4, 5) family needed > 40 min on a loaded machine
    mcs = [("MC_Geometry", "MC_Geometry", "partition, size, subset, change theorems T1-T9, T13")] if q else \
          [("MC_Geometry", "MC_Geometry_thorough", "theorems T1-T9, T13 (N<=12, R<=3)"), ("MC_Geometry", "MC_Geometry_thorough2", "theorems T1-T9, T13 (N<=8, R<=4)")]
    for cfg in (["MC_GeometryOrder"] if q else ["MC_GeometryOrder_thorough", "MC_GeometryOrder_thorough2"]):
        mcs.append(("MC_GeometryOrder", cfg, "equality/containment theorems T10-T12, comparison operators T14"))
    pool = cf.ThreadPoolExecutor(6)
    futs = [(m, cfg, what, pool.submit(lib.tlc, m, cfg=cfg, workers=4, timeout=3000, heap="4g" if q else "5g", tag=cfg)) for (m, cfg, what) in mcs]
    vac = []
    if not q:
        # non-vacuity of T10-T12: the "never seen" invariants must be violated (a witness pair exists)
        vac = [(cfg, pool.submit(lib.tlc, "MC_GeometryOrder", cfg=cfg, workers=2, timeout=900, heap="4g", tag=cfg)) for cfg in ("MC_GeometryOrder_vac1", "MC_GeometryOrder_vac2")]
    # 2. record
    exe = lib.build_driver("c01_geometry")
    traces = []
    env = {"VERIF_SEED": str(ctx.seed)}
    if ctx.replay:
        traces = [ctx.replay]
    else:
        t1 = os.path.join(ctx.work, "small.ndjson")
        lib.run_driver(exe, ["small", t1, 90 if q else 150, 0 if q else 1], env=env, timeout=1200)
        t2 = os.path.join(ctx.work, "db.ndjson")
        lib.run_driver(exe, ["db", t2, 70 if q else 250], env=env, timeout=1200)
        traces = [t1, t2]
    # 3. validate (chunks in parallel)
    chunks = []
    for t in traces:
        chunks += lib.split_trace(t, os.path.join(ctx.work, "chunks"), maxlines=25000)
    res = lib.validate_parallel("Trace_Geometry", [c[0] for c in chunks], jobs=8 if q else 10, timeout=2400, heap="2g")   # 25 000-line chunks: a small heap is plenty
    for (m, cfg, what, f) in futs:
        ctx.mc_must_pass(f.result(), "%s (%s)" % (what, cfg), m)
    for (cfg, f) in vac:
        r = f.result()
        if not r.violation:
            raise lib.ModelFailure("vacuity check %s: no witness found (rc=%d)\n%s" % (cfg, r.rc, r.out[-1500:]))
        ctx.notes.append("%s: witness found (both outcomes of >= occur in the model-checked family)" % cfg)
    pool.shutdown()
    known_ids = {k["id"] for k in ctx.known}
    nconf = 0
    kinds = {}
    for (p, ok, r, at) in res:
        recs = lib.read_ndjson(p)
        ctx.traces += 1
        ctx.evaluations += len(recs)
        ctx.transitions += r.generated
        ctx.states += r.distinct
        cid = None
        for rec in recs:
            kinds[rec["e"]] = kinds.get(rec["e"], 0) + 1
            if rec["e"] == "Config":
                cid = (rec["name"], rec["geom"], rec["N"], rec["R"], rec["span"], rec["ge"], rec["maxDelta"], rec["mash"], rec["tofMash"], rec["minTang"], rec["maxTang"], rec["minSeg"], rec["maxSeg"])
                nconf += 1
                if nconf % 197 == 1:
                    ctx.sample({k: rec[k] for k in ("name", "geom", "N", "R", "span", "ge", "maxDelta", "mash", "tofMash", "minTang", "maxTang", "minSeg", "maxSeg")})
            elif rec["e"] in ("Cmp", "ScCmp", "Scanner", "DPCmp", "DPPCmp", "BinCmp"):
                # self-contained lines: distinct by the compared descriptions / outcome
                if rec["e"] == "Cmp":
                    ctx.nontrivial("Cmp" + rec["how"] + str((rec["a"]["N"], rec["a"]["R"], rec["a"]["span"], rec["a"]["maxDelta"], rec["ge"], rec["le"], rec["eq"])))
                elif rec["e"] == "Scanner":
                    ctx.nontrivial("Scanner" + rec["s"]["name"] + str((rec["s"]["N"], rec["s"]["R"], rec["consistent"])))
                else:
                    ctx.nontrivial(rec["e"] + str(sorted((k, v) for k, v in rec.items() if isinstance(v, bool))))
            elif cid:
                ctx.nontrivial(str(cid) + rec["e"])
        if at is not None or not ok:
            ctx.violation("trace not consumed (line %s)" % at, p)
            continue
        bad = lib.unexplained(r)
        newbad = []
        for (ln, cls) in bad:
            if cls in known_ids:
                k = [x for x in ctx.known if x["id"] == cls][0]
                ctx.known_hits[cls] = k["what"]
            else:
                newbad.append(ln)
        if newbad:
            # replay file: the configuration (and view subset) lines + the unexplained lines
            cfgline, subline, out = None, None, []
            for i, rec in enumerate(recs, 1):
                if rec["e"] == "Config":
                    cfgline, subline = rec, None
                if rec["e"] == "Sub":
                    subline = rec
                if i in newbad[:20]:
                    for ctxline in (cfgline, subline):
                        if ctxline is not None and ctxline is not rec and not any(o is ctxline for o in out):
                            out.append(ctxline)
                    out.append(rec)
            rp = os.path.join(ctx.work, "violation-" + os.path.basename(p))
            lib.write_ndjson(rp, out)
            ctx.violation("%d recorded answers not explained by Geometry.tla, first: %s" % (len(newbad), json.dumps(out[-1])[:300]), rp)
    ctx.extra["configurations"] = nconf
    ctx.extra["lines_by_kind"] = kinds
    ctx.exhaustive = False
    ctx.assumptions = ["uniqueness of the in-plane preimage (T1) is model-checked for N <= %d and assumed for larger rings, where the trace check verifies the logged preimage by the forward map" % (8 if q else 12),
                       "BlocksOnCylindrical/Generic data: span 1, no view mashing, non-TOF only (documented restriction of those classes)",
                       "equality of scanners: float parameters are compared only as 'identical' / 'more than one unit apart' (the tolerance of close_enough is not modelled)"]
    return ctx.finish(rule="one evaluation = one recorded answer of the real classes (ring pair->segment/axial position, (segment,axial position)->ring pairs, "
                      "ordered detector pair->view/tangential position, pair+TOF->bin, bin->all pairs, bin->pair, sizes, subset bin<->full bin, operator==/>=, "
                      "comparison of positions/pairs/bins, scanner consistency/equality); "
                      "distinct_nontrivial = distinct (configuration, kind of answer) combinations validated")
