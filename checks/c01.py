"""C01 — detector pairs and sinogram bins form a consistent partition.
1. TLC proves the partition theorems T1-T6 of Geometry.tla for every small configuration.
2. The driver records what the real geometry classes answer (exhaustively for small generated
   scanners incl. BlocksOnCylindrical, sampled for the whole scanner database and rings up to
   1000 detectors); TLC (Trace_Geometry) must explain every recorded line."""
import os, json
from . import lib


def run(ctx):
    q = ctx.quick
    # 1. model check of the specification itself
    # thorough: two families (N <= 12, R <= 3, TOF mashing <= 5) and (N <= 8, R <= 4, TOF mashing <= 3); the single
    # (12, 4, 5) family needed > 40 min on a loaded machine
    for cfg in (["MC_Geometry"] if q else ["MC_Geometry_thorough", "MC_Geometry_thorough2"]):
        r = lib.tlc("MC_Geometry", cfg=cfg, workers=lib.NCPU if q else 8, timeout=2400, heap="12g")
        ctx.mc_must_pass(r, "partition theorems T1-T7 (%s)" % cfg, "MC_Geometry")
    # 2. record
    exe = lib.build_driver("c01_geometry")
    traces = []
    env = {"VERIF_SEED": str(ctx.seed)}
    if ctx.replay:
        traces = [ctx.replay]
    else:
        t1 = os.path.join(ctx.work, "small.ndjson")
        lib.run_driver(exe, ["small", t1, 250 if q else 1200, 0 if q else 1], env=env, timeout=1200)
        t2 = os.path.join(ctx.work, "db.ndjson")
        lib.run_driver(exe, ["db", t2, 120 if q else 600], env=env, timeout=1200)
        traces = [t1, t2]
    # 3. validate (chunks in parallel)
    chunks = []
    for t in traces:
        chunks += lib.split_trace(t, os.path.join(ctx.work, "chunks"), maxlines=25000)
    res = lib.validate_parallel("Trace_Geometry", [c[0] for c in chunks], jobs=8 if q else 12, timeout=2400)
    known_ids = {k["id"] for k in ctx.known}
    nconf = 0
    for (p, ok, r, at) in res:
        recs = lib.read_ndjson(p)
        ctx.traces += 1
        ctx.evaluations += len(recs)
        ctx.transitions += r.generated
        ctx.states += r.distinct
        cid = None
        for rec in recs:
            if rec["e"] == "Config":
                cid = (rec["name"], rec["geom"], rec["N"], rec["R"], rec["span"], rec["ge"], rec["maxDelta"], rec["mash"], rec["tofMash"], rec["minTang"], rec["maxSeg"])
                nconf += 1
                if nconf % 97 == 1:
                    ctx.sample({k: rec[k] for k in ("name", "geom", "N", "R", "span", "ge", "maxDelta", "mash", "tofMash", "minTang", "maxTang", "maxSeg")})
            elif cid:
                ctx.nontrivial(str(cid) + rec["e"])
        if at is not None or not ok:
            ctx.violation("trace not consumed (line %s)" % at, p)
            continue
        bad = lib.unexplained(r)
        newbad = []
        for (ln, cls) in bad:
            if cls in known_ids:
                k = [x for x in ctx.known if x["id"] == cls][0]
                ctx.known_hits[cls] = k["what"]
            else:
                newbad.append(ln)
        if newbad:
            # replay file: the configuration line + the unexplained lines
            cfgline, out = None, []
            for i, rec in enumerate(recs, 1):
                if rec["e"] == "Config":
                    cfgline = rec
                if i in newbad[:20]:
                    if cfgline is not None and (not out or out[-1] is not cfgline) and cfgline not in out:
                        out.append(cfgline)
                    if rec is not cfgline:
                        out.append(rec)
            rp = os.path.join(ctx.work, "violation-" + os.path.basename(p))
            lib.write_ndjson(rp, out)
            ctx.violation("%d recorded answers not explained by Geometry.tla, first: %s" % (len(newbad), json.dumps(out[-1])[:200]), rp)
    ctx.extra["configurations"] = nconf
    ctx.exhaustive = False
    ctx.assumptions = ["uniqueness of the in-plane preimage (T1) is model-checked for N <= %d and assumed for larger rings, where the trace check verifies the logged preimage by the forward map" % (8 if q else 12),
                       "BlocksOnCylindrical/Generic data: span 1, no view mashing, non-TOF only (documented restriction of those classes)"]
    return ctx.finish(rule="one evaluation = one recorded answer of the real geometry classes (ring pair->segment/axial position, "
                      "(segment,axial position)->ring pairs, ordered detector pair->view/tangential position, pair+TOF->bin, bin->all pairs, bin->pair); "
                      "distinct_nontrivial = distinct (configuration, kind of answer) combinations validated")
