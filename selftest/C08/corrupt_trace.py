#!/usr/bin/env python3
"""Binding demonstration for C08 (trace side): record small good traces with the real driver, alter ONE recorded
field (or drop an event) and confirm that Trace_OSSPS rejects exactly because of it.
usage: python3 selftest/C08/corrupt_trace.py     (one line per corruption; exit 0 iff every corruption is caught and
                                                   the uncorrupted traces are accepted)"""
import copy, os, shutil, sys
sys.path.insert(0, os.path.join(os.path.dirname(os.path.abspath(__file__)), "..", ".."))
from checks import lib


def new_only(r):
    """unexplained lines that the specification did not classify as a known finding"""
    return [u for u in lib.unexplained(r) if u[1] == "new"]


def nth(recs, pred, n=0):
    return [i for i, r in enumerate(recs) if pred(r)][n]


def main():
    work = os.path.join(lib.B, "work", "C08-corrupt")
    shutil.rmtree(work, ignore_errors=True)
    os.makedirs(os.path.join(work, "scratch"))
    exe = lib.build_driver("c08_ossps")
    good = {}
    for mode, args in (("exact", [12]), ("runs", [2, 0])):
        p = os.path.join(work, mode + ".ndjson")
        lib.run_driver(exe, [mode, p, os.path.join(work, "scratch")] + args, env={"VERIF_SEED": "7"})
        ok, r, at = lib.validate_trace("Trace_OSSPS", p, heap="3g")
        recs = lib.read_ndjson(p)
        print("good %s trace: %d lines, accepted=%s, unexplained (not a known finding)=%s" % (mode, len(recs), ok, new_only(r)))
        if not ok or new_only(r):
            return 1
        good[mode] = recs
    step = lambda r: r["e"] == "Step"

    def bump(mode, pred, n, field, idx, d):
        def f(recs):
            i = nth(recs, pred, n)
            recs[i][field][idx] += d
            return i
        return (mode, "%s[%d] %+d in %s #%d" % (field, idx, d, "line", n), f)

    def setf(mode, pred, n, field, fn):
        def f(recs):
            i = nth(recs, pred, n)
            recs[i][field] = fn(recs[i][field])
            return i
        return (mode, "%s changed (#%d)" % (field, n), f)

    def drop(mode, pred, n):
        def f(recs):
            i = nth(recs, pred, n)
            del recs[i]
            return i
        return (mode, "event dropped (#%d)" % n, f)
    cases = [
        bump("exact", step, 0, "lam1", 3, 1),                       # new image off by 2^-18
        bump("exact", step, 1, "g", 2, 1),                          # sub-gradient off by 1/16
        bump("exact", lambda r: r["e"] == "SetUp", 0, "dData", 0, 1),   # data part of the denominator
        bump("exact", lambda r: r["e"] == "SetUp" and "curv" in r, 0, "curv", 0, 1024),   # prior curvature
        setf("exact", lambda r: r["e"] == "Config", 2, "gN", lambda v: v + 1),            # another gamma
        setf("exact", lambda r: r["e"] == "Config", 3, "aK", lambda v: v + 1),            # another alpha
        setf("exact", step, 2, "k", lambda v: v + 1),               # another sub-iteration number
        bump("runs", step, 2, "lam1", 5, 40),                       # new image off by 40 units of 2^-12
        bump("runs", step, 4, "g", 1, 64),                          # recorded sub-gradient off by 1/4
        setf("runs", step, 1, "sub", lambda v: v + 1),              # another subset
        setf("runs", step, 3, "nGrad", lambda v: 2),                # two sub-gradient requests in one sub-iteration
        bump("runs", lambda r: r["e"] == "Saved", 1, "bits", 0, 1), # saved file differs from the iterate in one bit
        drop("runs", step, 1),                                      # a sub-iteration missing
    ]
    # a resumed run that differs from the reference run in the last bit of one voxel
    def resumed_bit(recs):
        i = nth(recs, lambda r: r["e"] == "Run" and r["kind"] == "resume", 0)
        j = i + nth(recs[i:], step, 0)
        recs[j]["b1"][4] += 1
        recs[j]["b2"][4] += 1
        return j
    cases.append(("runs", "resumed run differs from the reference in one bit", resumed_bit))
    # an iterate above the upper bound by one ulp
    def above(recs):
        ci = nth(recs, lambda r: r["e"] == "Config" and not r["uInf"], 0)
        c = recs[ci]
        j = ci + nth(recs[ci:], step, 0)
        top = max(recs[j]["b1"])
        k = recs[j]["b1"].index(top)
        import struct
        ub = struct.unpack("<i", struct.pack("<f", c["uN"] / 2.0 ** c["uK"]))[0]
        recs[j]["b1"][k] = ub + 1
        recs[j]["b2"][k] = ub + 1
        return j
    cases.append(("runs", "iterate one ulp above the upper bound", above))
    failed = 0
    for n, (mode, what, f) in enumerate(cases):
        recs = copy.deepcopy(good[mode])
        try:
            at_line = f(recs) + 1
        except IndexError:
            print("corruption %d (%s: %s): not applicable to this trace" % (n, mode, what))
            continue
        p = os.path.join(work, "corrupt-%02d.ndjson" % n)
        lib.write_ndjson(p, recs)
        ok, r, at = lib.validate_trace("Trace_OSSPS", p, heap="3g")
        bad = new_only(r)
        caught = bool(bad) or not ok
        print("corruption %d (%s: %s at line %d): %s %s" % (n, mode, what, at_line, "REJECTED" if caught else "ACCEPTED (!!)", bad[:3]))
        failed += not caught
    return 1 if failed else 0


if __name__ == "__main__":
    sys.exit(main())
