#!/usr/bin/env python3
"""Binding demonstration for C08 (trace side): record small good traces with the real driver, alter ONE recorded
field (or drop an event) and confirm that Trace_OSSPS rejects exactly because of it.
usage: python3 selftest/C08/corrupt_trace.py     (one line per corruption; exit 0 iff every corruption is caught and
                                                   the uncorrupted traces are accepted)"""
import copy, os, shutil, sys
sys.path.insert(0, os.path.join(os.path.dirname(os.path.abspath(__file__)), "..", ".."))
from checks import lib


def new_only(r):
    """unexplained lines that the specification did not classify as a known finding"""
    return [u for u in lib.unexplained(r) if u[1] == "new"]


def nth(recs, pred, n=0):
    return [i for i, r in enumerate(recs) if pred(r)][n]


def main():
    work = os.path.join(lib.B, "work", "C08-corrupt")
    shutil.rmtree(work, ignore_errors=True)
    os.makedirs(os.path.join(work, "scratch"))
    exe = lib.build_driver("c08_ossps")
    good = {}
    for mode, args in (("exact", [40]), ("runs", [4, 0])):
        p = os.path.join(work, mode + ".ndjson")
        lib.run_driver(exe, [mode, p, os.path.join(work, "scratch")] + args, env={"VERIF_SEED": "7"})
        ok, r, at = lib.validate_trace("Trace_OSSPS", p, heap="3g")
        recs = lib.read_ndjson(p)
        print("good %s trace: %d lines, accepted=%s, unexplained (not a known finding)=%s" % (mode, len(recs), ok, new_only(r)))
        if not ok or new_only(r):
            return 1
        good[mode] = recs
    step = lambda r: r["e"] == "Step"

    def bump(mode, pred, n, field, idx, d):
        def f(recs):
            i = nth(recs, pred, n)
            recs[i][field][idx] += d
            return i
        return (mode, "%s[%d] %+d in %s #%d" % (field, idx, d, "line", n), f)

    def setf(mode, pred, n, field, fn):
        def f(recs):
            i = nth(recs, pred, n)
            recs[i][field] = fn(recs[i][field])
            return i
        return (mode, "%s changed (#%d)" % (field, n), f)

    def drop(mode, pred, n):
        def f(recs):
            i = nth(recs, pred, n)
            del recs[i]
            return i
        return (mode, "event dropped (#%d)" % n, f)
    cases = [
        bump("exact", step, 0, "lam1", 3, 1),                       # new image off by 2^-18
        bump("exact", step, 1, "g", 2, 1),                          # sub-gradient off by 1/16
        bump("exact", lambda r: r["e"] == "SetUp", 0, "dData", 0, 1),   # data part of the denominator
        bump("exact", lambda r: r["e"] == "SetUp" and "curv" in r, 0, "curv", 0, 1024),   # prior curvature
        setf("exact", lambda r: r["e"] == "Config", 2, "gN", lambda v: v + 1),            # another gamma
        setf("exact", lambda r: r["e"] == "Config", 3, "aK", lambda v: v + 1),            # another alpha
        setf("exact", step, 2, "k", lambda v: v + 1),               # another sub-iteration number
        bump("runs", step, 2, "lam1", 5, 40),                       # new image off by 40 units of 2^-12
        bump("runs", step, 4, "g", 1, 64),                          # recorded sub-gradient off by 1/4
        setf("runs", step, 1, "sub", lambda v: v + 1),              # another subset
        setf("runs", step, 3, "nGrad", lambda v: 2),                # two sub-gradient requests in one sub-iteration
        bump("runs", lambda r: r["e"] == "Saved", 1, "bits", 0, 1), # saved file differs from the iterate in one bit
        drop("runs", step, 1),                                      # a sub-iteration missing
    ]
    # a resumed run that differs from the reference run in the last bit of one voxel
    def resumed_bit(recs):
        i = nth(recs, lambda r: r["e"] == "Run" and r["kind"] == "resume", 0)
        j = i + nth(recs[i:], step, 0)
        recs[j]["b1"][4] += 1
        recs[j]["b2"][4] += 1
        return j
    cases.append(("runs", "resumed run differs from the reference in one bit", resumed_bit))
    # an iterate above the upper bound by one ulp
    def above(recs):
        ci = nth(recs, lambda r: r["e"] == "Config" and not r["uInf"], 0)
        c = recs[ci]
        j = ci + nth(recs[ci:], step, 0)
        top = max(recs[j]["b1"])
        k = recs[j]["b1"].index(top)
        import struct
        ub = struct.unpack("<i", struct.pack("<f", c["uN"] / 2.0 ** c["uK"]))[0]
        recs[j]["b1"][k] = ub + 1
        recs[j]["b2"][k] = ub + 1
        return j
    cases.append(("runs", "iterate one ulp above the upper bound", above))
    # ---- the sections beyond the property's quantifier
    def in_cfg(recs, pred, linepred, n=0):
        """index of the n-th line satisfying linepred under a Config satisfying pred"""
        cfg, hits = None, []
        for i, r in enumerate(recs):
            if r["e"] == "Config":
                cfg = r
            elif cfg is not None and pred(cfg) and linepred(r):
                hits.append(i)
        return hits[n]

    def upd_off(recs):          # "write update image": the file content off by 40 units
        i = in_cfg(recs, lambda c: c["writeUpdate"], lambda r: r["e"] == "Step" and "upd" in r, 1)
        recs[i]["upd"][3] += 40
        return i
    def upd_exact(recs):
        i = in_cfg(recs, lambda c: c["writeUpdate"], lambda r: r["e"] == "Step" and "upd" in r, 0)
        recs[i]["upd"][2] += 1
        return i
    def refuse_accepted(recs):  # a configuration that must be refused is accepted by set_up
        i = in_cfg(recs, lambda c: True, lambda r: r["e"] == "Run" and r["kind"] == "refuse", 0)
        recs[i + 1]["ok"] = True
        return i + 1
    def pos_kept_zero(recs):    # enforce initial positivity: a zero of the start image is still zero after set_up
        i = in_cfg(recs, lambda c: c["enforcePos"], lambda r: r["e"] == "Run" and r["kind"] == "fresh", 0)
        z = recs[i]["initBits"].index(0)
        recs[i + 1]["tgtBits"][z] = 0
        return i + 1
    def denfile_differs(recs):  # the run with the denominator read from file differs from the reference in one bit
        i = in_cfg(recs, lambda c: c["denFile"] == "own", lambda r: r["e"] == "Step", 1)
        recs[i]["b1"][0] += 1; recs[i]["b2"][0] += 1
        return i
    def denfile_hessian(recs):  # ... or requested the approximate Hessian although a file was given
        i = in_cfg(recs, lambda c: c["denFile"] == "own", lambda r: r["e"] == "SetUp", 0)
        recs[i]["nApprox"] = 1
        return i
    def random_subset_range(recs):
        i = in_cfg(recs, lambda c: c["randomise"], lambda r: r["e"] == "Step", 0)
        recs[i]["sub"] = recs[i]["nsub"]
        return i
    def scaled_bit(recs):       # scale clause: the scaled instance's new image is not the shifted bit pattern
        i = nth(recs, lambda r: r["e"] == "ScaleOf", 0)
        j = i + nth(recs[i:], step, 0)
        k = [q for q, b in enumerate(recs[j]["b1"]) if b != 0][0]
        recs[j]["b1"][k] += 1; recs[j]["b2"][k] += 1
        return j
    def logcosh_now(recs):      # log-cosh: the curvature reported for the current image changed -> neither reading explains the step
        i = in_cfg(recs, lambda c: c["priorType"] == "logcosh", lambda r: r["e"] == "Step", 0)
        recs[i]["curvNow"] = [v + 4000 for v in recs[i]["curvNow"]]
        return i
    def eff_scaled_bit(recs):   # efficiency scale clause: the scaled copy's new image is not the shifted bit pattern
        i = nth(recs, lambda r: r["e"] == "Run" and r["kind"] == "scaled", 0)
        j = i + nth(recs[i:], step, 0)
        k = [q for q, b in enumerate(recs[j]["b1"]) if b != 0][0]
        recs[j]["b1"][k] += 1; recs[j]["b2"][k] += 1
        return j
    def eff_scaled_zeroed(recs):   # ... or a voxel that bins see was set to 0 before the update (tiny sensitivity taken for none)
        i = nth(recs, lambda r: r["e"] == "Run" and r["kind"] == "scaled", 0)
        j = i + nth(recs[i:], step, 0)
        k = [q for q, b in enumerate(recs[j]["be"]) if b != 0][0]
        recs[j]["be"][k] = 0
        return j
    def seen_voxel_zeroed(recs):   # first sub-iteration of a fresh run: a voxel with sensitivity > 0 does not keep its start value
        i = nth(recs, lambda r: r["e"] == "Run" and r["kind"] == "fresh", 0)
        j = i + nth(recs[i:], step, 0)
        k = [q for q, b in enumerate(recs[j]["be"]) if b != 0][0]
        recs[j]["be"][k] = 0
        return j
    cases += [("exact", "efficiency-scaled copy off by one bit", eff_scaled_bit), ("exact", "efficiency-scaled copy: seen voxel zeroed before the update", eff_scaled_zeroed),
              ("runs", "fresh start: seen voxel zeroed before the update (bits)", seen_voxel_zeroed)]
    cases += [("runs", "update file off by 40 units", upd_off), ("exact", "update file off by 2^-18", upd_exact),
              ("runs", "refusal not given", refuse_accepted), ("runs", "zero not raised by 'enforce initial positivity'", pos_kept_zero),
              ("runs", "denominator-file run differs in one bit", denfile_differs), ("runs", "denominator-file run asked for the Hessian", denfile_hessian),
              ("runs", "randomised subset out of range", random_subset_range), ("exact", "scaled instance off by one bit", scaled_bit),
              ("runs", "log-cosh curvature at the first sub-iteration changed", logcosh_now)]
    failed = 0
    for n, (mode, what, f) in enumerate(cases):
        recs = copy.deepcopy(good[mode])
        try:
            at_line = f(recs) + 1
        except (IndexError, ValueError):
            print("corruption %d (%s: %s): not applicable to this trace" % (n, mode, what))
            continue
        p = os.path.join(work, "corrupt-%02d.ndjson" % n)
        lib.write_ndjson(p, recs)
        ok, r, at = lib.validate_trace("Trace_OSSPS", p, heap="3g")
        bad = new_only(r)
        caught = bool(bad) or not ok
        print("corruption %d (%s: %s at line %d): %s %s" % (n, mode, what, at_line, "REJECTED" if caught else "ACCEPTED (!!)", bad[:3]))
        failed += not caught
    return 1 if failed else 0


if __name__ == "__main__":
    sys.exit(main())
