#!/usr/bin/env python3
"""Vacuity guard for C10: records a short trace with the real driver, keeps the round trips that
Trace_ImageIO explains completely (no known finding involved), then alters ONE recorded field /
removes / swaps a line at a time and checks that Trace_ImageIO reports the line as "new".
usage: python3 selftest/C10/corrupt_traces.py   (exit 0 = every corruption rejected)"""
import copy, json, os, re, sys
sys.path.insert(0, os.path.join(os.path.dirname(os.path.abspath(__file__)), "..", ".."))
from checks import lib

W = "/var/tmp/C10-corrupt"
os.makedirs(W, exist_ok=True)
BAD = re.compile(r'<<\s*(\d+),\s*"([^"]+)",\s*"([^"]+)"\s*>>')


def verdict(recs, name):
    p = os.path.join(W, name + ".ndjson")
    lib.write_ndjson(p, recs)
    ok, r, at = lib.validate_trace("Trace_ImageIO", p, timeout=300, heap="2g")
    i = r.out.find('"UNEXPLAINED"')
    return [(int(a), b, c) for a, b, c in BAD.findall(r.out[i:])] if i >= 0 else []


def main():
    exe = lib.build_driver("c10_imageio")
    t = os.path.join(W, "good.ndjson")
    lib.run_driver(exe, ["rt", t, 200, 0], env={"VERIF_SEED": "7"})
    t2 = os.path.join(W, "goodtr.ndjson")
    lib.run_driver(exe, ["trunc", t2, 0], env={"VERIF_SEED": "7"})
    recs = lib.read_ndjson(t) + lib.read_ndjson(t2)
    bad = verdict(recs, "all")
    badids = {recs[l - 1].get("id") for l, _, _ in bad if recs[l - 1]["e"] != "Trunc"}
    # clean cases: groups Env, Img, Write, Read (+Trunc)
    groups, cur = [], []
    for r in recs:
        if r["e"] == "Env":
            if cur:
                groups.append(cur)
            cur = []
        cur.append(r)
    groups.append(cur)
    badlines = {l for l, _, _ in bad}
    clean, ln = [], 0
    for g in groups:
        lines = set(range(ln + 1, ln + len(g) + 1))
        ln += len(g)
        if not (lines & badlines):
            clean.append(g)

    def pick(pred):
        for g in clean:
            if len(g) >= 4 and pred(g):
                return copy.deepcopy(g)
        raise SystemExit("no clean case for a corruption")

    isint = lambda g: g[2]["int"] and len(g[1]["m"][0]) >= 4 and max(abs(x) for x in g[1]["m"][0]) > 0
    tests = []
    g = pick(lambda g: isint(g) and g[2]["bytes"] <= 2)
    step = max(2, g[2]["ds"][0]["S"])
    g[3]["vals"][0][1] += step; tests.append(("read value one step off", g, 4))
    g = pick(lambda g: not g[2]["int"]); g[3]["vals"][0][0] += 1; tests.append(("float read value 1 unit off", g, 4))
    g = pick(lambda g: not g[2]["int"]); g[3]["bits"][0][0] ^= 1; tests.append(("float bit pattern lowest bit", g, 4))
    g = pick(lambda g: True); g[3]["geo"][0]["pos"][-1][4] += 1; tests.append(("position of one voxel 1/8 mm off", g, 4))
    g = pick(lambda g: True); g[3]["geo"][0]["pos"][0][8] += 500000; tests.append(("position residual 0.06 mm", g, 4))
    g = pick(lambda g: g[1]["geo"][0]["size"][1] != g[1]["geo"][0]["size"][2]); s = g[3]["geo"][0]["size"]; s[1], s[2] = s[2], s[1]; tests.append(("y/x sizes swapped", g, 4))
    g = pick(lambda g: True); g[3]["exam"]["cal4"] += 1; tests.append(("calibration factor", g, 4))
    g = pick(lambda g: g[1]["exam"]["mod"] == "PT"); g[3]["exam"]["mod"] = "NM"; tests.append(("modality", g, 4))
    g = pick(lambda g: len(g[1]["exam"]["frames"]) >= 1); g[3]["exam"]["frames"][0][1] += 1; tests.append(("frame duration 1 ms", g, 4))
    g = pick(lambda g: True); g[3]["exam"]["orient"] = (g[3]["exam"]["orient"] + 1) % 4; tests.append(("patient orientation", g, 4))
    g = pick(lambda g: g[1]["exam"]["rn"] == "Xx-99"); g[3]["exam"]["hlms"] += 1; tests.append(("half life", g, 4))
    g = pick(lambda g: g[1]["exam"]["lo8"] > 0 and g[1]["exam"]["hi8"] > 0); g[3]["exam"]["lo8"] += 1; tests.append(("energy window", g, 4))
    g = pick(isint); g[2]["ds"][0]["stored"][0] = -g[2]["ds"][0]["stored"][0] - 1; tests.append(("stored integer sign", g, 3))
    g = pick(lambda g: isint(g) and g[2]["bytes"] <= 2); g[2]["ds"][0]["dec"][2] += max(2, g[2]["ds"][0]["S"]); tests.append(("decoded file value one step off", g, 3))
    g = pick(lambda g: g[2]["hdrs"][0]["msize"][0] != g[2]["hdrs"][0]["msize"][1]); m = g[2]["hdrs"][0]["msize"]; m[0], m[1] = m[1], m[0]; tests.append(("header matrix size x/y swapped", g, 3))
    g = pick(lambda g: True); g[2]["hdrs"][0]["fpo"][2] += 1; tests.append(("header first pixel offset", g, 3))
    g = pick(lambda g: True); g[2]["hdrs"][0]["bo"] = "BIGENDIAN" if g[2]["hdrs"][0]["bo"] == "LITTLEENDIAN" else "LITTLEENDIAN"; tests.append(("header byte order", g, 3))
    g = pick(lambda g: True); g[2]["hdrs"][0]["dlen"] -= 1; tests.append(("data file one byte short", g, 3))
    g = pick(lambda g: g[2]["hdrs"][0]["cal4"] > 0); g[2]["hdrs"][0]["cal4"] = -4; tests.append(("header without calibration factor", g, 3))
    g = pick(lambda g: g[2]["hdrs"][0]["frames"]); g[2]["hdrs"][0]["frames"][0][2] += 1; tests.append(("header frame duration", g, 3))
    g = pick(lambda g: g[2]["hdrs"][0]["orient"] == "head_in"); g[2]["hdrs"][0]["orient"] = "feet_in"; tests.append(("header patient orientation", g, 3))
    g = pick(lambda g: True); g[2]["ok"] = False; tests.append(("write reports failure", g, 3))
    g = pick(lambda g: True); del g[2]; tests.append(("Write line removed", g, 3))
    g = pick(lambda g: True); g[2], g[3] = g[3], g[2]; tests.append(("Write and Read swapped", g, 3))
    g = pick(lambda g: len(g) > 6 and g[4]["e"] == "Trunc"); g[6]["accepted"] = True; tests.append(("short data file accepted", g, 7))
    g = pick(lambda g: len(g) > 6 and g[4]["e"] == "Trunc"); g[4]["accepted"] = False; tests.append(("complete data file rejected", g, 5))
    failed = 0
    for name, g, line in tests:
        b = verdict(g, "corrupt")
        hit = [x for x in b if x[1] == "new" and x[0] == line]
        print("%-40s %s %s" % (name, "REJECTED" if hit else "ACCEPTED (!)", b[:3]))
        failed += not hit
    print("clean cases available: %d; corruptions not rejected: %d" % (len(clean), failed))
    return 1 if failed else 0


if __name__ == "__main__":
    sys.exit(main())
