#!/usr/bin/env python3
"""Binding demonstration for C05 (trace side): record a small good trace with the real driver, alter ONE
recorded field (or drop / swap events) and confirm that Trace_PoissonLL rejects exactly because of it.
usage: python3 selftest/C05/corrupt_trace.py        (prints one line per corruption; exit 0 iff all are caught
                                                      and the uncorrupted trace is accepted)"""
import json, os, random, shutil, sys
sys.path.insert(0, os.path.join(os.path.dirname(os.path.abspath(__file__)), "..", ".."))
from checks import lib

KINDS = ["Value", "Grad", "GradPlusSens", "Sens", "AddSens", "HessTimes", "ApproxHess"]


def main():
    work = os.path.join(lib.B, "work", "C05-corrupt")
    shutil.rmtree(work, ignore_errors=True)
    os.makedirs(work)
    exe = lib.build_driver("c05_poissonll")
    good = os.path.join(work, "good.ndjson")
    lib.run_driver(exe, ["opts", good, work, 24], env={"VERIF_SEED": "7"})
    recs = lib.read_ndjson(good)
    ok, r, at = lib.validate_trace("Trace_PoissonLL", good, heap="3g")
    base = lib.unexplained(r)
    print("good trace: %d lines, accepted=%s, unexplained=%s" % (len(recs), ok, base))
    if not ok or base:
        return 1
    rnd = random.Random(5)
    by = {}
    for i, x in enumerate(recs):
        by.setdefault(x["e"], []).append(i)
    cases = []

    def bump(field, idx=3, d=1):
        def f(x):
            v = list(x[field]); v[idx] += d; x[field] = v
        return f
    for k in KINDS:
        if k == "Value":
            def fam(i):
                while recs[i]["e"] != "Instance":
                    i -= 1
                return recs[i]["family"]
            pow2 = [i for i in by[k] if fam(i) != 0]     # the value is decided on power-of-two-mean instances
            cases.append(("Value.val+7", rnd.choice(pow2), lambda x: x.__setitem__("val", x["val"] + 7), "value"))
        else:
            cases.append((k + ".out[3]+1", rnd.choice(by[k]), bump("out"), "line"))
    cases.append(("Grad.err=true", rnd.choice(by["Grad"]), lambda x: x.__setitem__("err", True), "line"))
    cases.append(("HessTimes.ex=false", rnd.choice(by["HessTimes"]), lambda x: x.__setitem__("ex", False), "line"))
    def inst(i):
        while recs[i]["e"] != "Instance":
            i -= 1
        return recs[i]
    # (without subset sensitivities every subset reports total/N, so the subset number only matters with them)
    cases.append(("Sens.sub 0->1", [i for i in by["Sens"] if recs[i]["sub"] == 0 and inst(i)["uss"] and inst(i)["N"] >= 2][0],
                  lambda x: x.__setitem__("sub", 1), "any"))
    cases.append(("SetUp.ok=false", rnd.choice(by["SetUp"]), lambda x: x.__setitem__("ok", False), "line"))
    # bin 40 (0-based) of the non-TOF system = segment 0, view 0, middle axial position: used under every option set
    # (data of an excluded segment or a zeroed end plane may be altered without consequence - that is the property)
    cases.append(("Instance.y[40]+1", rnd.choice([i for i in by["Instance"] if not recs[i]["tof"]]), bump("y", 40), "any"))
    cases.append(("Instance.lam[0]+1", rnd.choice(by["Instance"]), bump("lam", 0), "any"))
    cases.append(("Instance.zero flipped", rnd.choice(by["Instance"]), lambda x: x.__setitem__("zero", not x["zero"]), "any"))
    cases.append(("Instance.N+1", [i for i in by["Instance"] if recs[i]["N"] < 4][0], lambda x: x.__setitem__("N", x["N"] + 1), "any"))
    with_norm = [i for i in by["Grad"] if recs[i]["normUse"]]
    if with_norm:
        def nu(x):
            u = [list(t) for t in x["normUse"]]; u[0][1] = 1 - u[0][1]; x["normUse"] = u
        cases.append(("Grad.normUse set-up kind flipped", with_norm[0], nu, "line"))
    failed = 0
    for name, i, fn, expect in cases:
        m = [dict(x) for x in recs]
        fn(m[i])
        p = os.path.join(work, "c.ndjson")
        lib.write_ndjson(p, m)
        ok, r, at = lib.validate_trace("Trace_PoissonLL", p, heap="3g")
        bad = [ln for ln, _ in lib.unexplained(r)]
        caught = (i + 1 in bad) if expect in ("line", "value") else bool(bad)
        print("%-36s line %5d (%s): %s  unexplained=%s" % (name, i + 1, recs[i]["e"], "REJECTED" if caught else "MISSED", bad[:6]))
        failed += 0 if caught else 1
    # structural corruptions: remove an event / swap a request to before its SetUp
    m = [dict(x) for x in recs]
    j = by["SetUp"][1]
    del m[j]
    p = os.path.join(work, "c.ndjson")
    lib.write_ndjson(p, m)
    ok, r, at = lib.validate_trace("Trace_PoissonLL", p, heap="3g")
    bad = [ln for ln, _ in lib.unexplained(r)]
    print("%-36s line %5d: %s  unexplained=%s" % ("SetUp line removed", j + 1, "REJECTED" if bad else "MISSED", bad[:6]))
    failed += 0 if bad else 1
    m = [dict(x) for x in recs]
    j = by["System"][0]
    m[j] = dict(m[j]); rows = [[list(e) for e in row] for row in m[j]["rows"]]
    for row in rows:
        if row:
            row[0][1] += 1
            break
    m[j]["rows"] = rows
    lib.write_ndjson(p, m)
    ok, r, at = lib.validate_trace("Trace_PoissonLL", p, heap="3g")
    bad = [ln for ln, _ in lib.unexplained(r)]
    print("%-36s line %5d: %s  unexplained=%s" % ("System.rows weight+1 (cols kept)", j + 1, "REJECTED" if (j + 1) in bad else "MISSED", bad[:6]))
    failed += 0 if (j + 1) in bad else 1
    # ---- round 2 families: real projectors (tolerance-based), list-mode, Patlak, set-up protocol
    def family(mode, module, count, cases2):
        nonlocal failed
        g = os.path.join(work, mode + ".ndjson")
        lib.run_driver(exe, [mode, g, work, count], env={"VERIF_SEED": "7"})
        rr = lib.read_ndjson(g)
        ok, r, at = lib.validate_trace(module, g, heap="3g")
        base = [ln for ln, cls in lib.unexplained(r) if cls == "new"]
        print("%s: good trace of %d lines: unexplained(new)=%s" % (mode, len(rr), base))
        failed += 1 if base else 0
        for name, pick, fn in cases2:
            idx = [i for i, x in enumerate(rr) if pick(x)]
            if not idx:
                print("%-36s (no such line)" % name)
                failed += 1
                continue
            i = idx[len(idx) // 2]
            mm = [dict(x) for x in rr]
            fn(mm[i])
            lib.write_ndjson(p, mm)
            ok, r, at = lib.validate_trace(module, p, heap="3g")
            bad = [ln for ln, cls in lib.unexplained(r) if cls == "new"]
            caught = (i + 1) in bad
            print("%-36s line %5d (%s): %s" % (name, i + 1, rr[i]["e"], "REJECTED" if caught else "MISSED"))
            failed += 0 if caught else 1

    def scale(field, f):
        def g(x):
            v = list(x[field]); j = max(range(len(v)), key=lambda t: abs(v[t])); v[j] = int(v[j] * f) + 1; x[field] = v
        return g
    big = lambda e: (lambda x: x["e"] == e and x.get("sub", 0) == -1 and max(map(abs, x.get("out", [0]))) > 5000)
    family("real", "Trace_PoissonLLReal", 3, [
        ("real Grad largest element x1.004", big("Grad"), scale("out", 1.004)),
        ("real Sens largest element x1.004", big("Sens"), scale("out", 1.004)),
        ("real HessTimes largest element x1.004", lambda x: x["e"] == "HessTimes" and x["sub"] == -1, scale("out", 1.004)),
        ("real Value x1.002", lambda x: x["e"] == "Value" and x["sub"] == -1, lambda x: x.__setitem__("val", int(x["val"] * 1.002))),
    ])
    family("lm", "Trace_PoissonLL", 6, [
        ("lm HessTimes out[3]-1", lambda x: x["e"] == "HessTimes", bump("out", 3, -1)),
        ("lm GradPlusSens out[3]+1", lambda x: x["e"] == "GradPlusSens", bump("out")),
    ])
    family("patlak", "Trace_PoissonLLPatlak", 6, [
        ("patlak Grad out2[3]+1", lambda x: x["e"] == "Grad", bump("out2")),
        ("patlak Sens out1[3]+1", lambda x: x["e"] == "Sens", bump("out1")),
    ])
    family("setters", "Trace_PoissonLL", 1, [
        ("refused request recorded as served", lambda x: x["e"] == "Grad" and x["err"], lambda x: x.__setitem__("err", False)),
        ("Setter line removed (name unknown)", lambda x: x["e"] == "Setter", lambda x: x.__setitem__("name", "set_nothing")),
    ])
    shutil.rmtree(work, ignore_errors=True)
    print("%d corruption(s) missed" % failed)
    return 1 if failed else 0


if __name__ == "__main__":
    sys.exit(main())
