#!/usr/bin/env python3
"""Binding demonstration for C09: corrupt ONE recorded field of a good trace and confirm that
Trace_Priors (TLC) no longer explains the line.  Uses the traces of the last `bin/check C09` run
(.build/work/C09/*.ndjson).  Exit 0 iff every corruption is rejected (and the uncorrupted mini-trace
is accepted).   usage: selftest/C09/corrupt_trace.py [max-cases-per-kind]"""
import copy, glob, json, os, sys
V = os.path.dirname(os.path.dirname(os.path.dirname(os.path.abspath(__file__))))
sys.path.insert(0, V)
from checks import lib


def bump(m, rel=50):
    return m + max(64, abs(m) // rel)


_FAM = {"fam": None}


def cfg_fam(rec):
    return _FAM["fam"]


def corrupt(rec, mode):
    r = copy.deepcopy(rec)
    e = r["e"]
    exact = lambda m: m + 1
    if mode == "P":
        if e == "Call":
            # (calls that are known not to check, C09-nocheck / C09-uninitsetup, are left alone)
            if (_FAM.get("prior"), r["fn"]) in (("rdp", "htimes"), ("logcosh", "value"), ("logcosh", "gradient"), ("logcosh", "htimes")) or _FAM.get("ctor") == "args": return None
            r["err"] = not r["err"]
        elif e == "Fresh": r["vb"] += 1
        elif e == "RoundTrip": r["g2"][-1] += 1
        elif e == "SetUp": r["err"] = True
        else: return None
    elif mode == "R":
        if e == "FRGrad":
            j = max(range(len(r["g"])), key=lambda i: abs(r["g"][i]))
            r["g"][j] = bump(r["g"][j], 100)
        else: return None
    elif mode == "E":
        f = exact if rec.get("k", 0) in (0, 2) or cfg_fam(rec) in (2, 3) else bump
        if e == "Val": r["m"] = f(r["m"])
        elif e == "Grad": r["g"][-1] = f(r["g"][-1])
        elif e == "HRow":
            if not r["nz"]: return None
            r["nz"][-1][1] = f(r["nz"][-1][1])
        elif e in ("HTimes", "HApprox"):
            if r.get("err"): return None
            r["out"][0] = f(r["out"][0])
        elif e in ("FDE",): r["vp"] += 4
        elif e == "JacE": r["h"] += 1
        elif e == "SymE": r["hji"] += 1
        else: return None
    else:
        if e == "H":
            if r.get("err") or not r["nz"]: return None
            r["nz"][0][3] += 1
        elif e == "ScaleV": r["b"] = bump(r["b"], 200)
        elif e in ("ScaleG", "ScaleH"):
            j = max(range(len(r["b"])), key=lambda i: abs(r["b"][i]))
            if r["b"][j] == 0: return None
            r["b"][j] = bump(r["b"][j], 200)
        elif e == "KScale":
            if r["vb"] == 0: return None
            r["vb"] = bump(r["vb"], 200)
        elif e == "KOnes": r["gb"][-1] += 1
        elif e == "Uniform": r["nz"] = [[1, 3]]
        elif e == "Local": r["b"] += 1
        elif e == "PSD":
            s = sum(a * b for a, b in zip(r["v"], r["hv"]))
            if s <= 0: return None
            r["hv"] = [-h for h in r["hv"]]
            if sum(abs(a) + abs(b) for a, b in zip(r["v"], r["hv"])) // 2 + len(r["v"]) >= s: return None
        elif e == "Lin": r["hv"][0] += 1000 + abs(r["hv"][0]) // 100
        elif e == "PLS2D": r["m"] += 1
        elif e == "FDV":
            if r["g0"] == 0 and r["g1"] == 0: return None
            r["g0"], r["g1"] = 2 * r["g0"], 2 * r["g1"]   # a gradient twice too large
        elif e == "FDG":
            r["h0"] = [2 * h + 64 for h in r["h0"]]; r["h1"] = [2 * h + 64 for h in r["h1"]]
        else: return None
    return r if r != rec else None


def main():
    cap = int(sys.argv[1]) if len(sys.argv) > 1 else 1
    work = os.path.join(lib.B, "work", "C09-corrupt")
    os.makedirs(work, exist_ok=True)
    traces = sorted(glob.glob(os.path.join(lib.B, "work", "C09", "*.ndjson")))
    if not traces:
        print("run bin/check C09 first"); return 2
    cases, seen = [], {}
    for t in traces:
        cfg = img = None
        hist = []
        for rec in lib.read_ndjson(t):
            if rec["e"] in ("Config", "New"): cfg, img, hist = rec, None, []; _FAM.update(fam=rec.get("fam"), prior=rec.get("prior"), ctor=rec.get("ctor")); continue
            if rec["e"] == "Image": img = rec; continue
            if cfg is None: continue
            prefix = [cfg] + ([img] if img else []) + (hist if cfg["mode"] == "P" else [])   # histories: the whole prefix
            if cfg["mode"] == "P": hist = hist + [rec]
            key = (cfg["prior"], cfg["mode"], rec["e"]) + ((cfg.get("fam"),) if cfg["mode"] == "E" else ())
            if seen.get(key, 0) >= cap: continue
            c = corrupt(rec, cfg["mode"])
            if c is None: continue
            seen[key] = seen.get(key, 0) + 1
            cases.append((key, prefix + [rec], prefix + [c]))
    # one file with all good mini-traces, one with all corrupted ones: TLC must explain every line of the
    # first and must leave exactly the corrupted lines of the second unexplained
    good, badf, expect = [], [], []
    for key, g, b in cases:
        good += g
        badf += b
        expect.append(len(badf))
    pg, pb = os.path.join(work, "good.ndjson"), os.path.join(work, "corrupted.ndjson")
    lib.write_ndjson(pg, good); lib.write_ndjson(pb, badf)
    ok, r, at = lib.validate_trace("Trace_Priors", pg, timeout=900)
    ug = lib.unexplained(r)
    ok2, r2, at2 = lib.validate_trace("Trace_Priors", pb, timeout=900)
    ub = {ln for ln, cls in lib.unexplained(r2)}
    missed = [cases[i][0] for i, ln in enumerate(expect) if ln not in ub]
    print("%d corruption cases (%s)" % (len(cases), ", ".join(sorted({"/".join(str(q) for q in k) for k, _, _ in cases}))))
    print("uncorrupted mini-traces: %d unexplained lines (must be 0, known-finding classes excluded): %s" % (len([u for u in ug if u[1] == "new"]), ug[:5]))
    print("corrupted: %d of %d rejected; missed: %s" % (len(cases) - len(missed), len(cases), missed))
    return 0 if not missed and not [u for u in ug if u[1] == "new"] else 1


if __name__ == "__main__":
    sys.exit(main())
