#!/usr/bin/env python3
"""Binding demonstration for C13: alter ONE recorded field of a good trace (or drop / swap a line that carries
state) and confirm that Trace_Norm (TLC) no longer explains the line.  Uses the traces of the last
`bin/check C13` run (.build/work/C13/*.ndjson).  Exit 0 iff every corruption is rejected as a NEW unexplained
line at the expected position and the uncorrupted trace is accepted.
usage: selftest/C13/corrupt_trace.py"""
import copy, glob, json, os, sys
V = os.path.dirname(os.path.dirname(os.path.dirname(os.path.abspath(__file__))))
sys.path.insert(0, V)
from checks import lib


def first(recs, pred, start=0):
    for i in range(start, len(recs)):
        if pred(recs[i]):
            return i
    return None


def leaf(x):
    """path to the first innermost integer of a nested list"""
    p = []
    while isinstance(x, list):
        if not x:
            return None
        p.append(0)
        x = x[0]
    return p


def bump(x, path, d):
    for i in path[:-1]:
        x = x[i]
    x[path[-1]] += d


def cases(recs):
    """(name, corrupted records, 1-based line expected to be unexplained)"""
    out = []
    ok = lambda r: not r.get("err")
    # class of the object every line addresses (calls on the trivial class are explained whatever the flags say)
    cur, c = [], None
    for r in recs:
        if r["e"] == "Obj":
            o = r["obj"]
            c = o["cls"] + ("-tof" if o["cls"] in ("PD", "Cal") and o["g"]["tofMash"] > 0 else "")
        elif r["e"] == "Config":
            c = None
        cur.append(c)
    idx = {id(r): i for i, r in enumerate(recs)}
    strict = lambda r: cur[idx[id(r)]] in ("PD", "PD-tof", "Cal", "Cal-tof", "Comp", "Att")
    toffy = lambda r: cur[idx[id(r)]] in ("PD-tof", "Cal-tof")

    def one(name, pred, fn):
        i = first(recs, pred)
        if i is None:
            return
        rr = copy.deepcopy(recs)
        fn(rr[i])
        out.append((name, rr, i + 1))
    one("RV undo: one output exponent + 1", lambda r: r["e"] == "RV" and r["op"] == "undo" and ok(r), lambda r: bump(r["out"], leaf(r["out"]), 1))
    one("RV apply: one output exponent - 1", lambda r: r["e"] == "RV" and r["op"] == "apply" and ok(r), lambda r: bump(r["out"], leaf(r["out"]), -1))
    one("RV: value not a power of two", lambda r: r["e"] == "RV" and ok(r), lambda r: bump(r["out"], leaf(r["out"]), 77777 - r["out"][0][0][0]))
    one("RV: viewgram attributed to another TOF position", lambda r: r["e"] == "RV" and ok(r) and toffy(r) and r["G"]["maxTof"] > 0 and r["vg"][0][2] == 0, lambda r: r["vg"][0].__setitem__(2, 1))
    one("RV: error flag set on a legitimate call", lambda r: r["e"] == "RV" and ok(r) and strict(r), lambda r: r.__setitem__("err", True))
    one("RV: missing error before set_up", lambda r: r["e"] in ("RV", "Whole") and r.get("err"), lambda r: r.__setitem__("err", False))
    one("Whole: one output exponent + 1", lambda r: r["e"] == "Whole" and ok(r), lambda r: bump(r["out"], leaf(r["out"]), 1))
    one("Eff: one efficiency + 1", lambda r: r["e"] == "Eff" and ok(r), lambda r: bump(r["effs"], leaf(r["effs"]), 1))
    one("Eff: class that does not report answers", lambda r: r["e"] == "Eff" and r.get("err"), lambda r: (r.__setitem__("err", False)))
    one("Triv: answer flipped", lambda r: r["e"] == "Triv", lambda r: r.__setitem__("val", not r["val"]))
    one("SetUp: success reported as failure", lambda r: r["e"] == "SetUp" and r["ok"], lambda r: r.__setitem__("ok", False))
    one("RVF: lg value + 64", lambda r: r["e"] == "RVF" and ok(r), lambda r: bump(r["out"], leaf(r["out"]), 64))
    one("WholeF: lg value - 64", lambda r: r["e"] == "WholeF" and ok(r), lambda r: bump(r["out"], leaf(r["out"]), -64))
    # attenuation tables: a box table scaled by 10 (cm/mm), a non-zero entry in the zero table, a broken sum
    i = first(recs, lambda r: r["e"] == "AttTab")
    if i is not None:
        def scale(x, f):
            return [scale(y, f) for y in x] if isinstance(x, list) else x * f
        rr = copy.deepcopy(recs); rr[i]["lg"] = scale(rr[i]["lg"], 10); out.append(("AttTab (box): every lg x 10", rr, i + 1))
        rr = copy.deepcopy(recs); rr[i]["lg"] = scale(rr[i]["lg"], -1); out.append(("AttTab (box): ACF < 1", rr, i + 1))
    descs = {r["img"]: r["desc"] for r in recs if r["e"] == "AttImg"}
    for kind, delta in (("zero", 3), ("sum", 200), ("dominated", 100000)):
        i = first(recs, lambda r: r["e"] == "AttTab" and descs.get(r["img"], {}).get("kind") == kind)
        if i is not None:
            rr = copy.deepcopy(recs)
            p = leaf(rr[i]["lg"])
            # pick an entry in the middle of the table (a bin whose line crosses the object)
            t = rr[i]["lg"]
            mid = [len(t) // 2]; t = t[mid[0]]
            while isinstance(t[0], list):
                mid.append(len(t) // 2); t = t[mid[-1]]
            mid.append(len(t) // 2)
            bump(rr[i]["lg"], mid, delta)
            out.append(("AttTab (%s): one lg + %d" % (kind, delta), rr, i + 1))
    # state-carrying lines: drop a SetUp (the following call must then be unexplained), swap two objects
    i = first(recs, lambda r: r["e"] == "SetUp" and r["ok"] and strict(r))
    if i is not None:
        j = first(recs, lambda r: r["e"] in ("RV", "Whole", "RVF", "WholeF") and ok(r), i)
        if j is not None:
            rr = copy.deepcopy(recs); del rr[i]
            out.append(("SetUp line removed", rr, j))   # (line numbers shift by one)
    # re-use histories: drop the Mod line that announces changed inputs - the calls after the next set_up were
    # answered with the NEW factors and must then be unexplained
    i = first(recs, lambda r: r["e"] == "Mod" and not r["resets"] and r["obj"]["cls"] in ("PD", "Comp", "Cal"))
    if i is not None:
        j = first(recs, lambda r: r["e"] == "SetUp", i)
        k = first(recs, lambda r: r["e"] in ("Eff", "RV") and ok(r), j) if j is not None else None
        if k is not None:
            rr = copy.deepcopy(recs); del rr[i]
            out.append(("Mod line (inputs changed) removed", rr, k))
    return out


def main():
    work = os.path.join(lib.B, "work", "C13-corrupt")
    os.makedirs(work, exist_ok=True)
    traces = sorted(glob.glob(os.path.join(lib.B, "work", "C13", "chunks", "*.ndjson")))
    if not traces:
        print("run bin/check C13 first"); return 2
    # one chunk with exact lines (TOF system) and one with attenuation lines
    pick = []
    for t in traces:
        recs = lib.read_ndjson(t)
        kinds = {r["e"] for r in recs}
        if "RV" in kinds and "Eff" in kinds and any(r["e"] == "Obj" and r["obj"]["cls"] == "PD" and r["obj"]["g"]["tofMash"] > 0 for r in recs) \
                and not any(p[0] == "exact" for p in pick):
            pick.append(("exact", t, recs))
        if "AttTab" in kinds and not any(p[0] == "att" for p in pick):
            pick.append(("att", t, recs))
        if "Mod" in kinds and any(r["e"] == "Mod" and r["obj"]["cls"] == "Comp" for r in recs) and not any(p[0] == "reuse" for p in pick):
            pick.append(("reuse", t, recs))
    known = {k["id"] for k in lib.load_known("C13")}
    bad_total, n = 0, 0
    for (tag, t, recs) in pick:
        ok, r, at = lib.validate_trace("Trace_Norm", t, timeout=900)
        base = {ln for (ln, cls) in lib.unexplained(r) if cls not in known}
        print("%s: uncorrupted %s accepted=%s new-unexplained=%d" % (tag, os.path.basename(t), ok, len(base)))
        if not ok or base:
            bad_total += 1
        for (name, rr, line) in cases(recs):
            n += 1
            p = os.path.join(work, "%s-%02d.ndjson" % (tag, n))
            lib.write_ndjson(p, rr)
            ok2, r2, at2 = lib.validate_trace("Trace_Norm", p, timeout=900)
            new = [ln for (ln, cls) in lib.unexplained(r2) if cls == "new"]
            hit = line in new
            print("  %-55s line %5d -> %s" % (name, line, "REJECTED" if hit else "NOT REJECTED %s" % new[:5]))
            if not hit:
                bad_total += 1
    print("%d corruptions, %d not rejected" % (n, bad_total))
    return 0 if bad_total == 0 and n > 0 else 1


if __name__ == "__main__":
    sys.exit(main())
