#!/usr/bin/env python3
"""Binding demonstration without touching the sources: corrupt one recorded field / drop / swap events of a GOOD
recorded execution and confirm that Trace_ProjDataStore rejects each corrupted trace (and accepts the original).
usage: selftest/C02/corrupt_trace.py <good-trace.ndjson>   (e.g. .build/work/C02/rand.ndjson after bin/check C02)"""
import copy, json, os, sys, tempfile
sys.path.insert(0, os.path.join(os.path.dirname(os.path.abspath(__file__)), "..", ".."))
from checks import lib


def first_execution(path, want):
    recs, cur = lib.read_ndjson(path), None
    out = []
    for r in recs:
        if r["e"] == "Config":
            if cur and want(cur):
                return cur
            cur = [r]
        elif cur is not None:
            cur.append(r)
    return cur


def new_lines(recs):
    d = tempfile.mkdtemp(prefix="C02-corrupt-", dir="/var/tmp")
    p = os.path.join(d, "t.ndjson")
    lib.write_ndjson(p, recs)
    ok, r, at = lib.validate_trace("Trace_ProjDataStore", p, timeout=300)
    bad = [ln for ln, cls in lib.unexplained(r) if cls == "new"]
    os.remove(p); os.rmdir(d)
    return bad if (ok and at is None) else ["not consumed"]


def main():
    ex = first_execution(sys.argv[1], lambda e: e[0]["backing"] == "hdrstream" and not e[0]["fresh"] and not e[0]["err"] and not e[0]["herr"]
                         and len(e) > 40 and e[0]["maxSeg"] > e[0]["minSeg"])
    assert ex, "no suitable execution"
    base = new_lines(ex)
    print("original: unexplained(new) =", base)
    assert base == []
    idx = lambda pred: next(i for i, r in enumerate(ex) if i > 3 and pred(r))
    cases = []
    # 1 one element of the observed file altered after a write
    i = idx(lambda r: r["e"] == "SetView" and not r["err"]); c = copy.deepcopy(ex); c[i]["file"][0] += 1; cases.append(("file element altered", c))
    # 2 a read result altered
    i = idx(lambda r: r["e"] in ("GetSino", "GetView", "GetSegS", "GetSegV") and not r["err"]); c = copy.deepcopy(ex); c[i]["vals"][-1] += 1; cases.append(("read value altered", c))
    # 3 an out-of-range request recorded as accepted
    i = idx(lambda r: r.get("err") is True and r["e"].startswith(("Set", "Get"))); c = copy.deepcopy(ex); c[i]["err"] = False; cases.append(("refusal turned into success", c))
    # 4 a write event removed (its effect stays in the later file images)
    i = idx(lambda r: r["e"] == "SetSino" and not r["err"]); c = copy.deepcopy(ex); del c[i]; cases.append(("write event removed", c))
    # 5 two events swapped
    i = idx(lambda r: r["e"] == "SetBin" and not r["err"]); c = copy.deepcopy(ex); c[i], c[i + 1] = c[i + 1], c[i]; cases.append(("two events swapped", c))
    # 6 byte before the stream offset touched
    i = idx(lambda r: r["e"].startswith("Set") and len(r.get("pre", [])) > 0) if ex[0]["off"] > 0 else None
    if i is not None:
        c = copy.deepcopy(ex); c[i]["pre"][0] ^= 1; cases.append(("byte before the offset altered", c))
    # 7 header round trip: segment sequence read back differently
    i = idx(lambda r: r["e"] == "Reopen" and not r["err"]); c = copy.deepcopy(ex); c[i]["lay"]["seq"] = list(reversed(c[i]["lay"]["seq"])); cases.append(("re-read segment sequence altered", c))
    # 8 stale file: the image after a write is the image before it (what a missing flush looks like)
    i = idx(lambda r: r["e"] == "SetBin" and not r["err"] and r["file"] != ex[ex.index(r) - 1]["file"]); c = copy.deepcopy(ex); c[i]["file"] = copy.deepcopy(c[i - 1]["file"]); cases.append(("stale file image after a write", c))
    failed = 0
    for name, c in cases:
        bad = new_lines(c)
        print("%-40s -> %s" % (name, "REJECTED at %s" % bad[:3] if bad else "ACCEPTED (binding does not bite!)"))
        failed += 0 if bad else 1
    sys.exit(1 if failed else 0)


if __name__ == "__main__":
    main()
