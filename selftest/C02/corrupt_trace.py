#!/usr/bin/env python3
"""Binding demonstration without touching the sources: corrupt one recorded field / drop / swap events of a GOOD
recorded execution and confirm that Trace_ProjDataStore rejects each corrupted trace (and accepts the original).
usage: selftest/C02/corrupt_trace.py <rand.ndjson> [<multi.ndjson>]   (e.g. .build/work/C02/rand.ndjson .build/work/C02/multi.ndjson
after bin/check C02)"""
import copy, json, os, sys, tempfile
sys.path.insert(0, os.path.join(os.path.dirname(os.path.abspath(__file__)), "..", ".."))
from checks import lib


def first_execution(path, want):
    recs, cur = lib.read_ndjson(path), None
    out = []
    for r in recs:
        if r["e"] == "Config":
            if cur and want(cur):
                return cur
            cur = [r]
        elif cur is not None:
            cur.append(r)
    return cur


def new_lines(recs):
    d = tempfile.mkdtemp(prefix="C02-corrupt-", dir="/var/tmp")
    p = os.path.join(d, "t.ndjson")
    lib.write_ndjson(p, recs)
    ok, r, at = lib.validate_trace("Trace_ProjDataStore", p, timeout=300)
    bad = [ln for ln, cls in lib.unexplained(r) if cls == "new"]
    os.remove(p); os.rmdir(d)
    return bad if (ok and at is None) else ["not consumed"]


def main():
    ex = first_execution(sys.argv[1], lambda e: e[0]["backing"] == "hdrstream" and not e[0]["fresh"] and not e[0]["err"] and not e[0]["herr"]
                         and len(e) > 40 and e[0]["maxSeg"] > e[0]["minSeg"])
    assert ex, "no suitable execution"
    base = new_lines(ex)
    print("original: unexplained(new) =", base)
    assert base == []
    idx = lambda pred: next(i for i, r in enumerate(ex) if i > 3 and pred(r))
    cases = []
    # 1 one element of the observed file altered after a write
    i = idx(lambda r: r["e"] == "SetView" and not r["err"]); c = copy.deepcopy(ex); c[i]["file"][0] += 1; cases.append(("file element altered", c))
    # 2 a read result altered
    i = idx(lambda r: r["e"] in ("GetSino", "GetView", "GetSegS", "GetSegV") and not r["err"]); c = copy.deepcopy(ex); c[i]["vals"][-1] += 1; cases.append(("read value altered", c))
    # 3 an out-of-range request recorded as accepted
    i = idx(lambda r: r.get("err") is True and r["e"].startswith(("Set", "Get"))); c = copy.deepcopy(ex); c[i]["err"] = False; cases.append(("refusal turned into success", c))
    # 4 a write event removed (its effect stays in the later file images)
    i = idx(lambda r: r["e"] == "SetSino" and not r["err"]); c = copy.deepcopy(ex); del c[i]; cases.append(("write event removed", c))
    # 5 two events swapped
    i = idx(lambda r: r["e"] == "SetBin" and not r["err"]); c = copy.deepcopy(ex); c[i], c[i + 1] = c[i + 1], c[i]; cases.append(("two events swapped", c))
    # 6 byte before the stream offset touched
    i = idx(lambda r: r["e"].startswith("Set") and len(r.get("pre", [])) > 0) if ex[0]["off"] > 0 else None
    if i is not None:
        c = copy.deepcopy(ex); c[i]["pre"][0] ^= 1; cases.append(("byte before the offset altered", c))
    # 7 header round trip: segment sequence read back differently
    i = idx(lambda r: r["e"] == "Reopen" and not r["err"]); c = copy.deepcopy(ex); c[i]["lay"]["seq"] = list(reversed(c[i]["lay"]["seq"])); cases.append(("re-read segment sequence altered", c))
    # 8 stale file: the image after a write is the image before it (what a missing flush looks like)
    i = idx(lambda r: r["e"] == "SetBin" and not r["err"] and r["file"] != ex[ex.index(r) - 1]["file"]); c = copy.deepcopy(ex); c[i]["file"] = copy.deepcopy(c[i - 1]["file"]); cases.append(("stale file image after a write", c))
    # ---- round 2: one corruption per new kind of line, each in the execution that contains it
    def execution_with(path, pred):
        recs, cur, hit = lib.read_ndjson(path), None, None
        for r in recs:
            if r["e"] == "Config":
                if cur is not None and hit is not None:
                    return cur, hit
                cur, hit = [r], None
            elif cur is not None:
                cur.append(r)
                if hit is None and pred(r, cur[0]):
                    hit = len(cur) - 1
        return (cur, hit) if hit is not None else (None, None)

    def add(name, path, pred, mutate):
        e, i = execution_with(path, pred)
        if e is None:
            print("%-40s -> (no such line in this recording)" % name)
            return
        e = [x for x in copy.deepcopy(e[: i + 1])]
        mutate(e[i])
        cases.append((name, e))

    rand = sys.argv[1]
    multi = sys.argv[2] if len(sys.argv) > 2 else None
    add("sapyb operand altered", rand, lambda r, c: r["e"] == "Sapyb" and not r["err"], lambda r: r["y"].__setitem__(0, r["y"][0] + 1))
    add("sum() altered beyond the tolerance", rand, lambda r, c: r["e"] == "Stats" and not r["err"], lambda r: r.__setitem__("sum", r["sum"] + 5 + abs(r["sum"]) // 1000))
    add("maximum altered", rand, lambda r, c: r["e"] == "Stats" and not r["err"], lambda r: r.__setitem__("max", r["max"] + 1))
    add("subset: list of views altered", rand, lambda r, c: r["e"] == "Subset" and not r["err"] and len(r["views"]) >= 2, lambda r: r["views"].reverse())
    add("fill from wider source: value altered", rand, lambda r, c: r["e"] == "FillWide" and not r["err"], lambda r: r["vals"].__setitem__(0, 999999))   # (first value: segment 0, always part of the destination)
    add("fill from narrower source accepted", rand, lambda r, c: r["e"] == "FillNarrow", lambda r: r.__setitem__("err", False))
    add("re-attached object: other byte order", rand, lambda r, c: r["e"] == "Reattach" and not r["err"], lambda r: r["lay"].__setitem__("big", not r["lay"]["big"]))
    add("standard segment sequence altered", rand, lambda r, c: r["e"] == "StdSeq" and len(r["seq"]) >= 3, lambda r: r["seq"].reverse())
    if multi:
        add("multi: frame index off by one", multi, lambda r, c: r["e"] == "MGet" and c["K"] >= 2, lambda r: r.__setitem__("idx", r["idx"] % 2 + 1))
        add("multi: frame duration altered", multi, lambda r, c: r["e"] == "MRead" and not r["err"], lambda r: r["frames"][-1].__setitem__(1, r["frames"][-1][1] + 16))
        add("multi: calibration factor altered", multi, lambda r, c: r["e"] == "MCalib" and not r["err"], lambda r: r.__setitem__("f", r["f"] + 1))
    failed = 0
    for name, c in cases:
        bad = new_lines(c)
        print("%-40s -> %s" % (name, "REJECTED at %s" % bad[:3] if bad else "ACCEPTED (binding does not bite!)"))
        failed += 0 if bad else 1
    sys.exit(1 if failed else 0)


if __name__ == "__main__":
    main()
