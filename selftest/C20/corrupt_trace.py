#!/usr/bin/env python3
"""Binding demonstration for C20 (not part of quick/thorough): take a good recorded trace (default: the
replay of the last quick run, .build/work/C20/replay.ndjson), and for the richest configuration in it
alter ONE recorded value per kind of call / remove one event; Trace_MLNorm must reject exactly those
lines (plus lines that depend on the altered register).  Usage: selftest/C20/corrupt_trace.py [trace]"""
import json, os, random, sys
sys.path.insert(0, os.path.join(os.path.dirname(os.path.abspath(__file__)), "..", ".."))
from checks import lib

random.seed(7)
src = sys.argv[1] if len(sys.argv) > 1 else os.path.join(lib.B, "work", "C20", "replay.ndjson")
recs = lib.read_ndjson(src)
idx = [i for i, r in enumerate(recs) if r["e"] == "Config"]


def seg(k):
    return recs[idx[k]:(idx[k + 1] if k + 1 < len(idx) else len(recs))]


best, size = None, 0
for k in range(len(idx)):
    ev = [r["e"] for r in seg(k)]
    segs = [r["seg"] for r in seg(k) if r["e"] == "SetDetPair"]
    if all(e in ev for e in ("IterGeo", "IterBlock", "KLStep", "MLEStep", "NormEff")) and max(segs) > 0:
        n = len([r for r in seg(k) if r["e"] == "MakeFan"][0]["m"])
        if 100 < n and (best is None or n < size):
            best, size = k, n
if best is None:
    sys.exit("no configuration with all kinds of calls in " + src)
base = seg(best)
print("configuration:", {k: v for k, v in base[0].items() if not isinstance(v, list)}, "entries:", size)
out, expect, ln = [], [], 0


def variant(fn, what):
    global out, ln
    s = json.loads(json.dumps(base))
    i = fn(s)
    expect.append((ln + i + 1, what))
    out += s
    ln += len(s)


def bump(kind, fld, pred=lambda r: True):
    def f(s):
        for i, r in enumerate(s):
            if r["e"] == kind and pred(r):
                ref = r["m"] if fld == "ex" else r[fld if fld[-1] == "m" else fld[:-1] + "m"]
                cand = [j for j, v in enumerate(ref) if v != 0]
                if kind == "MakeFan" and fld == "dm":      # an input bin that some entry holds (gap bins are not converted)
                    held = set(zip(r["m"], r["ex"]))
                    cand = [j for j in cand if (r["dm"][j], r["de"][j]) in held]
                if kind in ("IterGeo", "IterBlock"):     # only entries with a fully covered class / block pair are demanded: alter all
                    for j in cand:
                        r[fld][j] += 1
                    return i
                j = random.choice(cand)
                r[fld][j] += 1 if fld[-1] != "m" else 2
                return i
        raise SystemExit("no %s line" % kind)
    return f


for kind, fld in [("MakeFan", "m"), ("MakeFan", "dm"), ("SetFan", "m"), ("ProjFanSums", "m"), ("DetPair", "m"), ("SetDetPair", "pm"),
                  ("ApplyEff", "ex"), ("ApplyGeo", "m"), ("ApplyBlock", "m"), ("FanSums", "m"), ("EffFanSums", "ex"),
                  ("IterEff", "ex"), ("IterEffNoModel", "ex"), ("IterGeo", "ex"), ("IterBlock", "ex")]:
    variant(bump(kind, fld), kind + "." + fld)
variant(bump("SetDetPair", "nm", lambda r: r["seg"] > 0), "SetDetPair.nm")


def swap_two(s):      # a permutation of two entries of the fan data (what a constant fill cannot see)
    for i, r in enumerate(s):
        if r["e"] == "MakeFan":
            nz = [j for j, v in enumerate(r["m"]) if v != 0]
            a, b = nz[3], nz[10]
            for f in ("m", "ex"):
                r[f][a], r[f][b] = r[f][b], r[f][a]
            return i


variant(swap_two, "MakeFan: two entries exchanged")


def kl_up(s):
    c = 0
    for i, r in enumerate(s):
        if r["e"] == "KLStep":
            c += 1
            if c == 4:
                r["cells"] = [v + 40000 for v in r["cells"]]
                return i


variant(kl_up, "KLStep: distance goes up")


def drop_return(s):
    for i, r in enumerate(s):
        if r["e"] == "Begin":
            del s[i + 1]
            return i


variant(drop_return, "Begin without its return")


def mle_exact(kind):      # an estimate written by the whole estimation function on an exact instance
    def f(s):
        for i, r in enumerate(s):
            if r["e"] == "MLEStep" and r["kind"] == kind and "m" in r:
                for j in [j for j, v in enumerate(r["m"]) if v != 0]:    # (only fully covered classes / block pairs are demanded: alter all)
                    r["ex"][j] += 1
                return i
        raise SystemExit("no exact MLEStep " + kind)
    return f


for kind in ("eff", "geo", "block"):
    variant(mle_exact(kind), "MLEStep exact " + kind)


def mle_block_up(s):      # the block step of an outer iteration raises the distance over the stored entries
    for i, r in enumerate(s):
        if r["e"] == "MLEStep" and r["kind"] == "block" and "cells" in r and i > 0 and s[i - 1]["e"] == "MLEStep" and "cells" in s[i - 1]:
            r["cells"] = [v + 60000 for v in r["cells"]]
            return i
    raise SystemExit("no dyadic MLEStep block")


variant(mle_block_up, "MLEStep: block step goes up")


def mle_order(s):         # a result file missing: the steps are out of order
    for i, r in enumerate(s):
        if r["e"] == "MLEStep" and r["kind"] == "geo":
            del s[i]
            return i
    raise SystemExit("no MLEStep geo")


variant(mle_order, "MLEStep: geometric step missing")


def norm_stale(s):        # the normalisation object answers with the efficiencies of the previous round of factors
    prev = None
    for i, r in enumerate(s):
        if r["e"] == "NormEff":
            if prev is not None:
                r["m"], r["ex"] = list(prev["m"]), list(prev["ex"])
                return i
            prev = r
    raise SystemExit("no second NormEff line")


variant(norm_stale, "NormEff: efficiencies of the previous factors")


def drop_apply(s):
    for i, r in enumerate(s):
        if r["e"] == "ApplyEff" and r["apply"]:
            del s[i]
            return i


variant(drop_apply, "un-apply after a removed apply")
path = os.path.join(lib.B, "work", "C20-corrupt.ndjson")
lib.write_ndjson(path, out)
ok, r, at = lib.validate_trace("Trace_MLNorm", path, timeout=1200, heap="4g")
bad = dict(lib.unexplained(r))
missed = [(l, w) for (l, w) in expect if l not in bad]
for (l, w) in expect:
    print("%-40s line %5d  %s" % (w, l, "rejected (%s)" % bad[l] if l in bad else "ACCEPTED"))
print("%d corruptions, %d rejected, %d unexplained lines in total" % (len(expect), len(expect) - len(missed), len(bad)))
sys.exit(1 if missed else 0)
