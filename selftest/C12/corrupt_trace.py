#!/usr/bin/env python3
"""Binding demonstration for C12 (trace side): alters ONE recorded field of a good trace and checks that
Trace_Coordinates no longer explains that line (class "new"), while the unaltered trace is explained.
usage: selftest/C12/corrupt_trace.py [db.ndjson [arc.ndjson]]   (defaults: the traces of the last run)"""
import copy, json, os, sys
V = os.path.dirname(os.path.dirname(os.path.dirname(os.path.abspath(__file__))))
sys.path.insert(0, V)
from checks import lib

db = sys.argv[1] if len(sys.argv) > 1 else os.path.join(lib.B, "work", "C12", "db.ndjson")
arc = sys.argv[2] if len(sys.argv) > 2 else os.path.join(lib.B, "work", "C12", "arc.ndjson")
out = "/var/tmp/C12-corrupt"
os.makedirs(out, exist_ok=True)


def first_config(path, want, content=lambda recs: True):
    """lines of the first configuration block that satisfies want(config) and content(block)"""
    recs, take = [], False
    for l in open(path):
        r = json.loads(l)
        if r["e"] in ("Config", "ArcConfig"):
            if take and content(recs):
                return recs
            take, recs = want(r), []
        if take:
            recs.append(r)
    return recs


def idx(recs, pred):
    return next(i for i, r in enumerate(recs) if pred(r))


cyl = first_config(db, lambda c: c["geom"] == "Cylindrical" and not c["arc"] and c["tofMash"] > 0 and c["N"] >= 16 and c["R"] >= 3,
                   lambda recs: any(r["e"] == "Row" and r["tof"] != 0 for r in recs) and any(r["e"] == "RT" and r["ax"] > 2 and min(r["ok"]) == 1 for r in recs))
arcc = first_config(db, lambda c: c["arc"] and c["N"] >= 16)
arcr = first_config(arc, lambda c: True)
cases = []


def case(name, recs, pred, edit):
    r2 = copy.deepcopy(recs)
    try:
        i = idx(r2, pred)
    except StopIteration:
        print("%-28s n/a (no such line in this trace)" % name)
        return
    edit(r2[i])
    cases.append((name, r2, i + 1))


mid = lambda r: len(r["ok"]) // 2
case("Row.phi+1", cyl, lambda r: r["e"] == "Row", lambda r: r["phi"].__setitem__(0, r["phi"][0] + 1))
case("Row.m residual", cyl, lambda r: r["e"] == "Row", lambda r: r["m"].__setitem__(1, 5000))
case("Row.s[mid]+1", cyl, lambda r: r["e"] == "Row", lambda r: r["s"].__setitem__(len(r["s"]) // 2, r["s"][len(r["s"]) // 2] + 1))
case("Row.k sign", cyl, lambda r: r["e"] == "Row" and r["tof"] != 0, lambda r: r["k"].__setitem__(0, -r["k"][0]))
case("Row.z1[mid]+1", cyl, lambda r: r["e"] == "Row", lambda r: r["z1"].__setitem__(len(r["z1"]) // 2, r["z1"][len(r["z1"]) // 2] + 1))
case("RT.tang+2", cyl, lambda r: r["e"] == "RT" and r["ok"][mid(r)] == 1, lambda r: r["rt"].__setitem__(mid(r), r["rt"][mid(r)] + 2))
case("RT.seg+1", cyl, lambda r: r["e"] == "RT" and r["ok"][mid(r)] == 1, lambda r: r["rs"].__setitem__(mid(r), r["rs"][mid(r)] + 1))
case("RT.tof sign", cyl, lambda r: r["e"] == "RT" and r["tof"] != 0 and r["ok"][mid(r)] == 1, lambda r: r["rk"].__setitem__(mid(r), -r["rk"][mid(r)]))
case("RT.miss in the middle", cyl, lambda r: r["e"] == "RT" and r["ok"][mid(r)] == 1 and r["ax"] > 2, lambda r: r["ok"].__setitem__(mid(r), 0))
case("PL.lb+1", cyl, lambda r: r["e"] == "PL" and 5 * abs(r["lb"][0]) <= 2 * cyl[0]["N"], lambda r: r["lb"].__setitem__(0, r["lb"][0] + 1))
case("PL.view+1", cyl, lambda r: r["e"] == "PL" and r["ok"], lambda r: r.__setitem__("view", r["view"] + 1))
case("TB.bin+1", cyl, lambda r: r["e"] == "TB", lambda r: r["bin"].__setitem__(len(r["bin"]) // 2, r["bin"][len(r["bin"]) // 2] + 1))
case("arc Row.ss 2", arcc, lambda r: r["e"] == "Row", lambda r: r["ss"].__setitem__(mid({"ok": r["ss"]}), 2))
case("arc RT.tang+1", arcc, lambda r: r["e"] == "RT", lambda r: r["rt"].__setitem__(mid(r), r["rt"][mid(r)] + 1))
case("Arc.out[mid]*1.05", arcr, lambda r: r["e"] == "Arc" and r["kind"] == 2, lambda r: r["out"].__setitem__(len(r["out"]) // 2, r["out"][len(r["out"]) // 2] + 2000))
case("Arc.uniform out[mid]+8", arcr, lambda r: r["e"] == "Arc" and r["kind"] == 0, lambda r: r["out"].__setitem__(len(r["out"]) // 2, r["out"][len(r["out"]) // 2] + 8))
case("ArcConfig.sampling_s", arcr, lambda r: r["e"] == "ArcConfig", lambda r: r.__setitem__("sampling_s12", r["sampling_s12"] + 40))
case("ArcConfig.edge angle", arcr, lambda r: r["e"] == "ArcConfig", lambda r: r["eb"].__setitem__(3, r["eb"][3] + 1))

fail = 0
# the unaltered blocks must be explained (apart from known classes)
for name, recs in (("good cyl", cyl), ("good arc-corrected", arcc), ("good arc-correction", arcr)):
    p = os.path.join(out, "good.ndjson")
    lib.write_ndjson(p, recs)
    ok, r, at = lib.validate_trace("Trace_Coordinates", p, timeout=600)
    new = [x for x in lib.unexplained(r) if x[1] == "new"]
    print("%-28s consumed=%s new=%s" % (name, ok, new))
    fail += (not ok) or bool(new)
for name, recs, line in cases:
    p = os.path.join(out, "bad.ndjson")
    lib.write_ndjson(p, recs)
    ok, r, at = lib.validate_trace("Trace_Coordinates", p, timeout=600)
    bad = lib.unexplained(r)
    # a corrupted ArcConfig is rejected itself and leaves the following rows without a configuration
    hit = (line, "new") in bad
    print("%-28s line %4d rejected=%s" % (name, line, hit))
    fail += not hit
fail += len(cases) < 12
print("FAILED" if fail else "all %d corruptions rejected" % len(cases))
sys.exit(1 if fail else 0)
