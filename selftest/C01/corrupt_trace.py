#!/usr/bin/env python3
"""Binding demonstration without touching the sources: for EVERY kind of event of a good recorded execution one
recorded field is altered; Trace_Geometry must leave each altered line unexplained (class "new" = VIOLATION) while
it explains the original lines.
usage: selftest/C01/corrupt_trace.py [trace.ndjson ...]   (default: .build/work/C01/small.ndjson db.ndjson after bin/check C01)
SAVE=1 additionally writes the selected original lines and the altered lines to selftest/C01/good_events.ndjson / corrupt_events.ndjson."""
import copy, json, os, sys, tempfile
sys.path.insert(0, os.path.join(os.path.dirname(os.path.abspath(__file__)), "..", ".."))
from checks import lib

PER_KIND = 3        # (the trace specification lists at most 20 lines per known-finding class: keep the candidate lists short)


def flip(k):
    def f(r):
        r[k] = not r[k]
    return f


def add(k, d=1):
    def f(r):
        r[k] += d
    return f


def c_config(r):
    if "after" in r:
        r["after"]["x"] += 1          # the recorded argument of the in-place change
    else:
        r["numSinos"] += 1


def c_rp(r):
    if r["ok"]:
        r["ax"] += 1
    else:
        r["ok"] = True


def c_pb(r):
    if r["ok"]:
        r["tof"] += 1
    else:
        r["ok"] = True


def c_pairs(r):
    r["pairs"][0][0] = r["pairs"][0][2]      # both detectors the same


def c_scanner(r):
    r["s"]["tCrysPerBucket"] += 1


def c_subrej(r):
    r["views"] = [0]                          # a legal request recorded as refused


CORRUPT = {
    "Config": c_config, "RP": c_rp, "RPS": add("n"), "DP": flip("same"), "VT": add("d2"), "PB": c_pb, "BP": c_pairs, "BPR": add("n"), "BD": add("d1"),
    "BN": add("n"), "Sub": add("numViews"), "SubRejected": c_subrej, "SubOrg": add("oview"), "SubFrom": add("view"), "SubBP": add("n"),
    "SubCmp": flip("ge"), "SubMix": flip("le"), "Cmp": flip("ge"), "DPCmp": flip("lt"), "DPPCmp": flip("eq"), "BinCmp": flip("eq"),
    "Scanner": c_scanner, "ScCmp": flip("ne"),
}
# a second corruption for the central kinds
CORRUPT2 = {"Config": add("numViews"), "BP": add("n"), "RPS": lambda r: r["pairs"].append([0, 0]) or None, "Cmp": flip("eq"), "PB": add("view"), "DP": add("tang")}


def validate(recs):
    d = tempfile.mkdtemp(prefix="C01-corrupt-", dir="/var/tmp")
    p = os.path.join(d, "t.ndjson")
    lib.write_ndjson(p, recs)
    ok, r, at = lib.validate_trace("Trace_Geometry", p, timeout=900)
    os.remove(p); os.rmdir(d)
    if not ok or at is not None:
        raise SystemExit("trace not consumed: %s\n%s" % (at, r.out[-2000:]))
    return dict(lib.unexplained(r))


def main():
    paths = sys.argv[1:] or [os.path.join(lib.B, "work", "C01", f) for f in ("small.ndjson", "db.ndjson")]
    # candidates: the first PER_KIND lines of every kind, each with the Config / Sub line that governs it;
    # a Config with an "after" record (object changed in place) counts as its own kind
    cands = {}
    for path in paths:
        cfg = sub = None
        with open(path) as f:
            for line in f:
                r = json.loads(line)
                kind = r["e"]
                if kind == "Config":
                    cfg, sub = r, None
                    kind = "Config+after" if "after" in r else "Config"
                elif kind == "Sub":
                    sub = r
                lst = cands.setdefault(kind, [])
                if len(lst) < PER_KIND and (kind != "RPS" or r["pairs"]) and (kind not in ("BP", "BPR", "SubBP") or r["pairs"]):
                    # SubCmp / SubMix lines carry their views themselves: only the Config line governs them
                    ctx = [x for x in (cfg, None if kind in ("SubCmp", "SubMix") else sub) if x is not None and x is not r]
                    lst.append((ctx, r))
    # 1. the originals must be explained; keep the first explained candidate of every kind
    good, idx = [], []
    for kind, lst in sorted(cands.items()):
        for (ctx, r) in lst:
            good += ctx + [r]
            idx.append((kind, len(good), ctx, r))
    bad = validate(good)
    chosen = {}
    for (kind, i, ctx, r) in idx:
        # the context lines must be explained too
        if i not in bad and all((i - len(ctx) + j) not in bad for j in range(len(ctx))) and kind not in chosen:
            chosen[kind] = (ctx, r)
    nexpl = len(chosen)
    # kinds of which every candidate is left unexplained by a KNOWN finding (e.g. BN on the unchanged tree): the altered line
    # must not be swallowed by the finding's signature either
    for (kind, i, ctx, r) in idx:
        if kind not in chosen and bad.get(i, "new") != "new" and all((i - len(ctx) + j) not in bad for j in range(len(ctx))):
            chosen[kind] = (ctx, r)
            print("%s: no explained original (known finding %s); altering a line of that class" % (kind, bad[i]))
    print("kinds in the trace: %d, with an explained original: %d" % (len(cands), nexpl))
    # 2. one altered field per kind
    trace, where = [], []
    for kind, (ctx, r) in sorted(chosen.items()):
        base = kind.split("+")[0]
        for table in (CORRUPT, CORRUPT2):
            if base not in table or (kind == "Config+after" and table is CORRUPT2):
                continue
            c = copy.deepcopy(r)
            table[base](c)
            trace += copy.deepcopy(ctx) + [c]
            where.append((kind + ("" if table is CORRUPT else " (2nd field)"), len(trace)))
    bad = validate(trace)
    if os.environ.get("SAVE"):
        # small replay files: `bin/check C01 --replay selftest/C01/good_events.ndjson` passes, `... corrupt_events.ndjson` reports VIOLATION
        here = os.path.dirname(os.path.abspath(__file__))
        goodsel = []
        for kind, (ctx, r) in sorted(chosen.items()):
            goodsel += ctx + [r]
        lib.write_ndjson(os.path.join(here, "good_events.ndjson"), goodsel)
        lib.write_ndjson(os.path.join(here, "corrupt_events.ndjson"), trace)
    failed = 0
    for (kind, i) in where:
        verdict = bad.get(i)
        print("%-26s -> %s" % (kind, "REJECTED (new)" if verdict == "new" else ("attributed to known finding %s (binding too coarse!)" % verdict if verdict else "ACCEPTED (binding does not bite!)")))
        failed += 0 if verdict == "new" else 1
    missing = sorted(set(CORRUPT) - {k.split("+")[0] for k in chosen})
    if missing:
        print("kinds without an explained original in these traces:", missing)
    sys.exit(1 if failed else 0)


if __name__ == "__main__":
    main()
