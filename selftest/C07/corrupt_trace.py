#!/usr/bin/env python3
"""Binding demonstration for C07 (trace side): record small good traces with the real driver, alter ONE recorded
field (or drop a line) and confirm that Trace_OSMAPOSL rejects exactly because of it.
usage: python3 selftest/C07/corrupt_trace.py     (prints one line per corruption; exit 0 iff all are caught and the
                                                   uncorrupted traces are accepted)"""
import copy, os, random, shutil, sys
sys.path.insert(0, os.path.join(os.path.dirname(os.path.abspath(__file__)), "..", ".."))
from checks import lib


def news(r):
    return [ln for (ln, cls) in lib.unexplained(r) if cls == "new"]


def main():
    work = os.path.join(lib.B, "work", "C07-corrupt")
    shutil.rmtree(work, ignore_errors=True)
    os.makedirs(work)
    exe = lib.build_driver("c07_osmaposl")
    good = {}
    for mode, n in (("exact", 32), ("free", 16)):
        p = os.path.join(work, "good-%s.ndjson" % mode)
        lib.run_driver(exe, [mode, p, work, n], env={"VERIF_SEED": "7"})
        ok, r, at = lib.validate_trace("Trace_OSMAPOSL", p, heap="3g")
        recs = lib.read_ndjson(p)
        print("good %s trace: %d lines, accepted=%s, unexplained(new)=%s" % (mode, len(recs), ok, news(r)))
        if not ok or news(r):
            return 1
        good[mode] = recs
    rnd = random.Random(5)

    def inst_of(recs, i):
        while recs[i]["e"] != "Instance":
            i -= 1
        return recs[i]

    def idx(recs, pred):
        return [i for i, x in enumerate(recs) if pred(i, x)]

    ex, fr = good["exact"], good["free"]
    plain = lambda recs: (lambda i, x: x["e"] == "Step" and inst_of(recs, i)["iuf"] == 0 and inst_of(recs, i)["iif"] == 0)

    def bump(field, d, pick=None):
        def f(x):
            v = list(x[field])
            j = pick(x) if pick else 0
            v[j] += d
            x[field] = v
        return f
    firstpos = lambda x: [j for j, o in enumerate(x["out"]) if o > 100][0]
    cases = []
    # the update law: a new voxel value moved by 1 % / by 64 units of 2^-12
    cases.append(("exact Step.out[v] +1%", "exact", rnd.choice(idx(ex, plain(ex))), lambda x: bump("out", max(40, x["out"][firstpos(x)] // 100), firstpos)(x)))
    cases.append(("exact Step.out[v] -64", "exact", rnd.choice(idx(ex, lambda i, x: plain(ex)(i, x) and max(x["out"]) > 200)), lambda x: bump("out", -64, firstpos)(x)))
    cases.append(("exact Step.lam[v] +1", "exact", rnd.choice(idx(ex, plain(ex))), lambda x: (bump("lam", 1, lambda y: [j for j, o in enumerate(y["out"]) if o > 100][0])(x))))
    cases.append(("exact Step.k +1 (other subset)", "exact", rnd.choice(idx(ex, lambda i, x: plain(ex)(i, x) and inst_of(ex, i)["N"] >= 2 and inst_of(ex, i)["uss"] and x["k"] < inst_of(ex, i)["K"])),
                  lambda x: x.__setitem__("k", x["k"] + 1)))
    cases.append(("exact Step.pg[v] sign flipped", "exact", rnd.choice(idx(ex, lambda i, x: plain(ex)(i, x) and inst_of(ex, i)["prior"] == 1 and inst_of(ex, i)["beta"] == 1 and max(x["out"]) > 200)),
                  lambda x: x.__setitem__("pg", [-g if g else 2560 for g in x["pg"]])))
    cases.append(("exact Step: zero voxel revived", "exact", rnd.choice(idx(ex, lambda i, x: x["e"] == "Step" and inst_of(ex, i)["iif"] == 0)), lambda x: bump("out", 5, lambda y: len(y["out"]) - 1)(x)))
    cases.append(("exact Step: negative voxel", "exact", rnd.choice(idx(ex, lambda i, x: x["e"] == "Step")), lambda x: bump("out", -1, lambda y: len(y["out"]) - 1)(x)))
    cases.append(("exact Step.L1 below L0 (one subset)", "exact", rnd.choice(idx(ex, lambda i, x: plain(ex)(i, x) and inst_of(ex, i)["N"] == 1 and inst_of(ex, i)["prior"] == 0)),
                  lambda x: x.__setitem__("L1", x["L0"] - 200 - abs(x["L0"]) // 1000)))
    cases.append(("exact SetUp.ok flipped", "exact", rnd.choice(idx(ex, lambda i, x: x["e"] == "SetUp")), lambda x: (x.__setitem__("ok", not x["ok"]), x.__setitem__("err", False))))
    cases.append(("exact Instance.uss flipped", "exact", rnd.choice(idx(ex, lambda i, x: x["e"] == "Instance" and x["N"] in (2, 4, 6) and x["prior"] == 0 and x["iuf"] == 0 and x["iif"] == 0 and
                                                                   ex[i + 1].get("ok"))), lambda x: x.__setitem__("uss", not x["uss"])))
    cases.append(("exact Instance.a[b] +1 (additive)", "exact", rnd.choice(idx(ex, lambda i, x: x["e"] == "Instance" and x["additive"] and x["iuf"] == 0 and x["iif"] == 0 and ex[i + 1].get("ok"))),
                  lambda x: x.__setitem__("a", [v + 1 for v in x["a"]])))
    cases.append(("exact Instance.mult flipped", "exact", rnd.choice(idx(ex, lambda i, x: x["e"] == "Instance" and x["prior"] == 1 and x["beta"] >= 4 and x["iuf"] == 0 and x["iif"] == 0 and ex[i + 1].get("ok"))),
                  lambda x: x.__setitem__("mult", not x["mult"])))
    # free-running trajectories and restart
    cases.append(("free Step.out[v] +3%", "free", rnd.choice(idx(fr, lambda i, x: plain(fr)(i, x) and max(x["out"]) > 2000)),
                  lambda x: bump("out", max(x["out"]) * 3 // 100 + 8, lambda y: y["out"].index(max(y["out"])))(x)))
    cases.append(("free Cont.bl[0] +1 (one bit of a resumed image, variant 1)", "free", rnd.choice(idx(fr, lambda i, x: x["e"] == "Cont" and x["variant"] == 1)), bump("bl", 1)))
    cases.append(("free Cont.bl[0] +1 (variant 2)", "free", rnd.choice(idx(fr, lambda i, x: x["e"] == "Cont" and x["variant"] == 2)), bump("bl", 1)))
    cases.append(("free Resume.froml[1] +1 (file read back differs)", "free", rnd.choice(idx(fr, lambda i, x: x["e"] == "Resume")), bump("froml", 1, lambda y: 1)))
    cases.append(("free Resume.afterl[0] +1 (set_up changed a positive voxel)", "free", rnd.choice(idx(fr, lambda i, x: x["e"] == "Resume" and x["variant"] == 1)), bump("afterl", 1)))
    cases.append(("free Final.bh[0] +1 (image in memory differs from the last file)", "free", rnd.choice(idx(fr, lambda i, x: x["e"] == "Final")), bump("bh", 1)))
    cases.append(("free Cont.bl[0] +1 (variant 4: fresh objects vs re-used objects)", "free", rnd.choice(idx(fr, lambda i, x: x["e"] == "Cont" and x["variant"] == 4)), bump("bl", 1)))
    usable = lambda recs: (lambda i, x: x["e"] == "Instance" and x["iuf"] == 0 and x["iif"] == 0 and recs[i + 1].get("ok"))
    cases.append(("exact Instance.zero flipped (zero_seg0_end_planes)", "exact", rnd.choice(idx(ex, lambda i, x: usable(ex)(i, x) and (x["zero"] or x["maxSeg"] != 0))),
                  lambda x: x.__setitem__("zero", not x["zero"])))
    cases.append(("exact re-used Instance.maxSeg -1 <-> 0", "exact", rnd.choice(idx(ex, lambda i, x: usable(ex)(i, x) and x["reuse"] and not x["zero"])),
                  lambda x: x.__setitem__("maxSeg", 0 if x["maxSeg"] != 0 else -1)))
    cases.append(("exact re-used Instance.ef (old normalisation)", "exact", rnd.choice(idx(ex, lambda i, x: usable(ex)(i, x) and x["reuse"] and x["change"] == "normalisation")),
                  lambda x: x.__setitem__("ef", [0 if e else -1 for e in x["ef"]])))
    cases.append(("exact Scale.bl[v] +1 (image scale: one bit differs from the unscaled step)", "exact", rnd.choice(idx(ex, lambda i, x: x["e"] == "Scale" and x["ki"] != 0 and max(x["bh"]) > 0)),
                  bump("bl", 1, lambda y: y["bh"].index(max(y["bh"])))))
    cases.append(("exact Scale.bh[v] +128 (data scale: exponent off by one)", "exact", rnd.choice(idx(ex, lambda i, x: x["e"] == "Scale" and x["kd"] != 0 and max(x["bh"]) > 0)),
                  bump("bh", 128, lambda y: y["bh"].index(max(y["bh"])))))
    cases.append(("exact Scale.kd +1", "exact", rnd.choice(idx(ex, lambda i, x: x["e"] == "Scale" and x["kd"] not in (0, 10) and max(x["bh"]) > 0)), lambda x: x.__setitem__("kd", x["kd"] + 1)))
    cases.append(("free Cont.bl[0] +1 (variant 5: run from the scaled start image)", "free", rnd.choice(idx(fr, lambda i, x: x["e"] == "Cont" and x["variant"] == 5)), bump("bl", 1)))
    cases.append(("free Step dropped", "free", rnd.choice(idx(fr, lambda i, x: x["e"] == "Step" and x["k"] == 2)), None))
    bad = 0
    for n, (name, mode, i, f) in enumerate(cases):
        recs = copy.deepcopy(good[mode])
        if f is None:
            del recs[i]
        else:
            f(recs[i])
        p = os.path.join(work, "case%02d.ndjson" % n)
        lib.write_ndjson(p, recs)
        ok, r, at = lib.validate_trace("Trace_OSMAPOSL", p, heap="3g")
        got = news(r)
        caught = (not ok) or bool(got)
        print("%-66s line %4d: %s (unexplained: %s)" % (name, i + 1, "REJECTED" if caught else "accepted -- NOT CAUGHT", got[:4]))
        bad += 0 if caught else 1
    print("%d corruptions, %d not caught" % (len(cases), bad))
    shutil.rmtree(work, ignore_errors=True)
    return 1 if bad else 0


if __name__ == "__main__":
    sys.exit(main())
