#!/usr/bin/env python3
"""Binding demonstration for C18 (trace side): record a small good trace with the real OpenMP driver, alter ONE
recorded event or value (drop / move / change) and confirm that Trace_Threads rejects it with the expected reason.
usage: python3 selftest/C18/corrupt_trace.py    (one line per corruption; exit 0 iff all are caught and the
                                                 uncorrupted trace is accepted)"""
import json, os, shutil, sys
sys.path.insert(0, os.path.join(os.path.dirname(os.path.abspath(__file__)), "..", ".."))
from checks import lib


def main():
    work = os.path.join(lib.B, "work", "C18-corrupt")
    shutil.rmtree(work, ignore_errors=True)
    os.makedirs(os.path.join(work, "scratch"))
    exe = lib.build_driver("c18_threads", omp=True)
    good = os.path.join(work, "good.ndjson")
    lib.run_driver(exe, ["run", good, os.path.join(work, "scratch"), 1, 1, 0],
                   env={"VERIF_SEED": "11", "OMP_WAIT_POLICY": "passive", "GOMP_SPINCOUNT": "0", "OMP_DYNAMIC": "false"})
    recs = lib.read_ndjson(good)
    ok, r, at = lib.validate_trace("Trace_Threads", good, heap="3g")
    # (the dedicated 'thread count raised after set_up' run is the known finding C18-threads-raised)
    KNOWN = {"C18-threads-raised"}
    base = [x for x in lib.unexplained(r) if x[1] not in KNOWN]
    print("good trace: %d lines, accepted=%s, unexplained=%s" % (len(recs), ok, base))
    if not ok or base:
        return 1

    def run_of(i):
        while recs[i]["e"] != "Run":
            i -= 1
        return recs[i]

    def find(pred, start=0):
        for i in range(start, len(recs)):
            if pred(i, recs[i]):
                return i
        raise LookupError

    nonref = lambda i: not run_of(i)["ref"] and run_of(i)["T"] > 1
    cases = []   # (name, function producing the corrupted list, expected reason)

    def edit(i, fn):
        def f():
            m = [dict(x) for x in recs]
            fn(m[i])
            return m
        return f

    def drop(i):
        return lambda: [dict(x) for k, x in enumerate(recs) if k != i]

    def move(i, j):   # move line i to position j
        def f():
            m = [dict(x) for x in recs]
            x = m.pop(i)
            m.insert(j if j < i else j - 1, x)
            return m
        return f

    # (a) lazy tables
    # a thread that had read the unset flag BEFORE another thread left the critical section and entered after it:
    # move its enter to just before that leave
    i_leave = i_enter2 = None
    for i, x in enumerate(recs):
        if x["e"] != "lazy.leave" or not nonref(i):
            continue
        for j in range(i + 1, min(i + 40, len(recs))):
            y = recs[j]
            if y["e"] == "Run":
                break
            if y["e"] == "lazy.enter" and y["t"] != x["t"] and CritSame(y["id"], x["id"]):
                if any(z["e"] == "lazy.read" and z["t"] == y["t"] and z["id"] == y["id"] and z["v"] == 0 for z in recs[max(0, i - 200):i]) \
                        and not any(z["e"] == "lazy.read" and z["t"] == y["t"] and z["id"] == y["id"] for z in recs[i:j]):
                    i_leave, i_enter2 = i, j
                break
        if i_leave is not None:
            break
    if i_leave is None:
        raise LookupError("no contended critical section in the recorded trace")
    cases.append(("second thread enters before the first leaves", move(i_enter2, i_leave), "mutual-exclusion"))
    i_flag = find(lambda i, x: x["e"] == "lazy.flag" and recs[i - 1]["e"] == "lazy.fill.end" and any(
        y["e"] == "lazy.enter" and y["t"] == x["t"] and y["id"] == x["id"] for y in recs[max(0, i - 400):i]) and run_of(i)["wl"] == "lazy")
    cases.append(("flag event before fill.end", move(i_flag, i_flag - 1), "flag-set-before-fill-complete"))
    i_end = find(lambda i, x: x["e"] == "lazy.fill.end" and x["id"] in (1, 2, 4, 5))
    i_read1 = find(lambda i, x: x["e"] == "lazy.read" and x["id"] == recs[i_end]["id"] and x["v"] == 1, i_end)
    cases.append(("set flag read before any fill.end", move(i_read1, i_end), None))
    i_use = find(lambda i, x: x["e"] == "lazy.use")
    cases.append(("use sees an empty table", edit(i_use, lambda x: x.__setitem__("size", 0)), "use-of-incomplete-table"))
    i_lv = find(lambda i, x: x["e"] == "lazy.leave")
    cases.append(("critical section never left", drop(i_lv), None))
    # a second fill of the same table in a one-object run: duplicate a whole fill inside a later critical section
    i_e1 = find(lambda i, x: x["e"] == "lazy.enter" and x["v"] == 1 and run_of(i)["objs"] == 1)

    def refill():
        m = [dict(x) for x in recs]
        e = m[i_e1]
        e["v"] = 0
        t, idn = e["t"], e["id"]
        m[i_e1 + 1:i_e1 + 1] = [{"e": "lazy.fill.begin", "t": t, "id": idn}, {"e": "lazy.fill.end", "t": t, "id": idn}, {"e": "lazy.flag", "t": t, "id": idn}]
        return m
    cases.append(("table filled a second time (one-object run)", refill, "flag-value-in-critical"))
    # (b) cache
    i_ins = find(lambda i, x: x["e"] == "cache.insert" and x["c"] == 0 and nonref(i))
    cases.append(("insert reports the key present although never inserted", edit(i_ins, lambda x: x.__setitem__("c", 1)), "cache-entry-from-nowhere"))

    def dupins():
        m = [dict(x) for x in recs]
        m.insert(i_ins + 1, dict(m[i_ins]))
        m.insert(i_ins + 1, {"e": "cache.lookup", "t": m[i_ins]["t"], "k": m[i_ins]["k"], "f": 0})
        return m
    cases.append(("two effective inserts of one key", dupins, "cache-entry-lost"))
    i_hit = find(lambda i, x: x["e"] == "cache.lookup" and x["f"] == 1 and nonref(i))
    cases.append(("cached row lost (lookup misses an inserted key)", edit(i_hit, lambda x: x.__setitem__("f", 0)), "cache-entry-lost"))
    # (c) work items and reduction
    i_item = find(lambda i, x: x["e"] == "dist.item" and nonref(i))
    cases.append(("work item processed twice", lambda: [dict(x) for k, x in enumerate(recs) for _ in range(2 if k == i_item else 1)], "work-items-differ-from-single-thread-run"))
    cases.append(("work item lost", drop(i_item), "work-items-differ-from-single-thread-run"))
    i_bpi = find(lambda i, x: x["e"] == "bp.item" and nonref(i) and x["t"] != 0)
    cases.append(("two threads use one accumulator", edit(i_bpi, lambda x: x.__setitem__("tn", 0)), None))
    i_red = find(lambda i, x: x["e"] == "bp.reduce" and nonref(i) and x["i"] == 0)
    cases.append(("reduction skips accumulator 0", drop(i_red), "reduction-out-of-order"))
    i_redn = find(lambda i, x: x["e"] == "bp.reduce" and nonref(i) and x["nn"] == 1)
    cases.append(("reduction finds a used accumulator unallocated", edit(i_redn, lambda x: x.__setitem__("nn", 0)), "reduction-skips-accumulator"))
    i_dr = find(lambda i, x: x["e"] == "dist.reduce" and nonref(i) and x["i"] + 1 == x["sz"])
    cases.append(("log-likelihood reduction misses the last accumulator", drop(i_dr), None))
    # outputs
    i_out = find(lambda i, x: x["e"] == "Out" and x["kind"] == "fx" and nonref(i) and len(x["v"]) > 20 and x["mx"] > 1000)

    def bump(x):
        v = list(x["v"])
        k = max(range(len(v)), key=lambda q: abs(v[q]))
        v[k] = v[k] - (x["mx"] >> 13)       # 2^-13 of the maximum: outside the 2^-14 tolerance
        x["v"] = v
        x["mx"] = max(abs(q) for q in v)
    cases.append(("output element off by 2^-13 of the maximum", edit(i_out, bump), "result-differs-from-single-thread-run"))

    def small(x):
        v = list(x["v"])
        k = min(range(len(v)), key=lambda q: abs(v[q]))
        v[k] = v[k] + (x["mx"] >> 16)       # inside the tolerance: must be ACCEPTED
        x["v"] = v
        x["mx"] = max(abs(q) for q in v)
    cases.append(("(control) output element off by 2^-16 of the maximum", edit(i_out, small), "ACCEPT"))
    i_int = find(lambda i, x: x["e"] == "Out" and x["kind"] == "int" and nonref(i))
    cases.append(("table look-up result differs", edit(i_int, lambda x: x.__setitem__("v", [x["v"][0] + 1] + list(x["v"][1:]))), "result-differs-from-single-thread-run"))
    i_endrun = find(lambda i, x: x["e"] == "EndRun" and nonref(i))
    cases.append(("exception thrown in a threaded run", edit(i_endrun, lambda x: x.__setitem__("err", True)), "error-thrown"))

    def abort():
        m = [dict(x) for x in recs]
        j = find(lambda i, x: x["e"] == "Run" and x["T"] > 1)
        k = find(lambda i, x: x["e"] == "EndRun", j)
        return m[:j + 1] + [{"e": "Abort", "inst": m[j]["inst"], "sig": 11}] + m[k + 1:]
    cases.append(("child process crashed", abort, "abort"))
    # thread-count histories: a phase whose output carries something of an earlier phase / a missing phase
    i_hrun = find(lambda i, x: x["e"] == "Run" and len(x["hist"]) > 2)
    i_pout = find(lambda i, x: x["e"] == "Out" and x["kind"] == "fx" and x.get("ph", 0) == 2 and len(x["v"]) > 20 and x["mx"] > 1000, i_hrun)

    def stale(x):
        v = [q + (q >> 1) for q in x["v"]]      # every element 50 % too large (stale accumulator added)
        x["v"] = v
        x["mx"] = max(abs(q) for q in v)
    cases.append(("output of a later phase contains an earlier contribution", edit(i_pout, stale), "result-differs-from-single-thread-run"))
    i_pm = find(lambda i, x: x["e"] == "mark" and x["name"] == "phase", i_hrun + 1)
    i_pm2 = find(lambda i, x: x["e"] == "mark" and x["name"] == "phase", i_pm + 1)
    cases.append(("a phase of a thread-count history is missing its calls", lambda: [dict(x) for k, x in enumerate(recs) if not (i_pm < k < i_pm2)], None))
    # beyond-property rules: guard inside a parallel region, messages
    i_g = find(lambda i, x: x["e"] == "Guard" and x["team"] > 1)
    cases.append(("a guarded call is accepted inside a parallel region", edit(i_g, lambda x: (x.__setitem__("accepted", 1), x.__setitem__("refused", x["refused"] - 1))), "guard-inside-parallel-region"))
    i_m = find(lambda i, x: x["e"] == "Out" and x["name"] == "messages" and nonref(i))
    cases.append(("a message does not arrive whole", edit(i_m, lambda x: x.__setitem__("v", [0] + list(x["v"][1:]))), "result-differs-from-single-thread-run"))
    # scatter cache
    try:
        i_sc = find(lambda i, x: x["e"] == "sc.get" and x["st"] == 1 and nonref(i))
        cases.append(("scatter cache hit on an entry nobody computed", edit(i_sc, lambda x: x.__setitem__("k", [x["k"][0] + 50, x["k"][1]])), "scatter-cache-hit-before-any-miss"))
    except LookupError:
        pass

    failed = 0
    for name, fn, expect in cases:
        m = fn()
        p = os.path.join(work, "c.ndjson")
        lib.write_ndjson(p, m)
        ok, r, at = lib.validate_trace("Trace_Threads", p, heap="3g")
        bad = [x for x in lib.unexplained(r) if x[1] not in KNOWN]
        if expect == "ACCEPT":
            good_ = ok and not bad
        else:
            good_ = bool(bad) and (expect is None or any(c == expect for _, c in bad))
        print("%-62s %s  %s" % (name, "ok" if good_ else "MISSED", bad[:3]))
        failed += 0 if good_ else 1
    print("%d corruptions, %d not handled as expected" % (len(cases), failed))
    return 1 if failed else 0


def CritSame(a, b):
    c = lambda i: 1 if i in (1, 4) else 2 if i in (2, 5) else 3
    return c(a) == c(b)


if __name__ == "__main__":
    sys.exit(main())
