----------------------------- MODULE MC_Scatter -----------------------------
(* Exhaustive check of Scatter.tla: every history of at most MaxOps public   *)
(* calls on one simulation object (9 setters, set_up, process_data) with     *)
(* MaxNp scatter points x MaxNd detectors.  Bug # "none" replaces one setter *)
(* by a version that forgets an invalidation: those configurations MUST      *)
(* violate an invariant (the model is not vacuous).                          *)
EXTENDS Scatter
CONSTANTS MaxOps, MaxNp, MaxNd, Bug, ZoomAuto
VARIABLES s, n, last, lastErr, readOK

vars == << s, n, last, lastErr, readOK >>
\* (automatic down-sampling settings are the class default; ZoomAuto selects them)
InitObj0 == [InitObj EXCEPT !.zoomAuto = ZoomAuto]
\* two initial states: a new object, and an object on which every input was set once (so that
\* MaxOps calls reach set_up / compute / change / set_up / compute histories)
Configured == [InitObj0 EXCEPT !.act = 1, !.att = 1, !.tmpl = 1, !.energy = 1, !.nd = MaxNd, !.geo = 1, !.out = 1]
Init == s \in {InitObj0, Configured} /\ n = 0 /\ last = "New" /\ lastErr = FALSE /\ readOK = TRUE

\* (every action is written out so that TLC's coverage names it)
SetAct == /\ n < MaxOps /\ n' = n + 1 /\ last' = "SetAct" /\ lastErr' = FALSE /\ UNCHANGED readOK
          /\ s' = IF Bug = "actkeep" THEN [s EXCEPT !.act = @ + 1, !.asu = FALSE] ELSE SetActOp(s)
SetAtt == /\ n < MaxOps /\ n' = n + 1 /\ last' = "SetAtt" /\ lastErr' = FALSE /\ UNCHANGED readOK
          /\ s' = SetAttOp(s)
SetSp == /\ n < MaxOps /\ n' = n + 1 /\ last' = "SetSp" /\ lastErr' = FALSE /\ UNCHANGED readOK
         /\ \E k \in 1..MaxNp : s' = SetSpOp(s, k)
Downsample == /\ n < MaxOps /\ n' = n + 1 /\ last' = "Downsample" /\ lastErr' = DownsampleErr(s) /\ UNCHANGED readOK
              /\ \E k \in 1..MaxNp : s' = DownsampleOp(s, k)
SetTmpl == /\ n < MaxOps /\ n' = n + 1 /\ last' = "SetTmpl" /\ lastErr' = FALSE /\ UNCHANGED readOK
           /\ \E d \in 1..MaxNd : s' = SetTmplOp(s, d, s.tmpl + 1)
SetEnergy == /\ n < MaxOps /\ n' = n + 1 /\ last' = "SetEnergy" /\ lastErr' = FALSE /\ UNCHANGED readOK
             /\ s' = IF Bug = "asukeep" THEN [s EXCEPT !.energy = @ + 1] ELSE SetEnergyOp(s)
SetCache == /\ n < MaxOps /\ n' = n + 1 /\ lastErr' = FALSE /\ UNCHANGED readOK
            /\ \E b \in BOOLEAN :
                 /\ last' = IF b = s.useCache THEN "SetCacheSame" ELSE "SetCache"
                 /\ s' = IF Bug = "toggle" THEN [s EXCEPT !.useCache = b] ELSE SetCacheOp(s, b)
SetThr == /\ n < MaxOps /\ n' = n + 1 /\ last' = "SetThr" /\ lastErr' = FALSE /\ UNCHANGED readOK
          /\ s' = SetThrOp(s)
SetRnd == /\ n < MaxOps /\ n' = n + 1 /\ last' = "SetRnd" /\ lastErr' = FALSE /\ UNCHANGED readOK
          /\ \E b \in BOOLEAN : s' = SetRndOp(s, b)
SetZoom == /\ n < MaxOps /\ n' = n + 1 /\ last' = "SetZoom" /\ lastErr' = FALSE /\ UNCHANGED readOK
           /\ s' = SetZoomOp(s)
DsScanner == /\ n < MaxOps /\ n' = n + 1 /\ last' = "SetTmpl" /\ lastErr' = FALSE /\ UNCHANGED readOK
             /\ s.tmpl > 0 /\ \E d \in 1..MaxNd : s' = DownsampleScannerOp(s, d, s.tmpl + 1)
DsImages == /\ n < MaxOps /\ n' = n + 1 /\ last' = (IF s.act = 0 /\ s.att = 0 THEN "DsImagesNone" ELSE "DsImages")
            /\ lastErr' = DownsampleImagesErr(s) /\ UNCHANGED readOK
            /\ s' = DownsampleImagesOp(s)
SetOut == /\ n < MaxOps /\ n' = n + 1 /\ last' = "SetOut" /\ lastErr' = FALSE /\ UNCHANGED readOK
          /\ s.tmpl > 0 /\ s' = SetOutOp(s)
SetUp == /\ n < MaxOps /\ n' = n + 1 /\ last' = "SetUp" /\ lastErr' = SetUpErr(s) /\ UNCHANGED readOK
         /\ \E k \in 1..MaxNp :
              s' = IF Bug = "effkeep" /\ ~SetUpErr(s) THEN [SetUpOp(s, k) EXCEPT !.eff = s.eff]
                   \* set_up as the code does it: derives only if there is no image, never re-samples
                   ELSE IF Bug = "codesetup" THEN SetUpCodeOp(s, k)
                   ELSE SetUpOp(s, k)
Compute == \E R \in (SUBSET Entries(s)) \ { {} } :
             /\ n < MaxOps /\ n' = n + 1 /\ last' = "Compute" /\ lastErr' = ComputeErr(s)
             /\ s' = ComputeOp(s, R, R)
             /\ readOK' = IF ComputeErr(s) THEN readOK ELSE ReadsValid(s, R, R)
\* process_data on an object without scatter points / detectors: only the error path exists
ComputeNone == /\ Entries(s) = {} /\ n < MaxOps /\ n' = n + 1 /\ last' = "Compute" /\ lastErr' = ComputeErr(s)
               /\ s' = ComputeOp(s, {}, {}) /\ readOK' = IF ComputeErr(s) THEN readOK ELSE ReadsValid(s, {}, {})

Next == SetAct \/ SetAtt \/ SetSp \/ Downsample \/ SetTmpl \/ SetEnergy \/ SetCache \/ SetOut \/ SetUp \/ Compute \/ ComputeNone
        \/ SetThr \/ SetRnd \/ SetZoom \/ DsScanner \/ DsImages
Spec == Init /\ [][Next]_vars

ChangingSetters == {"SetAct", "SetAtt", "SetSp", "SetTmpl", "SetEnergy", "SetCache", "SetThr", "SetRnd", "SetZoom", "DsImages"}
\* "every Compute after SetUp reads only valid cache entries" (hence result = fresh object's)
InvValid == s.asu => AllValid(s)
InvReads == readOK
\* "setters always clear alreadySetUp"
InvSetter == (last \in ChangingSetters \/ (last = "Downsample" /\ ~lastErr)) => ~s.asu
\* "Compute before SetUp => error"; a successful Compute means the object was set up
InvErr == (last = "Compute" /\ ~lastErr) => (s.asu /\ s.out = s.geo /\ ~SetUpErr(s) /\ s.spImg # 0)
InvSetUp == (last = "SetUp" /\ ~lastErr) => (s.asu /\ s.spImg # 0 /\ Usable(s))
=============================================================================
