----------------------------- MODULE MC_Scatter -----------------------------
(* Exhaustive check of Scatter.tla: every history of at most MaxOps public   *)
(* calls on one simulation object (9 setters, set_up, process_data) with     *)
(* MaxNp scatter points x MaxNd detectors.  Bug # "none" replaces one setter *)
(* by a version that forgets an invalidation: those configurations MUST      *)
(* violate an invariant (the model is not vacuous).                          *)
EXTENDS Scatter
CONSTANTS MaxOps, MaxNp, MaxNd, Bug
VARIABLES s, n, last, lastErr, readOK

vars == << s, n, last, lastErr, readOK >>
\* two initial states: a new object, and an object on which every input was set once (so that
\* MaxOps calls reach set_up / compute / change / set_up / compute histories)
Configured == [InitObj EXCEPT !.act = 1, !.att = 1, !.tmpl = 1, !.energy = 1, !.nd = MaxNd, !.geo = 1, !.out = 1]
Init == s \in {InitObj, Configured} /\ n = 0 /\ last = "New" /\ lastErr = FALSE /\ readOK = TRUE

Step(name, t, err) == /\ n < MaxOps /\ n' = n + 1 /\ s' = t /\ last' = name /\ lastErr' = err /\ UNCHANGED readOK

SetAct == Step("SetAct", IF Bug = "actkeep" THEN [s EXCEPT !.act = @ + 1, !.asu = FALSE] ELSE SetActOp(s), FALSE)
SetAtt == Step("SetAtt", SetAttOp(s), FALSE)
SetSp == \E k \in 1..MaxNp : Step("SetSp", SetSpOp(s, k), FALSE)
Downsample == \E k \in 1..MaxNp : Step("Downsample", DownsampleOp(s, k), DownsampleErr(s))
SetTmpl == \E d \in 1..MaxNd : Step("SetTmpl", SetTmplOp(s, d, s.tmpl + 1), FALSE)
SetEnergy == Step("SetEnergy", IF Bug = "asukeep" THEN [s EXCEPT !.energy = @ + 1] ELSE SetEnergyOp(s), FALSE)
SetCache == \E b \in BOOLEAN :
              Step(IF b = s.useCache THEN "SetCacheSame" ELSE "SetCache",
                   IF Bug = "toggle" THEN [s EXCEPT !.useCache = b] ELSE SetCacheOp(s, b), FALSE)
SetOut == s.tmpl > 0 /\ Step("SetOut", SetOutOp(s), FALSE)
SetUp == \E k \in 1..MaxNp :
           Step("SetUp", IF Bug = "effkeep" /\ ~SetUpErr(s) THEN [SetUpOp(s, k) EXCEPT !.eff = s.eff] ELSE SetUpOp(s, k), SetUpErr(s))
Compute == \E R \in (SUBSET Entries(s)) \ { {} } :
             /\ n < MaxOps /\ n' = n + 1 /\ last' = "Compute" /\ lastErr' = ComputeErr(s)
             /\ s' = ComputeOp(s, R, R)
             /\ readOK' = IF ComputeErr(s) THEN readOK ELSE ReadsValid(s, R, R)
\* process_data on an object without scatter points / detectors: only the error path exists
ComputeNone == /\ Entries(s) = {} /\ n < MaxOps /\ n' = n + 1 /\ last' = "Compute" /\ lastErr' = ComputeErr(s)
               /\ s' = ComputeOp(s, {}, {}) /\ readOK' = IF ComputeErr(s) THEN readOK ELSE ReadsValid(s, {}, {})

Next == SetAct \/ SetAtt \/ SetSp \/ Downsample \/ SetTmpl \/ SetEnergy \/ SetCache \/ SetOut \/ SetUp \/ Compute \/ ComputeNone
Spec == Init /\ [][Next]_vars

ChangingSetters == {"SetAct", "SetAtt", "SetSp", "SetTmpl", "SetEnergy", "SetCache"}
\* "every Compute after SetUp reads only valid cache entries" (hence result = fresh object's)
InvValid == s.asu => AllValid(s)
InvReads == readOK
\* "setters always clear alreadySetUp"
InvSetter == (last \in ChangingSetters \/ (last = "Downsample" /\ ~lastErr)) => ~s.asu
\* "Compute before SetUp => error"; a successful Compute means the object was set up
InvErr == (last = "Compute" /\ ~lastErr) => (s.asu /\ s.out = s.geo /\ ~SetUpErr(s) /\ s.spImg # 0)
InvSetUp == (last = "SetUp" /\ ~lastErr) => (s.asu /\ s.spImg # 0 /\ Usable(s))
=============================================================================
