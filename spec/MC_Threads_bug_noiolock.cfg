SPECIFICATION Spec
CONSTANTS NT = 2 NI = 2 NK = 1 NC = 2 Bug = "noiolock"
INVARIANTS InvMutex InvUse InvFilledOnce InvFlagLast InvCache InvOneInsert InvNothingLost InvIO InvItems InvResult InvThisCallOnly InvLocksFree InvWhole InvGuard
CHECK_DEADLOCK TRUE
