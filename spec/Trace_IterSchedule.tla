------------------------- MODULE Trace_IterSchedule -------------------------
(* Trace validation for C06 (schedules).  One line = one complete run of a real iterative     *)
(* reconstruction (OSMAPOSLReconstruction / OSSPSReconstruction driving a recording objective  *)
(* function): the subset numbers handed to the objective function, in order.  Runs are          *)
(* independent, so all unexplained lines are collected.                                         *)
EXTENDS TraceLib, FiniteSets
VARIABLES l, bad
\* only the state-independent definitions of IterSchedule are used here (LegalRun, OncePerFullIteration, ...);
\* MC_IterSchedule shows that the state machine produces exactly such runs
IS == INSTANCE IterSchedule WITH g <- [N |-> 1], subiter <- 1, perm <- << >>, block <- << >>, hist <- << >>, crashed <- FALSE
LegalRun(gg, q) == IS!LegalRun(gg, q)
OncePerFullIteration(gg, q) == IS!OncePerFullIteration(gg, q)
LegalSched(gg) == IS!LegalSched(gg)
SubiterAt(gg, i) == IS!SubiterAt(gg, i)
ExpectedEvents(h) == IS!ExpectedEvents(h)
ExpectedFiles(h, p, kp) == IS!ExpectedFiles(h, p, kp)
SetupMustFail(h) == IS!SetupMustFail(h)

SchedOf(r) == [N |-> r.used, startSubset |-> r.startSubset, startSubiter |-> r.startSubiter,
               numSubiters |-> r.numSubiters, randomise |-> r.randomise]
FirstOf(r) == [N |-> r.reuseN, startSubset |-> 0, startSubiter |-> 1, numSubiters |-> 2 * r.reuseN, randomise |-> r.randomise]

RunOk(r) ==
  LET gg == SchedOf(r) IN
  \* a crash inside the reconstruction is never a legal behaviour
  /\ ~r.abort
  \* "Number of subsets requested ..., but actual number used is ...": the reconstruction uses the number the objective function accepted
  /\ r.used = r.objN /\ r.used >= 1 /\ r.used <= r.N
  \* an earlier complete reconstruction on the same object (history) is itself a legal run
  /\ r.reuseN > 0 => (LegalRun(FirstOf(r), r.first) /\ OncePerFullIteration(FirstOf(r), r.first))
  /\ IF r.startSubset >= r.used
     THEN \* set_up: "Range error in starting subset (has to be between 0 and num_subsets-1)"
          r.err /\ ~r.setupOk /\ Len(r.subsets) = 0
     ELSE /\ ~r.err /\ r.setupOk
          /\ LegalSched(gg)
          /\ LegalRun(gg, r.subsets)
          /\ OncePerFullIteration(gg, r.subsets)
          /\ Len(r.subiters) = Len(r.subsets) /\ Len(r.nsub) = Len(r.subsets)
          /\ \A i \in 1 .. Len(r.subsets) : r.subiters[i] = SubiterAt(gg, i) /\ r.nsub[i] = r.used

(* ---------------------------------------------------------------------------------------- *)
(* Beyond the property sentence ("uniformly randomise subset order"): the random order is not degenerate.  One    *)
(* randomised run of `iters' full iterations; perms = the distinct orders seen (as numbers in base N), pos[p][s] =  *)
(* how often subset s-1 was used at position p of a full iteration.  Stated so that a correct uniform shuffle fails   *)
(* with probability < 1e-9: for N <= 3 and iters >= 400 every one of the N! orders occurs ((5/6)^400 * 6 < 1e-30);   *)
(* for N <= 6 and iters >= 400 every subset occurs at every position (36 * (5/6)^400 < 1e-29).                       *)
RECURSIVE Fact(_)
Fact(n) == IF n <= 1 THEN 1 ELSE n * Fact(n - 1)
RandStatsOk(r) ==
  /\ ~r.abort /\ ~r.err /\ r.iters >= 400 /\ r.N <= 6
  /\ Len(r.pos) = r.N /\ \A p \in 1 .. r.N : Len(r.pos[p]) = r.N /\ \A s \in 1 .. r.N : r.pos[p][s] >= 1
  /\ r.N <= 3 => Cardinality({ r.perms[i] : i \in 1 .. Len(r.perms) }) = Fact(r.N)

(* ---------------------------------------------------------------------------------------- *)
(* "EventRun": one reconstruction through the parameter-less reconstruct() with a recording      *)
(* objective function, recording (identity) inter-update / inter-iteration / post filters and a   *)
(* recording output file format: the complete sequence of events [kind, sub-iteration, x, value].  *)
KindName(n) == CASE n = 1 -> "G" [] n = 2 -> "IU" [] n = 3 -> "WU" [] n = 4 -> "R" [] n = 5 -> "II" [] n = 6 -> "PF" [] n = 7 -> "W" [] OTHER -> "?"
HOf(r) == [algo |-> r.algo, N |-> r.used, startSubset |-> r.startSubset, startSubiter |-> r.startSubiter, numSubiters |-> r.numSubiters,
           randomise |-> r.randomise, save |-> r.save, iuInt |-> r.iuInt, hasIU |-> r.hasIU, iiInt |-> r.iiInt, hasII |-> r.hasII,
           hasPF |-> r.hasPF, report |-> r.report, writeUpdate |-> r.writeUpdate, disableOutput |-> r.disableOutput]
EventRunOk(r) ==
  LET h == HOf(r)
      proj == [i \in 1 .. Len(r.ev) |-> << KindName(r.ev[i][1]), r.ev[i][2] >>]
      gs == SelectSeq(r.ev, LAMBDA e : e[1] = 1)
      subsets == [i \in 1 .. Len(gs) |-> gs[i][3]] IN
  /\ ~r.abort /\ r.used = r.N
  /\ IF SetupMustFail(h)
     THEN \* set_up must refuse these settings, before anything is computed or written
          r.err /\ Len(r.ev) = 0 /\ Len(r.disk) = 0
     ELSE /\ ~r.err /\ r.setupOk
          \* which sub-iterations trigger what, in which order (start..num inclusive)
          /\ proj = ExpectedEvents(h)
          \* the subsets handed over are a legal run (property sentence)
          /\ LegalRun(h, subsets) /\ OncePerFullIteration(h, subsets)
          \* file names: <prefix>_<k> and <prefix>_update_<k>
          /\ \A i \in 1 .. Len(r.ev) :
               /\ r.ev[i][1] = 7 => r.files[r.ev[i][3]] = IS!FileOfW(r.prefix, r.ev[i][2])
               /\ r.ev[i][1] = 3 => r.files[r.ev[i][3]] = IS!FileOfWU(r.prefix, r.ev[i][2])
          \* what is on disk afterwards: exactly the announced files
          /\ { r.disk[i] : i \in 1 .. Len(r.disk) } = ExpectedFiles(h, r.prefix, r.kprefix)
          /\ Len(r.disk) = Cardinality(ExpectedFiles(h, r.prefix, r.kprefix))
          \* resuming: the first sub-iteration of a run started from the file written after sub-iteration `resume' of an
          \* earlier run sees exactly what that file contained (observation against observation)
          /\ (r.resume > 0 /\ Len(gs) > 0) => (gs[1][2] = r.resume + 1 /\ gs[1][4] = r.prevVal)
          \* (OSMAPOSL / OSSPS) what is written after sub-iteration k is what sub-iteration k+1 starts from
          /\ r.algo \in {"OSMAPOSL", "OSSPS"} =>
                \A i \in 1 .. Len(r.ev) : \A j \in 1 .. Len(r.ev) :
                   (r.ev[i][1] = 7 /\ r.ev[j][1] = 1 /\ r.ev[j][2] = r.ev[i][2] + 1) => r.ev[j][4] = r.ev[i][4]

(* "RandStats": how often each permutation / each (position, subset) occurred in a long randomised run - see below *)
Explains(r) == CASE r.e = "SchedRun" -> RunOk(r) [] r.e = "EventRun" -> EventRunOk(r) [] r.e = "RandStats" -> RandStatsOk(r) [] OTHER -> FALSE
Classify(r) == "new"

Init == l = 1 /\ bad = << >>
Next == /\ l <= Len(TraceLog)
        /\ LET r == TraceLog[l] IN
           bad' = IF Explains(r) THEN bad ELSE IF Len(bad) < 500 THEN Append(bad, << l, Classify(r) >>) ELSE bad
        /\ l' = l + 1
TSpec == Init /\ [][Next]_<< l, bad >>

Done == l > Len(TraceLog) => (bad = << >> \/ PrintT(<< "UNEXPLAINED", bad >>))
Consumed == IF TLCGet("stats").diameter - 1 = Len(TraceLog) THEN TRUE
            ELSE PrintT(<< "REJECTED_AT", TLCGet("stats").diameter >>) /\ FALSE
=============================================================================
