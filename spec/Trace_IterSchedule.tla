------------------------- MODULE Trace_IterSchedule -------------------------
(* Trace validation for C06 (schedules).  One line = one complete run of a real iterative     *)
(* reconstruction (OSMAPOSLReconstruction / OSSPSReconstruction driving a recording objective  *)
(* function): the subset numbers handed to the objective function, in order.  Runs are          *)
(* independent, so all unexplained lines are collected.                                         *)
EXTENDS TraceLib, FiniteSets
VARIABLES l, bad
\* only the state-independent definitions of IterSchedule are used here (LegalRun, OncePerFullIteration, ...);
\* MC_IterSchedule shows that the state machine produces exactly such runs
IS == INSTANCE IterSchedule WITH g <- [N |-> 1], subiter <- 1, perm <- << >>, block <- << >>, hist <- << >>, crashed <- FALSE
LegalRun(gg, q) == IS!LegalRun(gg, q)
OncePerFullIteration(gg, q) == IS!OncePerFullIteration(gg, q)
LegalSched(gg) == IS!LegalSched(gg)
SubiterAt(gg, i) == IS!SubiterAt(gg, i)

SchedOf(r) == [N |-> r.used, startSubset |-> r.startSubset, startSubiter |-> r.startSubiter,
               numSubiters |-> r.numSubiters, randomise |-> r.randomise]
FirstOf(r) == [N |-> r.reuseN, startSubset |-> 0, startSubiter |-> 1, numSubiters |-> 2 * r.reuseN, randomise |-> r.randomise]

RunOk(r) ==
  LET gg == SchedOf(r) IN
  \* a crash inside the reconstruction is never a legal behaviour
  /\ ~r.abort
  \* "Number of subsets requested ..., but actual number used is ...": the reconstruction uses the number the objective function accepted
  /\ r.used = r.objN /\ r.used >= 1 /\ r.used <= r.N
  \* an earlier complete reconstruction on the same object (history) is itself a legal run
  /\ r.reuseN > 0 => (LegalRun(FirstOf(r), r.first) /\ OncePerFullIteration(FirstOf(r), r.first))
  /\ IF r.startSubset >= r.used
     THEN \* set_up: "Range error in starting subset (has to be between 0 and num_subsets-1)"
          r.err /\ ~r.setupOk /\ Len(r.subsets) = 0
     ELSE /\ ~r.err /\ r.setupOk
          /\ LegalSched(gg)
          /\ LegalRun(gg, r.subsets)
          /\ OncePerFullIteration(gg, r.subsets)
          /\ Len(r.subiters) = Len(r.subsets) /\ Len(r.nsub) = Len(r.subsets)
          /\ \A i \in 1 .. Len(r.subsets) : r.subiters[i] = SubiterAt(gg, i) /\ r.nsub[i] = r.used

Explains(r) == CASE r.e = "SchedRun" -> RunOk(r) [] OTHER -> FALSE
Classify(r) == "new"

Init == l = 1 /\ bad = << >>
Next == /\ l <= Len(TraceLog)
        /\ LET r == TraceLog[l] IN
           bad' = IF Explains(r) THEN bad ELSE IF Len(bad) < 500 THEN Append(bad, << l, Classify(r) >>) ELSE bad
        /\ l' = l + 1
TSpec == Init /\ [][Next]_<< l, bad >>

Done == l > Len(TraceLog) => (bad = << >> \/ PrintT(<< "UNEXPLAINED", bad >>))
Consumed == IF TLCGet("stats").diameter - 1 = Len(TraceLog) THEN TRUE
            ELSE PrintT(<< "REJECTED_AT", TLCGet("stats").diameter >>) /\ FALSE
=============================================================================
