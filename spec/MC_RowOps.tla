----------------------------- MODULE MC_RowOps -----------------------------
(* All histories of at most MaxLen operations on two rows over a tiny voxel  *)
(* set, with a FUNCTIONAL model of each operation (what an implementation    *)
(* would do); the invariants check it against the relational contract of     *)
(* RowOps.tla: after merge no voxel appears twice, voxels are the union,     *)
(* values add up, the total is conserved; sort keeps the multiset.           *)
EXTENDS RowOps, TLC
CONSTANTS MaxLen, MaxElems
VARIABLES a, b, n, last     \* last: [op, a0, b0] the operation just applied and the rows before it

Vox == { <<0, 0, 0>>, <<0, 0, 1>>, <<0, 1, 0>>, <<1, 0, 0>> }
Elem(x, v) == [vox |-> x, v |-> v]
\* insertion sort by coordinates / merge of two strictly sorted rows (functional models)
RECURSIVE Insert(_, _)
Insert(e, s) == IF s = << >> THEN << e >> ELSE IF VoxLess(e.vox, Head(s).vox) THEN << e >> \o s ELSE << Head(s) >> \o Insert(e, Tail(s))
RECURSIVE SortF(_)
SortF(s) == IF s = << >> THEN << >> ELSE Insert(Head(s), SortF(Tail(s)))
RECURSIVE MergeF(_, _)
MergeF(s, t) == IF s = << >> THEN t ELSE IF t = << >> THEN s
                ELSE IF Head(s).vox = Head(t).vox THEN << Elem(Head(s).vox, Head(s).v + Head(t).v) >> \o MergeF(Tail(s), Tail(t))
                ELSE IF VoxLess(Head(s).vox, Head(t).vox) THEN << Head(s) >> \o MergeF(Tail(s), t)
                ELSE << Head(t) >> \o MergeF(s, Tail(t))
RECURSIVE Sum(_)
Sum(s) == IF s = << >> THEN 0 ELSE Head(s).v + Sum(Tail(s))

Init == a = << >> /\ b = << >> /\ n = 0 /\ last = [op |-> "init", a0 |-> << >>, b0 |-> << >>]
Did(op) == n < MaxLen /\ n' = n + 1 /\ last' = [op |-> op, a0 |-> a, b0 |-> b]
PushA == \E x \in Vox, v \in 1..2 : Len(a) < MaxElems /\ a' = Append(a, Elem(x, v)) /\ b' = b /\ Did("push")
PushB == \E x \in Vox, v \in 1..2 : Len(b) < MaxElems /\ b' = Append(b, Elem(x, v)) /\ a' = a /\ Did("push")
SortA == a' = SortF(a) /\ b' = b /\ Did("sort")
EraseB == b' = << >> /\ a' = a /\ Did("erase")
EraseAtA == \E i \in 1..Len(a) : a' = SubSeq(a, 1, i - 1) \o SubSeq(a, i + 1, Len(a)) /\ b' = b /\ Did("eraseat")
Merge == MergePre(a, b) /\ a' = MergeF(SortF(a), SortF(b)) /\ b' = SortF(b) /\ Did("merge")
ScaleA == a' = [i \in 1..Len(a) |-> Elem(a[i].vox, 2 * a[i].v)] /\ b' = b /\ Did("scale")
Next == PushA \/ PushB \/ SortA \/ EraseB \/ EraseAtA \/ Merge \/ ScaleA
Spec == Init /\ [][Next]_<<a, b, n, last>>

InvSort == last.op = "sort" => IsSort(last.a0, a)
\* "This makes sure that in the result, no duplicate coordinates occur" - and nothing is lost
InvMerge == last.op = "merge" => /\ IsMerge(last.a0, last.b0, a, b) /\ NoDup(a)
                                  /\ Sum(a) = Sum(last.a0) + Sum(last.b0)
InvScale == last.op = "scale" => IsScale(last.a0, 2, a)
InvErase == last.op = "erase" => IsErase(b)
InvEraseAt == last.op = "eraseat" => \E i \in 1..Len(last.a0) : IsEraseAt(last.a0, i, a)
=============================================================================
