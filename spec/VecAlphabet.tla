----------------------------- MODULE VecAlphabet -----------------------------
(* C11 -- the operation alphabets of the bounded-exhaustive checks (shared by  *)
(* MC_VecAbstract, MC_VecImpl and, through the ndjson file written by          *)
(* MC_VecAbstract, by the driver that steps the real classes).                 *)
EXTENDS Integers
CONSTANTS WNeg, WHi,  \* index window -WNeg..WHi
          K,          \* cells of the external memory block
          Full2       \* TRUE: slot 2 has the full alphabet too
WLo == -WNeg
RangesNE == { r \in (WLo..WHi) \X (WLo..WHi) : r[1] <= r[2] }
Op(k, t, a, b) == [k |-> k, t |-> t, a |-> a, b |-> b]

AlphabetOf(t) ==
     { Op(k, t, 0, 0) : k \in {"Default", "Copy", "Move", "Assign", "Recycle", "VAdd", "VSub", "VMul", "VDiv", "XapybV", "BAdd", "BSub"} }
  \cup { Op("Construct", t, r[1], r[2]) : r \in RangesNE \cup { << WHi, WLo >> } }
  \cup { Op("View", t, r[1], r[2]) : r \in { q \in RangesNE : q[2] - q[1] + 1 <= K /\ q[1] <= 0 } }
  \cup { Op("Resize", t, r[1], r[2]) : r \in RangesNE \cup { << 0, -1 >> } }
  \cup { Op("GrowBy", t, r[1], r[2]) : r \in { << 1, 0 >>, << 0, 1 >>, << 1, 1 >> } }
  \cup { Op("Reserve", t, r[1], r[2]) : r \in { << WLo - 1, WHi >>, << WLo, WHi + 1 >>, << 0, 0 >> } }
  \cup { Op("SetOffset", t, a, 0) : a \in { WLo, 0, WHi } }
  \cup { Op("Fill", t, 7, 0), Op("Iota", t, 1, 0), Op("RIota", t, 1, 0) }
  \cup { Op("SetAt", t, i, 9) : i \in { 0, WHi + 1 } }
  \cup { Op("GetAt", t, i, 0) : i \in { 0, WLo - 1 } }
  \cup { Op("Set", t, 1, 8), Op("Get", t, 1, 0), Op("PtrSet", t, 0, 6) }
  \cup { Op("SAdd", t, 1, 0), Op("SSub", t, 1, 0), Op("SMul", t, 2, 0), Op("SDiv", t, 2, 0), Op("Sapyb", t, 2, 3) }
  \* several operands, one position at a time with an incompatible range (a = position, b = variant)
  \cup { Op("XapybM", t, 0, 0), Op("XapybM", t, 1, 2), Op("XapybM", t, 2, 3), Op("XapybM", t, 3, 1), Op("XapybM", t, 4, 2) }
  \cup { Op("XapybSM", t, 0, 0), Op("XapybSM", t, 1, 3), Op("XapybSM", t, 2, 2) }
  \cup { Op("SapybM", t, 1, 4), Op("SapybM", t, 2, 1), Op("SapybM", t, 3, 2) }
  \cup { Op("VOpM", t, 0, 2), Op("VOpM", t, 2, 1), Op("VOpM", t, 1, 3), Op("BOpM", t, 0, 4), Op("BOpM", t, 3, 2) }
ReducedOf(t) ==
     { Op(k, t, 0, 0) : k \in {"Assign", "Move"} }
  \cup { Op("Construct", t, r[1], r[2]) : r \in { << WLo, WLo + 1 >>, << 0, WHi >>, << WLo, WHi >> } }
  \cup { Op("View", t, r[1], r[2]) : r \in { << 0, K - 1 >>, << WLo, WLo >> } }
  \cup { Op("Resize", t, r[1], r[2]) : r \in { << 0, 0 >>, << WLo + 1, WHi >> } }
  \cup { Op("Iota", t, 1, 0), Op("Fill", t, 0, 0) }
FullAlphabet == AlphabetOf(1) \cup (IF Full2 THEN AlphabetOf(2) ELSE ReducedOf(2))
            \cup { Op("Swap", 1, 0, 0), Op("SelfAssign", 1, 0, 0), Op("MemSet", 1, 1, 5), Op("MemSet", 1, K, 4) }
\* the operations that touch the range / capacity bookkeeping, for histories one step longer
CoreAlphabet ==
     { Op(k, 1, 0, 0) : k \in {"Copy", "Move", "Assign", "Recycle", "VAdd", "VMul"} }
  \cup { Op("Construct", 1, r[1], r[2]) : r \in { << WLo, 0 >>, << 0, WHi >>, << WLo, WHi >>, << 0, 0 >> } }
  \cup { Op("View", 1, r[1], r[2]) : r \in { << WLo, WLo + K - 1 >>, << 0, 0 >> } }
  \cup { Op("Resize", 1, r[1], r[2]) : r \in { << 0, 0 >>, << WLo, 0 >>, << 0, WHi >>, << WHi, WHi >>, << WLo, WHi >>, << 0, -1 >> } }
  \cup { Op("GrowBy", 1, 1, 0), Op("GrowBy", 1, 0, 1), Op("Reserve", 1, WLo - 1, WHi), Op("SetOffset", 1, WHi, 0) }
  \cup { Op("Iota", 1, 1, 0), Op("Fill", 1, 7, 0), Op("SetAt", 1, 0, 9), Op("SMul", 1, 2, 0), Op("MemSet", 1, 1, 5) }
  \cup { Op("Construct", 2, WLo, 0), Op("Construct", 2, 0, WHi), Op("View", 2, 0, K - 1), Op("Iota", 2, 1, 0), Op("Assign", 2, 0, 0) }
AlphabetSel(sel) == IF sel = "core" THEN CoreAlphabet ELSE FullAlphabet

=============================================================================
