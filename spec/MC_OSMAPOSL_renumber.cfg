SPECIFICATION SpecR
CONSTANTS MaxLam = 1 NumPatterns = 1 MaxN = 3 MaxIters = 2 Renumber = TRUE Eip = FALSE
INVARIANTS RestartEq
CHECK_DEADLOCK FALSE
