---------------------------- MODULE Trace_Priors ----------------------------
(* Trace validation for C09: every line recorded from the real STIR priors   *)
(* must be explained by Priors.tla.  Lines are independent observations of   *)
(* the current configuration (and current image), so validation collects the *)
(* unexplained lines in `bad' instead of stopping at the first one.          *)
(*                                                                           *)
(* mode "E": integer instances.  Quadratic prior: TLC recomputes value (x4), *)
(*   gradient, every Hessian row, Hessian-times-input and the approximate-   *)
(*   Hessian product from the logged x, weights, kappa, penalisation factor; *)
(*   equality.  RDP: the same against the fixed-point quotient-rule formulas *)
(*   with the tolerance AgreesFix of the specification.                      *)
(* mode "F": dyadic random images, all four priors: relations between        *)
(*   observations (symmetry, row = H e_i, scaling in beta and kappa, uniform  *)
(*   image, locality,                                                        *)
(*   x'Hx >= 0, linearity in the direction, finite-difference brackets).     *)
EXTENDS Priors, TraceLib
VARIABLES l, c, x, bad

NoCfg == [mode |-> "none"]
CfgOf(r) ==
  IF r.mode = "P" THEN [mode |-> "P", prior |-> r.prior, dims |-> r.dims, ctor |-> r.ctor, ready |-> FALSE, kappaOk |-> TRUE]
  ELSE IF r.mode = "R" THEN [mode |-> "R", prior |-> r.prior, dims |-> r.dims, beta8 |-> r.beta8, filter |-> r.filter]
  ELSE IF r.mode = "E"
  THEN [mode |-> "E", prior |-> r.prior, dims |-> r.dims, wr |-> r.wr, w |-> r.w, st |-> Stencil(r.wr, r.w), nb |-> NbTable(r.dims, Stencil(r.wr, r.w)), kappa |-> r.kappa,
        beta |-> r.beta, gamma |-> r.gamma, eps |-> r.eps, convex |-> r.convex,
        sym |-> SymmetricW(r.wr, r.w), cfree |-> CentreFree(r.wr, r.w)]
  ELSE [mode |-> "F", prior |-> r.prior, dims |-> r.dims, wr |-> r.wr, hasKappa |-> r.hasKappa, only2D |-> r.only2D, convex |-> r.convex,
        betaCeil |-> r.betaCeil, betaSign |-> r.betaSign, route |-> r.route, wsum |-> r.wsum, kmax2 |-> r.kmax2,
        sym |-> (r.w4 = <<>> \/ SymmetricW(r.wr, r.w4)), cfree |-> (r.w4 = <<>> \/ CentreFree(r.wr, r.w4))]

Good(r) == ~Has(r, "bad")
N == NVox(c.dims)
SeqSet(s) == { s[i] : i \in 1..Len(s) }

\* the implementation may refuse weights that are not Gibbs weights (and only those)
RejectionOk(r) == /\ Good(r) /\ Len(r.wr) = 3 /\ Len(r.w) = WLen(r.wr)
                  /\ (~SymmetricW(r.wr, r.w) \/ ~CentreFree(r.wr, r.w))

(***************************************************************************)
(* Beyond the property (a): FilterRootPrior, the other registered          *)
(* GeneralisedPrior.  Documented: G_v = beta (lambda_v / F_v - 1) with F   *)
(* the filtered image; the quotient is replaced by M sign(F) sign(lambda), *)
(* M = 1000, unless |lambda| < M |F|; "not a real prior": value 0, not     *)
(* convex, no Hessian.  The filtered image is recorded (kx fractional      *)
(* bits, exact), the gradient with 10 fractional bits.                     *)
(***************************************************************************)
FRConfigOk(r) == /\ r.prior = "frp" /\ ~r.convex /\ r.hessErr /\ r.value1024 = 0
                 /\ r.unsetErr                      \* "Has to be called before using this object"
                 /\ r.filter \in {"none", "median", "scale"}
ExplainsR(r) ==
  CASE r.e = "FRGrad" ->
         /\ Good(r) /\ ~r.err /\ r.resf = 0 /\ r.k = 10 /\ Len(r.x) = N /\ Len(r.f) = N /\ Len(r.g) = N
         /\ \A i \in 1..N : FRGradOk(c.beta8, c.filter, r.x[i], r.f[i], r.g[i])
         \* "the gradient vanishes for uniform images" (a median of equal values is that value)
         /\ (r.uniform /\ c.filter = "median" => \A i \in 1..N : r.g[i] = 0)
    [] OTHER -> FALSE

(***************************************************************************)
(* Beyond the property (b): the set-up protocol of GeneralisedPrior and    *)
(* the parameter files.  "set_up: Has to be called before using this       *)
(* object"; check(): "The prior should already be set-up", and the kappa   *)
(* image "should have identical dimensions to the image for which the      *)
(* penalty is computed".  State: ready (set_up done and not invalidated),  *)
(* kappaOk (the kappa image matches the image of the calls).               *)
(***************************************************************************)
ExplainsP(r) ==
  CASE r.e = "SetUp" -> ~r.err
    [] r.e \in {"SetKappa", "SetWeights", "SetBeta"} -> TRUE
    [] r.e = "Call" -> r.fn \in {"value", "gradient", "hessian", "htimes", "happrox"} /\ (r.err <=> CallMustFail(c, r.fn))
    \* an object that was used for images of another voxel size and set up again answers like a fresh object
    \* (default weights are a function of the grid spacing of the image)
    [] r.e = "Fresh" -> Good(r) /\ ~r.setUpErr /\ ~r.errUsed /\ ~r.errFresh /\ r.va = r.vb /\ r.ga = r.gb
    \* parameter text -> object -> parameter_info -> object -> parameter_info: both parse, the two printed forms are
    \* identical, both objects and the object configured through the setters (kappa / anatomical image from memory
    \* instead of from the Interfile images named in the text) give identical value and gradient
    [] r.e = "RoundTrip" -> /\ Good(r) /\ r.ok1 /\ r.ok2 /\ ~r.err1 /\ ~r.err2 /\ ~r.errDirect
                            /\ r.info1 = r.info2 /\ r.v1 = r.v2 /\ r.g1 = r.g2 /\ r.v1 = r.vd /\ r.g1 = r.gd
    [] OTHER -> FALSE

ConfigOk(r) ==
  /\ Good(r)
  /\ Len(r.dims) = 3 /\ \A a \in 1..3 : r.dims[a] >= 1
  /\ IF r.mode = "P" THEN r.e = "New" /\ r.prior \in {"quad", "rdp", "logcosh", "pls"}
     ELSE IF r.mode = "R" THEN FRConfigOk(r)
     ELSE Len(r.wr) = 3 /\ \A a \in 1..3 : r.wr[a] >= 0
  /\ IF r.mode \in {"P", "R"} THEN TRUE
     ELSE IF r.mode = "E"
     THEN /\ r.prior \in {"quad", "rdp", "logcosh"}
          /\ Len(r.w) = WLen(r.wr) /\ \A i \in 1..Len(r.w) : r.w[i] >= 0
          /\ Len(r.kappa) \in {0, NVox(r.dims)} /\ \A i \in 1..Len(r.kappa) : r.kappa[i] >= 0
          /\ r.gamma >= 0 /\ r.eps >= 1
     ELSE /\ r.mode = "F" /\ r.prior \in {"quad", "rdp", "logcosh", "pls"}
          /\ ~r.valueErr /\ r.betaCeil >= 1 /\ r.wsum >= 0 /\ r.kmax2 >= 1
          /\ (r.prior = "logcosh" => r.par1000[3] >= 500)     \* domain of PMax
          /\ r.betaSign \in {-1, 0, 1}
          \* the neighbourhood in use is the configured one: without user weights the object reports the 3x3x3 stencil,
          \* or the 1x3x3 stencil if only_2D was requested -- through the constructor, the parser or the member
          /\ (r.prior # "pls" /\ ~r.userw => r.wr = (IF r.only2D THEN <<0, 1, 1>> ELSE <<1, 1, 1>>))
          /\ Len(r.w4) \in {0, WLen(r.wr)} /\ (r.userw <=> r.w4 # <<>>) /\ \A i \in 1..Len(r.w4) : r.w4[i] >= 0


(***************************************************************************)
(* mode E                                                                  *)
(***************************************************************************)
SparseIs(nz, S) == /\ { <<nz[k][1], nz[k][2]>> : k \in 1..Len(nz) } = S
                   /\ Len(nz) = Cardinality(S)

RCoef(n, i) == c.beta * n[2] * KK(c, i, n[1])
RD3(a, b) == Cube(RD(c, a, b))
RGradAbsK(i) == SumS(Nb(c, i), LAMBDA n : Abs(RCoef(n, i)) * Abs(Fix(Psi1N(c, x[i], x[n[1]]), RD(c, x[i], x[n[1]]) * RD(c, x[i], x[n[1]]), KG)))
RTimesAbsK(v, i) == SumS({ n \in Nb(c, i) : n[1] # i }, LAMBDA n : Abs(RCoef(n, i)) *
                        (Fix(Psi20N(c, x[i], x[n[1]]), RD3(x[i], x[n[1]]), KH) * Abs(v[i]) + Abs(Fix(Psi11N(c, x[i], x[n[1]]), RD3(x[i], x[n[1]]), KH)) * Abs(v[n[1]])))
RTimesWeight(v, i) == SumS({ n \in Nb(c, i) : n[1] # i }, LAMBDA n : Abs(RCoef(n, i)) * (Abs(v[i]) + Abs(v[n[1]])))
\* exact instance: equality; otherwise the fixed-point sum s has its exact value between s and s + w (w = weight of the
\* floor errors, negative for a negative penalisation factor)
WithinX(ex, o, s, w, a) == IF ex THEN o = s ELSE Within(o, Min2(s, s + w), Max2(s, s + w), Abs(a))
Scaled(S, k) == { <<e[1], e[2] * 2^k>> : e \in S }

ExplainsQuad(r) ==
  CASE r.e = "Val" -> ~r.err /\ r.k = 2 /\ r.res = 0 /\ r.m = QValue4(c, x)
    [] r.e = "Grad" -> ~r.err /\ Len(r.g) = N /\ r.k = 0 /\ r.res = 0 /\ \A i \in 1..N : r.g[i] = QGrad(c, x, i)
    [] r.e = "HRow" -> ~r.err /\ r.i \in 1..N /\ r.k = 0 /\ r.res = 0 /\ SparseIs(r.nz, QHessRow(c, r.i))
    [] r.e = "HTimes" -> /\ ~r.err /\ Len(r.out) = N /\ Len(r.v) = N /\ Len(r.o) = N /\ r.k = 0 /\ r.res = 0
                         /\ \A i \in 1..N : r.out[i] = r.o[i] + QHessTimes(c, r.v, i)
    [] r.e = "HApprox" -> /\ ~r.err /\ r.k = 0 /\ r.res = 0 /\ Len(r.out) = N
                          /\ \A i \in 1..N : r.out[i] = r.o[i] + QApproxTimes(c, r.v, i)
    [] OTHER -> FALSE

\* log-cosh on an image without differences between neighbours: zero value and gradient, the quadratic prior's Hessian
ExplainsLogcoshFlat(r) ==
  /\ Flat(c, x)
  /\ CASE r.e = "Val" -> ~r.err /\ r.res = 0 /\ r.m = 0
        [] r.e = "Grad" -> ~r.err /\ Len(r.g) = N /\ r.res = 0 /\ \A i \in 1..N : r.g[i] = 0
        [] r.e = "HRow" -> ~r.err /\ r.i \in 1..N /\ r.k = KH /\ r.res = 0 /\ SparseIs(r.nz, Scaled(QHessRow(c, r.i), KH))
        [] r.e = "HTimes" -> /\ ~r.err /\ Len(r.out) = N /\ Len(r.v) = N /\ Len(r.o) = N /\ r.k = KH /\ r.res = 0
                             /\ \A i \in 1..N : r.out[i] = (r.o[i] + QHessTimes(c, r.v, i)) * 2^KH
        \* LogcoshPrior does not override this call: the base class reports an error
        [] r.e = "HApprox" -> r.err
        [] OTHER -> FALSE

ExplainsRdp(r) ==
  LET ex == RDyadic(c, x) IN
  /\ (ex => r.e = "HApprox" \/ r.res = 0)
  /\ CASE r.e = "Val" ->
             LET s == RValueK(c, x) IN
             ~r.err /\ r.k = KV + 1 /\ WithinX(ex, r.m, s, SumS(Vox(c.dims), LAMBDA i : WeightSum(c, i)), s)
        [] r.e = "Grad" ->
             ~r.err /\ Len(r.g) = N /\ r.k = KG /\ \A i \in 1..N : WithinX(ex, r.g[i], RGradK(c, x, i), WeightSum(c, i), RGradAbsK(i))
        [] r.e = "HRow" ->
             LET nbrs == { n \in Nb(c, r.i) : n[1] # r.i /\ RCoef(n, r.i) # 0 }
                 supp == { n[1] : n \in nbrs } \cup (IF nbrs = {} THEN {} ELSE {r.i}) IN
             /\ ~r.err /\ r.i \in 1..N /\ r.k = KH
             /\ { r.nz[k][1] : k \in 1..Len(r.nz) } = supp /\ Len(r.nz) = Cardinality(supp)
             /\ \A k \in 1..Len(r.nz) :
                  LET j == r.nz[k][1]  m == r.nz[k][2] IN
                  IF j = r.i
                  THEN LET s == RHessDiagK(c, x, r.i) IN WithinX(ex, m, s, WeightSum(c, r.i), s)
                  ELSE LET n == CHOOSE q \in nbrs : q[1] = j
                           s == RHessOffK(c, x, r.i, n) IN
                       WithinX(ex, m, s, RCoef(n, r.i), s)
        [] r.e = "HTimes" ->
             /\ ~r.err /\ Len(r.out) = N /\ Len(r.v) = N /\ Len(r.o) = N /\ r.k = KH
             /\ \A i \in 1..N :
                  LET s == r.o[i] * 2^KH + RHessTimesK(c, x, r.v, i)
                      wt == RTimesWeight(r.v, i) IN
                  IF ex THEN r.out[i] = s ELSE Within(r.out[i], s - wt, s + wt, RTimesAbsK(r.v, i) + Abs(r.o[i]) * 2^KH)
        \* RelativeDifferencePrior documents this call as not implemented (error)
        [] r.e = "HApprox" -> r.err
        [] OTHER -> FALSE

ExplainsE(r) ==
  CASE r.e = "Image" -> Good(r) /\ Len(r.x) = N /\ \A i \in 1..N : r.x[i] >= 0
    [] r.e \in {"Val", "Grad", "HRow", "HTimes", "HApprox"} ->
         /\ Good(r)
         /\ CASE c.prior = "quad" -> ExplainsQuad(r)
              [] c.prior = "rdp" -> ExplainsRdp(r)
              [] c.prior = "logcosh" -> ExplainsLogcoshFlat(r)
              [] OTHER -> FALSE
    \* tuples of observations, judged without any formula of the prior:
    \* "the gradient is the derivative of the value" -- exact central difference of a quadratic function
    [] r.e = "FDE" -> Good(r) /\ c.prior = "quad" /\ r.k = 2 /\ r.res = 0 /\ r.vp - r.vm = 8 * r.g
    \* "a Hessian row is the derivative of the gradient component": g_i(x + e_j) - g_i(x) = H_ij (gradient linear in x)
    [] r.e = "JacE" -> Good(r) /\ c.prior = "quad" /\ r.k = 0 /\ r.res = 0 /\ r.gp - r.g0 = r.h
    \* "The Hessian is symmetric"
    [] r.e = "SymE" -> Good(r) /\ r.hij = r.hji
    [] OTHER -> FALSE

(***************************************************************************)
(* mode F                                                                  *)
(***************************************************************************)
HasHessian == c.prior # "pls"    \* PLSPrior does not override compute_Hessian / accumulate_Hessian_times_input: the base class reports an error

\* sum of n products of fixed-point factors, and the bound on the effect of the two quantisations
Dot(a, b) == SumS(1..Len(a), LAMBDA i : a[i] * b[i])
\* (plus 2^-14 of the sum of the absolute products for the single-precision evaluation of H v)
DotSlack(a, b) == SumS(1..Len(a), LAMBDA i : Abs(a[i]) + Abs(b[i])) \div 2 + Len(a) + SumS(1..Len(a), LAMBDA i : Abs(a[i] * b[i])) \div 16384

\* the voxels within the stencil radii of i (a superset of its neighbours)
NearSet(i) == { j \in 1..N : j # i /\ Near(c.dims, c.wr, i, j) }

FDGApplicable(r) ==
  LET sc == 2^(r.hk - r.xk)
      X(n) == r.x[n] * sc IN       \* image in units of the step h
  /\ r.hk >= r.xk /\ Len(r.x) = N /\ r.i \in 1..N
  /\ IF r.pass = 0
     THEN /\ c.prior \in {"quad", "logcosh"}
          /\ \A k \in 1..Len(r.js) : LET j == r.js[k] IN j # r.i /\ j \in 1..N /\ (c.prior = "quad" \/ X(j) - X(r.i) >= 1 \/ X(j) - X(r.i) <= 0)
     ELSE /\ c.prior \in {"quad", "logcosh", "rdp"}
          /\ r.js = <<r.i>>
          /\ \/ c.prior = "quad"
             \/ \A n \in NearSet(r.i) : X(r.i) >= X(n)
             \/ \A n \in NearSet(r.i) : X(r.i) + 1 <= X(n)

ExplainsF(r) ==
  CASE r.e = "Image" -> Good(r) /\ Len(r.x) = N
    [] r.e = "H" ->
         IF ~HasHessian THEN r.err /\ r.errTimes
         ELSE /\ Good(r) /\ ~r.err /\ r.i \in 1..N
              /\ Cardinality({ r.nz[k][1] : k \in 1..Len(r.nz) }) = Len(r.nz)
              /\ \A k \in 1..Len(r.nz) :
                   LET e == r.nz[k] IN
                   /\ e[1] \in 1..N
                   \* "a single Hessian row equals the Hessian applied to the corresponding unit image"
                   /\ e[2] = e[3]
                   \* "The Hessian is symmetric"
                   /\ e[2] = e[4]
                   \* locality: entries only within the stencil
                   /\ Near(c.dims, c.wr, r.i, e[1])
    \* "value, gradient and Hessian scale linearly with the penalisation factor"
    [] r.e = "ScaleV" -> Good(r) /\ ScaleAgrees(r.a, r.b, r.num, r.den)
    [] r.e = "ScaleG" -> Good(r) /\ Len(r.a) = N /\ Len(r.b) = N /\ \A i \in 1..N : ScaleAgrees(r.a[i], r.b[i], r.num, r.den)
    [] r.e = "ScaleH" -> Good(r) /\ HasHessian /\ Len(r.a) = N /\ Len(r.b) = N /\ \A i \in 1..N : ScaleAgrees(r.a[i], r.b[i], r.num, r.den)
    \* kappa enters as kappa_r kappa_{r+dr} (documented formulas; PLS: kappa_r penalty_r): doubling the kappa image
    \* multiplies value and gradient by 4 (PLS: 2); "if kappa is not set ... use 1 for all kappa's"
    [] r.e = "KScale" -> /\ Good(r) /\ c.hasKappa /\ Len(r.ga) = N /\ Len(r.gb) = N
                         /\ LET f == IF c.prior = "pls" THEN 2 ELSE 4 IN
                            ScaleAgrees(r.va, r.vb, f, 1) /\ \A i \in 1..N : ScaleAgrees(r.ga[i], r.gb[i], f, 1)
    [] r.e = "KOnes" -> Good(r) /\ ~c.hasKappa /\ r.va = r.vb /\ r.ga = r.gb
    \* "the gradient vanishes for uniform images" (recorded at 2^-30: every component is below 2^-31)
    [] r.e = "Uniform" -> Good(r) /\ r.k = 30 /\ r.n = N /\ r.nz = <<>>
    \* the gradient at i does not change when a voxel outside its stencil changes
    [] r.e = "Local" -> Good(r) /\ ~Near(c.dims, c.wr, r.i, r.j) /\ r.a = r.b
    \* "positive semi-definite for priors that declare themselves convex"
    \* (a negative penalisation factor turns the sign by linearity; is_convex() does not look at it)
    [] r.e = "PSD" -> /\ Good(r) /\ HasHessian /\ Len(r.v) = N /\ Len(r.hv) = N
                      /\ (c.convex /\ c.betaSign >= 0 => Dot(r.v, r.hv) >= -DotSlack(r.v, r.hv))
                      /\ (c.convex /\ c.betaSign <= 0 => Dot(r.v, r.hv) <= DotSlack(r.v, r.hv))
    \* H v = sum_i v_i H e_i (integer v)
    [] r.e = "Lin" ->
         /\ Good(r) /\ HasHessian /\ Len(r.v) = N /\ Len(r.hv) = N /\ Len(r.cols) = N
         /\ \A j \in 1..N :
              LET s == SumS(1..N, LAMBDA i : r.v[i] * r.cols[i][j])
                  a == SumS(1..N, LAMBDA i : Abs(r.v[i]) * (Abs(r.cols[i][j]) + 1)) IN
              Abs(r.hv[j] - s) <= 2 + SumS(1..N, LAMBDA i : Abs(r.v[i])) + a \div 32768
    \* "the gradient is the derivative of the value" as far as observations decide it (convex priors)
    [] r.e = "FDV" -> /\ Good(r) /\ c.convex /\ r.i \in 1..N
                      /\ (c.betaSign >= 0 => FDVBracket(c, r))
                      /\ (c.betaSign <= 0 => FDVBracket(c, [r EXCEPT !.g0 = r.g1, !.g1 = r.g0]))     \* concave: the bracket is reversed
    \* PLS with only_2D: differences along z do not enter; an image that varies along z only has penalty alpha at every
    \* voxel, the value is beta * alpha * sum(kappa) exactly (beta, alpha in eighths, kappa in quarters)
    [] r.e = "PLS2D" -> Good(r) /\ c.prior = "pls" /\ c.only2D /\ ~r.err /\ r.k = 8 /\ r.res = 0 /\ r.m = r.b8 * r.a8 * r.ksum4
    \* "the Hessian(-times-vector) is the (directional) derivative of the gradient", unit directions
    [] r.e = "FDG" ->
         /\ Good(r) /\ HasHessian /\ FDGApplicable(r) /\ r.kh = r.kg - r.hk
         /\ Len(r.g0) = Len(r.js) /\ Len(r.g1) = Len(r.js) /\ Len(r.h0) = Len(r.js) /\ Len(r.h1) = Len(r.js)
         /\ \A k \in 1..Len(r.js) : FDGBracket(r.g0[k], r.g1[k], r.h0[k], r.h1[k])
    [] OTHER -> FALSE

Explains(r) == CASE c.mode = "E" -> ExplainsE(r) [] c.mode = "F" -> ExplainsF(r) [] c.mode = "P" -> ExplainsP(r) [] c.mode = "R" -> ExplainsR(r) [] OTHER -> FALSE

\* Known findings (known_findings.jsonl): an unexplained line is attributed to one of them only by the
\* signature below; everything else is "new".
\* C09-plsgrad: PLSPrior::compute_gradient is not the derivative of compute_value at voxels in the first or
\* last plane of an active direction, nor anywhere when a (non-uniform) kappa image is set.  Only the
\* value/gradient finite-difference lines of such voxels are attributed to it; strictly interior voxels
\* without kappa must still satisfy the bracket.
PlsInterior(cc, i) ==
  LET d == cc.dims IN
  /\ CY(d, i) >= 1 /\ CY(d, i) <= d[2] - 2 /\ CX(d, i) >= 1 /\ CX(d, i) <= d[3] - 2
  \* (through the constructor only_2D is currently ignored, C09-ctor2d: the prior then also looks along z)
  /\ ((cc.only2D /\ cc.route # "ctor") \/ (CZ(d, i) >= 1 /\ CZ(d, i) <= d[1] - 2))
\* C09-asymweights: set_weights()/the "weights" keyword accept weights with w[dr] # w[-dr]; the gradient is then
\* not the derivative of the value and the Hessian is not symmetric (MC_Priors, InvA1).
\* C09-centreweight: a non-zero weight at the centre of the stencil is added to the Hessian diagonal
\* (compute_Hessian and accumulate_Hessian_times_input) although value and gradient do not depend on it.
Classify(r, cc) ==
  \* C09-nocheck: RelativeDifferencePrior::accumulate_Hessian_times_input and LogcoshPrior::compute_value / compute_gradient /
  \* accumulate_Hessian_times_input do not call check(): no error before set_up (and no check of the kappa image)
  IF cc.mode = "P" /\ r.e = "Call" /\ ~r.err /\ ~cc.ready /\ cc.kappaOk
     /\ ((cc.prior = "rdp" /\ r.fn = "htimes") \/ (cc.prior = "logcosh" /\ r.fn \in {"value", "gradient", "htimes"})) THEN "C09-nocheck"
  \* C09-uninitsetup: GeneralisedPrior() does not initialise _already_set_up and QuadraticPrior(only_2D, penalisation_factor)
  \* does not call set_defaults(): whether use before set_up is reported depends on the previous content of the storage
  ELSE IF cc.mode = "P" /\ r.e = "Call" /\ ~r.err /\ ~cc.ready /\ cc.kappaOk /\ cc.prior = "quad" /\ cc.ctor = "args" THEN "C09-uninitsetup"
  \* C09-staleweights: the default weights are computed at the first use and kept when the object is set up for an image of
  \* another voxel size
  ELSE IF cc.mode = "P" /\ r.e = "Fresh" /\ cc.prior # "pls" /\ ~r.setUpErr /\ ~r.errUsed /\ ~r.errFresh THEN "C09-staleweights"
  \* C09-medianborder: MedianArrayFilter3D selects the median among the whole mask buffer although border voxels fill only
  \* part of it: the Median Root Prior's gradient does not vanish on uniform images
  ELSE IF cc.mode = "R" /\ r.e = "FRGrad" /\ cc.filter = "median" /\ r.uniform /\ ~r.err /\ r.resf = 0
          /\ (\A i \in 1..NVox(cc.dims) : FRGradOk(cc.beta8, cc.filter, r.x[i], r.f[i], r.g[i])) THEN "C09-medianborder"
  ELSE IF cc.mode = "F" /\ cc.prior = "pls" /\ r.e = "FDV" /\ Has(r, "i") /\ (cc.hasKappa \/ ~PlsInterior(cc, r.i)) THEN "C09-plsgrad"
  \* C09-ctor2d: the constructors RelativeDifferencePrior(only_2D, ...), LogcoshPrior(only_2D, ...), PLSPrior(only_2D, ...)
  \* call set_defaults() after initialising the member, which resets only_2D to false
  ELSE IF r.e = "Config" /\ cc.mode = "F" /\ cc.route = "ctor" /\ cc.only2D /\ cc.prior \in {"rdp", "logcosh"} /\ cc.wr = <<1, 1, 1>> THEN "C09-ctor2d"
  \* (PLS does not report its neighbourhood: the z-dependence shows in the value of a z-ramp and in the locality lines)
  ELSE IF r.e \in {"PLS2D", "Local"} /\ cc.mode = "F" /\ cc.route = "ctor" /\ cc.only2D /\ cc.prior = "pls" THEN "C09-ctor2d"
  ELSE IF cc.mode \in {"E", "F"} /\ ~cc.sym /\ r.e \in {"FDE", "SymE", "H", "FDV", "PSD"} THEN "C09-asymweights"
  ELSE IF cc.mode = "E" /\ ~cc.cfree /\ (r.e \in {"HRow", "HTimes"} \/ (r.e = "JacE" /\ r.i = r.j)) THEN "C09-centreweight"
  ELSE IF cc.mode = "F" /\ ~cc.cfree /\ r.e = "FDG" /\ Has(r, "pass") /\ r.pass >= 1 THEN "C09-centreweight"
  ELSE "new"

Init == l = 1 /\ c = NoCfg /\ x = <<>> /\ bad = <<>>
Next == /\ l <= Len(TraceLog)
        /\ LET r == TraceLog[l] IN
           /\ c' = IF r.e \in {"Config", "New"} THEN CfgOf(r) ELSE IF r.e = "ConfigRejected" THEN NoCfg
                   ELSE IF c.mode = "P" THEN ProtoNext(c, r) ELSE c
           /\ x' = IF r.e \in {"Config", "New"} THEN <<>> ELSE IF r.e = "Image" /\ c.mode # "none" THEN r.x ELSE x
           /\ LET okr == IF r.e \in {"Config", "New"} THEN ConfigOk(r) ELSE IF r.e = "ConfigRejected" THEN RejectionOk(r) ELSE Explains(r)
                  cls == IF okr THEN "ok" ELSE Classify(r, IF r.e \in {"Config", "New"} THEN CfgOf(r) ELSE c) IN
              bad' = IF okr THEN bad
                     ELSE IF cls = "new" THEN (IF Len(SelectSeq(bad, LAMBDA b : b[2] = "new")) < 500 THEN Append(bad, <<l, cls>>) ELSE bad)
                     ELSE (IF Len(SelectSeq(bad, LAMBDA b : b[2] = cls)) < 20 THEN Append(bad, <<l, cls>>) ELSE bad)
        /\ l' = l + 1
Spec == Init /\ [][Next]_<<l, c, x, bad>>

Done == l > Len(TraceLog) => (bad = <<>> \/ PrintT(<<"UNEXPLAINED", bad>>))
Consumed == IF TLCGet("stats").diameter - 1 = Len(TraceLog) THEN TRUE
            ELSE PrintT(<<"REJECTED_AT", TLCGet("stats").diameter>>) /\ FALSE
=============================================================================
