SPECIFICATION Spec
CONSTANTS MaxDepth = 3 MaxN = 3 MaxHistView = 1 HistClassIdx = {1, 2, 3, 4, 5} Fault = "none"
INVARIANTS InvTheorems InvStep InvAccumulated InvOutput
CHECK_DEADLOCK FALSE
