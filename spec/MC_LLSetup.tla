----------------------------- MODULE MC_LLSetup -----------------------------
(* All orders of requests after set-up (and repeated set-ups), for every     *)
(* class of configuration that matters for the set-up bookkeeping:           *)
(*   same      sensitivity uses the same projector (non-TOF data or TOF      *)
(*             sensitivities) or a non-TOF clone                             *)
(*   recompute set_up computes the sensitivities, or they are supplied       *)
(*   init      the flags as the header documents them ("F", initialised) or  *)
(*             indeterminate ("U"), and how an indeterminate flag reads (u)  *)
(* Invariant: no order reads an indeterminate flag, reaches the "internal    *)
(* error" branch, or computes on a set-up other than the one it needs.       *)
(* Variant = "doc" must satisfy it; Variant = "reverted" (the guard of the   *)
(* value path before fix c8fce4c19) must violate it - the check runs both.   *)
EXTENDS LLSetup, TLC
CONSTANTS MaxLen, Variant
VARIABLES f, c, n, last

Configs == [same : BOOLEAN, recompute : BOOLEAN, init : {"F", "U"}, u : BOOLEAN, nsub : 1..2]
Init == /\ c \in Configs
        /\ f = SetUpAll(Fresh(c.init), c.same, c.u, c.recompute, c.nsub)
        /\ n = 0 /\ last = "SetUp"
\* add_subset_sensitivity needs the sensitivity projector, which set_up creates only when it computes sensitivities
Request(kind) == /\ n < MaxLen /\ (kind = "AddSens" => c.recompute)
                 /\ f' = Step(f, kind, c.same, c.u, Variant)
                 /\ n' = n + 1 /\ last' = kind /\ c' = c
SetUpAgain == /\ n < MaxLen
              /\ f' = SetUpAll(f, c.same, c.u, c.recompute, c.nsub)
              /\ n' = n + 1 /\ last' = "SetUp" /\ c' = c
ReqValue == Request("Value")
ReqGrad == Request("Grad")
ReqGradPlusSens == Request("GradPlusSens")
ReqAddSens == Request("AddSens")
ReqApproxHess == Request("ApproxHess")
ReqHessTimes == Request("HessTimes")
ReqSens == Request("Sens")
Next == ReqValue \/ ReqGrad \/ ReqGradPlusSens \/ ReqAddSens \/ ReqApproxHess \/ ReqHessTimes \/ ReqSens \/ SetUpAgain
Spec == Init /\ [][Next]_<<f, c, n, last>>

Inv == Healthy(f)
(* whenever the object believes a set-up is current, the belief is true *)
Belief == /\ (f.dist = "T" /\ f.distOrig # "U") => f.dReal = f.distOrig
          /\ (f.norm = "T" /\ f.normOrig # "U") => f.nReal = f.normOrig
=============================================================================
