----------------------------- MODULE MC_LLSetup -----------------------------
(* All orders of requests after set-up (and repeated set-ups), for every     *)
(* class of configuration that matters for the set-up bookkeeping:           *)
(*   same      sensitivity uses the same projector (non-TOF data or TOF      *)
(*             sensitivities) or a non-TOF clone                             *)
(*   recompute set_up computes the sensitivities, or they are supplied       *)
(*   init      the flags as the header documents them ("F", initialised) or  *)
(*             indeterminate ("U"), and how an indeterminate flag reads (u)  *)
(* Invariant: no order reads an indeterminate flag, reaches the "internal    *)
(* error" branch, or computes on a set-up other than the one it needs.       *)
(* Variant = "doc" must satisfy it; Variant = "reverted" (the guard of the   *)
(* value path before fix c8fce4c19) must violate it - the check runs both.   *)
EXTENDS LLSetup, TLC
CONSTANTS MaxLen, Variant
VARIABLES f, c, n, last, ready, served

Configs == [same : BOOLEAN, recompute : BOOLEAN, init : {"F", "U"}, u : BOOLEAN, nsub : 1..2]
Init == /\ c \in Configs
        /\ f = Fresh(c.init) /\ n = 0 /\ last = "New" /\ ready = FALSE /\ served = FALSE
\* add_subset_sensitivity needs the sensitivity projector, which set_up creates only when it computes sensitivities.
\* While the object is not set up a request is refused (nothing changes); otherwise it is served.
Request(kind) == /\ n < MaxLen /\ (kind = "AddSens" => c.recompute) /\ (kind \in MustRefuse \/ ready)
                 /\ f' = IF ready THEN Step(f, kind, c.same, c.u, Variant) ELSE f
                 /\ served' = ready
                 /\ n' = n + 1 /\ last' = kind /\ UNCHANGED <<c, ready>>
SetUpAgain == /\ n < MaxLen
              /\ f' = SetUpAll(f, c.same, c.u, c.recompute, c.nsub)
              /\ n' = n + 1 /\ last' = "SetUp" /\ ready' = TRUE /\ served' = FALSE /\ c' = c
\* a setter that changes the configuration
Setter == /\ n < MaxLen /\ n' = n + 1 /\ last' = "Setter" /\ served' = FALSE
          /\ ready' = ReadyAfterSetter(ready, "set_normalisation_sptr", TRUE) /\ UNCHANGED <<f, c>>
ReqValue == Request("Value")
ReqGrad == Request("Grad")
ReqGradPlusSens == Request("GradPlusSens")
ReqAddSens == Request("AddSens")
ReqApproxHess == Request("ApproxHess")
ReqHessTimes == Request("HessTimes")
ReqSens == Request("Sens")
Next == ReqValue \/ ReqGrad \/ ReqGradPlusSens \/ ReqAddSens \/ ReqApproxHess \/ ReqHessTimes \/ ReqSens \/ SetUpAgain \/ Setter
Spec == Init /\ [][Next]_<<f, c, n, last, ready, served>>

Inv == Healthy(f)
(* a request is served only between a set_up and the next configuration change *)
Protocol == served => (ready /\ f.dist # "U" /\ f.norm # "U")
(* whenever the object believes a set-up is current, the belief is true *)
Belief == /\ (f.dist = "T" /\ f.distOrig # "U") => f.dReal = f.distOrig
          /\ (f.norm = "T" /\ f.normOrig # "U") => f.nReal = f.normOrig
=============================================================================
