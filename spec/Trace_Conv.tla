----------------------------- MODULE Trace_Conv -----------------------------
(* Trace validation for C19 (filters): every line recorded from STIR's      *)
(* array filters must be explained by Conv.tla.  The lines are independent  *)
(* observations, so validation does not stop at the first unexplained line: *)
(* their numbers are collected in `bad' together with a class (a known      *)
(* finding's id, or "new").                                                 *)
EXTENDS Conv, TraceLib
VARIABLES l, bad

Z3 == <<0, 0, 0>>
A1(lo, v) == Arr(<<0, 0, lo>>, <<1, 1, Len(v)>>, v)
SameVals(s, t) == Len(s) = Len(t) /\ \A q \in 1..Len(s) : s[q] = t[q]

(* ---- ArrayFilter1DUsingConvolution ------------------------------------- *)
C1ok(r) ==
  IF ~Supported(r.bc) THEN r.err          \* an unsupported boundary condition must be refused, not computed as another one
  ELSE /\ ~r.err /\ r.res = 0
       /\ r.inpl => (r.olo = r.dlo /\ Len(r.o) = Len(r.d))
       /\ SameVals(r.o, ConvBC(Along(3, r.klo, r.k), A1(r.dlo, r.d), <<0, 0, r.olo>>, <<1, 1, Len(r.o)>>, r.bc).v)
(* ---- ArrayFilter1DUsingConvolutionSymmetricKernel ---------------------- *)
CSok(r) ==
  /\ ~r.err /\ r.res = 0
  /\ SameVals(r.o, ConvBC(Along(3, SymLo(r.h), SymKernel(r.h)), A1(r.dlo, r.d), <<0, 0, r.dlo>>, <<1, 1, Len(r.d)>>, "zero").v)
(* ---- ArrayFilter2DUsingConvolution / ArrayFilter3DUsingConvolution ----- *)
CNok(r) ==
  /\ ~r.err /\ ~r.crash /\ r.res = 0
  /\ SameVals(r.o, Conv(Arr(r.klo, r.kn, r.k), Arr(r.dlo, r.dn, r.d), r.olo, r.on).v)
(* ---- SeparableArrayFunctionObject / SeparableConvolutionImageFilter ---- *)
\* "separable filters equal the successive one-dimensional filters in any axis order"
SEPok(r) ==
  LET ks == [ax \in Axes |-> [lo |-> r.klo[ax], v |-> r.kv[ax], bc |-> r.bc[ax]]]
      a == Arr(r.dlo, r.dn, r.d) IN
  /\ ~r.crash /\ ~r.err /\ r.res = 0
  /\ \A o \in Orders : SameVals(r.o, SepInOrder(ks, a, o).v)
(* ---- ArrayFilterUsingRealDFTWithPadding -------------------------------- *)
DFok(r) ==
  \E k \in {Arr(r.klo, r.kn, r.k)} : \E a \in {Arr(r.dlo, r.dn, r.d)} : \E tol \in {DFTRouteTol(k, a, r.fk)} :
  LET close(v) == Len(r.o) = Len(v) /\ \A q \in 1..Len(v) : Abs(r.o[q] - v[q] * P2(r.fk)) <= tol IN
  /\ ~r.err
  \* documented behaviour: "Convolution is periodic", kernel and data wrapped to the padded range
  /\ FitsPadding(k, a) => close(PerConv(k, a, r.olo, r.on).v)
  \* beyond the property: data longer than the padded length are copied "using wrap-around" first
  /\ ~FitsPadding(k, a) => close(PerConv(k, Wrapped(a, k.n), r.olo, r.on).v)
  \* the property: "equals direct convolution with the same kernel whenever the padded length is at least
  \* twice the data length so that no wrap-around can occur"
  /\ (FitsPadding(k, a) /\ NoWrap(k, a, r.olo, r.on)) => close(Conv(Centred(k), a, r.olo, r.on).v)
(* ---- SeparableGaussianArrayFilter / SeparableGaussianImageFilter /       *)
(* ---- SeparableMetzArrayFilter (power 0) -------------------------------- *)
\* relative tolerances (as powers of two) on "kernel sums to one" and "preserves the mean":
\* Gaussian: 2^-16, the bound for single-precision accumulation (kernel normalised in double precision, stored in
\* single precision; three passes of at most ~60 multiply-adds each: worst case 3 * 60 * 2^-24 < 2^-16);
\* Metz: the kernel is "cut off" where it falls below 1E-4 of its centre value (documented in the source), so
\* its sum is one only to about 1E-3: 2^-10.
RelLog(filter) == IF filter \in {"metz_array", "metz_image"} THEN 10 ELSE 16
IRNonZero(r) == { q \in 1..Size(r.irn) : r.ir[q] # 0 }
MaxOf(S) == CHOOSE x \in S : \A y \in S : x >= y
HalfWidths(r, nz) == [d \in Axes |-> MaxOf({0} \cup { Abs(Pos(Z3, r.irn, q - 1)[d] - r.ipos[d]) : q \in nz })]
\* the impulse response must lie inside the probe array, otherwise its extent is not known
Clipped(r, nz) == \E d \in Axes :
                    \/ r.irn[d] > 1 /\ \E q \in nz : Pos(Z3, r.irn, q - 1)[d] \in {0, r.irn[d] - 1}
                    \/ r.irn[d] = 1 /\ r.fwhm[d] # 0
Qualifies(r, h, p) == \A d \in Axes : p[d] - h[d] >= r.blo[d] /\ p[d] + h[d] <= r.bhi[d]
MeanShape(r) ==
  /\ Len(r.d) = Size(r.dn) /\ Len(r.o) = Size(r.dn) /\ Len(r.ir) = Size(r.irn)
  /\ \A d \in Axes : r.blo[d] >= r.dlo[d] /\ r.bhi[d] <= r.dlo[d] + r.dn[d] - 1 /\ r.blo[d] <= r.bhi[d]
  \* the recorded input really is constant over the box
  /\ \A q \in 1..Size(r.dn) : LET p == Pos(r.dlo, r.dn, q - 1) IN
        (\A d \in Axes : p[d] >= r.blo[d] /\ p[d] <= r.bhi[d]) => r.d[q] = r.c
\* (bounded quantification over a singleton makes TLC evaluate the bound value once instead of at every use)
MEANok(r) ==
  /\ ~r.err
  /\ MeanShape(r)
  /\ \E nz \in {IRNonZero(r)} : \E h \in {HalfWidths(r, nz)} : \E target \in {r.c * P2(r.fk - r.sd)} :
     LET unit == P2(r.irk) IN
         /\ ~Clipped(r, nz)
         \* a direction with FWHM 0 is not filtered (beyond the property text; the parameters belong to their axes)
         /\ \A d \in Axes : r.fwhm[d] = 0 => h[d] = 0
         \* the impulse response of a Gaussian / Metz filter is symmetric about the impulse (exactly: both
         \* sides are the same stored coefficient)
         /\ \A q \in nz : LET p == Pos(Z3, r.irn, q - 1)
                                m == [d \in Axes |-> 2 * r.ipos[d] - p[d]] IN
                            r.ir[Off(Arr(Z3, r.irn, r.ir), m)] = r.ir[q]
         \* "filters whose kernel sums to one (Gaussian, Metz at zero power)" (beyond the property text: every Metz power,
         \* "M(0) = 1" in the class documentation)
         /\ Abs(Sum([q \in 1..Size(r.irn) |-> r.ir[q]]) - unit) <= unit \div P2(RelLog(r.filter)) + Cardinality(nz)
         \* "preserve the mean of data that is constant over the kernel support"
         /\ \E q \in 1..Size(r.dn) : Qualifies(r, h, Pos(r.dlo, r.dn, q - 1))
         /\ \A q \in 1..Size(r.dn) : Qualifies(r, h, Pos(r.dlo, r.dn, q - 1)) =>
                 Abs(r.o[q] - target) <= 1 + target \div P2(RelLog(r.filter))

(* ======================= beyond the property text ======================== *)
(* ---- MedianArrayFilter3D / MedianImageFilter3D / MinimalArrayFilter3D --- *)
MedExpected(r, a) == IF r.kind = "median" THEN Median2Filter(a, r.r).v ELSE MinimalFilter(a, r.r).v
MedOutputOk(r) == \E a \in {Arr(r.dlo, r.dn, r.d)} : ~r.err /\ r.res = 0 /\ SameVals(r.o, MedExpected(r, a))
\* "Should return true when the operations won't modify the object at all"
MedTrivialOk(r) == r.trivial => MaskIsIdentity(r.r)
MEDok(r) == MedOutputOk(r) /\ MedTrivialOk(r)
(* ---- ThresholdMinToSmallPositiveValueDataProcessor ----------------------- *)
\* results are logged exactly as mantissa * 2^exponent (mantissa odd or 0)
RECURSIVE OddPart(_), TwoExp(_)
OddPart(v) == IF v = 0 THEN 0 ELSE IF v % 2 = 0 THEN OddPart(v \div 2) ELSE v
TwoExp(v) == IF v = 0 THEN 0 ELSE IF v % 2 = 0 THEN 1 + TwoExp(v \div 2) ELSE 0
\* mantissa * 2^e = v * 2^-sd
SameNumber(m, e, v, sd) == m = OddPart(v) /\ (v = 0 \/ e = TwoExp(v) - sd)
\* tau = m * 2^e is v * 2^-sd * 10^-6 within 2^-9 (10^6 = 2^6 * 15625; 14 leading bits of the mantissa are used)
RECURSIVE Bits(_)
Bits(v) == IF v = 0 THEN 0 ELSE 1 + Bits(v \div 2)
NearMillionth(m, e, v, sd) ==
  \E sh \in {IF Bits(m) > 14 THEN Bits(m) - 14 ELSE 0} :
  \E lhs \in {(m \div P2(sh)) * 15625} :           \* tau * 10^6 = lhs * 2^(e + sh + 6)
  \E d \in {(-sd) - (e + sh + 6)} :               \* v * 2^-sd = (v * 2^d) * 2^(e + sh + 6)
    /\ m > 0 /\ d >= 0 /\ Bits(v) + d <= 30
    /\ Abs(lhs - v * P2(d)) <= lhs \div 512
THRok(r) ==
  \E n \in {Len(r.d)} :
  /\ ~r.err /\ Len(r.om) = n /\ Len(r.oe) = n /\ n = Size(r.dn) /\ n > 0
  /\ \E pos \in {{ i \in 1..n : r.d[i] > 0 }} : \E neg \in {{ i \in 1..n : r.d[i] <= 0 }} :
     IF pos # {}
     THEN \E m \in {CHOOSE v \in { r.d[i] : i \in pos } : \A i \in pos : v <= r.d[i]} :
          \* "Thresholds the sequence from below to *min_positive_element()*small_number"
          /\ \A i \in pos : SameNumber(r.om[i], r.oe[i], r.d[i], r.sd)
          /\ \A i \in neg : r.om[i] = r.om[CHOOSE j \in neg : TRUE] /\ r.oe[i] = r.oe[CHOOSE j \in neg : TRUE]
          /\ neg # {} => NearMillionth(r.om[CHOOSE j \in neg : TRUE], r.oe[CHOOSE j \in neg : TRUE], m, r.sd)
     \* "if all values are less than or equal to 0, they are set to small_number" (0.000001F)
     ELSE /\ \A i \in 1..n : r.om[i] = r.om[1] /\ r.oe[i] = r.oe[1]
          /\ NearMillionth(r.om[1], r.oe[1], 1, 0)
(* ---- TruncateToCylindricalFOVImageProcessor ------------------------------ *)
TRUNCok(r) == /\ ~r.err /\ r.res = 0
              /\ SameVals(r.o, TruncateFOV(Arr(r.dlo, r.dn, r.d), r.rim, r.strict).v)
(* ---- ChainedDataProcessor: "calls 2 DataProcessors in sequence" ----------- *)
\* r.seq: the recorded result of applying the same processors one after the other by hand
ChainComposes(r) == ~r.err /\ r.res = 0 /\ Len(r.o) = Size(r.dn) /\ SameVals(r.o, r.seq)
CHAINok(r) == /\ ChainComposes(r)
              /\ SameVals(r.o, ApplyChain(r.stages, Arr(r.dlo, r.dn, r.d)).v)
(* ---- in_place_apply_array_function_on_1st_index / apply_array_function_on_1st_index ---- *)
\* "Apply a function object on all possible 1d arrays extracted by keeping all indices fixed, except the first one"
ON1ok(r) ==
  \E ax \in {4 - r.dim} : \E a \in {Arr(r.dlo, r.dn, r.d)} :
  /\ ~r.err /\ r.res = 0
  /\ \A d \in Axes : d # ax => (r.olo[d] = r.dlo[d] /\ r.on[d] = r.dn[d])
  /\ SameVals(r.o, ConvBC(Along(ax, r.klo, r.k), a, r.olo, r.on, r.bc).v)
(* ---- in_place_abs / in_place_log / in_place_exp --------------------------- *)
\* abs: exact.  log, exp: TLC evaluates no transcendental function; the elementwise results must satisfy the
\* functional equations on the dyadic data chosen: log(1) = 0, log(2^j m) = log(m) + j log(2) (log(2) and log(m)
\* being other recorded results), exp(0) = 1, exp(a + 1) = exp(a) exp(1), exp(a) exp(-a) = 1, both monotone
\* round(ln 2 * 2^20), round(e * 2^20)
Ln2Fx20 == 726817
EFx20 == 2850325
IndexOf(s, v) == CHOOSE i \in 1..Len(s) : s[i] = v
Occurs(s, v) == \E i \in 1..Len(s) : s[i] = v
ELTok(r) ==
  \E n \in {Len(r.x)} :
  /\ ~r.err /\ n = Size(r.n) /\ Len(r.o) = n
  /\ CASE r.fn = "abs" -> r.res = 0 /\ \A i \in 1..n : r.o[i] = Abs(r.x[i])
       [] r.fn = "log" ->
            \E one \in {P2(r.sx)} :
            /\ \A i \in 1..n : r.x[i] > 0
            /\ Occurs(r.x, one) /\ Occurs(r.x, 2 * one)
            /\ \E l2 \in {r.o[IndexOf(r.x, 2 * one)]} :
               /\ r.o[IndexOf(r.x, one)] = 0
               \* the natural logarithm: ln 2 = 0.693147... (the one constant that fixes the base)
               /\ Abs(l2 * P2(20 - r.fk) - Ln2Fx20) <= P2(20 - r.fk) + 2
               /\ \A i \in 1..n : \E m \in {OddPart(r.x[i])} : \E j \in {TwoExp(r.x[i]) - r.sx} :
                    \* the odd part itself (times the unit) is among the data
                    /\ Occurs(r.x, m * one)
                    /\ Abs(r.o[i] - (r.o[IndexOf(r.x, m * one)] + j * l2)) <= 2 + Abs(j) + Abs(r.o[i]) \div P2(20)
               /\ \A i, j \in 1..n : r.x[i] < r.x[j] => r.o[i] <= r.o[j]
       [] r.fn = "exp" ->
            \* data are integers (sx = 0) in -4..4; rounding of the logged values: half a unit each
            /\ r.sx = 0 /\ r.fk <= 10 /\ \A i \in 1..n : Abs(r.x[i]) <= 4 /\ r.o[i] > 0
            /\ Occurs(r.x, 0) /\ Occurs(r.x, 1)
            /\ r.o[IndexOf(r.x, 0)] = P2(r.fk)
            \* e = 2.718281... (the one constant that fixes the base)
            /\ Abs(r.o[IndexOf(r.x, 1)] * P2(20 - r.fk) - EFx20) <= P2(20 - r.fk) + 2
            /\ \E e1 \in {r.o[IndexOf(r.x, 1)]} : \E one \in {P2(r.fk)} :
               \A i \in 1..n :
                 /\ Occurs(r.x, r.x[i] + 1) =>
                      \E nxt \in {r.o[IndexOf(r.x, r.x[i] + 1)]} :
                         Abs(r.o[i] * e1 - nxt * one) <= e1 + r.o[i] + one + (nxt * one) \div P2(12)
                 /\ Occurs(r.x, -r.x[i]) =>
                      \E inv \in {r.o[IndexOf(r.x, -r.x[i])]} :
                         Abs(r.o[i] * inv - one * one) <= r.o[i] + inv + (one * one) \div P2(12)
            /\ \A i, j \in 1..n : r.x[i] < r.x[j] => r.o[i] < r.o[j]
       [] OTHER -> FALSE
(* ---- RampFilter (FBP2D): real, even, no DC (discrete relations only) ------- *)
\* the kernel is "the ramp*Hanning in ordinary space in continuous form, sampled": h is the recorded response to a unit
\* impulse over one period, h[n] for n = -L/2 .. L/2-1 (sequence index n + L/2 + 1), logged as round(v 2^hk).
\* Even: h[-n] = h[n].  The continuous ramp has no DC and sampling at cut-off <= 1/2 adds none, so the sum of all
\* samples is 0 and the sum over one period is the neglected tail: |sum| <= 4/L.  For the plain ramp (alpha = 1,
\* cut-off 1/2) the samples are h[0] = pi/2, h[n] = 0 (n even), h[n] = -2/(pi n^2) (n odd):
\* without pi: n^2 h[n] = h[1] and h[0] h[1] = -1.
RAMPok(r) ==
  \E L \in {r.L} : \E h \in {[n \in (-(r.L \div 2))..(r.L \div 2 - 1) |-> r.h[n + r.L \div 2 + 1]]} : \E one \in {P2(r.hk)} :
  /\ ~r.err /\ Len(r.h) = L /\ L >= 4
  /\ \A n \in 1..(L \div 2 - 1) : Abs(h[n] - h[-n]) <= 2 + one \div P2(16)
  /\ Abs(Sum([i \in 1..L |-> r.h[i]])) * L <= 4 * one + L * L
  /\ (r.alpha = 1024 /\ r.fc = 512) =>
       /\ \A n \in 1..(L \div 2 - 1) : n % 2 = 0 => Abs(h[n]) <= 2 + one \div P2(16)
       /\ \A n \in 1..Min2(L \div 2 - 1, 15) : n % 2 = 1 => Abs(n * n * h[n] - h[1]) <= n * n * 2 + one \div P2(14)
       /\ Abs((h[0] \div 256) * (h[1] \div 256) + P2(2 * r.hk - 16)) * 1024 <= P2(2 * r.hk - 16)
(* ---- parameter_info() -> parse(): "same filter" ---------------------------- *)
\* the filter rebuilt from the text the first one prints gives the same output (both recorded)
RTok(r) == /\ ~r.err /\ r.parsed
           /\ Len(r.o1) = Size(r.dn) /\ SameVals(r.o1, r.o2)

Explains(r) ==
  CASE r.e = "C1" -> C1ok(r)
    [] r.e = "CS" -> CSok(r)
    [] r.e = "CN" -> CNok(r)
    [] r.e = "SEP" -> SEPok(r)
    [] r.e = "DF" -> DFok(r)
    [] r.e = "MEAN" -> MEANok(r)
    [] r.e = "MED" -> MEDok(r)
    [] r.e = "THR" -> THRok(r)
    [] r.e = "TRUNC" -> TRUNCok(r)
    [] r.e = "CHAIN" -> CHAINok(r)
    [] r.e = "ON1" -> ON1ok(r)
    [] r.e = "ELT" -> ELTok(r)
    [] r.e = "RAMP" -> RAMPok(r)
    [] r.e = "RT" -> RTok(r)
    [] OTHER -> FALSE

(* Known findings (known_findings.jsonl): an unexplained line is attributed to one only by the       *)
(* finding's exact signature; everything else is "new".                                             *)
\* C19-trivialnd: ArrayFilter2D/3DUsingConvolution::is_trivial looks only at the first index range and at
\* element [0]..[0]: a kernel whose first index range is 0..0 is taken for the identity whenever that
\* element (existing or not) is 1 - the output is the input - or the read outside the kernel crashes
TrivialND(r) ==
  LET ax == 4 - r.dim
      k == Arr(r.klo, r.kn, r.k) IN
  /\ r.e = "CN" /\ Size(r.kn) > 0 /\ r.klo[ax] = 0 /\ r.kn[ax] = 1
  /\ ~(Size(r.kn) = 1 /\ r.klo = Z3)
  /\ \/ r.crash /\ ~InRange(k, Z3)
     \/ /\ ~r.crash /\ ~r.err /\ (InRange(k, Z3) => k.v[Off(k, Z3)] = P2(r.sk))
        /\ SameVals(r.o, [q \in 1..Size(r.on) |-> P2(r.sk) * Conv(Identity, Arr(r.dlo, r.dn, r.d), r.olo, r.on).v[q]])
\* C19-metztrunc: SeparableMetzArrayFilter truncates its kernel to max_kernel_size without renormalising:
\* the filter then scales constant data by the sum of the truncated kernel
MetzTrunc(r) ==
  /\ r.e = "MEAN" /\ r.filter = "metz_array" /\ ~r.err /\ MeanShape(r)
  /\ \E nz \in {IRNonZero(r)} : \E h \in {HalfWidths(r, nz)} : \E target \in {r.c * P2(r.fk - r.sd)} :
     \E s \in {Sum([q \in 1..Size(r.irn) |-> r.ir[q]])} :
     \E scaled \in {((target \div 64) * (s \div 1024)) \div 256} :     \* target * s / 2^24
         /\ ~Clipped(r, nz)
         /\ \E d \in Axes : r.mk[d] > 0 /\ r.fwhm[d] > 0 /\ h[d] = (r.mk[d] \div 2) - 1
         /\ \A q \in 1..Size(r.dn) : Qualifies(r, h, Pos(r.dlo, r.dn, q - 1)) =>
                 Abs(r.o[q] - scaled) <= 2 + target \div 256
\* C19-realinv2: inverse_fourier_for_real_data refuses arrays whose last dimension has (real) length 2, so the
\* padded-DFT filter cannot be used with a padded length of 2 in the last dimension
RealInv2(r) == r.e = "DF" /\ r.err /\ r.kn[3] = 2
\* C19-sepparse-empty: since 532e517b9 the SeparableConvolutionImageFilter coefficient constructor stores {0} as the
\* parsing coefficients of a direction that has no kernel; a filter parsed from its parameter_info() then
\* multiplies by 0 in that direction (output all zero) instead of not filtering it
SepParseEmpty(r) ==
  /\ r.e = "SEP" /\ r.via = 5 /\ ~r.err /\ ~r.crash /\ r.res = 0
  /\ \E ax \in Axes : Len(r.kv[ax]) = 0
  /\ Len(r.o) = Size(r.dn) /\ \A q \in 1..Len(r.o) : r.o[q] = 0
\* C19-median-border: MedianArrayFilter3D::do_it partitions the whole scratch array (nth_element(..., neighbours.end()))
\* instead of the neighbours found, and for an even count takes an arbitrary smaller element as the lower middle one:
\* voxels whose mask sticks out of the image get a median polluted by stale values; voxels with the whole mask inside
\* the image are right
FullMask(r, p) == \A d \in Axes : p[d] - r.r[d] >= r.dlo[d] /\ p[d] + r.r[d] <= r.dlo[d] + r.dn[d] - 1
MedianBorder(r) ==
  /\ r.e = "MED" /\ r.kind = "median" /\ ~r.err /\ r.res = 0 /\ Len(r.o) = Size(r.dn)
  /\ \E a \in {Arr(r.dlo, r.dn, r.d)} : \E ex \in {Median2Filter(a, r.r).v} :
       \A q \in 1..Size(r.dn) : FullMask(r, Pos(r.dlo, r.dn, q - 1)) => r.o[q] = ex[q]
\* C19-mask-trivial: MedianArrayFilter3D / MinimalArrayFilter3D::is_trivial() return "no radius equals 1" instead of
\* "all radii are 0"
MaskTrivialDefect(r) == r.e = "MED" /\ r.trivial = (r.r[1] # 1 /\ r.r[2] # 1 /\ r.r[3] # 1)
Classify(r) ==
  IF ~Has(r, "e") THEN "new"
  ELSE IF r.e = "MED" /\ MedOutputOk(r) /\ MaskTrivialDefect(r) THEN "C19-mask-trivial"
  ELSE IF r.e = "MED" /\ MedianBorder(r) /\ (MedTrivialOk(r) \/ MaskTrivialDefect(r)) THEN "C19-median-border"
  \* C19-chain-empty: a ChainedDataProcessor whose two processors are both null does nothing in the 2-argument apply():
  \* the output keeps its previous content (the driver's fill value 777) instead of becoming the input
  ELSE IF r.e = "CHAIN" /\ ~r.err /\ r.via = 1 /\ Len(r.o) = Size(r.dn)
          /\ (\/ r.shape = 0 /\ r.stages[1].t = "none" /\ r.stages[2].t = "none"
              \/ r.shape = 1 /\ r.stages[2].t = "none" /\ r.stages[3].t = "none"
              \/ r.shape = 2 /\ r.stages[1].t = "none" /\ r.stages[2].t = "none")
          \* (a later processor then works on the empty temporary image instead: all zero)
          /\ (\A q \in 1..Len(r.o) : r.o[q] = r.o[1])
          /\ (IF r.shape = 2 THEN r.o[1] = 0 ELSE r.o[1] # 0 /\ r.o[1] % 777 = 0) THEN "C19-chain-empty"
  \* a chain that contains a median stage with a non-zero radius inherits C19-median-border
  \* (the composition itself must be right: the chain gives what the stages give one after the other)
  ELSE IF r.e = "CHAIN" /\ ChainComposes(r) /\ (\E i \in 1..Len(r.stages) : r.stages[i].t = "median" /\ r.stages[i].r # <<0, 0, 0>>) THEN "C19-median-border"
  ELSE IF r.e = "SEP" /\ SepParseEmpty(r) THEN "C19-sepparse-empty"
  ELSE IF r.e = "CN" /\ TrivialND(r) THEN "C19-trivialnd"
  ELSE IF r.e = "MEAN" /\ MetzTrunc(r) THEN "C19-metztrunc"
  ELSE IF r.e = "DF" /\ RealInv2(r) THEN "C19-realinv2"
  \* not a verdict: the probe array was too small to show the whole impulse response (driver problem)
  ELSE IF r.e = "MEAN" /\ ~r.err /\ MeanShape(r) /\ Clipped(r, IRNonZero(r)) THEN "undecided"
  ELSE "new"

Init == l = 1 /\ bad = <<>>
Next == /\ l <= Len(TraceLog)
        /\ LET r == TraceLog[l]
               cls == IF Explains(r) THEN "ok" ELSE Classify(r) IN
           bad' = IF cls = "ok" THEN bad ELSE Append(bad, <<l, cls>>)
        /\ l' = l + 1
Spec == Init /\ [][Next]_<<l, bad>>

Done == l > Len(TraceLog) => (bad = <<>> \/ PrintT(<<"UNEXPLAINED", bad>>))
Consumed == IF TLCGet("stats").diameter - 1 = Len(TraceLog) THEN TRUE
            ELSE PrintT(<<"REJECTED_AT", TLCGet("stats").diameter>>) /\ FALSE
=============================================================================
