----------------------------- MODULE Trace_Conv -----------------------------
(* Trace validation for C19 (filters): every line recorded from STIR's      *)
(* array filters must be explained by Conv.tla.  The lines are independent  *)
(* observations, so validation does not stop at the first unexplained line: *)
(* their numbers are collected in `bad' together with a class (a known      *)
(* finding's id, or "new").                                                 *)
EXTENDS Conv, TraceLib
VARIABLES l, bad

Z3 == <<0, 0, 0>>
A1(lo, v) == Arr(<<0, 0, lo>>, <<1, 1, Len(v)>>, v)
SameVals(s, t) == Len(s) = Len(t) /\ \A q \in 1..Len(s) : s[q] = t[q]

(* ---- ArrayFilter1DUsingConvolution ------------------------------------- *)
C1ok(r) ==
  IF ~Supported(r.bc) THEN r.err          \* an unsupported boundary condition must be refused, not computed as another one
  ELSE /\ ~r.err /\ r.res = 0
       /\ r.inpl => (r.olo = r.dlo /\ Len(r.o) = Len(r.d))
       /\ SameVals(r.o, ConvBC(Along(3, r.klo, r.k), A1(r.dlo, r.d), <<0, 0, r.olo>>, <<1, 1, Len(r.o)>>, r.bc).v)
(* ---- ArrayFilter1DUsingConvolutionSymmetricKernel ---------------------- *)
CSok(r) ==
  /\ ~r.err /\ r.res = 0
  /\ SameVals(r.o, ConvBC(Along(3, SymLo(r.h), SymKernel(r.h)), A1(r.dlo, r.d), <<0, 0, r.dlo>>, <<1, 1, Len(r.d)>>, "zero").v)
(* ---- ArrayFilter2DUsingConvolution / ArrayFilter3DUsingConvolution ----- *)
CNok(r) ==
  /\ ~r.err /\ ~r.crash /\ r.res = 0
  /\ SameVals(r.o, Conv(Arr(r.klo, r.kn, r.k), Arr(r.dlo, r.dn, r.d), r.olo, r.on).v)
(* ---- SeparableArrayFunctionObject / SeparableConvolutionImageFilter ---- *)
\* "separable filters equal the successive one-dimensional filters in any axis order"
SEPok(r) ==
  LET ks == [ax \in Axes |-> [lo |-> r.klo[ax], v |-> r.kv[ax], bc |-> r.bc[ax]]]
      a == Arr(r.dlo, r.dn, r.d) IN
  /\ ~r.crash /\ ~r.err /\ r.res = 0
  /\ \A o \in Orders : SameVals(r.o, SepInOrder(ks, a, o).v)
(* ---- ArrayFilterUsingRealDFTWithPadding -------------------------------- *)
DFok(r) ==
  \E k \in {Arr(r.klo, r.kn, r.k)} : \E a \in {Arr(r.dlo, r.dn, r.d)} : \E tol \in {DFTRouteTol(k, a, r.fk)} :
  LET close(v) == Len(r.o) = Len(v) /\ \A q \in 1..Len(v) : Abs(r.o[q] - v[q] * P2(r.fk)) <= tol IN
  /\ ~r.err
  \* documented behaviour: "Convolution is periodic", kernel and data wrapped to the padded range
  /\ FitsPadding(k, a) => close(PerConv(k, a, r.olo, r.on).v)
  \* the property: "equals direct convolution with the same kernel whenever the padded length is at least
  \* twice the data length so that no wrap-around can occur"
  /\ (FitsPadding(k, a) /\ NoWrap(k, a, r.olo, r.on)) => close(Conv(Centred(k), a, r.olo, r.on).v)
(* ---- SeparableGaussianArrayFilter / SeparableGaussianImageFilter /       *)
(* ---- SeparableMetzArrayFilter (power 0) -------------------------------- *)
\* relative tolerances (as powers of two) on "kernel sums to one" and "preserves the mean":
\* Gaussian: 2^-16, the bound for single-precision accumulation (kernel normalised in double precision, stored in
\* single precision; three passes of at most ~60 multiply-adds each: worst case 3 * 60 * 2^-24 < 2^-16);
\* Metz: the kernel is "cut off" where it falls below 1E-4 of its centre value (documented in the source), so
\* its sum is one only to about 1E-3: 2^-10.
RelLog(filter) == IF filter = "metz_array" THEN 10 ELSE 16
IRNonZero(r) == { q \in 1..Size(r.irn) : r.ir[q] # 0 }
MaxOf(S) == CHOOSE x \in S : \A y \in S : x >= y
HalfWidths(r, nz) == [d \in Axes |-> MaxOf({0} \cup { Abs(Pos(Z3, r.irn, q - 1)[d] - r.ipos[d]) : q \in nz })]
\* the impulse response must lie inside the probe array, otherwise its extent is not known
Clipped(r, nz) == \E d \in Axes :
                    \/ r.irn[d] > 1 /\ \E q \in nz : Pos(Z3, r.irn, q - 1)[d] \in {0, r.irn[d] - 1}
                    \/ r.irn[d] = 1 /\ r.fwhm[d] # 0
Qualifies(r, h, p) == \A d \in Axes : p[d] - h[d] >= r.blo[d] /\ p[d] + h[d] <= r.bhi[d]
MeanShape(r) ==
  /\ Len(r.d) = Size(r.dn) /\ Len(r.o) = Size(r.dn) /\ Len(r.ir) = Size(r.irn)
  /\ \A d \in Axes : r.blo[d] >= r.dlo[d] /\ r.bhi[d] <= r.dlo[d] + r.dn[d] - 1 /\ r.blo[d] <= r.bhi[d]
  \* the recorded input really is constant over the box
  /\ \A q \in 1..Size(r.dn) : LET p == Pos(r.dlo, r.dn, q - 1) IN
        (\A d \in Axes : p[d] >= r.blo[d] /\ p[d] <= r.bhi[d]) => r.d[q] = r.c
\* (bounded quantification over a singleton makes TLC evaluate the bound value once instead of at every use)
MEANok(r) ==
  /\ ~r.err
  /\ MeanShape(r)
  /\ \E nz \in {IRNonZero(r)} : \E h \in {HalfWidths(r, nz)} : \E target \in {r.c * P2(r.fk - r.sd)} :
     LET unit == P2(r.irk) IN
         /\ ~Clipped(r, nz)
         \* "filters whose kernel sums to one (Gaussian, Metz at zero power)"
         /\ Abs(Sum([q \in 1..Size(r.irn) |-> r.ir[q]]) - unit) <= unit \div P2(RelLog(r.filter)) + Cardinality(nz)
         \* "preserve the mean of data that is constant over the kernel support"
         /\ \E q \in 1..Size(r.dn) : Qualifies(r, h, Pos(r.dlo, r.dn, q - 1))
         /\ \A q \in 1..Size(r.dn) : Qualifies(r, h, Pos(r.dlo, r.dn, q - 1)) =>
                 Abs(r.o[q] - target) <= 1 + target \div P2(RelLog(r.filter))

Explains(r) ==
  CASE r.e = "C1" -> C1ok(r)
    [] r.e = "CS" -> CSok(r)
    [] r.e = "CN" -> CNok(r)
    [] r.e = "SEP" -> SEPok(r)
    [] r.e = "DF" -> DFok(r)
    [] r.e = "MEAN" -> MEANok(r)
    [] OTHER -> FALSE

(* Known findings (known_findings.jsonl): an unexplained line is attributed to one only by the       *)
(* finding's exact signature; everything else is "new".                                             *)
\* C19-trivialnd: ArrayFilter2D/3DUsingConvolution::is_trivial looks only at the first index range and at
\* element [0]..[0]: a kernel whose first index range is 0..0 is taken for the identity whenever that
\* element (existing or not) is 1 - the output is the input - or the read outside the kernel crashes
TrivialND(r) ==
  LET ax == 4 - r.dim
      k == Arr(r.klo, r.kn, r.k) IN
  /\ r.e = "CN" /\ Size(r.kn) > 0 /\ r.klo[ax] = 0 /\ r.kn[ax] = 1
  /\ ~(Size(r.kn) = 1 /\ r.klo = Z3)
  /\ \/ r.crash /\ ~InRange(k, Z3)
     \/ /\ ~r.crash /\ ~r.err /\ (InRange(k, Z3) => k.v[Off(k, Z3)] = P2(r.sk))
        /\ SameVals(r.o, [q \in 1..Size(r.on) |-> P2(r.sk) * Conv(Identity, Arr(r.dlo, r.dn, r.d), r.olo, r.on).v[q]])
\* C19-metztrunc: SeparableMetzArrayFilter truncates its kernel to max_kernel_size without renormalising:
\* the filter then scales constant data by the sum of the truncated kernel
MetzTrunc(r) ==
  /\ r.e = "MEAN" /\ r.filter = "metz_array" /\ ~r.err /\ MeanShape(r)
  /\ \E nz \in {IRNonZero(r)} : \E h \in {HalfWidths(r, nz)} : \E target \in {r.c * P2(r.fk - r.sd)} :
     \E s \in {Sum([q \in 1..Size(r.irn) |-> r.ir[q]])} :
     \E scaled \in {((target \div 64) * (s \div 1024)) \div 256} :     \* target * s / 2^24
         /\ ~Clipped(r, nz)
         /\ \E d \in Axes : r.mk[d] > 0 /\ r.fwhm[d] > 0 /\ h[d] = (r.mk[d] \div 2) - 1
         /\ \A q \in 1..Size(r.dn) : Qualifies(r, h, Pos(r.dlo, r.dn, q - 1)) =>
                 Abs(r.o[q] - scaled) <= 2 + target \div 256
\* C19-realinv2: inverse_fourier_for_real_data refuses arrays whose last dimension has (real) length 2, so the
\* padded-DFT filter cannot be used with a padded length of 2 in the last dimension
RealInv2(r) == r.e = "DF" /\ r.err /\ r.kn[3] = 2
\* C19-sepparse-empty: since 532e517b9 the SeparableConvolutionImageFilter coefficient constructor stores {0} as the
\* parsing coefficients of a direction that has no kernel; a filter parsed from its parameter_info() then
\* multiplies by 0 in that direction (output all zero) instead of not filtering it
SepParseEmpty(r) ==
  /\ r.e = "SEP" /\ r.via = 5 /\ ~r.err /\ ~r.crash /\ r.res = 0
  /\ \E ax \in Axes : Len(r.kv[ax]) = 0
  /\ Len(r.o) = Size(r.dn) /\ \A q \in 1..Len(r.o) : r.o[q] = 0
Classify(r) ==
  IF ~Has(r, "e") THEN "new"
  ELSE IF r.e = "SEP" /\ SepParseEmpty(r) THEN "C19-sepparse-empty"
  ELSE IF r.e = "CN" /\ TrivialND(r) THEN "C19-trivialnd"
  ELSE IF r.e = "MEAN" /\ MetzTrunc(r) THEN "C19-metztrunc"
  ELSE IF r.e = "DF" /\ RealInv2(r) THEN "C19-realinv2"
  \* not a verdict: the probe array was too small to show the whole impulse response (driver problem)
  ELSE IF r.e = "MEAN" /\ ~r.err /\ MeanShape(r) /\ Clipped(r, IRNonZero(r)) THEN "undecided"
  ELSE "new"

Init == l = 1 /\ bad = <<>>
Next == /\ l <= Len(TraceLog)
        /\ LET r == TraceLog[l]
               cls == IF Explains(r) THEN "ok" ELSE Classify(r) IN
           bad' = IF cls = "ok" THEN bad ELSE Append(bad, <<l, cls>>)
        /\ l' = l + 1
Spec == Init /\ [][Next]_<<l, bad>>

Done == l > Len(TraceLog) => (bad = <<>> \/ PrintT(<<"UNEXPLAINED", bad>>))
Consumed == IF TLCGet("stats").diameter - 1 = Len(TraceLog) THEN TRUE
            ELSE PrintT(<<"REJECTED_AT", TLCGet("stats").diameter>>) /\ FALSE
=============================================================================
