----------------------- MODULE Trace_PoissonLLPatlak -----------------------
(* C05, a further client of the same definitions: the Patlak objective       *)
(* function PoissonLogLikelihoodWithLinearKineticModelAndDynamicProjectionData *)
(* (driver harness/c05_patlak.cxx).  The image of frame f is the linear       *)
(* kinetic model  lambda_f = M[1][f] theta_1 + M[2][f] theta_2  (two          *)
(* parameters per voxel, integer model matrix M given to the real PatlakPlot), *)
(* the log-likelihood is the sum over the frames of the log-likelihood of     *)
(* PoissonLL.tla, and by the chain rule                                       *)
(*    d/dtheta_k = SUM_f M[k][f] Grad_f ,   sensitivity_k = SUM_f M[k][f] Sens *)
EXTENDS PoissonLL, TraceLib
VARIABLES l, sys, I, fr, mf, vs, bad

NoSys == [id |-> 0]
NoInst == [sysid |-> -1]
SysOf(r) == [id |-> r.id, tof |-> r.tof, nv |-> r.nv, numViews |-> r.numViews, minView |-> r.minView, minAx0 |-> r.minAx0,
             maxAx0 |-> r.maxAx0, maxSegData |-> r.maxSegData, bins |-> r.bins, rows |-> r.rows, cols |-> r.cols]
MaxSeg(r, s) == IF r.maxSegAsked = -1 THEN s.maxSegData ELSE r.maxSegAsked
InstOf(r, s) == [sysid |-> r.sys, F |-> r.F, M |-> << r.M1, r.M2 >>, N |-> r.N, uss |-> r.uss, maxSeg |-> MaxSeg(r, s)]
(* the single-frame instance of PoissonLL.tla: lambda_f from the kinetic model *)
FrameOf(r, s, f) == [lam |-> [v \in 1..s.nv |-> r.M1[f] * r.th1[v] + r.M2[f] * r.th2[v]], x |-> [v \in 1..s.nv |-> 0],
                     y |-> r.y[f], a |-> r.a[f], ef |-> r.ef, zero |-> r.zero, maxSeg |-> MaxSeg(r, s), N |-> r.N, uss |-> r.uss]
ShapeOk(r, s) ==
  /\ s # NoSys /\ r.sys = s.id /\ r.F \in 1..4 /\ Len(r.M1) = r.F /\ Len(r.M2) = r.F /\ Len(r.y) = r.F /\ Len(r.a) = r.F
  /\ Len(r.th1) = s.nv /\ Len(r.th2) = s.nv /\ Len(r.ef) = Len(s.bins)
  /\ \A f \in 1..r.F : Len(r.y[f]) = Len(s.bins) /\ Len(r.a[f]) = Len(s.bins)

Requests == {"Value", "Grad", "GradPlusSens", "Sens"}
SubOk(r) == r.sub \in -1..(I.N - 1)
Frames == 1..I.F
OverFrames(k, q(_)) == Sum([f \in 1..I.F |-> I.M[k][f] * q(f)])

ParamOk(r, k, out) ==
  \A v \in 1..sys.nv :
    CASE r.e = "Grad" -> LET q(f) == Grad(sys, fr[f], mf[f], r.sub, v) IN out[v] = OverFrames(k, q)
      [] r.e = "GradPlusSens" -> LET q(f) == GradPlusSens(sys, fr[f], mf[f], r.sub, v) IN r.sub >= 0 /\ out[v] = OverFrames(k, q)
      [] r.e = "Sens" -> /\ \A f \in Frames : ReportedSensDefined(sys, fr[f], mf[f], r.sub, v)
                         /\ LET q(f) == ReportedSens(sys, fr[f], mf[f], r.sub, v) IN out[v] = OverFrames(k, q)
ImageOk(r) == /\ Has(r, "out1") /\ Has(r, "out2") /\ Len(r.out1) = sys.nv /\ Len(r.out2) = sys.nv /\ r.ex /\ r.k = 4 /\ SubOk(r)
              /\ ParamOk(r, 1, r.out1) /\ ParamOk(r, 2, r.out2)

(* the value: sum over the frames; compared with the definition where every frame's means are powers of two *)
ValueOk(r, w) ==
  /\ SubOk(r) /\ r.k = VK
  /\ ((\A f \in Frames : Pow2Means(sys, fr[f], mf[f], r.sub)) /\ (\A f \in Frames : ValueRange(ValueA(sys, fr[f], mf[f], r.sub)))) =>
        Abs(r.val - Sum([f \in 1..I.F |-> ValueVK(sys, fr[f], mf[f], r.sub)])) <= I.F * ValueTol
  /\ (\A s \in -1..(I.N - 1) : s \in DOMAIN w) => Abs(Sum([k \in 1..I.N |-> w[k - 1]]) - w[-1]) <= I.N + 1
NewVs(r) == IF r.e = "Value" /\ Has(r, "val") THEN (r.sub :> r.val) @@ vs ELSE vs

Explains(r) ==
  CASE r.e = "System" -> SystemOk(SysOf(r))
    [] r.e = "Instance" -> ShapeOk(r, sys)
    [] r.e = "SetUp" -> /\ I # NoInst /\ ~r.err /\ r.ok /\ r.maxSeg = I.maxSeg
                        /\ \A f \in Frames : InstanceOk(sys, fr[f], mf[f])
                        /\ \A f \in Frames : I.M[1][f] \in 0..8 /\ I.M[2][f] \in 0..8
    [] r.e \in Requests -> I # NoInst /\ ~r.err /\ ~r.pen
                           /\ IF r.e = "Value" THEN Has(r, "val") /\ ValueOk(r, NewVs(r)) ELSE ImageOk(r)
    [] r.e = "End" -> r.lines >= l - 1
    [] OTHER -> FALSE

Init == l = 1 /\ sys = NoSys /\ I = NoInst /\ fr = <<>> /\ mf = <<>> /\ vs = <<>> /\ bad = <<>>
Next ==
  /\ l <= Len(TraceLog)
  /\ LET r == TraceLog[l] IN
     /\ sys' = IF r.e = "System" THEN SysOf(r) ELSE sys
     /\ I' = IF r.e = "Instance" THEN (IF ShapeOk(r, sys) THEN InstOf(r, sys) ELSE NoInst) ELSE IF r.e = "System" THEN NoInst ELSE I
     /\ fr' = IF r.e = "Instance" /\ ShapeOk(r, sys) THEN [f \in 1..r.F |-> FrameOf(r, sys, f)] ELSE fr
     /\ mf' = IF r.e = "Instance" /\ ShapeOk(r, sys) THEN [f \in 1..r.F |-> Memo(sys, FrameOf(r, sys, f))] ELSE mf
     /\ vs' = IF r.e = "Instance" THEN <<>> ELSE IF I # NoInst THEN NewVs(r) ELSE vs
     /\ bad' = IF Explains(r) THEN bad ELSE IF Len(bad) < 300 THEN Append(bad, << l, "new" >>) ELSE bad
  /\ l' = l + 1
Spec == Init /\ [][Next]_<<l, sys, I, fr, mf, vs, bad>>

Done == l > Len(TraceLog) => (bad = <<>> \/ PrintT(<<"UNEXPLAINED", bad>>))
Consumed == IF TLCGet("stats").diameter - 1 = Len(TraceLog) THEN TRUE
            ELSE PrintT(<<"REJECTED_AT", TLCGet("stats").diameter>>) /\ FALSE
=============================================================================
