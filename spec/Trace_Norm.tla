----------------------------- MODULE Trace_Norm -----------------------------
(* Trace validation for C13: every line recorded from the real BinNormalisation classes by                *)
(* harness/c13_norm.cxx must be explained by Norm.tla.  The object under test and its set-up state are    *)
(* state (lines Obj / SetUp / SetCalib / Mod); every call line carries its complete input and output, so  *)
(* the lines are judged independently and the indices of unexplained lines are collected in `bad' (so     *)
(* that known findings can be told from new violations).                                                  *)
(* Re-use histories: a Mod line says that the inputs of the SAME object were changed through its public   *)
(* API (factor data, component factors in place, calibration, members of a chain) and carries the object  *)
(* as its inputs describe it NOW.  From the next set_up on the factor is that of the current inputs;      *)
(* between the change and that set_up (`stale') the classes may serve the previous inputs (tables built   *)
(* by set_up) or the current ones (inputs read at every call) - unless the API cleared the set-up flag    *)
(* (`resets'), in which case an error is required.                                                        *)
EXTENDS Norm, TraceLib
VARIABLES l, obj, su, att, bad, stats,
          prev,      \* the object as described by its inputs before the last Mod line
          stale      \* TRUE between a Mod line and the next SetUp line

NoObj == [cls |-> "Trivial"]
NoAtt == [cfg |-> [proj |-> "none"], imgs |-> <<>>, tabs |-> <<>>]

\* layout assumptions of the specification: views and axial positions count from 0
GeomOk(G) == /\ G.minView = 0 /\ Len(G.ax) = G.maxSeg - G.minSeg + 1 /\ Len(G.axmin) = Len(G.ax)
             /\ \A i \in 1..Len(G.axmin) : G.axmin[i] = 0 /\ G.ax[i] >= 1
             /\ G.minSeg <= 0 /\ G.maxSeg >= 0 /\ G.minTang <= G.maxTang /\ G.minTof <= G.maxTof

ShapeVg(r) == /\ Len(r.vg) >= 1 /\ Len(r.in) = Len(r.vg) /\ Len(r.out) = Len(r.vg)
              /\ \A i \in 1..Len(r.vg) :
                   /\ Len(r.in[i]) = NumAxOf(r.G, r.vg[i][1]) /\ Len(r.out[i]) = Len(r.in[i])
                   /\ \A a \in 1..Len(r.in[i]) : Len(r.in[i][a]) = r.G.maxTang - r.G.minTang + 1 /\ Len(r.out[i][a]) = Len(r.in[i][a])
                   /\ InGeom(r.G, ElemBin(r.G, r.vg, i, 1, 1))

RECURSIVE Members(_)
Members(o) == IF o.cls = "Chain" THEN Members(o.first) + Members(o.second) ELSE 1
TolFor(o) == OpTol * Members(o)

\* the object a call line addresses: the state's object, or one member of it (ChainedBinNormalisation::
\* apply_only_first / apply_only_second / undo_only_...; the members are set up together with the chain)
TargetOf(r, o) == IF ~Has(r, "part") \/ r.part = "all" THEN o
                  ELSE IF o.cls # "Chain" THEN [cls |-> "Unknown"]
                  ELSE IF r.part = "first" THEN o.first ELSE o.second
Target(r) == TargetOf(r, obj)
\* a judgement that may be made with the current inputs or, while stale, with the previous ones
Either(P(_)) == P(obj) \/ (stale /\ P(prev))

\* --- exact classes: related viewgrams
RVValuesOk(r, o) ==
  /\ ShapeVg(r)
  /\ \A i \in 1..Len(r.vg) : \A a \in 1..Len(r.in[i]) : \A t \in 1..Len(r.in[i][a]) :
       LET e == Eff(TargetOf(r, o), ElemBin(r.G, r.vg, i, a, t)) IN
       IF r.op = "undo" THEN UndoOk(r.in[i][a][t], r.out[i][a][t], e)
       ELSE r.op = "apply" /\ ApplyOk(r.in[i][a][t], r.out[i][a][t], e)
\* --- exact classes: whole data set ("whether called on related viewgrams with any symmetries or on a whole data set")
WholeValuesOk(r, o) ==
  \A b \in BinsOf(r.G) :
     LET e == Eff(TargetOf(r, o), b) IN
     IF r.op = "undo" THEN UndoOk(At5(r.in, r.G, b), At5(r.out, r.G, b), e)
     ELSE r.op = "apply" /\ ApplyOk(At5(r.in, r.G, b), At5(r.out, r.G, b), e)
\* --- objects with an attenuation member: fixed-point logarithms
RECURSIVE AttIds(_)
AttIds(o) == CASE o.cls = "Att" -> {o.img}
               [] o.cls = "Chain" -> AttIds(o.first) \cup AttIds(o.second)
               [] OTHER -> {}
AttReady(o) == att.cfg.proj # "none" /\ (\A i \in AttIds(o) : i <= Len(att.tabs) /\ att.tabs[i] # <<>>)
LgOk(r, o, din, dout, b) ==
  LET e == EffLg(o, b, att.tabs, att.cfg.G) IN
  IF r.op = "undo" THEN Within(dout, din + e, TolFor(o)) ELSE r.op = "apply" /\ Within(dout, din - e, TolFor(o))
RVFValuesOk(r, o) ==
  /\ AttReady(o) /\ ShapeVg(r)
  /\ \A i \in 1..Len(r.vg) : \A a \in 1..Len(r.in[i]) : \A t \in 1..Len(r.in[i][a]) :
       LgOk(r, o, r.in[i][a][t], r.out[i][a][t], ElemBin(r.G, r.vg, i, a, t))
WholeFValuesOk(r, o) == AttReady(o) /\ \A b \in BinsOf(r.G) : LgOk(r, o, At5(r.in, r.G, b), At5(r.out, r.G, b), b)

\* Data with an asymmetric segment range (reduce_segment_range(min, max), |min| # max): the swap-segment symmetry of
\* DataSymmetriesForBins_PET_CartesianGrid relates segment s to -s, which need not exist there (known finding
\* C06-asymseg of the projectors), so only groupings that do not use it are judged on such data: the trivial
\* symmetries (also the default argument of apply/undo(ProjData&)) and the switch settings with swap-segment off
\* (names pet<mask>, bit 2 of the mask = swap segment).  A line that breaks this restriction is never explained.
NoSwapSegment == {"trivial", "default", "pet27", "pet26", "pet3", "pet0"}
SoundGrouping(r) == r.G.minSeg = -r.G.maxSeg \/ r.sym \in NoSwapSegment
CallOk(r, whole, valuesOk) ==
  LET mode == ErrMode(Target(r), su, r.G, whole) IN
  /\ GeomOk(r.G) /\ Target(r).cls # "Unknown" /\ SoundGrouping(r)
  /\ ErrOk(mode, r.err)
  /\ (~r.err => valuesOk)

(* ------------------------- attenuation tables --------------------------- *)
\* "the attenuation correction factors obtained from an attenuation map given in cm^-1 are the exponentials of its
\* line integrals along the lines of response": decided
\*  (i)  on exponent instances: a uniform box of mu = mu16/2^16 cm^-1 (all planes), a direct (segment 0) bin of
\*       an interior ring whose line of response is parallel to an image axis and whose whole tube (half a
\*       sampling distance plus one voxel of margin on either side) crosses the box inside the projector's
\*       cylindrical field of view: the line integral is mu * box length, whatever the discretisation;
\*  (ii) as relations between recorded tables: ACF(0) = 1, ACF(mu1 + mu2) = ACF(mu1) ACF(mu2), monotone in mu,
\*       ACF >= 1 for mu >= 0.
AbsV(x) == IF x < 0 THEN -x ELSE x
ChordLen(cfg, d, b) ==       \* millimetres; 0 = not an exponent instance
  LET phi == cfg.phi16[b.view + 1]
      s == AbsV(cfg.s8[b.tang - cfg.G.minTang + 1])
      \* phi = 0: the line is parallel to y, its distance s from the axis is measured along x
      perpHalf == IF phi = 0 THEN ((2 * d.bx + 1) * cfg.vx8) \div 2 ELSE ((2 * d.by + 1) * cfg.vy8) \div 2
      margin == (cfg.samp8 \div 2) + (IF phi = 0 THEN cfg.vx8 ELSE cfg.vy8)
      len == IF phi = 0 THEN ((2 * d.by + 1) * cfg.vy8) \div 256 ELSE ((2 * d.bx + 1) * cfg.vx8) \div 256
      \* the projectors restrict lines of response to a cylindrical field of view (documented default of the
      \* ray-tracing projectors); its radius is at least min(max x index * vx, max y index * vy): the whole chord
      \* of the tube has to lie inside it (units 1/256 mm, all squares < 2^31)
      fov == Min2(Min2(cfg.maxx, -cfg.minx) * cfg.vx8, Min2(cfg.maxy, -cfg.miny) * cfg.vy8)
      halfLen8 == len * 128
  IN IF /\ b.seg = 0 /\ b.ax > 0 /\ b.ax < NumAxOf(cfg.G, 0) - 1
        /\ phi \in {0, 32768}
        /\ s + margin <= perpHalf
        /\ fov < 40000 /\ halfLen8 < 40000 /\ s + margin < 40000
        /\ halfLen8 * halfLen8 + (s + margin) * (s + margin) <= fov * fov
        /\ ChordApplicable(d.mu16, len)          \* (32-bit arithmetic of the closed form: integral < 2.7)
        /\ -d.bx >= cfg.minx /\ d.bx <= cfg.maxx /\ -d.by >= cfg.miny /\ d.by <= cfg.maxy
        /\ cfg.vx8 % 256 = 0 /\ cfg.vy8 % 256 = 0
     THEN len ELSE 0
ChordBins(cfg, d) == { b \in BinsOf(cfg.G) : ChordLen(cfg, d, b) > 0 }

AttTabOk(r) ==
  LET d == att.imgs[r.img]
      v(b) == At5(r.lg, r.G, b)
      tabOf(i, b) == At5(att.tabs[i], r.G, b) IN
  /\ ~r.err /\ GeomEq(r.G, att.cfg.G) /\ r.img = Len(att.tabs) + 1 /\ r.img <= Len(att.imgs)
  /\ \A b \in BinsOf(r.G) : v(b) >= -OpTol                               \* mu >= 0 everywhere => ACF >= 1
  /\ CASE d.kind = "zero" -> \A b \in BinsOf(r.G) : v(b) = 0                 \* ACF(0) = 1
       [] d.kind = "box" -> \A b \in ChordBins(att.cfg, d) :
                                /\ ChordApplicable(d.mu16, ChordLen(att.cfg, d, b))
                                /\ Within(v(b), ChordLg(d.mu16, ChordLen(att.cfg, d, b)), ChordTol)
       [] d.kind = "sum" -> /\ \A b \in BinsOf(r.G) : Within(v(b), tabOf(d.parts[1], b) + tabOf(d.parts[2], b), HomTol)
                            /\ \A i \in 1..Len(d.ge) : \A b \in BinsOf(r.G) : v(b) >= tabOf(d.ge[i], b) - HomTol
       [] d.kind = "dominated" -> \A i \in 1..Len(d.le) : \A b \in BinsOf(r.G) : v(b) <= tabOf(d.le[i], b) + HomTol
       [] d.kind = "rand" -> TRUE
       [] OTHER -> FALSE

(* ------------------------------- lines ---------------------------------- *)
Explains(r) ==
  CASE r.e = "Config" -> TRUE
    [] r.e = "Obj" -> TRUE
    [] r.e = "SetUp" -> GeomOk(r.G) /\ SetUpOutcomeOk(obj, r.G, r.ok, r.err)
    [] r.e = "SetCalib" -> obj.cls = "Cal"
    [] r.e = "Mod" -> obj.cls = r.obj.cls          \* the same object with other inputs
    [] r.e = "Triv" -> ~r.err /\ LET P(o) == TrivialAnswerOk(o, r.val) IN Either(P)
    [] r.e = "Eff" -> /\ su.st = "ok" /\ GeomEq(su.g, r.G)
                      /\ IF Reports(obj)
                         THEN ~r.err /\ LET P(o) == \A b \in BinsOf(r.G) : At5(r.effs, r.G, b) = Eff(o, b) IN Either(P)
                         ELSE r.err
    [] r.e = "RV" -> ~HasAtt(Target(r)) /\ LET P(o) == RVValuesOk(r, o) IN CallOk(r, FALSE, Either(P))
    [] r.e = "Whole" -> ~HasAtt(Target(r)) /\ LET P(o) == WholeValuesOk(r, o) IN CallOk(r, TRUE, Either(P))
    [] r.e = "RVF" -> Target(r) = obj /\ LET P(o) == RVFValuesOk(r, o) IN CallOk(r, FALSE, Either(P))
    [] r.e = "WholeF" -> Target(r) = obj /\ LET P(o) == WholeFValuesOk(r, o) IN CallOk(r, TRUE, Either(P))
    [] r.e = "AttGeom" -> GeomOk(r.G) /\ Len(r.s8) = r.G.maxTang - r.G.minTang + 1 /\ Len(r.phi16) = r.G.views
    [] r.e = "AttImg" -> r.img = Len(att.imgs) + 1
    [] r.e = "AttTab" -> AttTabOk(r)
    [] OTHER -> FALSE

\* An unexplained line is attributed to a known finding only by the signature named in known_findings.jsonl;
\* everything else is "new".
\* C13-attsymm: BinNormalisationFromAttenuationImage (alone or in a chain), properly set up, called on related
\* viewgrams that are not grouped by its forward projector's own symmetries - in particular through
\* apply/undo(ProjData&) with the default symmetries argument - raises an error.
\* C13-compsetup: BinNormalisationPETFromComponents::set_up reports success for a geometry other than the one the
\* factors were allocated for (its comparison is made after the stored geometry has been overwritten).
\* C13-narrowtang: FromProjData and PETFromComponents combine the caller's viewgrams with stored viewgrams of the
\* set-up geometry; data with a NARROWER tangential range pass BinNormalisation::check (operator>=), and then
\* the rows come back grown to the stored tangential range (operator*= / operator/= of the rows grow; apply(ProjData&)
\* then writes beyond the data's buffer) or, for PETFromComponents::apply (element-by-element division over
\* begin_all()), divided by the factors of other bins.
RECURSIVE UsesStoredViewgrams(_)
UsesStoredViewgrams(o) == CASE o.cls \in {"PD", "Comp"} -> TRUE
                            [] o.cls = "Chain" -> UsesStoredViewgrams(o.first) \/ UsesStoredViewgrams(o.second)
                            [] OTHER -> FALSE
NarrowTang(r) ==
  /\ r.e = "RV" /\ ~r.err /\ Target(r).cls # "Unknown" /\ UsesStoredViewgrams(Target(r))
  /\ su.st = "ok" /\ GeomOk(r.G) /\ Geq(su.g, r.G)
  /\ (r.G.minTang > su.g.minTang \/ r.G.maxTang < su.g.maxTang)
Classify(r) ==
  IF NarrowTang(r) THEN "C13-narrowtang" ELSE
  IF /\ r.e \in {"RVF", "WholeF"} /\ HasAtt(obj) /\ r.err /\ r.sym # "proj"
     /\ su.st = "ok" /\ GeomEq(su.g, r.G)
  THEN "C13-attsymm"
  ELSE IF r.e = "SetUp" /\ obj.cls = "Comp" /\ GeomOk(r.G) /\ ~GeomEq(obj.g, r.G) /\ r.ok /\ ~r.err
  THEN "C13-compsetup"
  ELSE "new"

Init == /\ l = 1 /\ obj = NoObj /\ su = NotSetUp /\ att = NoAtt /\ bad = <<>> /\ stats = [chords |-> 0, elems |-> 0]
        /\ prev = NoObj /\ stale = FALSE
Next ==
  /\ l <= Len(TraceLog)
  /\ LET r == TraceLog[l]
         okr == Explains(r)
         cls == IF okr THEN "ok" ELSE Classify(r) IN
     /\ obj' = CASE r.e \in {"Obj", "Mod"} -> r.obj
                 [] r.e = "Config" -> NoObj
                 [] r.e = "SetCalib" /\ obj.cls = "Cal" -> [obj EXCEPT !.calib = r.calib]
                 [] OTHER -> obj
     /\ prev' = IF r.e = "Mod" THEN obj ELSE prev
     /\ stale' = CASE r.e = "Mod" -> TRUE
                   [] r.e \in {"Obj", "Config", "SetUp"} -> FALSE
                   [] OTHER -> stale
     /\ su' = CASE r.e \in {"Obj", "Config", "SetCalib"} -> NotSetUp
                [] r.e = "Mod" /\ r.resets -> NotSetUp
                [] r.e = "SetUp" -> IF r.ok /\ ~r.err THEN SetUpWith(r.G) ELSE SetUpFailed
                [] OTHER -> su
     /\ att' = CASE r.e = "Config" -> NoAtt
                 [] r.e = "AttGeom" -> [cfg |-> r, imgs |-> <<>>, tabs |-> <<>>]
                 [] r.e = "AttImg" -> [att EXCEPT !.imgs = Append(@, r.desc)]
                 [] r.e = "AttTab" -> [att EXCEPT !.tabs = Append(@, r.lg)]
                 [] OTHER -> att
     /\ stats' = CASE r.e = "AttTab" /\ r.img <= Len(att.imgs) /\ att.imgs[r.img].kind = "box" ->
                        [stats EXCEPT !.chords = @ + Cardinality(ChordBins(att.cfg, att.imgs[r.img]))]
                   [] OTHER -> stats
     /\ bad' = IF okr THEN bad
               ELSE IF cls = "new" THEN (IF Len(SelectSeq(bad, LAMBDA x : x[2] = "new")) < 500 THEN Append(bad, <<l, cls>>) ELSE bad)
               ELSE (IF Len(SelectSeq(bad, LAMBDA x : x[2] = cls)) < 20 THEN Append(bad, <<l, cls>>) ELSE bad)
  /\ l' = l + 1
Spec == Init /\ [][Next]_<<l, obj, su, att, bad, stats, prev, stale>>

\* evaluated in the final state only (no successor): prints the unexplained lines and the vacuity counters
Done == l > Len(TraceLog) => (PrintT(<<"STATS", stats.chords>>) /\ (bad = <<>> \/ PrintT(<<"UNEXPLAINED", bad>>)))
Consumed == IF TLCGet("stats").diameter - 1 = Len(TraceLog) THEN TRUE
            ELSE PrintT(<<"REJECTED_AT", TLCGet("stats").diameter>>) /\ FALSE
=============================================================================
