------------------------------ MODULE MC_DFT4 ------------------------------
(* Exhaustive check of the theorems of DFT4.tla.  The transform and the    *)
(* identities ThInverse, ThImpulse, ThAxes, ThFFT, ThReal, ThConvolution   *)
(* are (bi)linear, so checking them on all unit impulses (times 1 and a    *)
(* second Gaussian integer) proves them for all data; Parseval's identity  *)
(* is sesquilinear, so it is checked on all sums e_p + v e_q, v in {1, i}  *)
(* (polarisation).  One initial state per instance.                        *)
EXTENDS DFT4, Conv
CONSTANTS MaxLin,    \* largest total size for the linear theorems
          MaxPair    \* largest total size for Parseval (pairs of impulses)
VARIABLES inst

Shapes(m) == { n \in {1, 2, 4} \X {1, 2, 4} \X {1, 2, 4} : CSize(n) <= m }
Unit(n, p, re, im) == CArr(n, [q \in 1..CSize(n) |-> IF q = p THEN re ELSE 0], [q \in 1..CSize(n) |-> IF q = p THEN im ELSE 0])
Plus(x, y) == CArr(x.n, [q \in 1..CSize(x.n) |-> x.re[q] + y.re[q]], [q \in 1..CSize(x.n) |-> x.im[q] + y.im[q]])
Dense(n) == CArr(n, [q \in 1..CSize(n) |-> ((q * q) % 7) - 3], [q \in 1..CSize(n) |-> ((3 * q) % 5) - 2])

ILin == \E n \in Shapes(MaxLin), sign \in {1, -1} :
          \/ \E p \in 1..CSize(n), v \in {<<1, 0>>, <<2, -1>>} : inst = [kind |-> "lin", x |-> Unit(n, p, v[1], v[2]), sign |-> sign]
          \/ inst = [kind |-> "lin", x |-> Dense(n), sign |-> sign]
IPair == \E n \in Shapes(MaxPair), sign \in {1, -1} :
           \/ \E p \in 1..CSize(n), q \in 1..CSize(n), v \in {<<1, 0>>, <<0, 1>>} :
                 p < q /\ inst = [kind |-> "pair", x |-> Plus(Unit(n, p, 1, 0), Unit(n, q, v[1], v[2])), sign |-> sign]
           \/ inst = [kind |-> "pair", x |-> Dense(n), sign |-> sign]
\* convolution theorem: real kernel and data on the padded range
IConv == \E n \in Shapes(MaxPair) : \E p \in 1..CSize(n), q \in 1..CSize(n) :
           inst = [kind |-> "conv", k |-> Unit(n, p, 2, 0), a |-> Unit(n, q, 3, 0)]

Init == ILin \/ IPair \/ IConv
Next == FALSE /\ UNCHANGED inst
Spec == Init /\ [][Next]_inst

\* The route of ArrayFilterUsingRealDFTWithPadding: transform kernel and (padded) data, multiply,
\* transform back: it is the periodic convolution (N times it before the division by the size)
CMulArr(x, y) == CArr(x.n, [q \in 1..CSize(x.n) |-> x.re[q] * y.re[q] - x.im[q] * y.im[q]],
                            [q \in 1..CSize(x.n) |-> x.re[q] * y.im[q] + x.im[q] * y.re[q]])
ThConvolution(k, a) ==
  LET r == NInverse(CMulArr(DFT(k, 1), DFT(a, 1)), 1)
      z == <<0, 0, 0>>
      p == PerConv(Arr(z, k.n, k.re), Arr(z, a.n, a.re), z, k.n)
  IN  /\ r.re = [q \in 1..CSize(k.n) |-> CSize(k.n) * p.v[q]]
      /\ r.im = [q \in 1..CSize(k.n) |-> 0]

InvInverse  == inst.kind = "lin" => ThInverse(inst.x, inst.sign)
InvImpulse  == inst.kind = "lin" => ThImpulse(inst.x, inst.sign)
InvAxes     == inst.kind = "lin" => ThAxes(inst.x, inst.sign)
InvFFT      == inst.kind = "lin" => ThFFT(inst.x, inst.sign)
InvReal     == inst.kind = "lin" => ThReal(inst.x, inst.sign)
InvParseval == inst.kind \in {"lin", "pair"} => ThParseval(inst.x, inst.sign)
InvConv     == inst.kind = "conv" => ThConvolution(inst.k, inst.a)
\* the integer square root used by the tolerances
ASSUME \A v \in {0, 1, 2, 3, 4, 15, 16, 17, 1000000, 2147395599, 2147395600, 2147483647} :
          LET r == ISqrt(v) IN r * r <= v /\ (r < 46340 => (r + 1) * (r + 1) > v)
ASSUME WSumSq(<<32767, -32767, 3>>) = <<65532, 11>>
=============================================================================
