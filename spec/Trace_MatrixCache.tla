-------------------------- MODULE Trace_MatrixCache --------------------------
(* Trace validation for C03, rows and histories.  A recorded execution is a   *)
(* sequence of blocks:                                                        *)
(*   Config                       new block                                   *)
(*   Geom(gid, geometry)          a geometry (data, image grid, rays)         *)
(*   Ref(gid, bin, row)           the row of `bin' for geometry gid computed  *)
(*                                directly by a matrix without symmetries and *)
(*                                cache (an observation, not an oracle)       *)
(*   New / SetSw / SetUp / Get / Clear / EnableCache / StoreBasic             *)
(*                                the calls on the matrix object under test,  *)
(*                                with the cache call-outs each call emitted  *)
(* Every call is replayed through MatrixCache.tla: the emitted call-outs must *)
(* be the ones the specification predicts from its cache content; every       *)
(* returned row must be the reference row of the CURRENT geometry up to       *)
(* rounding, with non-negative elements, inside the image, no voxel twice.    *)
(* Unexplained lines are collected with a class: "C03-zoutside" (the known    *)
(* finding: z outside the axial range, x and y inside) or "new".              *)
EXTENDS MatrixCache, C03TraceCommon, TraceLib
VARIABLES l, cfgLine, geoms, st, hist, bad

NoObj == [none |-> TRUE]
Impls == {"RayTracing", "Interpolation", "FromFile", "SPECTUB"}
\* "ProjMatrixByBinUsingRayTracing sadly doesn't support shifted x/y origin yet" (more than 0.05 mm; 2^-12 mm units)
MustRefuse(geo) == geo.impl = "RayTracing" /\ (Abs(geo.ox) > 205 \/ Abs(geo.oy) > 205)
(* ---------------- rows: fixed point 2^-20, "up to floating-point rounding" --- *)
\* |a - b| <= RowAbsTol + max(a,b) * 2^-RowRelShift : 6e-5 absolute (single-precision ray tracing of
\* path lengths of order 1..10) plus 2^-12 relative; changes of interest move elements by > 1e-2
RowAbsTol == 64
RowRelShift == 12
Close(a, b) == Abs(a - b) <= RowAbsTol + Max2(Abs(a), Abs(b)) \div (2 ^ RowRelShift)
Vox(e) == << e[1], e[2], e[3] >>
LexLess(p, q) == p[1] < q[1] \/ (p[1] = q[1] /\ (p[2] < q[2] \/ (p[2] = q[2] /\ p[3] < q[3])))
\* the two rows agree: same voxels with close values; a voxel missing on one side carries (almost) nothing
RowEqFast(a, b) == Len(a) = Len(b) /\ \A i \in 1..Len(a) : Vox(a[i]) = Vox(b[i]) /\ Close(a[i][4], b[i][4])
Covered(a, b) == \A i \in 1..Len(a) :
                   \/ \E j \in 1..Len(b) : Vox(a[i]) = Vox(b[j]) /\ Close(a[i][4], b[j][4])
                   \/ (Abs(a[i][4]) <= RowAbsTol /\ \A j \in 1..Len(b) : Vox(a[i]) # Vox(b[j]))
RowEq(a, b) == RowEqFast(a, b) \/ (Covered(a, b) /\ Covered(b, a))
\* "Every element of a row is non-negative and refers to a voxel inside the image, and no voxel appears twice"
InsideXY(geo, e) == e[2] >= geo.ymin /\ e[2] <= geo.ymax /\ e[3] >= geo.xmin /\ e[3] <= geo.xmax
InsideZ(geo, e) == e[1] >= geo.zmin /\ e[1] <= geo.zmax
\* rows are logged in lexicographic voxel order, so a voxel appearing twice shows as two equal neighbours
RowSound(geo, row) ==
  \A i \in 1..Len(row) :
    LET e == row[i] IN
    /\ e[4] >= 0                                                     \* non-negative
    /\ InsideXY(geo, e)                                              \* inside the image in x and y
    /\ i < Len(row) => LexLess(Vox(e), Vox(row[i + 1]))              \* no voxel twice
NonNegNoTwice(row) == \A i \in 1..Len(row) : row[i][4] >= 0 /\ (i < Len(row) => LexLess(Vox(row[i]), Vox(row[i + 1])))
\* known finding C03-zoutside: z outside the axial range (x and y inside)
AllInsideZ(geo, row) == \A i \in 1..Len(row) : InsideZ(geo, row[i])

(* ---------------- the geometric screen for rounding ties -------------------- *)
(* A ray that runs ALONG a boundary plane between two voxel columns (view at 0 *)
(* or 90 degrees with no phi offset, s on a column boundary) belongs to either *)
(* column by rounding; such bins are outside the property.  Decided from the   *)
(* logged s / voxel size (2^-12) of the rays, never from the rows.             *)
RayPos2n(s, ds, ntl, j) == 2 * ntl * s - ds * (ntl - 1) + 2 * j * ds      \* position of ray j, times 2*ntl
\* use_actual_detector_boundaries is honoured only for data without mashing and axial compression;
\* the rays of one bin are then twice as far apart ("the resulting strip is twice as wide")
\* (block geometry always uses the actual detector positions; the symmetry left to it, shift_z, does not
\* touch the in-plane geometry, so no exemption is needed there)
UadbEff(geo) == GridOf(geo).uadb /\ geo.geom = "Cylindrical"
RaySpacing(geo, ds) == IF UadbEff(geo) THEN 2 * ds ELSE ds
OnBoundary(u, unit) == LET f == Mod(u + unit \div 2, unit) IN f <= unit \div 1024 \/ f >= unit - unit \div 1024
\* "Bins whose LOR end points lie on a voxel boundary (where which voxel is 'first' is a rounding tie) are
\* excluded": rf.ep lists the end points of the rays on the border of the field of view in 2^-12 voxels
\* (x, y always; z for oblique segments - direct planes are placed off the plane boundaries by the ray tracer)
EndPointTie(rf) ==
  \E i \in 1..Len(rf.ep) : (i % 3 # 0 \/ rf.b[1] # 0) /\ OnBoundary(rf.ep[i], 4096)
AlongBoundary(geo, rf) ==
  LET cc == CfgOf(geo)  b == BinOfList(rf.b)  nvw == NumViews(cc)  unit == 4096 * 2 * geo.ntl IN
  /\ geo.impl # "Interpolation"         \* the interpolating matrix is continuous in s: no ties
  /\ PhiOffsetZero(cc, GridOf(geo))
  /\ \/ b.view = 0 /\ \E j \in 0..(geo.ntl - 1) : OnBoundary(RayPos2n(rf.sx, RaySpacing(geo, rf.dsx), geo.ntl, j), unit)
     \/ 2 * b.view = nvw /\ \E j \in 0..(geo.ntl - 1) : OnBoundary(RayPos2n(rf.sy, RaySpacing(geo, rf.dsy), geo.ntl, j), unit)

Tie(geo, rf) == geo.impl # "Interpolation" /\ (EndPointTie(rf) \/ AlongBoundary(geo, rf))

(* ---------------- decoding ---------------------------------------------------- *)
ObsHook(h) == IF h[1] = 3 THEN << "clear" >>
              ELSE << (IF h[1] = 1 THEN "lookup" ELSE IF h[1] = 2 THEN "insert" ELSE "?"), h[2], h[3], << h[4], h[5], h[6], h[7] >>, h[8] >>
ObsHooks(hs) == [ i \in 1..Len(hs) |-> ObsHook(hs[i]) ]
GeoOf(r) == [r EXCEPT !.gid = 0]
\* geometries are identified by their content: the generation of gid is the first gid with the same content
GenOf(gid) == CHOOSE k \in 1..Len(geoms) : geoms[k] = geoms[gid] /\ \A m \in 1..(k - 1) : geoms[m] # geoms[gid]
HasObj == "none" \notin DOMAIN st

\* outcome of a line: [ok, cls, st] - explained?, class if not, successor state of the object
Res(ok, cls, s) == [ok |-> ok, cls |-> cls, st |-> s]
RowClass(geo, row, rest) ==
  IF rest /\ RowSound(geo, row) THEN (IF AllInsideZ(geo, row) THEN "ok" ELSE "C03-zoutside") ELSE "new"
\* known finding C03-uadb: with use_actual_detector_boundaries the matrix traces the chord between the
\* detector centres while the symmetries relate nominal lines; for the bins where the two disagree
\* (~S2det, decided per bin by the specification) the derived row need not be the direct row
UadbExempt(geo, b) == UadbEff(geo) /\ ~S2det(st.c, st.g, st.esw, b)
\* known finding C03-interp-history: ProjMatrixByBinUsingInterpolation::set_up switches its piecewise-linear
\* interpolation off for good when the z voxel size is not half the axial sampling of segment 0; rows of a
\* later geometry that would use it then differ from those of a fresh object.  hist.pwlOff records that
\* such a set_up happened in the life of the object.
PiecewiseGeometry(geo) == Npa(CfgOf(geo), GridOf(geo), 0) = 2
InterpExempt(geo) == geo.impl = "Interpolation" /\ hist.pwlOff /\ PiecewiseGeometry(geo)
\* known finding C03-interp-nonsquare: the interpolating matrix keeps voxels inside the image under mirror
\* symmetries (it restricts x and y to ranges symmetric about 0) but not under the exchange of x and y:
\* with different sizes in x and y the rows derived by a 90 degrees operation differ from the direct rows
InterpSwapExempt(geo, b) == geo.impl = "Interpolation" /\ ~SquareRange(geo) /\ FindOp(st.c, st.g, st.esw, b).swap
Outcome(r) ==
  CASE r.e = "Ref" ->
         IF r.gid \in 1..Len(geoms) /\ InRange(CfgOf(geoms[r.gid]), BinOfList(r.b))
         THEN LET cls == RowClass(geoms[r.gid], r.row, TRUE) IN Res(cls = "ok", cls, st)
         ELSE Res(FALSE, "new", st)
    [] r.e = "New" ->
         IF r.impl = "FromFile"
         THEN \* written by the library's writer from a ray-tracing matrix set up for geometry src with requested
              \* switches req; the header carries the effective switches; a new object parsed it
              IF r.src \in 1..Len(geoms) /\ geoms[r.src].impl = "FromFile"
              THEN LET geo == geoms[r.src]  cc == CfgOf(geo)  gg == GridOf(geo) IN
                   \* known finding C03-fromfile-header: the header as written cannot be parsed (it names the template
                   \* projection data without the extension it was stored with); the driver then repairs that name
                   Res(r.written /\ r.parsed /\ SwOf(r.sw) = EffectiveSwitches(cc, gg, SwOf(r.req)),
                       IF r.written /\ ~r.parsed /\ r.repaired /\ SwOf(r.sw) = EffectiveSwitches(cc, gg, SwOf(r.req))
                       THEN "C03-fromfile-header" ELSE "new",
                       NewFromFile(GenOf(r.src), cc, gg, SwOf(r.sw), r.cacheOn, r.basicOnly))
              ELSE Res(FALSE, "new", st)
         ELSE IF r.impl = "SPECTUB" THEN Res(TRUE, "new", NewSpectub(r.keepAll, r.cacheOn, r.basicOnly))
         ELSE Res(r.impl \in Impls, "new", NewMatrix(r.impl, SwOf(r.sw), r.cacheOn, r.basicOnly))
    [] r.e = "Parse" -> IF HasObj /\ st.impl = "Interpolation" THEN Res(~r.failed, "new", DoParse(st, SwOf(r.sw), r.cacheOn, r.basicOnly).st)
                        ELSE Res(FALSE, "new", st)
    [] r.e = "SetSw" -> IF HasObj THEN Res(TRUE, "ok", DoSetSwitches(st, SwOf(r.sw)).st) ELSE Res(FALSE, "new", st)
    [] r.e = "EnableCache" -> IF HasObj THEN Res(TRUE, "ok", DoEnableCache(st, r.v).st) ELSE Res(FALSE, "new", st)
    [] r.e = "StoreBasic" -> IF HasObj THEN Res(TRUE, "ok", DoStoreOnlyBasic(st, r.v).st) ELSE Res(FALSE, "new", st)
    [] r.e = "Clear" ->
         IF HasObj THEN LET o == DoClear(st) IN Res(ObsHooks(r.hooks) = o.hooks, "new", o.st) ELSE Res(FALSE, "new", st)
    [] r.e = "SetUp" ->
         IF HasObj /\ r.gid \in 1..Len(geoms) /\ geoms[r.gid].impl = st.impl
         THEN LET geo == geoms[r.gid] IN
              IF st.impl = "FromFile"
              THEN LET o == DoSetUpFromFile(st, GenOf(r.gid))
                       obs == { ObsHook(r.hooks[i]) : i \in 1..Len(r.hooks) }
                   IN Res(r.err = o.refused /\ obs = o.inserts /\ Len(r.hooks) = Cardinality(o.inserts)
                          /\ (~o.refused => (Len(r.eff) = 5 /\ SwOf(r.eff) = o.st.esw)), "new", o.st)
              ELSE IF st.impl = "SPECTUB"
              THEN LET o == DoSetUpSpectub(st, GenOf(r.gid), CfgOf(geo), GridOf(geo))
                   IN Res(~r.err /\ ObsHooks(r.hooks) = o.hooks, "new", o.st)
              ELSE IF MustRefuse(geo)
              THEN LET o == DoSetUpRefused(st) IN Res(r.err /\ ObsHooks(r.hooks) = o.hooks, "new", o.st)
              ELSE LET o == DoSetUp(st, GenOf(r.gid), CfgOf(geo), GridOf(geo))
                   IN Res(~r.err /\ ObsHooks(r.hooks) = o.hooks /\ Len(r.eff) = 5 /\ SwOf(r.eff) = o.st.esw, "new", o.st)
         ELSE Res(FALSE, "new", st)
    [] r.e = "Get" /\ HasObj /\ st.impl = "SPECTUB" ->
         IF st.gen >= 1 /\ InRange(st.c, BinOfList(r.b))
         THEN LET b == BinOfList(r.b)
                  o == DoGetSpectub(st, b)
                  geo == geoms[st.gen]
                  hs == ObsHooks(r.hooks)
                  np == Len(o.pre)  nc == IF o.clear THEN 1 ELSE 0  ni == Cardinality(o.inserts)
                  \* call-outs: the look-ups, the clear_cache of the "one view at a time" mode, the rows of the view
                  \* (in the order of the implementation's tables), the row offered for the bin itself
                  hooksOk == /\ Len(hs) = np + nc + ni + Len(o.post)
                             /\ SubSeq(hs, 1, np) = o.pre
                             /\ o.clear => hs[np + 1] = EvClear
                             /\ { hs[i] : i \in (np + nc + 1)..(np + nc + ni) } = o.inserts
                             /\ SubSeq(hs, np + nc + ni + 1, Len(hs)) = o.post
                  labelOk == BinOfList(r.rb) = b
              IN IF IsEmptyRow(o.ret)
                 THEN \* known finding C03-spectub-empty: the implementation hands back an empty row here
                      Res(FALSE, IF hooksOk /\ ~r.err /\ labelOk /\ r.row = << >> THEN "C03-spectub-empty" ELSE "new", o.st)
                 ELSE LET rf == TraceLog[cfgLine + r.ref]
                          refOk == /\ r.ref >= 1 /\ cfgLine + r.ref <= Len(TraceLog) /\ rf.e = "Ref"
                                   /\ rf.gid \in 1..Len(geoms) /\ geoms[rf.gid] = geo /\ rf.b = r.b
                          cls == RowClass(geo, r.row, hooksOk /\ ~r.err /\ labelOk /\ refOk /\ RowEq(r.row, rf.row))
                      IN Res(cls = "ok", cls, o.st)
         ELSE Res(FALSE, "new", st)
    [] r.e = "Get" ->
         IF HasObj /\ st.gen >= 1 /\ InRange(st.c, BinOfList(r.b))
         THEN LET b == BinOfList(r.b)
                  o == DoGet(st, b)
                  geo == geoms[st.gen]
                  hooksOk == ObsHooks(r.hooks) = o.hooks
              IN IF o.ret = NoRow THEN Res(hooksOk /\ r.err, "new", o.st)
                 ELSE IF IsEmptyRow(o.ret)
                 THEN \* known finding C03-fromfile-cache: the row is not in the cache, so it is "computed" as empty
                      Res(FALSE, IF hooksOk /\ ~r.err /\ r.row = << >> THEN "C03-fromfile-cache" ELSE "new", o.st)
                 ELSE LET rf == TraceLog[cfgLine + r.ref]
                          refOk == /\ r.ref >= 1 /\ cfgLine + r.ref <= Len(TraceLog) /\ rf.e = "Ref"
                                   /\ rf.gid \in 1..Len(geoms) /\ geoms[rf.gid] = geo /\ rf.b = r.b
                          \* the returned row is labelled with the requested bin (S1 at row level); known finding
                          \* C03-blocks-binlabel: for block geometry the z_shift operation adds the axial position of
                          \* the bin, not the difference to the basic bin, so the label is off when the basic bin is not at 0
                          labelOk == BinOfList(r.rb) = b
                          blocksLabel == st.g.geom = "BlocksOnCylindrical" /\ FindBasicG(st.c, st.g, st.esw, b) # b
                                         /\ BinOfList(r.rb) = [b EXCEPT !.ax = FindBasicG(st.c, st.g, st.esw, b).ax + b.ax]
                          rest == hooksOk /\ ~r.err /\ refOk /\ (labelOk \/ blocksLabel)
                          cls == IF rest /\ UadbExempt(geo, b) /\ ~RowEq(r.row, rf.row)
                                 THEN (IF RowSound(geo, r.row) THEN "C03-uadb" ELSE "new")
                                 ELSE IF rest /\ InterpExempt(geo) /\ ~RowEq(r.row, rf.row)
                                 THEN (IF RowSound(geo, r.row) THEN "C03-interp-history" ELSE "new")
                                 ELSE IF rest /\ InterpSwapExempt(geo, b) /\ ~(RowEq(r.row, rf.row) /\ RowSound(geo, r.row))
                                 THEN (IF NonNegNoTwice(r.row) THEN "C03-interp-nonsquare" ELSE "new")
                                 ELSE LET c0 == RowClass(geo, r.row, rest /\ (Tie(geo, rf) \/ RowEq(r.row, rf.row))) IN
                                      IF c0 # "new" /\ ~labelOk THEN "C03-blocks-binlabel" ELSE c0
                      IN Res(cls = "ok", cls, o.st)
         ELSE Res(FALSE, "new", st)
    [] OTHER -> Res(FALSE, "new", st)

Init == l = 1 /\ cfgLine = 0 /\ geoms = << >> /\ st = NoObj /\ hist = [pwlOff |-> FALSE] /\ bad = << >>
Note(cls) == IF cls = "new" THEN (IF Len(SelectSeq(bad, LAMBDA x : x[2] = "new")) < 300 THEN Append(bad, <<l, cls>>) ELSE bad)
             ELSE (IF Len(SelectSeq(bad, LAMBDA x : x[2] = cls)) < 20 THEN Append(bad, <<l, cls>>) ELSE bad)
Next == /\ l <= Len(TraceLog)
        /\ LET r == TraceLog[l] IN
           IF r.e = "Config" THEN cfgLine' = l /\ geoms' = << >> /\ st' = NoObj /\ bad' = bad /\ UNCHANGED hist
           ELSE IF r.e = "Geom" THEN
             /\ UNCHANGED <<cfgLine, st, hist>>
             /\ geoms' = Append(geoms, GeoOf(r))
             /\ bad' = IF r.gid = Len(geoms) + 1 /\ GeometryOk(r) /\ r.ntl >= 1 /\ r.impl \in Impls
                          /\ (r.geom = "Cylindrical" \/ (r.impl = "RayTracing" /\ BlocksConfigOk(CfgOf(r), GridOf(r))))
                          \* SPECTUB: one segment, as many image planes as axial positions
                          /\ (r.impl = "SPECTUB" => (r.maxSeg = 0 /\ r.zmax - r.zmin + 1 = r.R /\ RoundTo(r.nppr1024, 1024) = 1)) THEN bad ELSE Note("new")
           ELSE LET o == Outcome(r) IN
             /\ UNCHANGED <<cfgLine, geoms>>
             /\ st' = o.st
             /\ hist' = IF r.e = "New" THEN [pwlOff |-> FALSE]
                        ELSE IF r.e = "SetUp" /\ HasObj /\ r.gid \in 1..Len(geoms) /\ ~r.err /\ ~PiecewiseGeometry(geoms[r.gid])
                        THEN [pwlOff |-> TRUE] ELSE hist
             /\ bad' = IF o.ok THEN bad ELSE Note(o.cls)
        /\ l' = l + 1
Spec == Init /\ [][Next]_<<l, cfgLine, geoms, st, hist, bad>>

Done == l > Len(TraceLog) => (bad = <<>> \/ PrintT(<<"UNEXPLAINED", bad>>))
Consumed == IF TLCGet("stats").diameter - 1 = Len(TraceLog) THEN TRUE
            ELSE PrintT(<<"REJECTED_AT", TLCGet("stats").diameter>>) /\ FALSE
=============================================================================
