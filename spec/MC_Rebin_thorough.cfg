SPECIFICATION Spec
CONSTANTS
  Ns = {4, 6, 8}
  Rs = {1, 2, 3, 4}
  Spans = {1, 3, 5}
  Mashes = {1, 2}
  Tofs = {51, 72, 93, 151}
  TofN = 6
  TofR = 2
INVARIANTS InvGeom InvG2 InvRefuse InvCommute InvSubset InvConserve InvNest InvTofK InvMapDef InvInverse InvExtend InvDownsample
CHECK_DEADLOCK FALSE
