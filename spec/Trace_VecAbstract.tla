------------------------- MODULE Trace_VecAbstract -------------------------
(* Trace validation for C11 (one-dimensional classes): every line recorded   *)
(* from the real VectorWithOffset<int> / NumericVectorWithOffset<float> /    *)
(* Array<1,float> objects must be a step of VecAbstract.                     *)
(*   Config  type of the objects, size K of the external block               *)
(*   Init    observation of the freshly constructed system                   *)
(*   Pre     observation of a state whose outgoing edges follow (bfs replay) *)
(*   Edge    op, result, error flag, observation afterwards (from Pre)       *)
(*   Step    the same, from the state observed on the previous line          *)
(*   Abort   a sanitizer report / abort inside the operation: never allowed  *)
(* Lines that the specification cannot explain are collected in `bad'        *)
(* (validation continues from the observed state).                           *)
EXTENDS VecAbstract, TraceLib
VARIABLES l, cur, bad

None == [none |-> TRUE]
Kinds == {"Default", "Construct", "View", "Copy", "Move", "Swap", "Assign", "SelfAssign", "Resize", "GrowBy", "Reserve",
          "SetOffset", "Recycle", "Fill", "Iota", "RIota", "SetAt", "GetAt", "Set", "Get", "PtrSet", "ThrLo", "ThrUp",
          "VAdd", "VSub", "VMul", "VDiv", "BAdd", "BSub", "BMul", "BDiv", "SAdd", "SSub", "SMul", "SDiv", "Sapyb", "XapybV", "XapybM", "XapybSM", "SapybM", "VOpM", "BOpM", "MemSet", "Nop"}
OpOK(op) == op.k \in Kinds /\ op.t \in {1, 2}

\* a freshly constructed system: two empty vectors with storage of their own, block as initialised by the driver
InitOK(r) ==
  LET st == [s |-> << EmptyVec, EmptyVec >>, blk |-> [c \in 1..r.K |-> 100 + c]] IN
  ObsMatch(st, 1, r.post.s[1]) /\ ObsMatch(st, 2, r.post.s[2]) /\ r.post.blk = st.blk /\ r.post.eq

\* observations that must agree with each other whatever the state is
SelfConsistent(o) == /\ \A t \in {1, 2} : o.s[t].len = o.s[t].n
                     /\ o.ne = ~o.eq

Explains(r) ==
  CASE r.e = "Config" -> r.ty \in {"VI", "NF", "A1"}
    [] r.e = "Init" -> InitOK(r) /\ SelfConsistent(r.post)
    [] r.e = "Pre" -> StateOK(StateOfObs(r.post)) /\ SelfConsistent(r.post)
    [] r.e \in {"Edge", "Step"} -> /\ OpOK(r.op) /\ cur # None /\ r.ty \in {"VI", "NF", "A1"}
                                   /\ StepOK(r.ty, cur, r.op, r.res, r.err, r.post) /\ SelfConsistent(r.post)
    [] OTHER -> FALSE

\* no known findings for the one-dimensional classes: everything unexplained is new
Classify(r) == "new"

Init == l = 1 /\ cur = None /\ bad = << >>
Next == /\ l <= Len(TraceLog)
        /\ LET r == TraceLog[l] IN
           /\ cur' = IF r.e \in {"Init", "Pre", "Step"} THEN r.post ELSE IF r.e = "Config" THEN None ELSE cur
           /\ bad' = IF Explains(r) THEN bad
                     ELSE IF Len(bad) < 200 THEN Append(bad, << l, Classify(r) >>) ELSE bad
        /\ l' = l + 1
Spec == Init /\ [][Next]_<< l, cur, bad >>

Done == l > Len(TraceLog) => (bad = << >> \/ PrintT(<< "UNEXPLAINED", bad >>))
Consumed == IF TLCGet("stats").diameter - 1 = Len(TraceLog) THEN TRUE
            ELSE PrintT(<< "REJECTED_AT", TLCGet("stats").diameter >>) /\ FALSE
=============================================================================
