SPECIFICATION Spec
CONSTANTS
  MaxLen = 3
  Symbols = {1, 3, 4, 9, 10}
  SegIMs = {1, 2, 3}
  TofIMs = {1, 2, 3}
  FrameIds = {1}
  StoreIds = {1}
  NStores = {0}
  Freshes = {TRUE}
  MaxSegs = {1}
  FixEmpty = TRUE
INVARIANTS InvBatches InvOut InvPartition InvPos InvCount
CHECK_DEADLOCK FALSE
