SPECIFICATION Spec
CONSTANTS
  MaxLen = 3
  Symbols = {1, 2, 3, 4, 5, 8, 9, 10, 11}
  SegIMs = {1, 2, 3}
  TofIMs = {1, 2, 3}
  FrameIds = {0, 1, 2}
  StoreIds = {1, 2, 3}
  NStores = {0, 1, 2}
  Freshes = {TRUE}
  MaxSegs = {1}
  FixEmpty = TRUE
INVARIANTS InvBatches InvOut InvPartition InvPos InvCount
CHECK_DEADLOCK FALSE
