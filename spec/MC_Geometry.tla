---------------------------- MODULE MC_Geometry ----------------------------
(* Exhaustive check of the partition theorems of Geometry.tla over a family *)
(* of small configurations: one initial state per configuration, one step   *)
(* per theorem.                                                             *)
EXTENDS Geometry
CONSTANTS MaxN, MaxR, MaxTofMash
VARIABLES c, k, ipT, binT   \* ipT, binT: memo tables of InPlaneOf / BinOf for c

Configs ==
  { x \in [N : { n \in 4..MaxN : n % 2 = 0 }, R : 1..MaxR, span : 1..(2 * MaxR - 1), ge : BOOLEAN,
           maxDelta : 0..(MaxR - 1), mash : 1..(MaxN \div 2), tofMash : {0} \cup { m \in 1..MaxTofMash : m % 2 = 1 },
           maxT : {5}, minTang : {0}, maxTang : {0}, minSeg : {0}, maxSeg : 0..(MaxR - 1), trunc : 0..1] :
      /\ (x.ge => x.span = 1)
      /\ x.mash \in {1, 2, 3}
      /\ x.maxSeg \in { FullMaxSeg(x), FullMaxSeg(x) - 1 } }
\* tangential range: full (trunc = 0) or reduced asymmetric (trunc = 1); segment range symmetric
Norm(x) == [N |-> x.N, R |-> x.R, span |-> x.span, ge |-> x.ge, maxDelta |-> x.maxDelta, mash |-> x.mash,
            tofMash |-> x.tofMash, maxT |-> x.maxT,
            minTang |-> IF x.trunc = 0 THEN -(x.N \div 2) + 1 ELSE -((x.N \div 2) - 1) \div 2,
            maxTang |-> IF x.trunc = 0 THEN (x.N \div 2) - 1 ELSE ((x.N \div 2) - 1) \div 2 - (IF x.N > 4 THEN 1 ELSE 0),
            minSeg |-> -x.maxSeg, maxSeg |-> x.maxSeg]

Init == /\ k = 0 /\ ipT = <<>> /\ binT = <<>>
        /\ c \in { Norm(x) : x \in Configs }
        /\ LegalConfig(c)
Next == /\ k < 7 /\ k' = k + 1 /\ c' = c
        /\ ipT' = IF k = 0 THEN IpTable(c) ELSE ipT
        /\ binT' = IF k = 1 THEN BinTable(c, ipT) ELSE binT
Spec == Init /\ [][Next]_<<c, k, ipT, binT>>

Inv1 == k = 1 => T1(c)
Inv2 == k = 2 => T2(c)
Inv3 == k = 3 => T3(c, binT)
Inv4 == k = 4 => T4(c, binT)
Inv5 == k = 5 => T5(c)
Inv6 == k = 6 => T6(c, binT)
Inv7 == k = 7 => T7(c)
=============================================================================
