---------------------------- MODULE MC_Geometry ----------------------------
(* Exhaustive check of the partition theorems of Geometry.tla over a family *)
(* of small configurations: one initial state per configuration, one step   *)
(* per theorem.                                                             *)
EXTENDS Geometry
CONSTANTS MaxN, MaxR, MaxTofMash
VARIABLES c, k, ipT, binT   \* ipT, binT: memo tables of InPlaneOf / BinOf for c

Configs ==
  { x \in [N : { n \in 4..MaxN : n % 2 = 0 }, R : 1..MaxR, span : 1..(2 * MaxR - 1), ge : BOOLEAN,
           maxDelta : 0..(MaxR - 1), mash : 1..(MaxN \div 2), tofMash : {0} \cup { m \in 1..MaxTofMash : m % 2 = 1 },
           maxT : {5}, minTang : {0}, maxTang : {0}, minSeg : {0}, maxSeg : 0..(MaxR - 1), trunc : 0..2] :
      /\ (x.ge => x.span = 1)
      /\ x.mash \in {1, 2, 3}
      /\ x.maxSeg \in { FullMaxSeg(x), FullMaxSeg(x) - 1 }
      /\ (x.trunc = 2 => x.maxSeg >= 1) }
\* trunc = 0: full tangential range, symmetric segment range; 1: reduced asymmetric tangential range;
\* 2: asymmetric segment range (one segment fewer at the negative end: reduce_segment_range(-maxSeg + 1, maxSeg))
Norm(x) == [N |-> x.N, R |-> x.R, span |-> x.span, ge |-> x.ge, maxDelta |-> x.maxDelta, mash |-> x.mash,
            tofMash |-> x.tofMash, maxT |-> x.maxT,
            minTang |-> IF x.trunc # 1 THEN -(x.N \div 2) + 1 ELSE -((x.N \div 2) - 1) \div 2,
            maxTang |-> IF x.trunc # 1 THEN (x.N \div 2) - 1 ELSE ((x.N \div 2) - 1) \div 2 - (IF x.N > 4 THEN 1 ELSE 0),
            minSeg |-> IF x.trunc = 2 THEN -x.maxSeg + 1 ELSE -x.maxSeg, maxSeg |-> x.maxSeg]

\* the view subset used for T9: every second view, from the last one downwards
SubsetOf(cc) == [ i \in 1..((NumViewsOf(cc) + 1) \div 2) |-> NumViewsOf(cc) - 1 - 2 * (i - 1) ]
\* the in-place changes tried for T13
Changes(cc) ==
  { << "views", v, 0 >> : v \in 1..NV(cc) } \cup
  { << "tang", t[1], t[2] >> : t \in (-(NV(cc))..NV(cc)) \X (-(NV(cc))..NV(cc)) } \cup
  { << "tofmash", m, 0 >> : m \in -1..(cc.maxT + 1) } \cup
  { << "segrange", t[1], t[2] >> : t \in ((cc.minSeg - 1)..(cc.maxSeg + 1)) \X ((cc.minSeg - 1)..(cc.maxSeg + 1)) } \cup
  { << "maxdelta", d, 0 >> : d \in 0..cc.R }

Init == /\ k = 0 /\ ipT = <<>> /\ binT = <<>>
        /\ c \in { Norm(x) : x \in Configs }
        /\ LegalConfigA(c)
Next == /\ k < 10 /\ k' = k + 1 /\ c' = c
        /\ ipT' = IF k = 0 THEN IpTable(c) ELSE ipT
        /\ binT' = IF k = 1 THEN BinTable(c, ipT) ELSE binT
Spec == Init /\ [][Next]_<<c, k, ipT, binT>>

Inv1 == k = 1 => T1(c)
Inv2 == k = 2 => T2(c)
Inv3 == k = 3 => T3(c, binT)
Inv4 == k = 4 => T4(c, binT)
Inv5 == k = 5 => T5(c)
Inv6 == k = 6 => T6(c, binT)
Inv7 == k = 7 => T7(c)
Inv8 == k = 8 => T8(c)
Inv9 == k = 9 => (LegalViews(c, SubsetOf(c)) /\ T9(c, SubsetOf(c), binT))
Inv13 == k = 10 => \A ch \in Changes(c) : T13(c, ch[1], ch[2], ch[3])
\* non-vacuity of T13: some change of every kind is legal somewhere (checked by the runner through coverage of Inv13)
=============================================================================
