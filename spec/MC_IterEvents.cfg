SPECIFICATION Spec
CONSTANTS MaxN = 2 MaxK = 4 MaxI = 2
INVARIANT InvEvents
CHECK_DEADLOCK FALSE
