SPECIFICATION Spec
CONSTANTS MaxN = 2 MaxK = 4
INVARIANT InvEvents
CHECK_DEADLOCK FALSE
