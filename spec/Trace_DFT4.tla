----------------------------- MODULE Trace_DFT4 -----------------------------
(* Trace validation for C19 (Fourier transforms): every line recorded from  *)
(* fourier / inverse_fourier / fourier_for_real_data /                      *)
(* inverse_fourier_for_real_data / pos_frequencies_to_all must be explained *)
(* by DFT4.tla: exactly computed transforms for lengths 1, 2, 4 per axis,   *)
(* relations between fixed-point observations for every length.  Lines are  *)
(* independent; unexplained ones are collected in `bad' with a class.       *)
EXTENDS DFT4, TraceLib
VARIABLES l, bad

MaxLogged == 32767
InScale(s) == \A q \in 1..Len(s) : CAbs(s[q]) <= MaxLogged
\* ceil / floor of v * 2^e
Scale(v, e) == IF e >= 0 THEN v * Pow2(e) ELSE v \div Pow2(-e)
\* |obs - v * 2^e| <= tol (+1 when the expected value itself had to be truncated)
Near(obs, v, e, tol) == CAbs(obs - Scale(v, e)) <= tol + (IF e < 0 THEN 1 ELSE 0)
Stages(n) == Log2(CSize(n))
GoodShape(r) == /\ \A d \in CAxes : IsPow2(r.n[d])
                /\ \A d \in CAxes : d <= 3 - r.dim => r.n[d] = 1

(* ---- fourier followed by inverse_fourier of complex data ---------------- *)
\* Parseval on the recorded values: sum |X|^2 (units 2^-kX) against N sum |x|^2 (units 2^-sx), both as
\* multiples of 2^15; tolerance = rounding of the logged X (bounded exactly by sum |X| + 2N) plus the
\* relative error 2 (stages+1) 2^-20 of the single-precision transform
ParsevalOk(r, N, s2) ==
  \E t \in {Log2(N) + 2 * (r.kX - r.sx)} :
  \E a \in {WAdd(WSumSq(r.Xre), WSumSq(r.Xim))} :
  \E l1 \in {CSum([q \in 1..N |-> CAbs(r.Xre[q]) + CAbs(r.Xim[q])])} :
    /\ t - 15 <= 0 \/ s2 < Pow2(30 - (t - 15))           \* the expected sum is representable
    /\ \E bhi \in {IF t >= 15 THEN s2 * Pow2(t - 15) ELSE s2 \div Pow2(15 - t)} :
         CAbs(a[1] - bhi) <= (l1 + 2 * N) \div WBase + 2 + ((bhi \div Pow2(EtaLog - 1)) + 1) * (2 * Stages(r.n) + 2)
FIok(r) ==
  \E N \in {CSize(r.n)} : \E st \in {Stages(r.n)} :
  /\ ~r.err /\ GoodShape(r)
  /\ Len(r.xre) = N /\ Len(r.xim) = N /\ Len(r.Xre) = N /\ Len(r.Xim) = N /\ Len(r.yre) = N /\ Len(r.yim) = N
  /\ InScale(r.Xre) /\ InScale(r.Xim) /\ InScale(r.yre) /\ InScale(r.yim)
  /\ \E x \in {CArr(r.n, r.xre, r.xim)} : \E s2 \in {Norm2(x)} : \E isq \in {ISqrt(s2)} :
     \* "the inverse discrete Fourier transform of the forward transform returns the input"
     /\ \E tol \in {FxTol(2 * st + 1, isq, 0, r.sx, r.ky)} :
          \A q \in 1..N : Near(r.yre[q], r.xre[q], r.ky - r.sx, tol) /\ Near(r.yim[q], r.xim[q], r.ky - r.sx, tol)
     \* "Parseval's identity holds"
     /\ ParsevalOk(r, N, s2)
     \* "the transform of a unit impulse is constant"
     /\ IsImpulse0(x) =>
          \E tol \in {FxTol(st, isq, HalfLog(N), r.sx, r.kX)} :
            \A q \in 1..N : Near(r.Xre[q], r.xre[1], r.kX - r.sx, tol) /\ Near(r.Xim[q], r.xim[1], r.kX - r.sx, tol)
     \* lengths 1, 2, 4: the transform itself, in STIR's documented sign convention
     /\ SmallShape(r.n) =>
          \E X \in {DFT(x, r.sign)} : \E tol \in {FxTol(st, isq, HalfLog(N), r.sx, r.kX)} :
            \A q \in 1..N : Near(r.Xre[q], X.re[q], r.kX - r.sx, tol) /\ Near(r.Xim[q], X.im[q], r.kX - r.sx, tol)

(* ---- real data: fourier_for_real_data, pos_frequencies_to_all, inverse -- *)
RCok(r) ==
  \E N \in {CSize(r.n)} : \E st \in {Stages(r.n) + 1} : \E H \in {CSize(HalfShape(r.n))} :
  /\ ~r.err /\ GoodShape(r) /\ r.n[3] >= 2 /\ r.hn = HalfShape(r.n)
  /\ Len(r.x) = N /\ Len(r.Rre) = H /\ Len(r.Rim) = H /\ Len(r.Are) = N /\ Len(r.Aim) = N /\ Len(r.Cre) = N /\ Len(r.Cim) = N
  /\ InScale(r.Rre) /\ InScale(r.Rim) /\ InScale(r.Are) /\ InScale(r.Aim) /\ InScale(r.Cre) /\ InScale(r.Cim)
  /\ \E s2 \in {CSum([q \in 1..N |-> r.x[q] * r.x[q]])} : \E isq \in {ISqrt(s2)} :
     \E tol \in {FxTol(st, isq, HalfLog(N), r.sx, r.k)} :
     \* "the real-data and complex-data transforms agree": positive half against the complex transform ...
     /\ \A q \in 1..H : LET c == COff(r.n, CPos(r.hn, q - 1)) IN
                        CAbs(r.Rre[q] - r.Cre[c]) <= 2 * tol /\ CAbs(r.Rim[q] - r.Cim[c]) <= 2 * tol
     \* ... and completed with pos_frequencies_to_all
     /\ \A q \in 1..N : CAbs(r.Are[q] - r.Cre[q]) <= 2 * tol /\ CAbs(r.Aim[q] - r.Cim[q]) <= 2 * tol
     \* pos_frequencies_to_all copies the positive half and conjugates it into the negative one (on the
     \* Nyquist plane of the last axis both sources are legitimate)
     /\ \A q \in 1..N :
          LET k == CPos(r.n, q - 1)
              own == COff(r.hn, k)
              mir == COff(r.hn, Neg(r.n, k)) IN
          IF k[3] < r.n[3] \div 2 \/ k[3] = 0 THEN r.Are[q] = r.Rre[own] /\ r.Aim[q] = r.Rim[own]
          ELSE IF k[3] > r.n[3] \div 2 THEN r.Are[q] = r.Rre[mir] /\ r.Aim[q] = -r.Rim[mir]
          ELSE \/ r.Are[q] = r.Rre[own] /\ r.Aim[q] = r.Rim[own]
               \/ r.Are[q] = r.Rre[mir] /\ r.Aim[q] = -r.Rim[mir]
     \* lengths 1, 2, 4: the positive half itself
     /\ SmallShape(r.n) =>
          \E R \in {RealDFT(r.n, r.x, r.sign)} :
            \A q \in 1..H : Near(r.Rre[q], R.re[q], r.k - r.sx, tol) /\ Near(r.Rim[q], R.im[q], r.k - r.sx, tol)
     \* inverse_fourier_for_real_data returns the input
     /\ ~r.yerr /\ Len(r.y) = N /\ InScale(r.y)
     /\ \E ytol \in {FxTol(2 * st + 1, isq, 0, r.sx, r.ky)} : \A q \in 1..N : Near(r.y[q], r.x[q], r.ky - r.sx, ytol)

(* ---- 1-D transform of any length characterised through its observed twiddle table ---- *)
TWok(r) ==
  \E n \in {r.n[3]} :
  /\ ~r.err /\ r.dim = 1 /\ r.n[1] = 1 /\ r.n[2] = 1 /\ IsPow2(n)
  /\ TableOk(n, r.sign, r.wre, r.wim, r.wk)
  /\ Len(r.pm) = Len(r.pre) /\ Len(r.pm) = Len(r.pim)
  /\ \A i \in 1..Len(r.pm) : r.pm[i] \in 0..(n - 1) /\ PowerOk(n, r.pm[i], r.pre[i], r.pim[i], r.wre, r.wim)
  /\ Len(r.xre) = n /\ Len(r.xim) = n /\ Len(r.Xre) = n /\ Len(r.Xim) = n /\ InScale(r.Xre) /\ InScale(r.Xim)
  /\ ValuesOk(n, r.xre, r.xim, r.Xre, r.Xim, r.kX, r.wre, r.wim, r.wk, 13)

(* ---- multi-dimensional transform characterised through per-axis twiddle tables ---- *)
TWNok(r) ==
  \E N \in {CSize(r.n)} :
  /\ ~r.err /\ GoodShape(r)
  /\ \A s \in {r.t1re, r.t1im, r.t2re, r.t2im, r.t3re, r.t3im, r.Xre, r.Xim} : Len(s) = N
  /\ InScale(r.Xre) /\ InScale(r.Xim)
  /\ \E tabs \in {<< AxisTable(r.n, 1, r.t1re, r.t1im), AxisTable(r.n, 2, r.t2re, r.t2im), AxisTable(r.n, 3, r.t3re, r.t3im) >>} :
     /\ \A d \in CAxes : TableOk(r.n[d], r.sign, tabs[d].re, tabs[d].im, r.wk)
     /\ AxisOnly(r.n, 1, r.t1re, r.t1im, tabs[1]) /\ AxisOnly(r.n, 2, r.t2re, r.t2im, tabs[2]) /\ AxisOnly(r.n, 3, r.t3re, r.t3im, tabs[3])
     /\ Len(r.pos) = Len(r.are) /\ Len(r.pos) = Len(r.aim) /\ Len(r.pos) >= 1
     /\ \A i \in 1..Len(r.pos) : \A d \in CAxes : r.pos[i][d] \in 0..(r.n[d] - 1)
     /\ SparseValuesOk(r.n, tabs, r.pos, r.are, r.aim, r.Xre, r.Xim, r.kX, r.wk)

Explains(r) ==
  CASE r.e = "FI" -> FIok(r)
    [] r.e = "TWN" -> TWNok(r)
    [] r.e = "RC" -> RCok(r)
    [] r.e = "TW" -> TWok(r)
    [] OTHER -> FALSE

\* C19-realinv2 (known_findings.jsonl): inverse_fourier_for_real_data raises "can only handle arrays of
\* even length" for arrays whose last dimension has length 2 (it tests the half length instead of the
\* length); everything else of such a line must still be explained
RealInv2(r) == /\ r.e = "RC" /\ ~r.err /\ r.yerr /\ r.n[3] = 2
               /\ RCok([r EXCEPT !.yerr = FALSE] @@ [y |-> [q \in 1..CSize(r.n) |-> Scale(r.x[q], 7)], ky |-> r.sx + 7])
Classify(r) == IF ~Has(r, "e") THEN "new"
               ELSE IF r.e = "RC" /\ RealInv2(r) THEN "C19-realinv2"
               ELSE "new"

Init == l = 1 /\ bad = <<>>
Next == /\ l <= Len(TraceLog)
        /\ LET r == TraceLog[l]
               cls == IF Explains(r) THEN "ok" ELSE Classify(r) IN
           bad' = IF cls = "ok" THEN bad ELSE Append(bad, <<l, cls>>)
        /\ l' = l + 1
Spec == Init /\ [][Next]_<<l, bad>>

Done == l > Len(TraceLog) => (bad = <<>> \/ PrintT(<<"UNEXPLAINED", bad>>))
Consumed == IF TLCGet("stats").diameter - 1 = Len(TraceLog) THEN TRUE
            ELSE PrintT(<<"REJECTED_AT", TLCGet("stats").diameter>>) /\ FALSE
=============================================================================
