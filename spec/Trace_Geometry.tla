--------------------------- MODULE Trace_Geometry ---------------------------
(* Trace validation for C01: every line recorded from the real geometry      *)
(* classes must be explained by Geometry.tla.  The lines are independent     *)
(* observations of functions of the current configuration, so validation     *)
(* does not stop at the first unexplained line: their indices are collected  *)
(* in `bad' (so that known findings can be told from new violations).        *)
EXTENDS Geometry, TraceLib
VARIABLES l, c, sv, bad      \* sv: the views of the current view subset (events Sub...)

NoCfg == [N |-> 0]
CfgOf(r) == [N |-> r.N, R |-> r.R, span |-> r.span, ge |-> r.ge, maxDelta |-> r.maxDelta, mash |-> r.mash,
             tofMash |-> r.tofMash, maxT |-> r.maxT, minTang |-> r.minTang, maxTang |-> r.maxTang,
             minSeg |-> r.minSeg, maxSeg |-> r.maxSeg]

\* the implementation's own description of the data must be the documented Michelogram
DescOk(r) ==
  LET cc == CfgOf(r) IN
  /\ LegalConfigA(cc)
  /\ r.numViews = NV(cc) \div cc.mash /\ r.minView = 0
  /\ r.minTof = MinTof(cc) /\ r.maxTof = MaxTof(cc)
  /\ Len(r.segs) = cc.maxSeg - cc.minSeg + 1
  /\ \A i \in 1..Len(r.segs) :
       LET s == r.segs[i][1] IN
       /\ s = cc.minSeg + i - 1
       /\ r.segs[i][2] = SegMinRD(cc, s) /\ r.segs[i][3] = SegMaxRD(cc, s)
       /\ r.segs[i][4] = 0 /\ r.segs[i][5] = NumAx(cc, s) - 1
  \* get_num_segments, get_num_tangential_poss, get_num_tof_poss, get_num_non_tof_sinograms, get_num_sinograms, size_all
  \* (fields absent from traces recorded before these were added)
  /\ Has(r, "sizeAll") =>
       /\ r.numSegs = cc.maxSeg - cc.minSeg + 1 /\ r.numTang = NumTangOf(cc) /\ r.numTof = NumTof(cc)
       /\ r.numNonTofSinos = NumNonTofSinos(cc) /\ r.numSinos = NumSinos(cc)
       /\ << r.sizeAll[1], r.sizeAll[2], r.sizeAll[3], r.sizeAll[4] >> = SizeAllWide(cc)
\* a Config line written after the object was changed in place: the new description is the old one with the
\* documented effect of the change (and the change was a legal one)
ChangeOk(r) ==
  Has(r, "after") =>
    LET a == r.after  pc == CfgOf(a.prev) IN
    /\ DescOk(a.prev)
    /\ SetArgsOk(pc, a.what, a.x, a.y)
    /\ CfgOf(r) = ApplySet(pc, a.what, a.x, a.y)
ConfigOk(r) == DescOk(r) /\ ChangeOk(r)
\* construct_proj_data_info / ProjDataInfoGE document these requests as errors (and no others)
RequestLegal(r) ==
  /\ r.maxDelta <= r.R - 1
  /\ (IF r.ge THEN r.maxDelta >= 1 ELSE r.span >= 1 /\ r.span <= 2 * r.R - 1 /\ r.maxDelta >= (r.span - 1) \div 2)
  /\ (r.maxBins < 0 \/ r.numTang <= r.maxBins)
  /\ (r.tofMash <= 0 \/ r.maxT <= 0 \/ (r.tofMash <= r.maxT /\ (r.maxT \div r.tofMash) % 2 = 1))
  /\ (r.geom = "Cylindrical" \/ r.mash = 1)

BinOfRec(r) == Bin(r.seg, r.ax, r.view, r.tang, r.tof)
PairOfList(x) == << x[1], x[2], x[3], x[4], x[5] >>
\* a pair is assigned to bin b (O(mash) forward verification; sound by theorem T1)
Assigned(p, b) == \E same \in BOOLEAN :
                    /\ IsInPlaneOf(c, p[1], p[3], b.view, b.tang, same)
                    /\ BinGiven(c, p, b.view, b.tang, same) = b

\* the list r.pairs (with the reported count r.n) is the list of pairs of bin b of configuration cf
PairsExplain(cf, b, r, spatialOnly) ==
  LET \* spatial-only lists carry timing position 0; they must be assigned to the bin's spatial part
      bb == IF spatialOnly THEN [b EXCEPT !.tof = 0] ELSE b
      cc == IF spatialOnly THEN [cf EXCEPT !.tofMash = 0] ELSE cf
      P == { CanonPair(PairOfList(r.pairs[i])) : i \in 1..Len(r.pairs) } IN
  /\ r.n = Len(r.pairs)
  /\ r.n = NumPairs(cf, b, spatialOnly)
  /\ Cardinality(P) = Len(r.pairs)
  /\ \A i \in 1..Len(r.pairs) :
       LET p == PairOfList(r.pairs[i]) IN
       \E same \in BOOLEAN :
          /\ IsInPlaneOf(cc, p[1], p[3], bb.view, bb.tang, same)
          /\ BinGiven(cc, p, bb.view, bb.tang, same) = bb
\* the number of detection position pairs of a bin, counted from the definition of TOF mashing (any mashing factor)
NumPairsExact(cf, b, spatialOnly) ==
  Cardinality(RingPairsFast(cf, b.seg, b.ax)) * cf.mash *
    (IF spatialOnly THEN 1 ELSE Cardinality({ t \in UnmashedT(cf) : TofBin(cf, t) = b.tof }))
\* a view subset of the current configuration
SubOk(r) ==
  /\ LegalViews(c, r.views)
  /\ r.numViews = Len(r.views) /\ r.minView = 0 /\ r.maxView = Len(r.views) - 1
  /\ r.orgViews = r.views
  /\ r.full = (Len(r.views) = NumViewsOf(c))
  /\ r.minSeg = c.minSeg /\ r.maxSeg = c.maxSeg /\ r.minTang = c.minTang /\ r.maxTang = c.maxTang
  /\ r.minTof = MinTof(c) /\ r.maxTof = MaxTof(c)
  /\ r.numNonTofSinos = NumNonTofSinos(c) /\ r.numSinos = NumSinos(c)
  /\ << r.sizeAll[1], r.sizeAll[2], r.sizeAll[3], r.sizeAll[4] >> = SubSizeAllWide(c, r.views)
\* scanners: what the get_ members report obeys the documented quotients/products; check_consistency says yes only
\* if the integer relations hold, and (cylindrical non-TOF scanners: nothing else is checked) says yes if they hold;
\* every predefined scanner is consistent
ScannerOk(r) ==
  /\ ~r.err
  /\ ScDerivedOk(r.s)
  /\ r.consistent => ScIntFactsOk(r.s)
  /\ (ScIntFactsOk(r.s) /\ r.s.geom = "Cylindrical" /\ ~r.s.tofReady /\ ~r.predefined) => r.consistent
  /\ r.predefined => r.consistent
ScIntFields == { "N", "R", "maxBins", "defBins", "tBlocksPerBucket", "aBlocksPerBucket", "tCrysPerBlock", "aCrysPerBlock",
                 "tCrysPerSU", "aCrysPerSU", "layers" }
ScFxFields == { "radiusFx", "doiFx", "ringSpacingFx", "binSizeFx", "tiltFx" }
\* "comparison operator": equal scanners have equal parameters; identical parameters compare equal
ScCmpOk(r) ==
  LET intsEq == \A f \in ScIntFields : r.a[f] = r.b[f]
      tofEq == (r.a.tofReady /\ r.b.tofReady) => r.a.maxT = r.b.maxT
      fxSame == \A f \in ScFxFields : r.a[f] = r.b[f]
      fxFar == \E f \in ScFxFields : Abs(r.a[f] - r.b[f]) >= 1024 IN
  /\ r.ne = ~r.eq
  /\ r.eq => (intsEq /\ tofEq /\ ~fxFar)
  /\ (intsEq /\ fxSame /\ r.a.tofReady = r.b.tofReady /\ r.a.maxT = r.b.maxT /\ r.a.geom = r.b.geom) => r.eq

Explains(r) ==
  CASE r.e = "Config" -> ConfigOk(r)
    [] r.e = "ConfigRejected" -> (Has(r, "numTang") => ~RequestLegal(r))     \* only requests documented as errors may be refused
    [] r.e = "RP" ->
         LET d == r.r2 - r.r1 IN
         IF CoveredRD(c, d) THEN r.ok /\ r.seg = SegOfRD(c, d) /\ r.ax = AxOf(c, r.seg, r.r1, r.r2)
         ELSE ~r.ok
    [] r.e = "RPS" ->
         LET S == { << r.pairs[i][1], r.pairs[i][2] >> : i \in 1..Len(r.pairs) } IN
         /\ S = RingPairsFast(c, r.seg, r.ax)
         /\ Cardinality(S) = Len(r.pairs) /\ r.n = Len(r.pairs)
    [] r.e = "DP" -> IsInPlaneOf(c, r.d1, r.d2, r.view, r.tang, r.same)
    [] r.e = "VT" -> c.mash = 1 /\ VT2D(c.N, r.view, r.tang) = << r.d1, r.d2 >>
    [] r.e = "PB" ->
         LET p == << r.d1, r.r1, r.d2, r.r2, r.t >> IN
         \E same \in BOOLEAN :
            /\ IsInPlaneOf(c, r.d1, r.d2, r.view, r.tang, same)
            /\ LET b == BinGiven(c, p, r.view, r.tang, same) IN
               IF b = NoBin THEN ~r.ok ELSE r.ok /\ b = BinOfRec(r)
    [] r.e = "BP" -> PairsExplain(c, BinOfRec(r), r, r.spatialOnly)
    \* the same question answered into a container that the caller re-uses from bin to bin: same answer
    [] r.e = "BPR" -> PairsExplain(c, BinOfRec(r), r, r.spatialOnly)
    [] r.e = "BD" -> Assigned(<< r.d1, r.r1, r.d2, r.r2, r.t >>, BinOfRec(r))
    [] r.e = "BN" -> r.n = NumPairsExact(c, BinOfRec(r), r.spatialOnly)
    [] r.e = "SetRejected" -> ~(DescOk(r.prev) /\ SetArgsOk(CfgOf(r.prev), r.what, r.x, r.y))
    \* ---- view subsets: the current configuration c is the full data, sv the views of the subset
    [] r.e = "Sub" -> SubOk(r)
    [] r.e = "SubRejected" -> ~LegalViews(c, r.views)
    [] r.e = "SubOrg" -> /\ sv # <<>> /\ r.view \in 0..(Len(sv) - 1)
                         /\ Bin(r.oseg, r.oax, r.oview, r.otang, r.otof) = SubOrgBin(sv, BinOfRec(r))
    [] r.e = "SubFrom" -> /\ sv # <<>> /\ r.oview \in SeqRange(sv)
                          /\ BinOfRec(r) = SubFromOrg(sv, Bin(r.oseg, r.oax, r.oview, r.otang, r.otof))
    [] r.e = "SubBP" -> /\ sv # <<>> /\ r.view \in 0..(Len(sv) - 1)
                        /\ PairsExplain(c, SubOrgBin(sv, BinOfRec(r)), r, FALSE)
    [] r.e = "SubCmp" -> /\ r.ge = SubGE(c, r.va, c, r.vb) /\ r.eq = SubEq(c, r.va, c, r.vb) /\ r.ne = ~r.eq
    \* a subset against the full data: "if (this->contains_full_data()) return org >= proj else false"; the other
    \* way round and equality: "true only if the types are the same"
    [] r.e = "SubMix" -> /\ r.ge = (Len(r.va) = NumViewsOf(c)) /\ r.le = FALSE /\ r.eq = FALSE
    \* ---- equality and order of two data descriptions (each line carries both)
    [] r.e = "Cmp" -> /\ DescOk(r.a) /\ DescOk(r.b)
                      /\ LET a == CfgOf(r.a)  b == CfgOf(r.b)  same == r.a.geom = r.b.geom IN
                         /\ r.eq = (same /\ CfgEq(a, b)) /\ r.ne = ~r.eq
                         /\ r.ge = (same /\ CfgGE(a, b)) /\ r.le = (same /\ CfgGE(b, a))
    \* ---- comparisons of detection positions, pairs of them, bins
    [] r.e = "DPCmp" -> LET x == << r.x[1], r.x[2], r.x[3] >>  y == << r.y[1], r.y[2], r.y[3] >> IN
                        /\ r.lt = DPLt(x, y) /\ r.gt = DPLt(y, x) /\ r.eq = DPEq(x, y) /\ r.ne = ~DPEq(x, y)
    [] r.e = "DPPCmp" -> LET p == << << r.p1[1], r.p1[2], r.p1[3] >>, << r.p2[1], r.p2[2], r.p2[3] >>, r.pt >>
                             q == << << r.q1[1], r.q1[2], r.q1[3] >>, << r.q2[1], r.q2[2], r.q2[3] >>, r.qt >> IN
                         /\ r.eq = DPPEq(p, q) /\ r.ne = ~DPPEq(p, q)
    [] r.e = "BinCmp" -> /\ r.eq = BinRecEq(r.x, r.y) /\ r.ne = ~BinRecEq(r.x, r.y)
                         /\ r.lt = BinRecLt(r.x, r.y) /\ r.gt = BinRecLt(r.y, r.x)
    \* ---- scanners
    [] r.e = "Scanner" -> ScannerOk(r)
    [] r.e = "ScCmp" -> ScCmpOk(r)
    [] OTHER -> FALSE

\* An unexplained line is attributed to a known finding only by the configuration class and event
\* kinds named in known_findings.jsonl (C01-truncseg: axial tables of compressed data whose last
\* segment is truncated to a single ring difference); everything else is "new".
TruncSegs(cc) == { s \in Segs(cc) : s # 0 /\ Compressed(cc, s) /\ SegMinRD(cc, s) = SegMaxRD(cc, s) }
DiffersOutsideTof(a, b) == (\E f \in ScIntFields : a[f] # b[f]) \/ (\E f \in ScFxFields : Abs(a[f] - b[f]) >= 1024)
Classify(r, cc) ==
  \* lines that carry their own configurations
  IF r.e = "Scanner" THEN (IF r.predefined /\ ~r.consistent /\ ~r.err /\ ScDerivedOk(r.s) /\ ~ScIntFactsOk(r.s) THEN "C01-dbinconsistent" ELSE "new")
  \* C01-tofscannereq: two TOF-ready scanners / data descriptions over them compare equal although a non-TOF parameter differs
  ELSE IF r.e = "ScCmp" THEN (IF r.eq /\ r.ne = ~r.eq /\ r.a.tofReady /\ r.b.tofReady /\ r.a.maxT = r.b.maxT /\ DiffersOutsideTof(r.a, r.b) THEN "C01-tofscannereq" ELSE "new")
  ELSE IF r.e = "Cmp" THEN (IF r.how = "other-scanner" /\ r.a.maxT > 0 /\ r.b.maxT > 0 /\ r.a.maxT = r.b.maxT /\ r.a.N # r.b.N /\ r.eq /\ ~r.ne /\ r.ge /\ r.le THEN "C01-tofscannereq" ELSE "new")
  ELSE IF cc = NoCfg THEN "new"
  \* C01-subsetdup: a view subset with a repeated view is accepted
  ELSE IF r.e = "Sub" THEN (IF Len(r.views) >= 2 /\ (\A i \in 1..Len(r.views) : r.views[i] \in Views(cc)) /\ (\E i, j \in 1..Len(r.views) : i # j /\ r.views[i] = r.views[j]) THEN "C01-subsetdup" ELSE "new")
  \* C01-eventofmash: data with an even TOF mashing factor m, central TOF bin: m timing positions counted instead of m - 1
  ELSE IF r.e = "BN" /\ cc.tofMash > 0 /\ cc.tofMash % 2 = 0 /\ ~r.spatialOnly /\ r.tof = 0 /\ r.seg \in Segs(cc) /\ r.n = NumPairs(cc, BinOfRec(r), FALSE) THEN "C01-eventofmash"
  ELSE IF r.e \in {"RP", "PB"} /\ (\E s \in TruncSegs(cc) : Abs(r.r2 - r.r1) = Abs(SegMinRD(cc, s))) THEN "C01-truncseg"
  ELSE IF r.e \in {"RPS", "BP", "BPR", "BD", "BN", "SubBP"} /\ r.seg \in TruncSegs(cc) THEN "C01-truncseg"
  ELSE "new"

Init == l = 1 /\ c = NoCfg /\ sv = <<>> /\ bad = <<>>
Next == /\ l <= Len(TraceLog)
        /\ LET r == TraceLog[l] IN
           /\ c' = IF r.e = "Config" THEN CfgOf(r) ELSE c
           /\ sv' = IF r.e = "Config" THEN <<>> ELSE IF r.e = "Sub" THEN r.views ELSE sv
           /\ LET okr == IF r.e = "Config" THEN ConfigOk(r) ELSE Explains(r)
                  cls == IF okr THEN "ok" ELSE Classify(r, IF r.e = "Config" THEN CfgOf(r) ELSE c) IN
              \* new unexplained lines are all kept (cap 500); of a known class only the first 20 witnesses
              bad' = IF okr THEN bad
                     ELSE IF cls = "new" THEN (IF Len(SelectSeq(bad, LAMBDA x : x[2] = "new")) < 500 THEN Append(bad, <<l, cls>>) ELSE bad)
                     ELSE (IF Len(SelectSeq(bad, LAMBDA x : x[2] = cls)) < 20 THEN Append(bad, <<l, cls>>) ELSE bad)
        /\ l' = l + 1
Spec == Init /\ [][Next]_<<l, c, sv, bad>>

\* evaluated in the final state only (no successor): prints the unexplained lines
Done == l > Len(TraceLog) => (bad = <<>> \/ PrintT(<<"UNEXPLAINED", bad>>))
Consumed == IF TLCGet("stats").diameter - 1 = Len(TraceLog) THEN TRUE
            ELSE PrintT(<<"REJECTED_AT", TLCGet("stats").diameter>>) /\ FALSE
=============================================================================
