--------------------------- MODULE Trace_Geometry ---------------------------
(* Trace validation for C01: every line recorded from the real geometry      *)
(* classes must be explained by Geometry.tla.  The lines are independent     *)
(* observations of functions of the current configuration, so validation     *)
(* does not stop at the first unexplained line: their indices are collected  *)
(* in `bad' (so that known findings can be told from new violations).        *)
EXTENDS Geometry, TraceLib
VARIABLES l, c, bad

NoCfg == [N |-> 0]
CfgOf(r) == [N |-> r.N, R |-> r.R, span |-> r.span, ge |-> r.ge, maxDelta |-> r.maxDelta, mash |-> r.mash,
             tofMash |-> r.tofMash, maxT |-> r.maxT, minTang |-> r.minTang, maxTang |-> r.maxTang,
             minSeg |-> r.minSeg, maxSeg |-> r.maxSeg]

\* the implementation's own description of the data must be the documented Michelogram
ConfigOk(r) ==
  LET cc == CfgOf(r) IN
  /\ LegalConfig(cc)
  /\ r.numViews = NV(cc) \div cc.mash /\ r.minView = 0
  /\ r.minTof = MinTof(cc) /\ r.maxTof = MaxTof(cc)
  /\ Len(r.segs) = cc.maxSeg - cc.minSeg + 1
  /\ \A i \in 1..Len(r.segs) :
       LET s == r.segs[i][1] IN
       /\ s = cc.minSeg + i - 1
       /\ r.segs[i][2] = SegMinRD(cc, s) /\ r.segs[i][3] = SegMaxRD(cc, s)
       /\ r.segs[i][4] = 0 /\ r.segs[i][5] = NumAx(cc, s) - 1

BinOfRec(r) == Bin(r.seg, r.ax, r.view, r.tang, r.tof)
PairOfList(x) == << x[1], x[2], x[3], x[4], x[5] >>
\* a pair is assigned to bin b (O(mash) forward verification; sound by theorem T1)
Assigned(p, b) == \E same \in BOOLEAN :
                    /\ IsInPlaneOf(c, p[1], p[3], b.view, b.tang, same)
                    /\ BinGiven(c, p, b.view, b.tang, same) = b

Explains(r) ==
  CASE r.e = "Config" -> ConfigOk(r)
    [] r.e = "ConfigRejected" -> TRUE
    [] r.e = "RP" ->
         LET d == r.r2 - r.r1 IN
         IF CoveredRD(c, d) THEN r.ok /\ r.seg = SegOfRD(c, d) /\ r.ax = AxOf(c, r.seg, r.r1, r.r2)
         ELSE ~r.ok
    [] r.e = "RPS" ->
         LET S == { << r.pairs[i][1], r.pairs[i][2] >> : i \in 1..Len(r.pairs) } IN
         /\ S = RingPairsFast(c, r.seg, r.ax)
         /\ Cardinality(S) = Len(r.pairs) /\ r.n = Len(r.pairs)
    [] r.e = "DP" -> IsInPlaneOf(c, r.d1, r.d2, r.view, r.tang, r.same)
    [] r.e = "VT" -> c.mash = 1 /\ VT2D(c.N, r.view, r.tang) = << r.d1, r.d2 >>
    [] r.e = "PB" ->
         LET p == << r.d1, r.r1, r.d2, r.r2, r.t >> IN
         \E same \in BOOLEAN :
            /\ IsInPlaneOf(c, r.d1, r.d2, r.view, r.tang, same)
            /\ LET b == BinGiven(c, p, r.view, r.tang, same) IN
               IF b = NoBin THEN ~r.ok ELSE r.ok /\ b = BinOfRec(r)
    [] r.e = "BP" ->
         LET b == BinOfRec(r)
             \* spatial-only lists carry timing position 0; they must be assigned to the bin's spatial part
             bb == IF r.spatialOnly THEN [b EXCEPT !.tof = 0] ELSE b
             cc == IF r.spatialOnly THEN [c EXCEPT !.tofMash = 0] ELSE c
             P == { CanonPair(PairOfList(r.pairs[i])) : i \in 1..Len(r.pairs) } IN
         /\ r.n = Len(r.pairs)
         /\ r.n = NumPairs(c, b, r.spatialOnly)
         /\ Cardinality(P) = Len(r.pairs)
         /\ \A i \in 1..Len(r.pairs) :
              LET p == PairOfList(r.pairs[i]) IN
              \E same \in BOOLEAN :
                 /\ IsInPlaneOf(cc, p[1], p[3], bb.view, bb.tang, same)
                 /\ BinGiven(cc, p, bb.view, bb.tang, same) = bb
    [] r.e = "BD" -> Assigned(<< r.d1, r.r1, r.d2, r.r2, r.t >>, BinOfRec(r))
    [] OTHER -> FALSE

\* An unexplained line is attributed to a known finding only by the configuration class and event
\* kinds named in known_findings.jsonl (C01-truncseg: axial tables of compressed data whose last
\* segment is truncated to a single ring difference); everything else is "new".
TruncSegs(cc) == { s \in Segs(cc) : s # 0 /\ Compressed(cc, s) /\ SegMinRD(cc, s) = SegMaxRD(cc, s) }
Classify(r, cc) ==
  IF cc = NoCfg THEN "new"
  ELSE IF r.e \in {"RP", "PB"} /\ (\E s \in TruncSegs(cc) : Abs(r.r2 - r.r1) = Abs(SegMinRD(cc, s))) THEN "C01-truncseg"
  ELSE IF r.e \in {"RPS", "BP", "BD"} /\ r.seg \in TruncSegs(cc) THEN "C01-truncseg"
  ELSE "new"

Init == l = 1 /\ c = NoCfg /\ bad = <<>>
Next == /\ l <= Len(TraceLog)
        /\ LET r == TraceLog[l] IN
           /\ c' = IF r.e = "Config" THEN CfgOf(r) ELSE c
           /\ LET okr == IF r.e = "Config" THEN ConfigOk(r) ELSE Explains(r)
                  cls == IF okr THEN "ok" ELSE Classify(r, IF r.e = "Config" THEN CfgOf(r) ELSE c) IN
              \* new unexplained lines are all kept (cap 500); of a known class only the first 20 witnesses
              bad' = IF okr THEN bad
                     ELSE IF cls = "new" THEN (IF Len(SelectSeq(bad, LAMBDA x : x[2] = "new")) < 500 THEN Append(bad, <<l, cls>>) ELSE bad)
                     ELSE (IF Len(SelectSeq(bad, LAMBDA x : x[2] = cls)) < 20 THEN Append(bad, <<l, cls>>) ELSE bad)
        /\ l' = l + 1
Spec == Init /\ [][Next]_<<l, c, bad>>

\* evaluated in the final state only (no successor): prints the unexplained lines
Done == l > Len(TraceLog) => (bad = <<>> \/ PrintT(<<"UNEXPLAINED", bad>>))
Consumed == IF TLCGet("stats").diameter - 1 = Len(TraceLog) THEN TRUE
            ELSE PrintT(<<"REJECTED_AT", TLCGet("stats").diameter>>) /\ FALSE
=============================================================================
