SPECIFICATION Spec
CONSTANTS NT = 3 NI = 5 NK = 2 Bug = "none"
INVARIANTS InvMutex InvUse InvFilledOnce InvFlagLast InvRules InvCache InvOneInsert InvNothingLost InvIO InvItems InvResult InvLocksFree
CHECK_DEADLOCK TRUE
