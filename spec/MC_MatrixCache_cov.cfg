SPECIFICATION Spec
CONSTANTS MaxLen = 4 NumGens = 2 Defect = "none" Impls = {"RayTracing", "Interpolation", "FromFile"}
INVARIANTS InvCache InvGet InvLast InvGen InvSetUp InvRefused
VIEW View
CHECK_DEADLOCK FALSE
