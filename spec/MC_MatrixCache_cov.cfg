SPECIFICATION Spec
CONSTANTS MaxLen = 4 NumGens = 2 Defect = "none"
INVARIANTS InvCache InvGet InvLast InvGen InvSetUp
VIEW View
CHECK_DEADLOCK FALSE
