SPECIFICATION Spec
CONSTANTS Ns = {4, 6} MaxR = 3 Mashes = {1, 2, 3} TofMashes = {0, 3}
INVARIANTS Inv10 Inv11 Inv12
CHECK_DEADLOCK FALSE
