SPECIFICATION Spec
CONSTANTS MaxN = 6 MaxR = 3 MaxTofMash = 3 MaxRB = 5
INVARIANTS Inv1 Inv2 Inv3 Inv4 Inv5 Inv6
CHECK_DEADLOCK FALSE
