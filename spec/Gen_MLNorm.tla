---------------------------- MODULE Gen_MLNorm ----------------------------
(* Generation of the replay instances of C20: the scanner / data            *)
(* configurations the driver has to build (generated cylindrical scanners   *)
(* without virtual crystals, with transaxial ones, with transaxial and      *)
(* axial ones; several maximum ring differences and fan sizes, symmetric    *)
(* and off-by-one tangential ranges) and, for each, the table of geometric  *)
(* classes of MLNorm.tla (class number per slot), from which the driver     *)
(* makes geometric factors that are constant on classes.  Written as ndjson *)
(* to the file named by the environment variable GEN.                       *)
EXTENDS MLNorm, Json, IOUtils, SequencesExt
CONSTANTS MaxCells,     \* size limit (entries of the fan data)
          MaxKLCells,   \* KL descent is recorded for configurations up to this size
          Thin          \* keep every Thin-th candidate of the big family (1: all)
VARIABLE x

\* type 0: user-defined scanner (no virtual crystals); 1: one virtual transaxial crystal per block
\* (scanner type Siemens mMR, resized); 2: one virtual crystal per block in both directions (ECAT 1080, resized)
Cands == [type : 0..2, phT : 1..4, nbT : {2, 4, 6}, phA : 1..3, nbA : 1..3, segMode : 0..2, hfs : 0..11, asym : 0..1]
CfgOfCand(c) ==
  LET vT == IF c.type >= 1 THEN 1 ELSE 0
      vA == IF c.type = 2 THEN 1 ELSE 0
      pbT == c.phT + vT  pbA == c.phA + vA
      R == pbA * c.nbA - vA
  IN [N |-> pbT * c.nbT, R |-> R, pbT |-> pbT, vT |-> vT, pbA |-> pbA, vA |-> vA,
      maxSeg |-> CASE c.segMode = 0 -> R - 1 [] c.segMode = 1 -> (R - 1) \div 2 [] OTHER -> 0,
      minTang |-> -(c.hfs + c.asym), maxTang |-> c.hfs]
NumCellsOf(fg) == RaOffUpTo(fg, fg.R)
Keep(c) ==
  LET g == CfgOfCand(c) IN
  /\ g.N >= 4 /\ g.N <= 24
  /\ -g.minTang <= g.N \div 2 - 1
  /\ (c.segMode = 1 => (g.R - 1) \div 2 < g.R - 1) /\ (c.segMode = 2 => g.R > 2)
  /\ LegalFanConfig(g)
  /\ NumCellsOf(FanGeomOf(g)) <= MaxCells
  \* fan sizes: the smallest, the largest legal one, one in between
  /\ c.hfs \in { 1, g.N \div 4, g.N \div 2 - 1 - (IF g.vT > 0 THEN NbT(g) \div 2 ELSE 0), g.N \div 2 - 2 }
Family == { c \in Cands : Keep(c) }
\* a deterministic thinning: hash of the candidate
Hash(c) == c.type * 7 + c.phT * 13 + c.nbT * 5 + c.phA * 11 + c.nbA * 17 + c.segMode * 3 + c.hfs * 19 + c.asym * 23
Chosen == { c \in Family : Thin = 1 \/ Hash(c) % Thin = 0 \/ (c.phT = 2 /\ c.nbT = 4 /\ c.phA = 2 /\ c.nbA = 2 /\ c.segMode = 0 /\ c.asym = 0 /\ c.hfs = 3) }

\* class number of every slot: the smallest slot index of the class
ClassTable(fg, gp) ==
  LET slotOff == SlotOff(fg, gp)  slots == SlotSeq(fg, gp) IN
  [ n \in 1..Len(slots) |->
      LET S == { SlotIndex(fg, gp, slotOff, s) : s \in { y \in ClassOf(fg, gp, slots[n]) : IsSlot(fg, gp, y) } } IN
      CHOOSE i \in S : \A j \in S : i <= j ]
Rec(c) ==
  LET g == CfgOfCand(c)  fg == FanGeomOf(g)  gp == [PA |-> PhA(g), PT |-> PhT(g)]
      geo == LegalGeo(fg, gp)
      block == BlockLegal(g)
  IN [e |-> "Gen", type |-> c.type, pbT |-> g.pbT, nbT |-> c.nbT, pbA |-> g.pbA, nbA |-> c.nbA,
      maxSeg |-> g.maxSeg, numTang |-> g.maxTang - g.minTang + 1,
      geo |-> geo, block |-> block, kl |-> NumCellsOf(fg) <= MaxKLCells,
      geoPA |-> gp.PA, geoPT |-> gp.PT, cells |-> NumCellsOf(fg),
      cls |-> IF geo THEN ClassTable(fg, gp) ELSE << >>]
GenFile == IF "GEN" \in DOMAIN IOEnv THEN IOEnv.GEN ELSE "gen.ndjson"
GenInit == /\ x = 0
           /\ PrintT(<< "CONFIGS", Cardinality(Family), Cardinality(Chosen) >>)
           /\ ndJsonSerialize(GenFile, SetToSeq({ Rec(c) : c \in Chosen }))
GenNext == FALSE /\ UNCHANGED x
=============================================================================
