------------------------------- MODULE Scatter -------------------------------
(***************************************************************************)
(* C16 - single-scatter simulation (ScatterSimulation /                    *)
(* SingleScatterSimulation): settings, derived scatter points, the two     *)
(* line-integral caches and the set-up flag, as one state record per       *)
(* simulation object, written from the class documentation:                *)
(*   - "remove_cache_for_integrals_over_activity: should be used before    *)
(*      recalculating scatter for a new activity image or when changing    *)
(*      the sampling of the detector etc" (same for attenuation);          *)
(*   - "sample_scatter_points: sets scatt_points_vector ... will also      *)
(*      remove any cached integrals as they would be incorrect otherwise"; *)
(*   - "initialise_cache_...: will not remove existing cached data (if     *)
(*      the sizes match)";                                                 *)
(*   - set_density_image_sptr: "make sure that we're not re-using a        *)
(*      previously interpolated image for scatter points";                 *)
(*   - detection_efficiency_no_scatter / max_single_scatter_cos_angle:     *)
(*      "set to negative value by set_up(), so recompute";                 *)
(*   - process_data: "need to call set_up() first".                        *)
(*                                                                         *)
(* Settings are version counters (a setter call makes a new version); a    *)
(* cache entry carries the versions of everything it was computed from     *)
(* (its tag) and is VALID iff the tag equals the current versions.  The    *)
(* operators are pure functions on the state record so that the same       *)
(* definitions serve the exhaustive model check (MC_Scatter) and the       *)
(* validation of recorded executions of the real class (Trace_Scatter).    *)
(*                                                                         *)
(* State record s:                                                         *)
(*   act, att, tmpl, energy  versions of activity image, attenuation       *)
(*                 image, template (scanner incl. energy resolution) and   *)
(*                 exam info (energy window); 0 = never set                *)
(*   spImg         version of the scatter-point image, 0 = none (to be     *)
(*                 derived from the attenuation image by set_up)           *)
(*   pts, np       version and number of the sampled scatter points        *)
(*   nd            number of detectors of the template                     *)
(*   actC, attC    caches: [np, nd, ent] with ent[i] a tag or Empty        *)
(*   eff           memoised efficiency for unscattered photons: tag/Unset  *)
(*   useCache, asu settings flag, "_already_set_up"                        *)
(*   thr, rnd      version of the attenuation threshold, random-placement  *)
(*                 flag: the sampled points depend on them (ptsFrom)       *)
(*   zoom, zoomAuto  version of the down-sampling settings; automatic      *)
(*                 settings are derived from the template                  *)
(*   spFrom        what a DERIVED scatter-point image was derived from     *)
(*                 (Given for an image supplied by the caller)             *)
(*   ptsFrom       what the points were sampled from                       *)
(*   geo           geometry class of the template (scanners differing     *)
(*                 only in energy resolution are the same geometry)        *)
(*   out           geometry class the output projection data were made     *)
(*                 for, 0 = none                                           *)
(***************************************************************************)
EXTENDS Integers, Sequences, FiniteSets, TLC

Empty == << 0, 0, 0 >>                \* cache entry never written (the sentinel value)
Unset == << 0, 0 >>
NoCache == [np |-> 0, nd |-> 0, ent |-> << >>]
EmptyCache(np, nd) == [np |-> np, nd |-> nd, ent |-> [i \in 1..(np * nd) |-> Empty]]

InitObj == [act |-> 0, att |-> 0, tmpl |-> 0, energy |-> 0, spImg |-> 0, pts |-> 0, np |-> 0, nd |-> 0,
            actC |-> NoCache, attC |-> NoCache, eff |-> Unset, useCache |-> TRUE, asu |-> FALSE, geo |-> 0, out |-> 0,
            thr |-> 0, rnd |-> FALSE, zoom |-> 0, zoomAuto |-> FALSE, spFrom |-> << 0, 0, 0 >>, ptsFrom |-> << 0, 0, 0 >>]

\* what a line integral / the efficiency computed NOW would be computed from
ActNow(s) == << s.act, s.pts, s.tmpl >>
AttNow(s) == << s.att, s.pts, s.tmpl >>
EffNow(s) == << s.energy, s.tmpl >>
\* (beyond the property's list of settings) derived data other than the caches:
\* what a scatter-point image derived NOW / points sampled NOW would be made from
Given == << 0, 0, 0 >>
SpNow(s) == << s.att, s.zoom, IF s.zoomAuto THEN s.tmpl ELSE 0 >>
PtsNow(s) == << s.spImg, s.thr, IF s.rnd THEN 1 ELSE 0 >>
SpStale(s) == s.spImg # 0 /\ s.spFrom # Given /\ s.spFrom # SpNow(s)
PtsStale(s) == s.spImg # 0 /\ s.ptsFrom # PtsNow(s)

(* ------------------------------ setters -------------------------------- *)
\* Every setter that changes a setting clears the set-up flag and removes the caches
\* that depend on the setting.
SetActOp(s) == [s EXCEPT !.act = @ + 1, !.actC = NoCache, !.asu = FALSE]
\* a new attenuation image also discards the scatter-point image (re-derived by set_up);
\* the sampled points themselves stay until then
SetAttOp(s) == [s EXCEPT !.att = @ + 1, !.spImg = 0, !.attC = NoCache, !.asu = FALSE]
\* new scatter-point image (given explicitly, or down-sampled from the attenuation image):
\* points are re-sampled, both caches removed
NewPointsOp(s, n) == [s EXCEPT !.spImg = s.pts + 1, !.pts = @ + 1, !.np = n, !.actC = NoCache, !.attC = NoCache, !.asu = FALSE,
                               !.spFrom = Given, !.ptsFrom = << s.pts + 1, s.thr, IF s.rnd THEN 1 ELSE 0 >>]
SetSpOp(s, n) == NewPointsOp(s, n)
\* the image is down-sampled from the attenuation image with the current settings
DeriveOp(s, n) == [NewPointsOp(s, n) EXCEPT !.spFrom = SpNow(s)]
\* same image, points sampled again (threshold / placement changed)
ResampleOp(s, n) == [s EXCEPT !.pts = @ + 1, !.np = n, !.actC = NoCache, !.attC = NoCache, !.asu = FALSE, !.ptsFrom = PtsNow(s)]
DownsampleErr(s) == s.att = 0
\* downsample_density_image_for_scatter_points(zoom...): stores the settings and derives at once
DownsampleOp(s, n) == IF DownsampleErr(s) THEN s ELSE DeriveOp([s EXCEPT !.zoom = @ + 1, !.zoomAuto = FALSE], n)
\* (beyond the property) settings the sampled points / the derived image depend on
SetThrOp(s) == [s EXCEPT !.thr = @ + 1, !.asu = FALSE]
SetRndOp(s, b) == [s EXCEPT !.rnd = b, !.asu = FALSE]
SetZoomOp(s) == [s EXCEPT !.zoom = @ + 1, !.zoomAuto = FALSE, !.asu = FALSE]
\* template: detector sampling changes, so both caches, the detection points and the memoised
\* efficiency go
SetTmplOp(s, nd, g) == [s EXCEPT !.tmpl = @ + 1, !.nd = nd, !.geo = g, !.actC = NoCache, !.attC = NoCache, !.eff = Unset, !.asu = FALSE]
\* a scatter-point image that set_up derived with template-dependent (automatic) settings is
\* derived again after a template change
DropDerivedOp(s) == [s EXCEPT !.spImg = 0]
SetEnergyOp(s) == [s EXCEPT !.energy = @ + 1, !.asu = FALSE]
\* cache switch: a call that does not change the value is a no-op; a change removes the caches
\* (they are only allocated by set_up, so a new set_up is required)
SetCacheOp(s, b) == IF b = s.useCache THEN s
                    ELSE [s EXCEPT !.useCache = b, !.actC = NoCache, !.attC = NoCache, !.asu = FALSE]
SetOutOp(s) == [s EXCEPT !.out = s.geo]
\* downsample_scanner: a new (coarser) template AND output projection data for it
DownsampleScannerOp(s, nd, g) == SetOutOp(SetTmplOp(s, nd, g))
\* downsample_images_to_scanner_size: activity and attenuation image (those that are set) are
\* replaced by versions zoomed to the template's grid; "zooming of [the scatter-point image] will
\* happen in set_up": a derived scatter-point image is stale (SpStale), a given one is kept
DownsampleImagesErr(s) == s.tmpl = 0
DownsampleImagesOp(s) ==
  IF DownsampleImagesErr(s) THEN s
  ELSE [s EXCEPT !.act = IF @ = 0 THEN 0 ELSE @ + 1, !.actC = IF s.act = 0 THEN @ ELSE NoCache,
                 !.att = IF @ = 0 THEN 0 ELSE @ + 1, !.attC = IF s.att = 0 THEN @ ELSE NoCache,
                 !.asu = IF s.act = 0 /\ s.att = 0 THEN @ ELSE FALSE]

(* ------------------------------- set_up -------------------------------- *)
SetUpErr(s) == s.tmpl = 0 \/ s.energy = 0 \/ s.act = 0 \/ s.att = 0
Derives(s) == s.spImg = 0                          \* no scatter-point image: set_up has to down-sample the attenuation image
MustDerive(s) == Derives(s) \/ SpStale(s)           \* ... or the derived one is out of date
Keeps(c, np, nd) == c.np = np /\ c.nd = nd /\ np * nd > 0         \* "keep cache if correct size"
Alloc(c, np, nd) == IF Keeps(c, np, nd) THEN c ELSE EmptyCache(np, nd)
\* n = number of scatter points sampled when set_up derives the scatter-point image
SetUpOp(s, n) ==
  IF SetUpErr(s) THEN s
  ELSE LET s0 == IF MustDerive(s) THEN DeriveOp(s, n) ELSE s
           s1 == IF PtsStale(s0) THEN ResampleOp(s0, n) ELSE s0 IN
       [s1 EXCEPT !.actC = IF s1.useCache THEN Alloc(@, s1.np, s1.nd) ELSE @,
                  !.attC = IF s1.useCache THEN Alloc(@, s1.np, s1.nd) ELSE @,
                  !.eff = Unset,
                  !.asu = TRUE]

\* NAMED DEVIATION (findings C16-zoomlatch, C16-thrstale, C16-derivedstale): the set_up of the
\* code derives the scatter-point image only when there is none and never samples the points again
FinishSetUp(s1) == [s1 EXCEPT !.actC = IF s1.useCache THEN Alloc(@, s1.np, s1.nd) ELSE @,
                              !.attC = IF s1.useCache THEN Alloc(@, s1.np, s1.nd) ELSE @,
                              !.eff = Unset, !.asu = TRUE]
SetUpCodeOp(s, n) == IF SetUpErr(s) THEN s ELSE FinishSetUp(IF Derives(s) THEN DeriveOp(s, n) ELSE s)

(* ------------------------------ compute -------------------------------- *)
\* process_data: "need to call set_up() first"; the output must have been made for the template
ComputeErr(s) == ~s.asu \/ s.out = 0 \/ s.out # s.geo
\* with the cache on, the cache arrays are indexed [point][detector]: they must exist
\* (no scatter point above the threshold: nothing is indexed)
Usable(s) == (s.useCache /\ s.np * s.nd > 0) => /\ s.actC.np = s.np /\ s.actC.nd = s.nd
                                                /\ s.attC.np = s.np /\ s.attC.nd = s.nd
Entries(s) == 1..(s.np * s.nd)
\* the tag a read of entry i returns
ReadTag(c, i, now, uc) == IF uc /\ c.ent[i] # Empty THEN c.ent[i] ELSE now
Fill(c, R, now) == [c EXCEPT !.ent = [i \in DOMAIN c.ent |-> IF i \in R /\ c.ent[i] = Empty THEN now ELSE c.ent[i]]]
\* Ra, Rt: entries of the activity / attenuation cache the computation reads
ReadsValid(s, Ra, Rt) ==
  /\ Usable(s)
  /\ \A i \in Ra : ReadTag(s.actC, i, ActNow(s), s.useCache) = ActNow(s)
  /\ \A i \in Rt : ReadTag(s.attC, i, AttNow(s), s.useCache) = AttNow(s)
  /\ (s.eff # Unset => s.eff = EffNow(s))
ComputeOp(s, Ra, Rt) ==
  IF ComputeErr(s) \/ ~Usable(s) \/ s.np * s.nd = 0 THEN s
  ELSE [s EXCEPT !.actC = IF s.useCache THEN Fill(@, Ra, ActNow(s)) ELSE @,
                 !.attC = IF s.useCache THEN Fill(@, Rt, AttNow(s)) ELSE @,
                 !.eff = IF @ = Unset THEN EffNow(s) ELSE @]

(* ------------------------------ validity ------------------------------- *)
CacheValid(c, now) == \A i \in DOMAIN c.ent : c.ent[i] \in {Empty, now}
\* "every Compute after SetUp reads only valid cache entries": once set up, nothing stale is left
\* that a computation could read
AllValid(s) == /\ Usable(s)
               /\ (s.useCache => CacheValid(s.actC, ActNow(s)) /\ CacheValid(s.attC, AttNow(s)))
               /\ s.eff \in {Unset, EffNow(s)}
               /\ ~SpStale(s) /\ ~PtsStale(s)

(* ----------------- observations in fixed point (encoding F) ------------- *)
\* Outputs are logged as round(v * 2^k) with one k per scenario, |v * 2^k| < 2^28.
Abs(x) == IF x < 0 THEN -x ELSE x
Max2(a, b) == IF a > b THEN a ELSE b
\* Same settings => the same number (cache on/off, any history vs fresh object, detectors
\* exchanged): only the rounding of the two logged values (1 unit) plus 2^-22 relative.
EqTol(a, b) == 1 + Max2(Abs(a), Abs(b)) \div 4194304
EqOK(a, b) == Abs(a - b) <= EqTol(a, b)
\* Linearity in the activity image: the line integrals are single-precision sums of <= ~40
\* non-negative terms, so E(ca*xa + cb*xb) and ca*E(xa) + cb*E(xb) differ by accumulated rounding:
\* 2^-18 of the magnitudes involved plus the rounding of the three logged values.
LinTol(t, a, b, ca, cb) == 2 + Abs(ca) + Abs(cb) + (Abs(t) + Abs(ca) * Abs(a) + Abs(cb) * Abs(b)) \div 262144
LinOK(t, a, b, ca, cb) == Abs(t - (ca * a + cb * b)) <= LinTol(t, a, b, ca, cb)
=============================================================================
