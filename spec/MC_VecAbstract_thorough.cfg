SPECIFICATION Spec
CONSTANTS MaxDepth = 4 Sel = "full" WNeg = 1 WHi = 1 K = 2 Full2 = FALSE
INVARIANTS Inv_StateOK Inv_Clauses Inv_Total
CHECK_DEADLOCK FALSE
