SPECIFICATION Spec
CONSTANTS Variant = "silent_rerun" MaxLives = 1 Rich = FALSE
INVARIANTS InvBounds InvDenominator InvSchedule InvResume InvAscentDirection InvFixedPoint InvObject
CHECK_DEADLOCK FALSE
