SPECIFICATION Spec
CONSTANTS Deep = FALSE
INVARIANTS InvBoundary InvMean InvSym InvSep InvPad
CHECK_DEADLOCK FALSE
