SPECIFICATION Spec
CONSTANTS
  MaxIn = 4
  MaxVal = 2
  MaxOut = 7
  OffR = 6
  Z3Idx = {1, 2, 3, 5, 6, 7}
INVARIANTS InvWhole InvMiddle InvSum InvCom InvComTight InvUniform InvShift InvRelabel InvSeparable InvSum3
CHECK_DEADLOCK FALSE
