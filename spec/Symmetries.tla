------------------------------ MODULE Symmetries ------------------------------
(***************************************************************************)
(* The symmetry algebra of DataSymmetriesForBins_PET_CartesianGrid for     *)
(* cylindrical PET data and a Cartesian voxel grid (property C03; C04      *)
(* builds on it).                                                           *)
(*                                                                         *)
(* The module is self-contained on top of Geometry.tla (Michelogram,       *)
(* views, TOF bins).  It has three layers:                                 *)
(*                                                                         *)
(* 1. EffectiveSwitches: the five requested symmetry switches, as reduced  *)
(*    by the documented guards of the constructor.                         *)
(* 2. The case analysis of the implementation, transcribed: FindBasic      *)
(*    (find_basic_bin), FindOp (find_sym_op_bin0 / _general_bin: which of  *)
(*    the 17 operation classes, with which parameters), and for every      *)
(*    operation class its bin map (BinMap) and voxel map (VoxMap).         *)
(* 3. An independent ground truth: the NOMINAL LINE of a bin               *)
(*        X = s cos(phi) + a sin(phi),  Y = s sin(phi) - a cos(phi),       *)
(*        Z = m - a tan(theta)                                             *)
(*    (STIR's own parametrisation, the one get_phi/get_s/get_m and the ray *)
(*    tracer use) and the action IsoLine of an image isometry on lines,    *)
(*    derived from the VOXEL MAP ALONE.  Theorems S1-S3 (checked by TLC in *)
(*    MC_Symmetries) say that layer 2 is consistent with layer 3:          *)
(*      S1  FindBasic is idempotent and BinMap(FindOp(b), FindBasic(b)) = b*)
(*      S2  the voxel map of FindOp(b) carries the nominal line of         *)
(*          FindBasic(b) onto the nominal line of b, i.e. bin map and      *)
(*          voxel map of the chosen class describe the same isometry       *)
(*      S3  related bins / num_related_bins are the orbits of FindBasic    *)
(*    Trace_Symmetries binds layer 1 and 2 to the real classes.            *)
(*                                                                         *)
(* Records.                                                                *)
(*   c  : configuration of the projection data, as in Geometry.tla         *)
(*   g  : image grid seen from the scanner                                 *)
(*        zmin, zmax  index range of the image planes                      *)
(*        nppr        image planes per scanner ring (ring spacing / z      *)
(*                    voxel size, an integer >= 1)                         *)
(*        oz          z origin of the image in planes (integer)            *)
(*        square      x voxel size = y voxel size                          *)
(*        xy0         x and y origin are 0                                 *)
(*        tilt        scanner has an intrinsic azimuthal tilt              *)
(*        geom        "Cylindrical" | "BlocksOnCylindrical" | "Generic"    *)
(*        uadb        (optional field, see UsesChords) the matrix traces   *)
(*                    chords between actual detector centres               *)
(*   sw : [s90, s180, sseg, ss, sz : BOOLEAN]  the switches                *)
(*        do_symmetry_90degrees_min_phi, _180degrees_min_phi,              *)
(*        _swap_segment, _swap_s, _shift_z                                 *)
(*   b  : bin [seg, ax, view, tang, tof]  (Geometry!Bin)                   *)
(*   voxels are triples <<z, y, x>> (STIR index order)                     *)
(*                                                                         *)
(* Units.  Image plane z of ring r (possibly a half-integer) is kept in    *)
(* QUARTER planes so that average ring differences of truncated segments   *)
(* stay integral: Z4 = 4 z.                                                *)
(***************************************************************************)
EXTENDS Geometry, IOUtils

Mod(a, n) == ((a % n) + n) % n
NumViews(c) == NV(c) \div c.mash
IsTof(c) == c.tofMash # 0

Switches == [s90 : BOOLEAN, s180 : BOOLEAN, sseg : BOOLEAN, ss : BOOLEAN, sz : BOOLEAN]
NoSym == [s90 |-> FALSE, s180 |-> FALSE, sseg |-> FALSE, ss |-> FALSE, sz |-> FALSE]

(* ------------------ 1. effective switches (documented guards) ----------- *)
(* "90 degrees implies 180 degrees"; 90 degrees off unless the number of   *)
(* views is a multiple of 4 and the voxels are square in x,y; 180 degrees  *)
(* off for an odd number of views; both off when phi of view 0 is not 0    *)
(* (view mashing, intrinsic tilt); for TOF data and for images with a      *)
(* shifted x/y origin only shift_z survives; BlocksOnCylindrical: only     *)
(* shift_z is implemented and asking for any other switch disables all;    *)
(* Generic: no symmetries.                                                 *)
PhiOffsetZero(c, g) == c.mash = 1 /\ ~g.tilt
\* azimuthal angle of a view in units of pi/N (half an unmashed view step): mashing `mash' views puts the mashed
\* view in the middle of them, "an extra offset of (mash-1) pi/N"; zero for view 0 iff there is no mashing (and no tilt)
PhiQ(c, view) == 2 * c.mash * view + (c.mash - 1)
\* BlocksOnCylindrical data: c.cpb = axial crystals per block, c.uniform = the axial block spacing is cpb crystal spacings
UniformAxial(c) == "uniform" \notin DOMAIN c \/ c.uniform
\* ProjMatrixByBinUsingRayTracing with use_actual_detector_boundaries (section 3b).  The unchanged
\* implementation keeps every symmetry in that mode (known finding C03-uadb); the proposed patch
\* notes/C03-fix-1.diff drops the two phi symmetries and traverses the chord in the nominal direction.
\* The runner sets the environment variable C03_UADB_FIXED when the patched lines are present in the
\* source tree under test (the known finding is then expected to be marked fixed, so that the
\* unpatched behaviour becomes a VIOLATION again).
UadbFixApplied == "C03_UADB_FIXED" \in DOMAIN IOEnv
\* likewise for notes/C03-fix-3.diff (interpolating matrix: no 90 degrees symmetry for images with different
\* sizes in x and y; grid field sqrange, see C03TraceCommon!GridOf): environment variable C03_INTERP_SQUARE_FIXED
InterpSquareFixApplied == "C03_INTERP_SQUARE_FIXED" \in DOMAIN IOEnv
UsesChords(g) == "uadb" \in DOMAIN g /\ g.uadb
EffectiveSwitches(c, g, sw) ==
  LET s180r == sw.s90 \/ sw.s180                      \* constructor: 180 := 90 or 180
      nvw == NumViews(c)
      inplane == PhiOffsetZero(c, g) /\ ~IsTof(c) /\ g.xy0 /\ ~(UadbFixApplied /\ UsesChords(g))
      other == ~IsTof(c) /\ g.xy0
  IN CASE g.geom = "Cylindrical" ->
            [s90 |-> sw.s90 /\ g.square /\ nvw % 4 = 0 /\ inplane,
             s180 |-> s180r /\ nvw % 2 = 0 /\ inplane,
             sseg |-> sw.sseg /\ other,
             ss |-> sw.ss /\ other,
             sz |-> sw.sz]
       [] g.geom = "BlocksOnCylindrical" ->
            \* (the guard "shift_z needs uniform axial sampling" is inert: axial_sampling_is_uniform() is a stub
            \* that answers true; shift_z is block-aware - section 2c - and stays sound with gaps between blocks)
            IF s180r \/ sw.sseg \/ sw.ss THEN NoSym ELSE [NoSym EXCEPT !.sz = sw.sz]
       [] OTHER -> NoSym

(* ------------------ image planes and the nominal line ------------------- *)
\* axial positions per ring increment of segment s is Inc(c, s) (Geometry): the axial sampling of
\* the segment is ring spacing / Inc, i.e. Npa image planes per axial position
Npa(c, g, s) == g.nppr \div Inc(c, s)
\* the grid can carry this data: "z-grid spacing equal to the sinogram spacing divided by an integer"
GridOk(c, g) == g.nppr >= 1 /\ g.zmin <= g.zmax /\ \A s \in Segs(c) : g.nppr % Inc(c, s) = 0
\* twice the (possibly half-integral) image index of the centre of the scanner: the middle of the
\* image corresponds to the centre of the scanner when the origin is 0
Centre2(g) == g.zmin + g.zmax - 2 * g.oz
\* twice the image index of the axial middle of bin (s, ax): all ring pairs of the bin have
\* ring1 + ring2 = SumOf(c, s, ax); ring r sits nppr * (r - (R-1)/2) planes from the centre
M2(c, g, s, ax) == Centre2(g) + g.nppr * (SumOf(c, s, ax) - (c.R - 1))
\* twice the average ring difference of the segment
D2(c, s) == SegMinRD(c, s) + SegMaxRD(c, s)
\* z of the two ends of the nominal line in quarter planes: middle -/+ half the ring difference
ZA4(c, g, b) == 2 * M2(c, g, b.seg, b.ax) - g.nppr * D2(c, b.seg)
ZB4(c, g, b) == 2 * M2(c, g, b.seg, b.ax) + g.nppr * D2(c, b.seg)
\* documented relation "z = num_planes_per_axial_pos * axial_pos_num + axial_pos_to_z_offset"
\* (z of the ring-1 end of the line): the offset in quarter planes
AxialPosToZOffset4(c, g, s) == 2 * M2(c, g, s, 0) - g.nppr * D2(c, s)

\* nominal line <<view, tang, zA4, zB4, tof>>; going round by 180 degrees is the same line
\* traversed in the opposite direction:  (v + nv, t, zA, zB, k) ~ (v, -t, zB, zA, -k)
Line(c, g, b) == << b.view, b.tang, ZA4(c, g, b), ZB4(c, g, b), b.tof >>
Canon(c, l) ==
  LET nvw == NumViews(c)
      v == Mod(l[1], 2 * nvw)
  IN IF v >= nvw THEN << v - nvw, -l[2], l[4], l[3], -l[5] >> ELSE << v, l[2], l[3], l[4], l[5] >>

(* ------------------ 2a. the 17 operation classes ------------------------ *)
(* An operation is [name, swap, xs, ys, zq] + parameters [nv (view180),    *)
(* aps (axial_pos_shift), zs (z_shift), q (transform_z)].  Voxel map:      *)
(*   x' = xs * (swap ? y : x),  y' = ys * (swap ? x : y),                  *)
(*   z' = z + zs   or, for the _zq classes,  z' = q - z + zs.              *)
(* The name spells the map as in the class name: "xmy_yx" = x -> -y, y -> x*)
OpClass(name, swap, xs, ys, zq) == [name |-> name, swap |-> swap, xs |-> xs, ys |-> ys, zq |-> zq]
TRIV == OpClass("trivial", FALSE, 1, 1, FALSE)
ZSHIFT == OpClass("z_shift", FALSE, 1, 1, FALSE)
XMX_ZQ == OpClass("xmx_zq", FALSE, -1, 1, TRUE)
XMY_YX_ZQ == OpClass("xmy_yx_zq", TRUE, -1, 1, TRUE)
XY_YX_ZQ == OpClass("xy_yx_zq", TRUE, 1, 1, TRUE)
XMY_YX == OpClass("xmy_yx", TRUE, -1, 1, FALSE)
XY_YX == OpClass("xy_yx", TRUE, 1, 1, FALSE)
XMX == OpClass("xmx", FALSE, -1, 1, FALSE)
YMY == OpClass("ymy", FALSE, 1, -1, FALSE)
ZQ == OpClass("zq", FALSE, 1, 1, TRUE)
XMX_YMY_ZQ == OpClass("xmx_ymy_zq", FALSE, -1, -1, TRUE)
XY_YMX_ZQ == OpClass("xy_ymx_zq", TRUE, 1, -1, TRUE)
XY_YMX == OpClass("xy_ymx", TRUE, 1, -1, FALSE)
XMY_YMX == OpClass("xmy_ymx", TRUE, -1, -1, FALSE)
YMY_ZQ == OpClass("ymy_zq", FALSE, 1, -1, TRUE)
XMX_YMY == OpClass("xmx_ymy", FALSE, -1, -1, FALSE)
XMY_YMX_ZQ == OpClass("xmy_ymx_zq", TRUE, -1, -1, TRUE)
OpClasses == { TRIV, ZSHIFT, XMX_ZQ, XMY_YX_ZQ, XY_YX_ZQ, XMY_YX, XY_YX, XMX, YMY, ZQ, XMX_YMY_ZQ, XY_YMX_ZQ,
               XY_YMX, XMY_YMX, YMY_ZQ, XMX_YMY, XMY_YMX_ZQ }
WithParams(cl, nvw, aps, zs, q) ==
  [name |-> cl.name, swap |-> cl.swap, xs |-> cl.xs, ys |-> cl.ys, zq |-> cl.zq,
   nv |-> nvw, aps |-> IF cl.name = "trivial" THEN 0 ELSE aps, zs |-> IF cl.name = "trivial" THEN 0 ELSE zs, q |-> q]

\* voxel map (transform_image_coordinates), voxel = <<z, y, x>>
ZMap(op, z) == IF op.zq THEN op.q - z + op.zs ELSE z + op.zs
VoxMap(op, vox) ==
  << ZMap(op, vox[1]),
     op.ys * (IF op.swap THEN vox[3] ELSE vox[2]),
     op.xs * (IF op.swap THEN vox[2] ELSE vox[3]) >>

\* bin map (transform_bin_coordinates): applied to the basic bin, gives the original bin
BinMap(op, bb) ==
  LET b0 == [bb EXCEPT !.ax = bb.ax + op.aps]
      nvw == op.nv
      h == nvw \div 2
  IN CASE op.name = "trivial" -> bb
       [] op.name = "z_shift" -> b0
       [] op.name = "xmx_zq" -> [b0 EXCEPT !.view = nvw - b0.view]
       [] op.name = "xmy_yx_zq" -> [b0 EXCEPT !.seg = -b0.seg, !.view = b0.view + h]
       [] op.name = "xy_yx_zq" -> [b0 EXCEPT !.view = h - b0.view]
       [] op.name = "xmy_yx" -> IF b0.view < h THEN [b0 EXCEPT !.view = b0.view + h]
                                ELSE [b0 EXCEPT !.seg = -b0.seg, !.view = b0.view - h, !.tang = -b0.tang]
       [] op.name = "xy_yx" -> IF b0.view <= h THEN [b0 EXCEPT !.seg = -b0.seg, !.view = h - b0.view]
                               ELSE [b0 EXCEPT !.view = 3 * h - b0.view, !.tang = -b0.tang]
       [] op.name = "xmx" -> IF b0.view # 0 THEN [b0 EXCEPT !.seg = -b0.seg, !.view = nvw - b0.view]
                             ELSE [b0 EXCEPT !.tang = -b0.tang]
       [] op.name = "ymy" -> IF b0.view # 0 THEN [b0 EXCEPT !.view = nvw - b0.view, !.tang = -b0.tang]
                             ELSE [b0 EXCEPT !.seg = -b0.seg]
       [] op.name = "zq" -> [b0 EXCEPT !.seg = -b0.seg]
       [] op.name = "xmx_ymy_zq" -> [b0 EXCEPT !.tang = -b0.tang, !.tof = -b0.tof]
       [] op.name = "xy_ymx_zq" -> IF b0.view < h THEN [b0 EXCEPT !.view = b0.view + h, !.tang = -b0.tang]
                                   ELSE [b0 EXCEPT !.seg = -b0.seg, !.view = b0.view - h]
       [] op.name = "xy_ymx" -> IF b0.view < h THEN [b0 EXCEPT !.seg = -b0.seg, !.view = b0.view + h, !.tang = -b0.tang]
                                ELSE [b0 EXCEPT !.view = b0.view - h]
       [] op.name = "xmy_ymx" -> IF b0.view <= h THEN [b0 EXCEPT !.view = h - b0.view, !.tang = -b0.tang]
                                 ELSE [b0 EXCEPT !.seg = -b0.seg, !.view = 3 * h - b0.view]
       [] op.name = "ymy_zq" -> [b0 EXCEPT !.seg = -b0.seg, !.view = nvw - b0.view, !.tang = -b0.tang]
       [] op.name = "xmx_ymy" -> [b0 EXCEPT !.seg = -b0.seg, !.tang = -b0.tang, !.tof = -b0.tof]
       [] op.name = "xmy_ymx_zq" -> [b0 EXCEPT !.seg = -b0.seg, !.view = h - b0.view, !.tang = -b0.tang]

(* ------------------ 2b. basic bin and choice of operation --------------- *)
\* esw: EFFECTIVE switches.  Cylindrical data only.
FindBasic(c, esw, b) ==
  LET nvw == NumViews(c)
      v90 == nvw \div 2
      v45 == v90 \div 2
      v135 == v90 + v45
      seg1 == IF esw.sseg /\ b.seg < 0 THEN -b.seg ELSE b.seg
      view1 == IF esw.s90 THEN
                  (IF b.view >= v135 THEN nvw - b.view
                   ELSE IF b.view >= v90 THEN b.view - v90
                   ELSE IF b.view > v45 THEN v90 - b.view ELSE b.view)
               ELSE IF esw.s180 THEN (IF b.view > v90 THEN nvw - b.view ELSE b.view)
               ELSE b.view
      flip == esw.ss /\ b.tang < 0
  IN [seg |-> seg1, ax |-> IF esw.sz THEN 0 ELSE b.ax, view |-> view1,
      tang |-> IF flip THEN -b.tang ELSE b.tang,
      \* "when swap_s, must invert timing pos": the row of (-s, -k) is the point reflection of (s, k)
      tof |-> IF flip THEN -b.tof ELSE b.tof]
IsBasic(c, esw, b) == FindBasic(c, esw, b) = b

\* transform_z: "Z + Q = 2 * centre of the LOR in image coordinates" of the basic bin
TransformZ(c, g, esw, b) == M2(c, g, Abs(b.seg), IF esw.sz THEN 0 ELSE b.ax)

FindOpClass(c, esw, b, zs) ==
  LET nvw == NumViews(c)
      v == b.view  sg == b.seg  s == b.tang
      v90 == nvw \div 2
      v45 == nvw \div 4
      v135 == (nvw \div 4) * 3
      plain == IF zs = 0 THEN TRIV ELSE ZSHIFT
      spos == ~esw.ss \/ s > 0
  IN IF s = 0 THEN          \* find_sym_op_bin0
        (IF esw.s90 /\ v > v90 /\ v <= v135 THEN (IF ~esw.sseg \/ sg >= 0 THEN XMY_YX ELSE XMY_YX_ZQ)
         ELSE IF esw.s90 /\ v > v45 /\ v <= v90 THEN (IF ~esw.sseg \/ sg >= 0 THEN XY_YX_ZQ ELSE XY_YX)
         ELSE IF esw.s180 /\ v > v90 THEN (IF ~esw.sseg \/ sg >= 0 THEN XMX_ZQ ELSE XMX)
         ELSE IF esw.sseg /\ sg < 0 THEN ZQ ELSE plain)
     ELSE                   \* find_sym_op_general_bin
        (IF esw.s90 /\ v > v90 /\ v <= v135 THEN
            (IF ~esw.sseg \/ sg > 0 THEN (IF spos THEN XMY_YX ELSE XY_YMX_ZQ)
             ELSE IF sg < 0 THEN (IF spos THEN XMY_YX_ZQ ELSE XY_YMX)
             ELSE (IF spos THEN XMY_YX ELSE XY_YMX))
         ELSE IF esw.s90 /\ v > v45 /\ v <= v90 THEN
            (IF ~esw.sseg \/ sg > 0 THEN (IF spos THEN XY_YX_ZQ ELSE XMY_YMX)
             ELSE IF sg < 0 THEN (IF spos THEN XY_YX ELSE XMY_YMX_ZQ)
             ELSE (IF spos THEN XY_YX ELSE XMY_YMX))
         ELSE IF esw.s180 /\ v > v90 THEN
            (IF ~esw.sseg \/ sg > 0 THEN (IF spos THEN XMX_ZQ ELSE YMY)
             ELSE (IF spos THEN XMX ELSE YMY_ZQ))
         ELSE
            (IF ~esw.sseg \/ sg > 0 THEN (IF esw.ss /\ s < 0 THEN XMX_YMY_ZQ ELSE plain)
             ELSE IF sg < 0 THEN (IF esw.ss /\ s < 0 THEN XMX_YMY ELSE ZQ)
             ELSE (IF esw.ss /\ s < 0 THEN XMX_YMY ELSE plain)))

\* the operation (class + parameters) that maps the row of FindBasic(b) to the row of b
FindOp(c, g, esw, b) ==
  LET aps == IF esw.sz THEN b.ax ELSE 0
      zs == IF esw.sz THEN Npa(c, g, b.seg) * b.ax ELSE 0
  IN WithParams(FindOpClass(c, esw, b, zs), NumViews(c), aps, zs, TransformZ(c, g, esw, b))

\* a row is a set (or sequence) of <<voxel, value>>; symmetry-derived row of b from the basic row
TransformRow(op, row) == { << VoxMap(op, e[1]), e[2] >> : e \in row }

(* ------------------ 2c. BlocksOnCylindrical: shift_z -------------------- *)
(* For block geometry only shift_z is implemented (span 1, uniform axial    *)
(* sampling): a bin may be shifted axially as long as its two rings stay in *)
(* their blocks; the basic bin is "the first LOR of the group" - ring 1 at  *)
(* the first crystal of its block when the ring difference then spans the   *)
(* same number of blocks, otherwise at the last crystal ("the last LOR").    *)
(* Ring pair of a span-1 bin: segment = ring2 - ring1, axial position = the *)
(* smaller ring.                                                            *)
Ring1(b) == IF b.seg >= 0 THEN b.ax ELSE b.ax - b.seg
Ring2(b) == IF b.seg >= 0 THEN b.ax + b.seg ELSE b.ax
BlockStart(c, r) == (r \div c.cpb) * c.cpb
FindBasicBlocks(c, esw, b) ==
  IF ~esw.sz THEN b
  ELSE LET r1 == Ring1(b)  r2 == Ring2(b)  d == r2 - r1  ad == Abs(d)
           blkdiff == Abs((r2 \div c.cpb) - (r1 \div c.cpb))
           first == ad % c.cpb = 0 \/ blkdiff = ad \div c.cpb
           \* the ring with the smaller number is moved to the first (or last) crystal of its block
           lowNew == IF first THEN BlockStart(c, Min2(r1, r2)) ELSE BlockStart(c, Min2(r1, r2)) + c.cpb - 1
       IN [b EXCEPT !.ax = lowNew]
\* z_shift by the difference of the axial positions ("transform_bin_coordinates(basic bin) = bin")
FindOpBlocks(c, g, esw, b) ==
  LET bb == FindBasicBlocks(c, esw, b)
      dax == b.ax - bb.ax
      zs == Npa(c, g, b.seg) * dax
  IN WithParams(IF zs = 0 THEN TRIV ELSE ZSHIFT, NumViews(c), dax, zs, 0)
BlocksConfigOk(c, g) == g.geom = "BlocksOnCylindrical" /\ c.span = 1 /\ ~c.ge /\ c.mash = 1 /\ c.tofMash = 0
                        /\ "cpb" \in DOMAIN c /\ c.cpb >= 1 /\ c.R % c.cpb = 0 /\ LegalConfig(c) /\ GridOk(c, g)
(* ------------------ 3. isometries acting on nominal lines --------------- *)
(* An in-plane isometry acts on phi by  phi -> phi + alpha  (orientation   *)
(* preserving) or  phi -> alpha - phi, a -> -a  (orientation reversing),   *)
(* alpha = angle of the image of e_x = k quarter turns, read off the voxel *)
(* map; reversing `a' exchanges the two ends (and the sign of the TOF      *)
(* coordinate).  z goes through the z part of the voxel map.               *)
QuarterTurns(op) ==
  LET ex == op.xs * (IF op.swap THEN 0 ELSE 1)     \* image of e_x = (1,0): x' component
      ey == op.ys * (IF op.swap THEN 1 ELSE 0)     \*                       y' component
  IN IF ex = 1 THEN 0 ELSE IF ey = 1 THEN 1 ELSE IF ex = -1 THEN 2 ELSE 3
IsoLine(op, l) ==
  LET k == QuarterTurns(op)
      det == op.xs * op.ys * (IF op.swap THEN -1 ELSE 1)
      turn == (k * op.nv) \div 2                   \* k quarter turns in views (180 degrees = nv views)
      z4(z) == IF op.zq THEN 4 * op.q - z + 4 * op.zs ELSE z + 4 * op.zs
  IN IF det > 0 THEN << l[1] + turn, l[2], z4(l[3]), z4(l[4]), l[5] >>
     ELSE << turn - l[1], l[2], z4(l[4]), z4(l[3]), -l[5] >>
\* quarter turns only exist when the number of views allows them
TurnOk(op) == (QuarterTurns(op) * op.nv) % 2 = 0

(* ------------------ 3b. lines between actual detector centres ------------ *)
(* ProjMatrixByBinUsingRayTracing with use_actual_detector_boundaries (data *)
(* without view mashing and axial compression) does not trace the nominal   *)
(* line but the chord between the centres of the two detectors of the bin:  *)
(*   phi = (det1 + det2) pi/N - pi/2,  s = R sin((det1 - det2) pi/N + pi/2) *)
(* with the detector numbers of get_det_num_pair_for_view_tangential_pos_   *)
(* num, which are reduced modulo N.  In units of pi/N:                      *)
(*   phi2 = det1 + det2 - N/2,   s = R cos(delta pi/N), delta = det1 - det2 *)
(* Odd tangential positions sit half a view step off the nominal phi        *)
(* (interleaving) and a wrapped detector number turns phi by 180 degrees,   *)
(* i.e. reverses the direction in which the oblique line is traversed.      *)
(* S2det asks of these lines what S2 asks of the nominal ones; TLC decides  *)
(* for which bins and switches it holds (MC_Symmetries, DetClauses).        *)
DetPair(c, b) == VT2D(c.N, b.view, b.tang)
\* s as the class of delta under cos(x) = cos(-x) = cos(x + 2 pi): 0..N, and -s <-> N - s
SClass(c, delta) == LET m == Mod(delta, 2 * c.N) IN IF m > c.N THEN 2 * c.N - m ELSE m
LineDet(c, g, b) ==
  LET d == DetPair(c, b) IN
  IF UadbFixApplied
  THEN \* patched: the chord is traversed in the direction of the nominal line of the bin
       << 2 * b.view - (b.tang % 2), SClass(c, b.tang - c.N \div 2), ZA4(c, g, b), ZB4(c, g, b), b.tof >>
  ELSE << d[1] + d[2] - c.N \div 2, SClass(c, d[1] - d[2]), ZA4(c, g, b), ZB4(c, g, b), b.tof >>
CanonDet(c, l) ==
  LET p == Mod(l[1], 2 * c.N) IN
  IF p >= c.N THEN << p - c.N, c.N - l[2], l[4], l[3], -l[5] >> ELSE << p, l[2], l[3], l[4], l[5] >>
IsoLineDet(c, op, l) ==
  LET k == QuarterTurns(op)
      det == op.xs * op.ys * (IF op.swap THEN -1 ELSE 1)
      turn == k * (c.N \div 2)                    \* a quarter turn is N/2 units of pi/N
      z4(z) == IF op.zq THEN 4 * op.q - z + 4 * op.zs ELSE z + 4 * op.zs
  IN IF det > 0 THEN << l[1] + turn, l[2], z4(l[3]), z4(l[4]), l[5] >>
     ELSE << turn - l[1], l[2], z4(l[4]), z4(l[3]), -l[5] >>
\* s = 0 on a line through the centre: both traversal directions are the same line, and SClass N/2
\* is its own negative; then (p, N/2, zA, zB) ~ (p + N, N/2, zB, zA) is handled by CanonDet as well
S2det(c, g, esw, b) ==
  LET bb == FindBasic(c, esw, b)
      op == FindOp(c, g, esw, b)
  IN (c.N * QuarterTurns(op)) % 2 = 0
     /\ CanonDet(c, IsoLineDet(c, op, LineDet(c, g, bb))) = CanonDet(c, LineDet(c, g, b))
\* What TLC decides about the chords (MC_Symmetries, Inv6), for data without mashing and compression:
\* the symmetry relations hold for every bin when neither phi symmetry nor swap_s is enabled
\* (swap_segment and shift_z are always sound); with the patch, swap_s is sound as well.
\* With a phi symmetry enabled the relation fails for some bins (odd tangential positions under
\* reflections; bins with a wrapped detector number); S2det says for which.
ChordClauses(c, g, esw) ==
  (~esw.s90 /\ ~esw.s180 /\ (UadbFixApplied \/ ~esw.ss)) => \A b \in AllBins(c) : S2det(c, g, esw, b)
\* the chord of a bin is its nominal line iff the tangential position is even and no detector
\* number wrapped the wrong way (phi2 = 2 view, same s)
DetIsNominal(c, g, b) ==
  CanonDet(c, LineDet(c, g, b)) = CanonDet(c, << 2 * b.view, SClass(c, b.tang - c.N \div 2), ZA4(c, g, b), ZB4(c, g, b), b.tof >>)

(* ------------------ related bins ---------------------------------------- *)
InRange(c, b) == b \in AllBins(c)
\* every bin whose basic bin can be bb lies in this small candidate set
OrbitCands(c, bb) ==
  LET nvw == NumViews(c)  h == nvw \div 2 IN
  { Bin(s, a, Mod(v, nvw), t[1], t[2]) :
      s \in {bb.seg, -bb.seg}, a \in 0..(NumAx(c, bb.seg) - 1),
      v \in {bb.view, nvw - bb.view, bb.view + h, h - bb.view},
      t \in { <<bb.tang, bb.tof>>, <<-bb.tang, -bb.tof>> } }
Orbit(c, esw, bb) == { x \in OrbitCands(c, bb) : InRange(c, x) /\ FindBasic(c, esw, x) = bb }
\* num_related_bins as documented (for a tangential range that is symmetric about 0)
NumRelated(c, esw, b) ==
  LET nvw == NumViews(c) IN
  (IF esw.s180 /\ b.view % (nvw \div 2) # 0 THEN 2 ELSE 1)
  * (IF esw.s90 /\ b.view % (nvw \div 2) # nvw \div 4 THEN 2 ELSE 1)
  * (IF esw.sseg /\ b.seg # 0 THEN 2 ELSE 1)
  * (IF esw.ss /\ b.tang # 0 THEN 2 ELSE 1)
  * (IF esw.sz THEN NumAx(c, b.seg) ELSE 1)

\* basic bin and operation for either geometry class
FindBasicG(c, g, esw, b) == IF g.geom = "BlocksOnCylindrical" THEN FindBasicBlocks(c, esw, b) ELSE FindBasic(c, esw, b)
FindOpG(c, g, esw, b) == IF g.geom = "BlocksOnCylindrical" THEN FindOpBlocks(c, g, esw, b) ELSE FindOp(c, g, esw, b)
\* S1 / S2 for block geometry (the lines are the nominal ones: the axial sampling is uniform)
S1Blocks(c, g, esw, b) ==
  LET bb == FindBasicBlocks(c, esw, b) IN
  /\ InRange(c, bb) /\ FindBasicBlocks(c, esw, bb) = bb
  /\ BinMap(FindOpBlocks(c, g, esw, b), bb) = b
S2Blocks(c, g, esw, b) ==
  LET bb == FindBasicBlocks(c, esw, b)  op == FindOpBlocks(c, g, esw, b) IN
  /\ Canon(c, IsoLine(op, Line(c, g, bb))) = Canon(c, Line(c, g, b))
  \* the shift keeps both rings inside their blocks (a rigid translation even if there were gaps)
  /\ Ring1(bb) \div c.cpb = Ring1(b) \div c.cpb /\ Ring2(bb) \div c.cpb = Ring2(b) \div c.cpb

(* ------------------ theorems checked by TLC (MC_Symmetries) ------------- *)
\* configurations this module describes
SymConfigOk(c, g) ==
  /\ LegalConfig(c) /\ ~c.ge /\ GridOk(c, g)
  /\ g.geom = "Cylindrical"
  /\ ~TruncSingleRD(c)                      \* see known finding C01-truncseg
S1(c, g, esw, b) ==
  LET bb == FindBasic(c, esw, b) IN
  /\ FindBasic(c, esw, bb) = bb
  /\ BinMap(FindOp(c, g, esw, b), bb) = b
S2(c, g, esw, b) ==
  LET bb == FindBasic(c, esw, b)
      op == FindOp(c, g, esw, b)
  IN /\ TurnOk(op)
     /\ Canon(c, IsoLine(op, Line(c, g, bb))) = Canon(c, Line(c, g, b))
\* related bins: the cheap candidate enumeration is the orbit, and the documented count is its size
SymmetricTang(c) == c.minTang = -c.maxTang
S3(c, esw, b) ==
  \* the cheap candidate enumeration misses no bin, so Orbit(bb) = { x \in AllBins(c) : FindBasic(x) = bb }
  /\ b \in OrbitCands(c, FindBasic(c, esw, b))
  /\ (IsBasic(c, esw, b) /\ SymmetricTang(c)) => Cardinality(Orbit(c, esw, b)) = NumRelated(c, esw, b)
=============================================================================
