-------------------------------- MODULE Conv --------------------------------
(***************************************************************************)
(* Exact integer convolution of arrays with arbitrary index ranges, as     *)
(* documented by STIR's array filters (ArrayFilter1DUsingConvolution:      *)
(* "out_i = sum_j kernel_j in_{i-j}", non-periodic, elements outside the   *)
(* index range of the input are 0 (zero boundary conditions) or equal to   *)
(* the nearest element (constant boundary conditions)).                    *)
(*                                                                         *)
(* An array is a record  [lo |-> <<l1,l2,l3>>, n |-> <<n1,n2,n3>>, v |-> s] *)
(* lo: first index per axis, n: sizes per axis, s: the values in row-major *)
(* order (axis 3 runs fastest).  1-D arrays use axis 3 (n = <<1,1,len>>),  *)
(* 2-D arrays axes 2 and 3.  Values are integers: the instances bound to   *)
(* the code are dyadic rationals at a fixed scale on which single          *)
(* precision arithmetic is exact, so the expected result is an integer     *)
(* and the comparison is equality.                                         *)
(***************************************************************************)
EXTENDS Integers, Sequences, FiniteSets, TLC, Functions

Abs(x) == IF x < 0 THEN -x ELSE x
Min2(a, b) == IF a < b THEN a ELSE b
Max2(a, b) == IF a > b THEN a ELSE b

Axes == 1..3
Size(n) == n[1] * n[2] * n[3]
Arr(lo, n, v) == [lo |-> lo, n |-> n, v |-> v]
Hi(a) == [d \in Axes |-> a.lo[d] + a.n[d] - 1]
IsArray(a) == /\ \A d \in Axes : a.n[d] >= 0
              /\ Len(a.v) = Size(a.n)

\* position of the q-th (0-based) element of a row-major array with range (lo, n)
Pos(lo, n, q) == << lo[1] + (q \div (n[2] * n[3])), lo[2] + ((q \div n[3]) % n[2]), lo[3] + (q % n[3]) >>
InRange(a, p) == \A d \in Axes : p[d] >= a.lo[d] /\ p[d] < a.lo[d] + a.n[d]
Off(a, p) == ((p[1] - a.lo[1]) * a.n[2] + (p[2] - a.lo[2])) * a.n[3] + (p[3] - a.lo[3]) + 1

\* boundary conditions (BoundaryConditions::BC): what an input array is taken to be outside its range
BCs == {"zero", "constant", "periodic"}
\* "Currently bc has to be BoundaryConditions::zero or BoundaryConditions::constant": periodic must be
\* refused with an error, never computed as something else
Supported(bc) == bc \in {"zero", "constant"}
Clamp(a, p) == [d \in Axes |-> Max2(a.lo[d], Min2(a.lo[d] + a.n[d] - 1, p[d]))]
At(a, p, bc) == IF InRange(a, p) THEN a.v[Off(a, p)]
                ELSE IF bc = "zero" \/ Size(a.n) = 0 THEN 0
                ELSE a.v[Off(a, Clamp(a, p))]
At0(a, p) == At(a, p, "zero")

Sum(f) == FoldFunction(+, 0, f)

(* ------------------------------------------------------------------------ *)
(* N-D convolution: out_p = sum_j k_j in_{p-j}  (zero boundary conditions   *)
(* unless bc says otherwise), evaluated on the requested output range.      *)
(* ------------------------------------------------------------------------ *)
\* "trivial means, either the kernel has 0 length, or length 1 and its only element is 1": a kernel
\* without elements stands for the identity, not for the zero operator
Identity == Arr(<<0, 0, 0>>, <<1, 1, 1>>, <<1>>)
Eff(k) == IF Size(k.n) = 0 THEN Identity ELSE k

ConvAt(k, a, p, bc) ==
  Sum([jq \in 1..Size(k.n) |->
        LET j == Pos(k.lo, k.n, jq - 1) IN
        k.v[jq] * At(a, << p[1] - j[1], p[2] - j[2], p[3] - j[3] >>, bc)])

ConvBC(kk, a, olo, on, bc) ==
  LET k == Eff(kk) IN
  Arr(olo, on, [q \in 1..Size(on) |-> ConvAt(k, a, Pos(olo, on, q - 1), bc)])
Conv(k, a, olo, on) == ConvBC(k, a, olo, on, "zero")

\* a 1-D kernel (lo, values) placed along axis ax
Along(ax, lo, v) == Arr([d \in Axes |-> IF d = ax THEN lo ELSE 0], [d \in Axes |-> IF d = ax THEN Len(v) ELSE 1], v)
\* in-place 1-D filtering along one axis: the output has the index range of the input
\* ("1 argument operator() currently leaves the array with the same index range")
Conv1InPlace(ax, lo, v, bc, a) == IF Len(v) = 0 THEN a ELSE ConvBC(Along(ax, lo, v), a, a.lo, a.n, bc)

\* separable filtering: one 1-D filter per axis (ks[ax] = [lo, v, bc]), applied one axis after the other
\* in the order given
SepInOrder(ks, a, order) ==
  LET s1 == Conv1InPlace(order[1], ks[order[1]].lo, ks[order[1]].v, ks[order[1]].bc, a)
      s2 == Conv1InPlace(order[2], ks[order[2]].lo, ks[order[2]].v, ks[order[2]].bc, s1)
  IN  Conv1InPlace(order[3], ks[order[3]].lo, ks[order[3]].v, ks[order[3]].bc, s2)
Orders == { <<1, 2, 3>>, <<1, 3, 2>>, <<2, 1, 3>>, <<2, 3, 1>>, <<3, 1, 2>>, <<3, 2, 1>> }
\* the tensor product of three 1-D kernels
Outer(ks) ==
  LET e(ax) == IF Len(ks[ax].v) = 0 THEN [lo |-> 0, v |-> <<1>>] ELSE ks[ax]
      n == << Len(e(1).v), Len(e(2).v), Len(e(3).v) >>
      lo == << e(1).lo, e(2).lo, e(3).lo >>
  IN  Arr(lo, n, [q \in 1..Size(n) |-> LET p == Pos(<<0, 0, 0>>, n, q - 1) IN
                                       e(1).v[p[1] + 1] * e(2).v[p[2] + 1] * e(3).v[p[3] + 1]])

\* symmetric kernel given by its non-negative half h[0..m] (sequence index 1..m+1):
\* "kernel[i] == filter_kernel[abs(i)]"
SymKernel(h) == IF Len(h) = 0 THEN <<>> ELSE [i \in 1..(2 * Len(h) - 1) |-> h[Abs(i - Len(h)) + 1]]
SymLo(h) == -(Len(h) - 1)

(* ------------------------------------------------------------------------ *)
(* Periodic convolution with padding (ArrayFilterUsingRealDFTWithPadding):  *)
(* "Convolution is periodic."  The kernel has the padded sizes L and "can   *)
(* be given with arbitrary index range, but will be wrapped-around,         *)
(* assuming that it is periodic"; the input is "zero-padded to the same     *)
(* range as this kernel" and copied to/from the padded array "using         *)
(* wrap-around".                                                            *)
(* ------------------------------------------------------------------------ *)
Mod(x, m) == x % m
\* the kernel as a function of the residue classes
KPer(k, r) == k.v[Off([k EXCEPT !.lo = <<0, 0, 0>>],
                      << Mod(r[1] - k.lo[1], k.n[1]), Mod(r[2] - k.lo[2], k.n[2]), Mod(r[3] - k.lo[3], k.n[3]) >>)]
FitsPadding(k, a) == \A d \in Axes : a.n[d] <= k.n[d]
PerConvAt(k, a, p) ==
  Sum([dq \in 1..Size(a.n) |->
        LET x == Pos(a.lo, a.n, dq - 1) IN
        a.v[dq] * KPer(k, << p[1] - x[1], p[2] - x[2], p[3] - x[3] >>)])
PerConv(k, a, olo, on) == Arr(olo, on, [q \in 1..Size(on) |-> PerConvAt(k, a, Pos(olo, on, q - 1))])

\* The same kernel as a non-periodic kernel: the period that is centred on 0, indices -L/2 .. L/2-1
Centred(k) ==
  LET lo == [d \in Axes |-> -(k.n[d] \div 2)] IN
  Arr(lo, k.n, [q \in 1..Size(k.n) |-> KPer(k, Pos(lo, k.n, q - 1))])
\* "whenever the padded length is at least twice the data length so that no wrap-around can occur":
\* every difference (output index - input index) lies inside the centred period
NoWrap(k, a, olo, on) ==
  \A d \in Axes : /\ olo[d] - (a.lo[d] + a.n[d] - 1) >= -(k.n[d] \div 2)
                  /\ (olo[d] + on[d] - 1) - a.lo[d] <= k.n[d] - (k.n[d] \div 2) - 1
\* the sufficient condition of the property text: data and output inside one window of at most half
\* the padded length
HalfLength(k, a, olo, on) ==
  \A d \in Axes : Max2(a.lo[d] + a.n[d], olo[d] + on[d]) - Min2(a.lo[d], olo[d]) <= Max2(1, k.n[d] \div 2)

(* ======================================================================== *)
(* BEYOND THE PROPERTY TEXT: the other filters and array functions built on *)
(* the same blocks.  C19's sentences are about Fourier transforms and       *)
(* linear filters; the sections below state what the documentation of the   *)
(* respective class says, and are bound to the code in the same way.        *)
(* ======================================================================== *)

(* ---- data longer than the padded length (ArrayFilterUsingRealDFTWithPadding) ---- *)
\* "in_array and out_array can have arbitrary index ranges. However, they will [be] copied (if necessary) using
\* wrap-around to/from an array with the same dimensions as the 'real' kernel": a copy in index order, so of the
\* input elements that share a residue class the one with the largest index is the one that stays
LastIn(lo, n, L, r) == LET hi == lo + n - 1 IN hi - ((hi - r) % L)      \* largest index <= hi congruent to r
Wrapped(a, L) ==
  Arr(<<0, 0, 0>>, L,
      [q \in 1..Size(L) |->
         LET r == Pos(<<0, 0, 0>>, L, q - 1)
             x == [d \in Axes |-> LastIn(a.lo[d], a.n[d], L[d], r[d])] IN
         IF InRange(a, x) THEN a.v[Off(a, x)] ELSE 0])
\* data that fit are not changed by the wrapping (theorem checked in MC_Conv)
ThWrapped(k, a, olo, on) == FitsPadding(k, a) => PerConv(k, Wrapped(a, k.n), olo, on) = PerConv(k, a, olo, on)

(* ---- MedianArrayFilter3D / MinimalArrayFilter3D ------------------------------- *)
\* "extracting all neigbours (given by the mask) to a 1D array"; "handles edges by taking a median of all
\* available pixels"; mask size = 2*radius+1 per axis
NeighbourBox(a, p, r) ==
  { x \in ((p[1] - r[1])..(p[1] + r[1])) \X ((p[2] - r[2])..(p[2] + r[2])) \X ((p[3] - r[3])..(p[3] + r[3])) : InRange(a, x) }
CountLess(s, v) == Cardinality({ i \in 1..Len(s) : s[i] < v })
CountLeq(s, v) == Cardinality({ i \in 1..Len(s) : s[i] <= v })
\* k-th element (0-based) of the sorted sequence
Kth(s, k) == CHOOSE v \in { s[i] : i \in 1..Len(s) } : CountLess(s, v) <= k /\ CountLeq(s, v) > k
\* "The median for a 1D array of 2n+1 elements is defined as the nth element of the sorted array. For 2n elements,
\* we use (sorted[n-1]+sorted[n])/2": TWICE the median, to stay in the integers
Median2(s) == IF Len(s) % 2 = 1 THEN 2 * Kth(s, Len(s) \div 2) ELSE Kth(s, Len(s) \div 2 - 1) + Kth(s, Len(s) \div 2)
Minimum(s) == CHOOSE v \in { s[i] : i \in 1..Len(s) } : \A i \in 1..Len(s) : v <= s[i]
\* fast neighbourhood: the values only (order irrelevant for median and minimum)
NeighbourVals(a, p, r) ==
  LET z0 == Max2(a.lo[1], p[1] - r[1])  z1 == Min2(a.lo[1] + a.n[1] - 1, p[1] + r[1])
      y0 == Max2(a.lo[2], p[2] - r[2])  y1 == Min2(a.lo[2] + a.n[2] - 1, p[2] + r[2])
      x0 == Max2(a.lo[3], p[3] - r[3])  x1 == Min2(a.lo[3] + a.n[3] - 1, p[3] + r[3])
      nz == z1 - z0 + 1  ny == y1 - y0 + 1  nx == x1 - x0 + 1
  IN  [i \in 1..(nz * ny * nx) |-> a.v[Off(a, << z0 + ((i - 1) \div (ny * nx)), y0 + (((i - 1) \div nx) % ny), x0 + ((i - 1) % nx) >>)]]
Median2Filter(a, r) == Arr(a.lo, a.n, [q \in 1..Size(a.n) |-> Median2(NeighbourVals(a, Pos(a.lo, a.n, q - 1), r))])
MinimalFilter(a, r) == Arr(a.lo, a.n, [q \in 1..Size(a.n) |-> Minimum(NeighbourVals(a, Pos(a.lo, a.n, q - 1), r))])
Scaled2(a, f) == Arr(a.lo, a.n, [q \in 1..Size(a.n) |-> f * a.v[q]])
\* ArrayFunctionObject::is_trivial "Should return true when the operations won't modify the object at all"
MaskIsIdentity(r) == r = <<0, 0, 0>>
\* the fast enumeration of the neighbourhood agrees with the declarative one (same values with the same multiplicities);
\* minimum <= median <= maximum; a mask of radius 0 is the identity; constant data stay constant
ThMedian(a, r) ==
  /\ \A q \in 1..Size(a.n) :
        LET s == NeighbourVals(a, Pos(a.lo, a.n, q - 1), r)
            box == NeighbourBox(a, Pos(a.lo, a.n, q - 1), r) IN
        /\ Len(s) = Cardinality(box) /\ Len(s) >= 1
        /\ \A v \in { s[i] : i \in 1..Len(s) } \cup { a.v[Off(a, x)] : x \in box } :
              CountLeq(s, v) = Cardinality({ x \in box : a.v[Off(a, x)] <= v })
        /\ 2 * Minimum(s) <= Median2(s) /\ \A v \in { s[i] : i \in 1..Len(s) } : (\A i \in 1..Len(s) : s[i] <= v) => Median2(s) <= 2 * v
        \* at least half of the values lie on either side of the median
        /\ 2 * Cardinality({ i \in 1..Len(s) : 2 * s[i] <= Median2(s) }) >= Len(s)
        /\ 2 * Cardinality({ i \in 1..Len(s) : 2 * s[i] >= Median2(s) }) >= Len(s)
  /\ MaskIsIdentity(r) => (Median2Filter(a, r) = Scaled2(a, 2) /\ MinimalFilter(a, r) = a)
  /\ (\A i \in 1..Size(a.n) : a.v[i] = a.v[1]) => (Median2Filter(a, r) = Scaled2(a, 2) /\ MinimalFilter(a, r) = a)
\* wrapping twice is wrapping once, and the wrapped data fit the padding
ThWrapTwice(a, L) == LET w == Wrapped(a, L) IN Wrapped(w, L) = w /\ \A d \in Axes : w.n[d] <= L[d]

(* ---- TruncateToCylindricalFOVImageProcessor ------------------------------------ *)
\* "sets voxels to 0 outside a given radius"; truncate_rim: "sets to zero voxels within rim_truncation_image of the
\* FOV rim".  Centre and radius as the code fixes them (the documentation leaves them open for even sizes):
\* centre = (first + last) / 2 and radius = (last - first) / 2 - rim in C integer arithmetic (rounding towards 0),
\* taken from the x and y index ranges; a voxel is kept iff dx^2 + dy^2 < radius^2 (<= if not "strictly less")
CDiv2(v) == IF v >= 0 THEN v \div 2 ELSE -((-v) \div 2)
InsideFOV(a, p, rim, strict) ==
  LET xm == CDiv2(a.lo[3] + (a.lo[3] + a.n[3] - 1))
      ym == CDiv2(a.lo[2] + (a.lo[2] + a.n[2] - 1))
      rad == (a.n[3] - 1) \div 2 - rim
      d2 == (xm - p[3]) * (xm - p[3]) + (ym - p[2]) * (ym - p[2]) IN
  IF strict THEN d2 < rad * rad ELSE d2 <= rad * rad
TruncateFOV(a, rim, strict) ==
  Arr(a.lo, a.n, [q \in 1..Size(a.n) |-> IF InsideFOV(a, Pos(a.lo, a.n, q - 1), rim, strict) THEN a.v[q] ELSE 0])

(* ---- ChainedDataProcessor: "calls 2 DataProcessors in sequence" ------------------ *)
\* a stage is a record with field t: "conv" (separable convolution, fields klo, kv), "median" (r), "trunc" (rim,
\* strict), "none" (a null pointer); values are kept integral: a median stage doubles the scale, a convolution
\* stage multiplies it by 2^sk for every non-empty kernel
ApplyStage(st, a) ==
  CASE st.t = "conv" -> SepInOrder([ax \in Axes |-> [lo |-> st.klo[ax], v |-> st.kv[ax], bc |-> "zero"]], a, <<1, 2, 3>>)
    [] st.t = "median" -> Median2Filter(a, st.r)
    [] st.t = "trunc" -> TruncateFOV(a, st.rim, st.strict)
    [] st.t = "none" -> a
RECURSIVE ApplyChain(_, _)
ApplyChain(stages, a) == IF Len(stages) = 0 THEN a ELSE ApplyChain(Tail(stages), ApplyStage(Head(stages), a))

(* ------------------------------------------------------------------------ *)
(* Fixed-point observations of the padded-DFT route (encoding F): the       *)
(* output is logged as round(v * 2^fk).  Error model: the route computes    *)
(* inverse(DFT(kernel) * DFT(data)); with the normwise FFT bound            *)
(* ||X^ - X||_2 <= stages * 2^-20 * ||X||_2 (see DFT4.tla) every output     *)
(* differs from the exact periodic convolution by at most                   *)
(* 3 (stages+1) 2^-20 ||kernel||_1 ||data||_2 <= ... ||kernel||_1 ||data||_1.*)
(* ------------------------------------------------------------------------ *)
P2(e) == 2 ^ e
CeilShift(v, e) == IF e >= 0 THEN v * P2(e) ELSE (v + P2(-e) - 1) \div P2(-e)
L1(a) == Sum([q \in 1..Size(a.n) |-> Abs(a.v[q])])
Log2Ceil(n) == CHOOSE e \in 0..31 : P2(e) >= n /\ (e = 0 \/ P2(e - 1) < n)
DFTRouteTol(k, a, fk) == 1 + CeilShift(3 * (Log2Ceil(Size(k.n)) + 2) * L1(k) * L1(a), fk - 20)

(* ------------------------------------------------------------------------ *)
(* Theorems (checked by TLC in MC_Conv for all small instances)             *)
(* ------------------------------------------------------------------------ *)
\* "separable filters equal the successive one-dimensional filters in any axis order"
\* and (zero boundary conditions) the N-D convolution with the tensor-product kernel
ThSeparable(ks, a) ==
  LET r == SepInOrder(ks, a, <<1, 2, 3>>) IN
  /\ \A o \in Orders : SepInOrder(ks, a, o) = r
  /\ (\A ax \in Axes : ks[ax].bc = "zero") => r = Conv(Outer(ks), a, a.lo, a.n)
\* the symmetric-kernel form "out_i = sum_j kernel_j in_{i+j}" is the convolution with the mirrored-out kernel
ThSymmetric(h, a) ==
  Len(h) > 0 =>
    ConvBC(Along(3, SymLo(h), SymKernel(h)), a, a.lo, a.n, "zero")
      = Arr(a.lo, a.n, [q \in 1..Size(a.n) |->
               LET p == Pos(a.lo, a.n, q - 1) IN
               Sum([jj \in 1..(2 * Len(h) - 1) |-> SymKernel(h)[jj] * At0(a, << p[1], p[2], p[3] + (jj - Len(h)) >>)])])
\* boundary conditions only matter near the edges, and constant extension of constant data is constant
ThBoundary(k, a, olo, on) ==
  LET z == ConvBC(k, a, olo, on, "zero")
      c == ConvBC(k, a, olo, on, "constant")
      kk == Eff(k)
  IN  /\ \A q \in 1..Size(on) :
           LET p == Pos(olo, on, q - 1) IN
           (\A d \in Axes : p[d] - Hi(kk)[d] >= a.lo[d] /\ p[d] - kk.lo[d] <= Hi(a)[d]) => z.v[q] = c.v[q]
      /\ (Size(a.n) > 0 /\ \A i \in 1..Size(a.n) : a.v[i] = a.v[1]) =>
           \A q \in 1..Size(on) : c.v[q] = a.v[1] * Sum(kk.v)
\* "filters whose kernel sums to one preserve the mean of data that is constant over the kernel
\* support": with the kernel scaled to integers (sum S), out_p = S * c wherever the input equals c on p - support
ThMean(k, a, c) ==
  LET kk == Eff(k)
      r == Conv(kk, a, a.lo, a.n) IN
  \A q \in 1..Size(a.n) :
     LET p == Pos(a.lo, a.n, q - 1) IN
     (\A jq \in 1..Size(kk.n) : LET j == Pos(kk.lo, kk.n, jq - 1)
                                    x == << p[1] - j[1], p[2] - j[2], p[3] - j[3] >> IN
                                kk.v[jq] # 0 => (InRange(a, x) /\ a.v[Off(a, x)] = c))
       => r.v[q] = c * Sum(kk.v)
\* "Filtering through the padded-DFT route equals direct convolution with the same kernel whenever the
\* padded length is at least twice the data length so that no wrap-around can occur"
ThNoWrap(k, a, olo, on) ==
  /\ HalfLength(k, a, olo, on) => NoWrap(k, a, olo, on)
  /\ (FitsPadding(k, a) /\ NoWrap(k, a, olo, on)) => PerConv(k, a, olo, on) = Conv(Centred(k), a, olo, on)
=============================================================================
