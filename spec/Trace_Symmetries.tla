-------------------------- MODULE Trace_Symmetries --------------------------
(* Trace validation for C03, discrete part: every answer recorded from the   *)
(* real DataSymmetriesForBins_PET_CartesianGrid (effective switches, the     *)
(* relation between axial positions and image planes, basic bin, class and   *)
(* parameters of the symmetry operation - observed through its action on a   *)
(* bin and on two probe voxels -, related bins) must be the one Symmetries.  *)
(* tla defines.  Lines are independent observations of functions of the      *)
(* current configuration: unexplained lines are collected, not fatal.        *)
EXTENDS C03TraceCommon, TraceLib
VARIABLES l, cur, bad

NoCur == [ok |-> FALSE]
CfgOk(r) ==
  LET cc == CfgOf(r)  gg == GridOf(r)  e == EffectiveSwitches(cc, gg, SwOf(r.sw)) IN
  /\ GeometryOk(r)
  \* the guards of the constructor
  /\ SwOf(r.eff) = e
  \* "z = num_planes_per_axial_pos * axial_pos_num + axial_pos_to_z_offset", and the axial middle of
  \* every bin in the data geometry's own coordinates (get_m) is where ring1 + ring2 puts it
  /\ r.npprObs = gg.nppr
  /\ Len(r.axial) = Len(r.segs)
  /\ \A i \in 1..Len(r.axial) :
       LET s == r.axial[i][1] IN
       /\ s = cc.minSeg + i - 1
       /\ r.axial[i][2] = Npa(cc, gg, s)
       /\ r.axial[i][3] = AxialPosToZOffset4(cc, gg, s)
       /\ Len(r.axial[i]) = 3 + NumAx(cc, s)
       /\ cc.uniform => \A a \in 0..(NumAx(cc, s) - 1) : r.axial[i][4 + a] = 4 * (SumOf(cc, s, a) - (cc.R - 1))

ClassName(name) == IF name = "trivial" THEN "stir::TrivialSymmetryOperation"
                   ELSE IF name = "z_shift" THEN "stir::SymmetryOperation_PET_CartesianGrid_z_shift"
                   ELSE "stir::SymmetryOperation_PET_CartesianGrid_swap_" \o name
Explains(r) ==
  CASE r.e = "Sym" ->
         LET b == BinOfList(r.b)
             bb == IF cur.cyl THEN FindBasic(cur.c, cur.esw, b) ELSE FindBasicBlocks(cur.c, cur.esw, b)
             op == IF cur.cyl THEN FindOp(cur.c, cur.g, cur.esw, b) ELSE FindOpBlocks(cur.c, cur.g, cur.esw, b)
         IN /\ cur.ok /\ (cur.cyl \/ BlocksConfigOk(cur.c, cur.g)) /\ InRange(cur.c, b)
            /\ BinOfList(r.bb) = bb /\ BinOfList(r.bb2) = bb /\ r.chg = (bb # b)
            /\ r.op = ClassName(op.name) /\ r.triv = (op.name = "trivial")
            /\ BinOfList(r.tb) = BinMap(op, bb)
            /\ << r.p1[1], r.p1[2], r.p1[3] >> = VoxMap(op, <<3, 2, 1>>)
            /\ << r.p2[1], r.p2[2], r.p2[3] >> = VoxMap(op, <<0, 1, -2>>)
    [] r.e = "Rel" /\ ~cur.cyl ->
         \* block geometry: the bins related to a basic bin are those with that basic bin; their number is reported
         LET b == BinOfList(r.b)
             S == { BinOfList(r.rel[i]) : i \in 1..Len(r.rel) }
             orbit == { x \in AllBins(cur.c) : x.seg = b.seg /\ x.view = b.view /\ x.tang = b.tang /\ FindBasicBlocks(cur.c, cur.esw, x) = b }
         IN /\ cur.ok /\ BlocksConfigOk(cur.c, cur.g) /\ FindBasicBlocks(cur.c, cur.esw, b) = b
            /\ S = orbit /\ Cardinality(S) = Len(r.rel)
            /\ r.n = Cardinality(orbit)
    [] r.e = "Rel" ->
         LET b == BinOfList(r.b)
             S == { BinOfList(r.rel[i]) : i \in 1..Len(r.rel) }
         IN /\ cur.ok /\ cur.cyl /\ IsBasic(cur.c, cur.esw, b)
            /\ S = Orbit(cur.c, cur.esw, b) /\ Cardinality(S) = Len(r.rel)
            /\ SymmetricTang(cur.c) => r.n = NumRelated(cur.c, cur.esw, b)
    [] OTHER -> FALSE

Init == l = 1 /\ cur = NoCur /\ bad = <<>>
Next == /\ l <= Len(TraceLog)
        /\ LET r == TraceLog[l]
               okr == IF r.e = "SymCfg" THEN CfgOk(r) ELSE Explains(r)
           IN /\ cur' = IF r.e = "SymCfg"
                        THEN [ok |-> okr, c |-> CfgOf(r), g |-> GridOf(r), cyl |-> r.geom = "Cylindrical",
                              esw |-> IF okr THEN EffectiveSwitches(CfgOf(r), GridOf(r), SwOf(r.sw)) ELSE NoSym]
                        ELSE cur
              /\ bad' = IF okr \/ Len(bad) >= 500 THEN bad ELSE Append(bad, <<l, "new">>)
        /\ l' = l + 1
Spec == Init /\ [][Next]_<<l, cur, bad>>

Done == l > Len(TraceLog) => (bad = <<>> \/ PrintT(<<"UNEXPLAINED", bad>>))
Consumed == IF TLCGet("stats").diameter - 1 = Len(TraceLog) THEN TRUE
            ELSE PrintT(<<"REJECTED_AT", TLCGet("stats").diameter>>) /\ FALSE
=============================================================================
