-------------------------- MODULE Trace_Symmetries --------------------------
(* Trace validation for C03, discrete part: every answer recorded from the   *)
(* real DataSymmetriesForBins_PET_CartesianGrid (effective switches, the     *)
(* relation between axial positions and image planes, basic bin, class and   *)
(* parameters of the symmetry operation - observed through its action on a   *)
(* bin and on two probe voxels -, related bins) must be the one Symmetries.  *)
(* tla defines.  Lines are independent observations of functions of the      *)
(* current configuration: unexplained lines are collected, not fatal.        *)
EXTENDS C03TraceCommon, TraceLib
VARIABLES l, cur, bad

NoCur == [ok |-> FALSE]
CfgOk(r) ==
  LET cc == CfgOf(r)  gg == GridOf(r)  e == EffectiveSwitches(cc, gg, SwOf(r.sw)) IN
  /\ GeometryOk(r)
  \* the guards of the constructor
  /\ SwOf(r.eff) = e
  \* "z = num_planes_per_axial_pos * axial_pos_num + axial_pos_to_z_offset", and the axial middle of
  \* every bin in the data geometry's own coordinates (get_m) is where ring1 + ring2 puts it
  \* get_phi of every view (cylindrical data without intrinsic tilt): 2^10 fixed point, +-2 for single precision
  /\ (r.geom = "Cylindrical" /\ ~gg.tilt) =>
       /\ Len(r.phiQ) = NumViews(cc)
       /\ \A v \in 0..(NumViews(cc) - 1) : Abs(r.phiQ[v + 1] - 1024 * PhiQ(cc, v)) <= 2
       /\ PhiOffsetZero(cc, gg) = (Abs(r.phiQ[1]) <= 2)
  /\ r.npprObs = gg.nppr
  /\ Len(r.axial) = Len(r.segs)
  /\ \A i \in 1..Len(r.axial) :
       LET s == r.axial[i][1] IN
       /\ s = cc.minSeg + i - 1
       /\ r.axial[i][2] = Npa(cc, gg, s)
       /\ r.axial[i][3] = AxialPosToZOffset4(cc, gg, s)
       /\ Len(r.axial[i]) = 3 + NumAx(cc, s)
       /\ cc.uniform => \A a \in 0..(NumAx(cc, s) - 1) : r.axial[i][4 + a] = 4 * (SumOf(cc, s, a) - (cc.R - 1))

\* block geometry: the bins related to a basic bin are those with that basic bin; their number is reported
RelBlocksOk(r, checkN) ==
  LET b == BinOfList(r.b)
      S == { BinOfList(r.rel[i]) : i \in 1..Len(r.rel) }
      orbit == { x \in AllBins(cur.c) : x.seg = b.seg /\ x.view = b.view /\ x.tang = b.tang /\ FindBasicBlocks(cur.c, cur.esw, x) = b }
  IN /\ cur.ok /\ BlocksConfigOk(cur.c, cur.g) /\ FindBasicBlocks(cur.c, cur.esw, b) = b
     /\ S = orbit /\ Cardinality(S) = Len(r.rel)
     /\ checkN => r.n = Cardinality(orbit)
ClassName(name) == IF name = "trivial" THEN "stir::TrivialSymmetryOperation"
                   ELSE IF name = "z_shift" THEN "stir::SymmetryOperation_PET_CartesianGrid_z_shift"
                   ELSE "stir::SymmetryOperation_PET_CartesianGrid_swap_" \o name
\* labelOk = FALSE accepts the label of known finding C03-blocks-binlabel instead of the bin
SymOk(r, labelOk) ==
  LET b == BinOfList(r.b)
      bb == FindBasicG(cur.c, cur.g, cur.esw, b)
      op == FindOpG(cur.c, cur.g, cur.esw, b)
  IN /\ cur.ok /\ (cur.cyl \/ BlocksConfigOk(cur.c, cur.g)) /\ InRange(cur.c, b)
     /\ BinOfList(r.bb) = bb /\ BinOfList(r.bb2) = bb /\ r.chg = (bb # b)
     /\ r.op = ClassName(op.name) /\ r.triv = (op.name = "trivial")
     /\ IF labelOk THEN BinOfList(r.tb) = BinMap(op, bb)
        ELSE ~cur.cyl /\ bb # b /\ BinOfList(r.tb) = [b EXCEPT !.ax = bb.ax + b.ax]
     /\ << r.p1[1], r.p1[2], r.p1[3] >> = VoxMap(op, <<3, 2, 1>>)
     /\ << r.p2[1], r.p2[2], r.p2[3] >> = VoxMap(op, <<0, 1, -2>>)
Explains(r) ==
  CASE r.e = "Sym" -> SymOk(r, TRUE)
    [] r.e = "Rel" /\ ~cur.cyl -> RelBlocksOk(r, TRUE)
    [] r.e = "Rel" ->
         LET b == BinOfList(r.b)
             S == { BinOfList(r.rel[i]) : i \in 1..Len(r.rel) }
         IN /\ cur.ok /\ cur.cyl /\ IsBasic(cur.c, cur.esw, b)
            /\ S = Orbit(cur.c, cur.esw, b) /\ Cardinality(S) = Len(r.rel)
            /\ SymmetricTang(cur.c) => r.n = NumRelated(cur.c, cur.esw, b)
    [] OTHER -> FALSE

\* known findings C03-blocks-numrelated (num_related_bins of block geometry returns an uninitialised variable;
\* everything else about the line holds) and C03-blocks-binlabel (the z_shift operation of block geometry adds the
\* axial position of the bin instead of the difference to the basic bin)
Classify(r) == IF r.e = "Rel" /\ cur.ok /\ ~cur.cyl /\ RelBlocksOk(r, FALSE) THEN "C03-blocks-numrelated"
               ELSE IF r.e = "Sym" /\ cur.ok /\ ~cur.cyl /\ SymOk(r, FALSE) THEN "C03-blocks-binlabel"
               ELSE "new"
Init == l = 1 /\ cur = NoCur /\ bad = <<>>
Next == /\ l <= Len(TraceLog)
        /\ LET r == TraceLog[l]
               okr == IF r.e = "SymCfg" THEN CfgOk(r) ELSE Explains(r)
           IN /\ cur' = IF r.e = "SymCfg"
                        THEN [ok |-> okr, c |-> CfgOf(r), g |-> GridOf(r), cyl |-> r.geom = "Cylindrical",
                              esw |-> IF okr THEN EffectiveSwitches(CfgOf(r), GridOf(r), SwOf(r.sw)) ELSE NoSym]
                        ELSE cur
              /\ bad' = IF okr THEN bad
                        ELSE LET cls == IF r.e = "SymCfg" THEN "new" ELSE Classify(r) IN
                             IF Len(SelectSeq(bad, LAMBDA x : x[2] = cls)) >= (IF cls = "new" THEN 500 ELSE 20) THEN bad
                             ELSE Append(bad, <<l, cls>>)
        /\ l' = l + 1
Spec == Init /\ [][Next]_<<l, cur, bad>>

Done == l > Len(TraceLog) => (bad = <<>> \/ PrintT(<<"UNEXPLAINED", bad>>))
Consumed == IF TLCGet("stats").diameter - 1 = Len(TraceLog) THEN TRUE
            ELSE PrintT(<<"REJECTED_AT", TLCGet("stats").diameter>>) /\ FALSE
=============================================================================
