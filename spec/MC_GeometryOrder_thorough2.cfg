SPECIFICATION Spec
CONSTANTS Ns = {6} MaxR = 2 Mashes = {1, 3} TofMashes = {0, 3}
INVARIANTS Inv10 Inv11 Inv12
CHECK_DEADLOCK FALSE
