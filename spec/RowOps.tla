------------------------------- MODULE RowOps -------------------------------
(***************************************************************************)
(* Row-level operations of ProjMatrixElemsForOneBin (property C03, the     *)
(* clause "no voxel appears twice in a row", and - beyond the property -   *)
(* the container contract the projection matrices rely on).                *)
(*                                                                         *)
(* A row is a sequence of elements [vox |-> <<z,y,x>>, v |-> value]; values *)
(* are small positive integers in the model and in the recorded executions  *)
(* (exact in single precision).  Operations, as documented in the header:   *)
(*   push_back   "add a new value_type object at the end"                  *)
(*   erase       "reset lor to 0 length"; erase(it) "remove a single" one   *)
(*   sort        "Sort the elements on coordinates of the voxels"          *)
(*   merge       "merge 2nd lor into current object. This makes sure that  *)
(*               in the result, no duplicate coordinates occur" (both rows  *)
(*               without duplicates; "currently modifies the argument":    *)
(*               it is sorted)                                              *)
(*   *=, /=      "Multiplies / divides all values with a constant"         *)
(*   size, check_state ("check if each voxel occurs only once"), ==,       *)
(*   square_sum  queries                                                   *)
(***************************************************************************)
EXTENDS Integers, Sequences, FiniteSets

VoxLess(p, q) == p[1] < q[1] \/ (p[1] = q[1] /\ (p[2] < q[2] \/ (p[2] = q[2] /\ p[3] < q[3])))
Voxels(r) == { r[i].vox : i \in 1..Len(r) }
NoDup(r) == \A i, j \in 1..Len(r) : i # j => r[i].vox # r[j].vox           \* "each voxel occurs only once"
SortedRow(r) == \A i \in 1..(Len(r) - 1) : ~VoxLess(r[i + 1].vox, r[i].vox)
StrictlySorted(r) == \A i \in 1..(Len(r) - 1) : VoxLess(r[i].vox, r[i + 1].vox)
\* number of occurrences of an element (voxel and value): rows as multisets
Count(r, e) == Cardinality({ i \in 1..Len(r) : r[i] = e })
SameMultiset(r, s) == Len(r) = Len(s) /\ \A i \in 1..Len(r) : Count(r, r[i]) = Count(s, r[i])
ValueAt(r, vox) == IF \E i \in 1..Len(r) : r[i].vox = vox THEN r[CHOOSE i \in 1..Len(r) : r[i].vox = vox].v ELSE 0
RECURSIVE SumSq(_)
SumSq(r) == IF r = << >> THEN 0 ELSE Head(r).v * Head(r).v + SumSq(Tail(r))

\* --- operations as relations between the row(s) before and after ---
IsPushBack(a, e, a2) == a2 = Append(a, e)
IsErase(a2) == a2 = << >>
IsEraseAt(a, i, a2) == i \in 1..Len(a) /\ a2 = SubSeq(a, 1, i - 1) \o SubSeq(a, i + 1, Len(a))
\* std::sort on the coordinates: a permutation in coordinate order (elements with equal voxels in any order)
IsSort(a, a2) == SameMultiset(a, a2) /\ SortedRow(a2)
\* merge(b) into a, both without duplicates: the result lists every voxel of either row exactly once, with
\* the sum of the two values (the order of the result is not part of the contract: the implementation
\* sorts, except that merging an empty row leaves the row untouched); the argument keeps its elements
MergePre(a, b) == NoDup(a) /\ NoDup(b)
IsMerge(a, b, a2, b2) ==
  /\ NoDup(a2)                                                   \* no voxel twice
  /\ Voxels(a2) = Voxels(a) \cup Voxels(b)
  /\ \A i \in 1..Len(a2) : a2[i].v = ValueAt(a, a2[i].vox) + ValueAt(b, a2[i].vox)
  /\ SameMultiset(b, b2)
IsScale(a, d, a2) == Len(a2) = Len(a) /\ \A i \in 1..Len(a) : a2[i] = [vox |-> a[i].vox, v |-> a[i].v * d]
IsDivide(a, d, a2) == Len(a2) = Len(a) /\ \A i \in 1..Len(a) : a2[i].vox = a[i].vox /\ a2[i].v * d = a[i].v
\* queries
SizeOf(a) == Len(a)
CheckState(a) == NoDup(a)
\* "Compares element by element. Does not sort first": for positive integer values the tolerance
\* (0.002 of the largest value < 1 for values <= 400) admits no difference and skips nothing
RowsEqual(a, b) == a = b
=============================================================================
