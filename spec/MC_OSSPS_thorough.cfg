SPECIFICATION Spec
CONSTANTS Variant = "doc" MaxLives = 2 Rich = TRUE
INVARIANTS InvBounds InvDenominator InvSchedule InvResume InvAscentDirection InvFixedPoint InvObject
CHECK_DEADLOCK FALSE
