SPECIFICATION Spec
CONSTANTS Level = 2
INVARIANTS InvCoherent InvSize InvT1 InvT2 InvT3 InvRead
CHECK_DEADLOCK FALSE
