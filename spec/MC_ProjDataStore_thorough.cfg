SPECIFICATION Spec
CONSTANTS MaxDepth = 3 TofDepth = 2 Level = 2
INVARIANTS InvCoherent InvSize InvT1 InvT2 InvT3 InvRead
CHECK_DEADLOCK FALSE
