SPECIFICATION Spec
CONSTANTS MaxOps = 7 MaxNp = 2 MaxNd = 1 Bug = "asukeep" ZoomAuto = FALSE
INVARIANTS InvValid InvReads InvSetter InvErr InvSetUp
CHECK_DEADLOCK FALSE
