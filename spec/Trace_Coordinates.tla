-------------------------- MODULE Trace_Coordinates --------------------------
(* Trace validation for C12: every line recorded from the real geometry      *)
(* classes (harness/c12_coords.cxx) must be explained by Coordinates.tla.     *)
(* Lines are independent observations of functions of the current            *)
(* configuration, so validation collects the unexplained lines in `bad'      *)
(* (known findings are told from new violations by Classify).                *)
(* Numbers arrive in natural units: <<q, r>> = round(value/unit) and the      *)
(* residual in 1e-6 units (encoding Q), or as fixed-point observations (F).   *)
EXTENDS Coordinates, TraceLib, SequencesExt
VARIABLES l, c, bad

(* ------------------------------ tolerances ------------------------------ *)
\* "agree": the integer relation holds and the residual is below 1e-3 of a unit
ResTol == 1000
Small(x) == x >= -ResTol /\ x <= ResTol
\* large values (axial end points, tan(theta)*chord of very oblique segments: > 1000 units) carry single-precision
\* rounding of a few ulp: 2e-6 relative on top of the absolute bound
SmallRel(q, x) == x >= -(ResTol + 2 * Abs(q)) /\ x <= ResTol + 2 * Abs(q)
Is(qr, v) == qr[1] = v /\ Small(qr[2])                      \* scalar <<q, r>>
IsAt(r, f, fr, i, v) == r[f][i] = v /\ Small(r[fr][i])      \* element i of the arrays f / fr

NoCfg == [N |-> 0, kind |-> "none"]
\* geometry record of Geometry.tla + what C12 needs in addition
CfgOf(r) == [N |-> r.N, R |-> r.R, span |-> r.span, ge |-> r.ge, maxDelta |-> r.maxDelta, mash |-> r.mash,
             tofMash |-> r.tofMash, maxT |-> r.maxT, minTang |-> r.minTang, maxTang |-> r.maxTang,
             minSeg |-> r.minSeg, maxSeg |-> r.maxSeg,
             kind |-> "pdi", geom |-> r.geom, arc |-> r.arc, tilt6 |-> r.tilt6, radius3 |-> r.radius3,
             bin3 |-> IF r.arc THEN r.bin3 ELSE 0]
Discrete(cc) == cc.geom # "Cylindrical"

\* the implementation's own description of the data must be the documented lay-out, and the template must
\* lie inside the quantifier: no truncated single-ring-difference segment (class C01-truncseg), for
\* detector-based data no tangential position that pairs neighbouring detectors
ConfigOk(r) ==
  LET cc == CfgOf(r)
      cg == IF r.arc THEN [cc EXCEPT !.minTang = 0, !.maxTang = 0] ELSE cc IN
  /\ LegalConfigA(cg) /\ ~TruncSingleRD(cg)          \* (segment ranges may be asymmetric: reduce_segment_range)
  /\ r.geom \in {"Cylindrical", "BlocksOnCylindrical", "Generic"}
  /\ (Discrete(cc) => ~r.arc /\ r.span = 1 /\ ~r.ge /\ r.mash = 1 /\ r.tofMash = 0)
  /\ (~r.arc => r.minTang >= -(NV(cc)) + 2 /\ r.maxTang <= NV(cc) - 2)
  /\ r.minTang <= 0 /\ r.maxTang >= 0          \* (ranges narrowed on a re-used object may be asymmetric)
  /\ r.numViews = NV(cc) \div cc.mash /\ r.minView = 0
  /\ r.minTof = MinTof(cc) /\ r.maxTof = MaxTof(cc)
  /\ Len(r.segs) = cc.maxSeg - cc.minSeg + 1
  /\ \A i \in 1..Len(r.segs) :
       LET s == r.segs[i][1] IN
       /\ s = cc.minSeg + i - 1
       /\ r.segs[i][2] = SegMinRD(cc, s) /\ r.segs[i][3] = SegMaxRD(cc, s)
       /\ r.segs[i][4] = 0 /\ r.segs[i][5] = NumAx(cc, s) - 1
  /\ r.radius3 > 0 /\ (r.arc => r.bin3 > 0)

(* --------------------------- domains of claims -------------------------- *)
\* the bin's line crosses the detector ring (arc-corrected templates may be wider than the ring)
InRing(b) == IF c.arc THEN Abs(b.tang) * c.bin3 < c.radius3 ELSE TRUE
\* |s| <= 0.95 R: quantities that involve the chord length (tan theta, end points of the line) are only
\* decided here (near-tangent lines are ill-conditioned in single precision)
WellCond(b) == IF c.arc THEN 20 * Abs(b.tang) * (c.bin3 \div 10) <= 19 * (c.radius3 \div 10) ELSE 5 * Abs(b.tang) <= 2 * c.N
RowBin(r, i) == Bin(r.seg, r.ax, r.view, r.t0 + i - 1, r.tof)
RowOk(r) == /\ r.seg \in Segs(c) /\ r.ax >= 0 /\ r.ax < NumAx(c, r.seg) /\ r.view \in Views(c) /\ r.tof \in TofBins(c)
            /\ r.t0 = c.minTang

(* ------------------------------- Row ------------------------------------ *)
\* (row constants are bound by quantifying over a singleton so that TLC evaluates them once per line)
AllSmall(sq) == \A i \in 1..Len(sq) : Small(sq[i])
\* the line STIR reports for the bin: the nominal line, or its exchanged representation (phi -/+ pi,
\* -beta, ends exchanged, "swapped") when the azimuthal angle incl. tilt leaves [0, pi).
\* k = << PhiU, Z1Q, Z2Q, 2*Delta2 >> of the row; tb = the bin's tangential coordinate in its unit
LorOk(r, i, k, tb) ==
  \/ r.lp[i] = k[1] /\ r.lb[i] = tb /\ r.z1[i] = k[2] /\ r.z2[i] = k[3] /\ r.sw[i] = 0
  \/ /\ c.tilt6 # 0 /\ r.sw[i] = 1
     /\ r.lp[i] \in {k[1] - c.N, k[1] + c.N} /\ r.lb[i] = -tb /\ r.z1[i] = k[3] /\ r.z2[i] = k[2]
TofOk(r) ==
  IF c.tofMash = 0 THEN ~Has(r, "k")
  ELSE LET b == RowBin(r, 1) IN
       /\ Is(r.k, KH(c, b))                                   \* k = tof * (TOF bin width)
       /\ Is(r.sk, 2)                                         \* sampling in k = one TOF bin width
       /\ Is(r.dt, 2 * b.tof * c.tofMash)                     \* time difference of the bin centre
RowCommon(r, n) ==
  LET b1 == RowBin(r, 1) IN
  /\ Is(r.phi, PhiU(c, b1)) /\ Is(r.m, MQ(c, b1))
  /\ Is(r.sm, 4 \div Inc(c, r.seg))                           \* axial sampling: ring spacing or half of it
  /\ TofOk(r)
  /\ Len(r.s) = n /\ Len(r.sr) = n /\ Len(r.th) = n /\ Len(r.thr) = n /\ Len(r.lp) = n /\ Len(r.lpr) = n /\ Len(r.lb) = n /\ Len(r.lbr) = n
  /\ Len(r.z1) = n /\ Len(r.z1r) = n /\ Len(r.z2) = n /\ Len(r.z2r) = n /\ Len(r.sw) = n
RowConsts(r) == LET b1 == RowBin(r, 1) IN { << PhiU(c, b1), Z1Q(c, b1), Z2Q(c, b1), 2 * Delta2(c, r.seg) >> }
RowCyl(r) ==
  LET n == c.maxTang - c.minTang + 1 IN
  /\ RowCommon(r, n)
  /\ AllSmall(r.sr)
  /\ \A k \in RowConsts(r) :
     \A i \in 1..n :
       LET t == c.minTang + i - 1 IN
       /\ r.s[i] = t                                          \* asin(s/R) = tang * pi/N
       /\ (5 * Abs(t) <= 2 * c.N) =>                          \* WellCond
            /\ LorOk(r, i, k, t)
            /\ Small(r.lpr[i]) /\ Small(r.lbr[i]) /\ SmallRel(r.z1[i], r.z1r[i]) /\ SmallRel(r.z2[i], r.z2r[i])
            /\ r.th[i] = k[4] /\ SmallRel(r.th[i], r.thr[i])              \* tan(theta) * chord = z2 - z1
RowArc(r) ==
  LET n == c.maxTang - c.minTang + 1 IN
  /\ RowCommon(r, n) /\ Len(r.ss) = n /\ Len(r.ssr) = n
  /\ AllSmall(r.sr) /\ AllSmall(r.ssr)
  /\ \A k \in RowConsts(r) :
     \A i \in 1..n :
       LET t == c.minTang + i - 1 IN
       /\ r.s[i] = t                                          \* s = tang * bin size
       /\ r.ss[i] = 1                                         \* "arc-corrected data have uniform tangential sampling"
       /\ (Abs(t) * c.bin3 < c.radius3 /\ 20 * Abs(t) * (c.bin3 \div 10) <= 19 * (c.radius3 \div 10)) =>   \* InRing, WellCond
            /\ LorOk(r, i, k, t)
            /\ Small(r.lpr[i]) /\ Small(r.lbr[i]) /\ SmallRel(r.z1[i], r.z1r[i]) /\ SmallRel(r.z2[i], r.z2r[i])
            /\ r.th[i] = k[4] /\ SmallRel(r.th[i], r.thr[i])
\* Blocks / Generic: the coordinates are those of the line through the two crystals, reported in the
\* standard representation (0 <= phi < pi), so s changes sign where phi wraps.  Decided here (discrete
\* clauses only): on the representation next to the nominal view angle, s is strictly increasing in the
\* tangential position and antisymmetric; obliqueness is opposite in opposite segments; m is mirrored.
SymTol == 5                                                   \* 1e-3 mm (crystal positions are rounded to 1e-3 mm)
RowDiscrete(r) ==
  LET n == c.maxTang - c.minTang + 1
      nom6 == ((2 * r.view * 31416) \div c.N) * 100          \* nominal view angle, 1e-6 rad
      flip(i) == LET d == (r.fphi[i] - nom6 + 1570796) % 6283185 IN d >= 3141593
      sc(i) == IF flip(i) THEN -r.fs[i] ELSE r.fs[i]
      thc(i) == IF flip(i) THEN -r.fth[i] ELSE r.fth[i]
  IN /\ Len(r.fs) = n /\ Len(r.fphi) = n /\ Len(r.fm) = n /\ Len(r.fth) = n /\ Len(r.fmm) = n
     /\ Len(r.fthm) = (IF -r.seg \in Segs(c) THEN n ELSE 0)
     \* (crystals of one flat block are collinear: equal s; the Generic map here is a circle: strict)
     /\ \A i \in 1..(n - 1) : IF c.geom = "Generic" THEN sc(i) < sc(i + 1) ELSE sc(i) <= sc(i + 1) + SymTol
     /\ \A i \in 1..n : LET j == 2 - 2 * c.minTang - i IN (j >= 1 /\ j <= n) => Abs(sc(i) + sc(j)) <= SymTol
     \* (Blocks: m is the midpoint on the line's cylinder, not mirrored when the crystal radii differ)
     /\ (c.geom = "Generic") => \A i \in 1..n : Abs(r.fm[i] + r.fmm[i]) <= SymTol
     \* tan(theta) in 1e-6: opposite segments (same view/tang: the same two crystals, rings exchanged)
     /\ (-r.seg \in Segs(c)) => \A i \in 1..n : Abs(r.fth[i] + r.fthm[i]) <= 20
     /\ \A i \in 1..n : (r.seg > 0 => thc(i) > 0) /\ (r.seg < 0 => thc(i) < 0) /\ (r.seg = 0 => Abs(thc(i)) <= 20)

(* ---------------------------- round trips ------------------------------- *)
RtBin(r, i) == Bin(r.rs[i], r.ra[i], r.rv[i], r.rt[i], r.rk[i])
\* (fast path: the bin itself, compared index by index; RowOk established that it is a bin of the data)
RtSame(r, i, tof) == r.rs[i] = r.seg /\ r.ra[i] = r.ax /\ r.rv[i] = r.view /\ r.rt[i] = r.t0 + i - 1 /\ r.rk[i] = tof
\* arc-corrected: "converting its reported line of response back to a bin returns the same bin"
\* (get_bin of arc-corrected data takes no time difference - "TODO NO TOF YET" - so the TOF index is 0)
RtArcOk(r, i) == (Abs(r.t0 + i - 1) * c.bin3 < c.radius3) => r.ok[i] = 1 /\ RtSame(r, i, 0)     \* InRing
\* detector-based: "a bin ... at most one step away ..., or reports that the line misses the scanner,
\* which happens only for axially compressed bins at the axial edge" (mm = MayMiss of the row's bins:
\* it depends on segment and axial position only)
RtDetOk(r, i, mm) ==
  IF r.ok[i] = 1 THEN RtSame(r, i, r.tof) \/ Near(c, RowBin(r, i), RtBin(r, i))
  ELSE r.ok[i] = 0 /\ mm
RtOk(r, i) == IF c.arc THEN RtArcOk(r, i) ELSE RtDetOk(r, i, MayMiss(c, RowBin(r, 1)))
RtShape(r) == LET n == c.maxTang - c.minTang + 1 IN
              /\ r.kind \in {0, 1, 2} /\ Len(r.ok) = n /\ Len(r.rs) = n /\ Len(r.ra) = n /\ Len(r.rv) = n /\ Len(r.rt) = n /\ Len(r.rk) = n
              /\ (c.arc => r.kind \in {0, 1}) /\ (Discrete(c) => r.kind \in {1, 2} /\ Len(r.dr) = n)
RtAll(r) == /\ RtShape(r)
            /\ IF c.arc THEN \A i \in 1..(c.maxTang - c.minTang + 1) : RtArcOk(r, i)
               ELSE \A mm \in {MayMiss(c, RowBin(r, 1))} : \A i \in 1..(c.maxTang - c.minTang + 1) : RtDetOk(r, i, mm)

(* ------------------------- detector-pair lines -------------------------- *)
\* the line through the positions of two detectors, as STIR's classes describe it, is the line of the
\* specification (heights above the first ring), and it agrees with the bin the pair is assigned to
\* (the recorded line is compared where it is well conditioned: |beta| <= 0.4 pi)
PlLineOk(r, p) ==
  /\ Small(r.lp[2]) /\ Small(r.lb[2]) /\ Small(r.z1[2]) /\ Small(r.z2[2])
  /\ LET rec == Line(r.lp[1], r.lb[1], r.z1[1], r.z2[1]) IN
     \* (angles are logged without the intrinsic tilt; STIR standardises the tilted angle)
     \* (phi just below pi quantises to N: the same line as phi = 0 with the ends exchanged)
     /\ (c.tilt6 = 0) => rec.phi >= 0 /\ rec.phi <= c.N
     /\ 2 * rec.beta <= c.N /\ 2 * rec.beta >= -c.N
     /\ SameLine(c.N, rec, PairLine(c, p, ZFirstRing))
PlBinOk(r, p, b) ==
  \E same \in BOOLEAN :
     /\ IsInPlaneOf(c, r.d1, r.d2, r.view, r.tang, same)
     /\ LET x == BinGiven(c, p, r.view, r.tang, same) IN
        IF x = NoBin THEN ~r.ok
        ELSE /\ r.ok /\ x = b
             /\ AgreesWithPair(c, b, Oriented(p, same))
PlOk(r) ==
  LET p == << r.d1, r.r1, r.d2, r.r2, r.t >>
      b == Bin(r.seg, r.ax, r.view, r.tang, r.tof) IN
  /\ r.okl
  /\ (5 * Abs(r.lb[1]) <= 2 * c.N) => PlLineOk(r, p)
  /\ PlBinOk(r, p, b)

(* ------------------------------- TOF ------------------------------------ *)
\* "TOF bin k collects the time differences within half a bin width of its centre": sample points are odd
\* multiples j of a quarter (unmashed) timing position, bins are 4*tofMash quarters wide
TbOk(r) == /\ c.tofMash > 0 /\ Len(r.j) = Len(r.bin) /\ Len(r.j) > 0
           /\ \A i \in 1..Len(r.j) :
                LET k == (r.j[i] + 2 * c.tofMash) \div (4 * c.tofMash) IN
                /\ r.j[i] % 2 = 1
                /\ (k \in TofBins(c)) => r.bin[i] = k

(* --------------------------- arc correction ----------------------------- *)
\* ArcConfig: input bins t0..t1 with edges es (2^-12 mm) half-way in ANGLE between neighbouring lines
\* (eb = edge angle in units pi/(2N) must be 2*tang-1), output bins o0..o1 of width dout12 (2^-12 mm)
ArcCfgOf(r) == [kind |-> "arc", N |-> r.N, t0 |-> r.t0, t1 |-> r.t1, o0 |-> r.o0, o1 |-> r.o1, dout |-> r.dout12, dout16 |-> r.dout16, es |-> r.es]
ArcConfigOk(r) ==
  LET n == r.t1 - r.t0 + 1 IN
  /\ Len(r.eb) = n + 1 /\ Len(r.ebr) = n + 1 /\ Len(r.es) = n + 1
  /\ \A i \in 1..(n + 1) : r.eb[i] = 2 * (r.t0 + i - 1) - 1 /\ Small(r.ebr[i])
  /\ \A i \in 1..n : r.es[i] < r.es[i + 1]
  /\ r.dout12 > 0 /\ r.dout16 \div 16 \in {r.dout12 - 1, r.dout12}
  /\ r.sampling_s12 = r.dout12            \* "maps ... to uniform data": the output template has uniform sampling
\* floor(a*b/2^10) without leaving 32 bits (0 <= a < 2^31, 0 <= b <= 2^16)
MulShift10(a, b) == (a \div 1024) * b + ((a % 1024) * b) \div 1024
SumSeq(s) == FoldLeft(LAMBDA a, b : a + b, 0, s)
\* "arc correction maps uniform data to uniform data and preserves the integral over the tangential
\* coordinate".  Input bin i has the extent [es[i], es[i+1]], output bin j the extent (o0+j-1 -/+ 1/2)*dout;
\* the data are densities (step functions), so the integral of the output over its range must be the
\* integral of the input over the same range.  Values: inp = small integers, out = 2^-10, lengths 2^-12 mm.
\* ext = 0: the documented output bins.  ext = 1 describes known finding C12-arclastbin (the last output
\* bin reaches one sampling distance too far) and is only used by Classify.
ArcTolRel == 4096                                          \* relative tolerance 2^-12
ArcOkExt(r, ext) ==
  LET n == c.t1 - c.t0 + 1   m == c.o1 - c.o0 + 1
      lo(j) == ((2 * (c.o0 + j - 1) - 1) * c.dout16) \div 32                      \* (2^-16 mm widths: no drift over the row)
      hi(j) == ((2 * (c.o0 + j - 1) + 1) * c.dout16) \div 32 + (IF j = m THEN ext * c.dout ELSE 0)
      L == lo(1)  H == hi(m)
      ov(i) == Max2(0, Min2(c.es[i + 1], H) - Max2(c.es[i], L))                       \* overlap of input bin i with the output range
      inInt == SumSeq([i \in 1..n |-> r.inp[i] * ov(i)])                              \* 2^-12 mm
      outInt == MulShift10(SumSeq(r.out), c.dout)                                     \* 2^-12 mm
      tol == (inInt \div ArcTolRel) + (inInt \div c.dout) + (m * c.dout) \div 1024 + 16 * n + 16
  IN /\ Len(r.inp) = n /\ Len(r.out) = m
     /\ \A i \in 1..n : r.inp[i] >= 0 /\ r.inp[i] <= 15
     /\ Abs(inInt - outInt) <= tol
     \* uniform input v: every output bin inside the input extent is v, outside it is 0, never above v
     /\ (r.kind \in {0, 1}) =>
          LET v == r.inp[1] * 1024 IN
          \A j \in 1..m :
             LET w == IF j = m THEN 1 + ext ELSE 1 IN                                  \* width of the bin in samplings
             /\ r.out[j] >= -2 /\ r.out[j] <= w * v + 2 + v \div 4096
             /\ (lo(j) >= c.es[1] + 32 /\ hi(j) <= c.es[n + 1] - 32) => Abs(r.out[j] - w * v) <= 2 + v \div 4096
             /\ (hi(j) <= c.es[1] - 32 \/ lo(j) >= c.es[n + 1] + 32) => r.out[j] = 0
ArcOk(r) == ArcOkExt(r, 0)

(* ------------------------------ dispatch -------------------------------- *)
Explains(r) ==
  CASE r.e = "Config" -> ConfigOk(r)
    \* every template the driver asks for is legal and inside the quantifier: STIR must accept it
    [] r.e = "ConfigRejected" -> FALSE
    [] r.e = "ArcConfig" -> ArcConfigOk(r)
    [] r.e = "Row" -> c.kind = "pdi" /\ RowOk(r) /\ (IF Discrete(c) THEN RowDiscrete(r) ELSE IF c.arc THEN RowArc(r) ELSE RowCyl(r))
    [] r.e = "RT" -> c.kind = "pdi" /\ RowOk(r) /\ ~r.err /\ RtAll(r)
    [] r.e = "PL" -> c.kind = "pdi" /\ ~c.arc /\ ~Discrete(c) /\ PlOk(r)
    [] r.e = "TB" -> c.kind = "pdi" /\ TbOk(r)
    [] r.e = "Arc" -> c.kind = "arc" /\ ArcOk(r)
    [] OTHER -> FALSE

\* Known findings (known_findings.jsonl): an unexplained round-trip line is attributed to one only if EVERY
\* bin of the row that fails the property carries the finding's signature.
FailsOnly(r, sig(_)) == /\ c.kind = "pdi" /\ RowOk(r) /\ ~r.err /\ RtShape(r)
                        /\ \A i \in 1..(c.maxTang - c.minTang + 1) : RtOk(r, i) \/ sig(i)
\* C12-tangedge: extreme tangential position, in-plane tie, neighbouring detector pair out of range -> miss
SigTangEdge(r, i) == ~c.arc /\ r.kind \in {0, 1} /\ r.ok[i] = 0 /\ TangEdge(c, RowBin(r, i))
\* C12-arcview: arc-corrected get_bin of a two-point line of view 0 whose azimuthal angle is (by rounding) just
\* below the azimuthal offset (view mashing / tilt): view = num_views with the direction reversed
SigArcView(r, i) == /\ c.arc /\ r.kind = 1 /\ r.view = 0 /\ (c.mash > 1 \/ c.tilt6 # 0)
                    /\ \/ r.ok[i] = 1 /\ r.rv[i] = NumViews(c) /\ r.rs[i] = -r.seg /\ r.rt[i] = -(r.t0 + i - 1)
                       \* (the negated tangential position may lie outside an asymmetric range: miss)
                       \/ r.ok[i] = 0 /\ (-(r.t0 + i - 1) < c.minTang \/ -(r.t0 + i - 1) > c.maxTang)
\* C12-maplookup: Blocks/Generic get_bin looks the end points up in the crystal map; the end points of the
\* reported line lie on ITS cylinder (the larger of the two crystal radii), not on the crystals
SigMapLookup(r, i) == Discrete(c) /\ r.kind = 1 /\ r.dr[i] >= 1
Classify(r) ==
  IF c.kind = "arc" /\ r.e = "Arc" THEN (IF ArcOkExt(r, 1) THEN "C12-arclastbin" ELSE "new")
  ELSE IF c.kind # "pdi" \/ r.e # "RT" THEN "new"
  ELSE IF FailsOnly(r, LAMBDA i : SigTangEdge(r, i)) THEN "C12-tangedge"
  ELSE IF FailsOnly(r, LAMBDA i : SigArcView(r, i)) THEN "C12-arcview"
  ELSE IF FailsOnly(r, LAMBDA i : SigMapLookup(r, i)) THEN "C12-maplookup"
  ELSE "new"

Init == l = 1 /\ c = NoCfg /\ bad = <<>>
Next == /\ l <= Len(TraceLog)
        /\ LET r == TraceLog[l] IN
           /\ c' = IF r.e = "Config" THEN (IF ConfigOk(r) THEN CfgOf(r) ELSE NoCfg)
                   ELSE IF r.e = "ArcConfig" THEN (IF ArcConfigOk(r) THEN ArcCfgOf(r) ELSE NoCfg) ELSE c
           /\ LET okr == Explains(r)
                  cls == IF okr THEN "ok" ELSE IF r.e \in {"Config", "ArcConfig"} THEN "new" ELSE Classify(r) IN
              bad' = IF okr THEN bad
                     ELSE IF cls = "new" THEN (IF Len(SelectSeq(bad, LAMBDA x : x[2] = "new")) < 500 THEN Append(bad, <<l, cls>>) ELSE bad)
                     ELSE (IF Len(SelectSeq(bad, LAMBDA x : x[2] = cls)) < 20 THEN Append(bad, <<l, cls>>) ELSE bad)
        /\ l' = l + 1
Spec == Init /\ [][Next]_<<l, c, bad>>

Done == l > Len(TraceLog) => (bad = <<>> \/ PrintT(<<"UNEXPLAINED", bad>>))
Consumed == IF TLCGet("stats").diameter - 1 = Len(TraceLog) THEN TRUE
            ELSE PrintT(<<"REJECTED_AT", TLCGet("stats").diameter>>) /\ FALSE
=============================================================================
