SPECIFICATION Spec
CONSTANTS MaxAmp = 300 Deep = FALSE
INVARIANTS InvRoundTrip InvTruncated InvFile InvScale
CHECK_DEADLOCK FALSE
