------------------------------ MODULE Projectors ------------------------------
(* C04 - matched forward/back projector pairs are linear, adjoint and additive over pieces.  *)
(*                                                                                            *)
(* "For every matched forward/back projector pair, projection is linear and the two           *)
(*  operations are adjoint, <A x, y> = <x, A^T y> for all images x and data y, for the full   *)
(*  data set and for every subset, symmetry group of viewgrams and axial or tangential        *)
(*  sub-range that can be requested; projecting piecewise and adding the pieces equals        *)
(*  projecting at once.  Forward projecting a subset of a data set leaves all other bins      *)
(*  unchanged, or sets them to zero when zeroing is requested, and back projection            *)
(*  accumulates without disturbing earlier contributions.  The on-the-fly ray-tracing forward *)
(*  projector gives the same data as forward projection through the ray-tracing matrix with   *)
(*  the same settings."                                                                       *)
(*                                                                                            *)
(* Which view/segment pairs a subset or a group of related viewgrams consists of is C06's     *)
(* subject (Subsets.tla): Processed(c, s, N), Orbit(c, vs).                                   *)
(*                                                                                            *)
(* Part 1  pieces of the data (subset, group, window) as predicates on bins.                  *)
(* Part 2  the dense model: a system is a record with a small integer matrix P; the           *)
(*         operations of the projector pair as functions on a state record, shaped like the   *)
(*         code (fill, loops over basic pairs and their coded lists of related pairs, row-wise *)
(*         scatter in back projection); the declarative expectations they are checked against  *)
(*         by MC_Projectors; the theorems (linearity, adjointness, additivity).                *)
(* Part 3  the same frame conditions and values for recorded executions (sparse rows, fixed    *)
(*         point, tolerances as named operators), used by Trace_Projectors.                    *)
EXTENDS Subsets

Abs(a) == IF a < 0 THEN -a ELSE a
Max2(a, b) == IF a > b THEN a ELSE b

(* ========================================================================================= *)
(* Part 1.  A bin is <<vs, k, a, t>>: vs = <<view, segment>>, timing position k, axial         *)
(* position a, tangential position t.  A window is a record [g, k, axlo, axhi, tlo, thi]:      *)
(* the group of viewgrams related to the basic pair g, at timing position k, restricted to     *)
(* the axial positions axlo..axhi and the tangential positions tlo..thi.                       *)
InSubset(c, b, s, N) == b[1] \in Processed(c, s, N)
InGroup(c, b, g, k) == b[1] \in Orbit(c, g) /\ b[2] = k
InWindow(c, b, w) == InGroup(c, b, w.g, w.k) /\ b[3] \in w.axlo .. w.axhi /\ b[4] \in w.tlo .. w.thi

(* "zero: ... optionally zeroing the rest" - ForwardProjectorByBin::forward_project(ProjData&, *)
(* subset_num, num_subsets, zero) does `if (zero && num_subsets > 1) proj_data.fill(0)`: with  *)
(* one subset there is no rest.                                                               *)
ZeroRest(zero, N) == zero /\ N > 1

(* ========================================================================================= *)
(* Part 2.  Dense model.  sys = [c, axs, tangs, nvox, P, seq]: c a Subsets configuration, axs   *)
(* and tangs the axial / tangential positions (the same for every segment in the model),       *)
(* voxels 1..nvox, P[b][v] the matrix, seq an enumeration of Bins(sys) without repetition      *)
(* (sums over bins run along it).                                                              *)
Bins(sys) == { << vs, k, a, t >> : vs \in AllVS(sys.c), k \in Tofs(sys.c), a \in sys.axs, t \in sys.tangs }
Voxels(sys) == 1 .. sys.nvox
ZeroData(sys) == [b \in Bins(sys) |-> 0]
ZeroImage(sys) == [v \in Voxels(sys) |-> 0]

RECURSIVE SumSeqTo(_, _)
SumSeqTo(f, n) == IF n = 0 THEN 0 ELSE f[n] + SumSeqTo(f, n - 1)
SeqOk(sys) == Len(sys.seq) = Cardinality(Bins(sys)) /\ Range(sys.seq) = Bins(sys)

\* ProjMatrixElemsForOneBin::forward_project: "single += density[coords] * element value" over the row
RowDot(sys, b, x) == SumSeqTo([v \in Voxels(sys) |-> sys.P[b][v] * x[v]], sys.nvox)
\* ProjMatrixElemsForOneBin::back_project: "density[coords] += element value * data" for every element of the row
RowScatter(sys, b, yb, img) == [v \in Voxels(sys) |-> img[v] + sys.P[b][v] * yb]
RECURSIVE ScatterAll(_, _, _, _)
ScatterAll(sys, T, y, img) ==
  IF T = {} THEN img ELSE LET b == CHOOSE b \in T : TRUE IN ScatterAll(sys, T \ {b}, y, RowScatter(sys, b, y[b], img))

(* the state of a projector pair and the data it works on *)
InitState(sys, d0) == [input |-> ZeroImage(sys), data |-> d0, acc |-> ZeroImage(sys), out |-> ZeroImage(sys)]

(* --- the operations, shaped like the code --- *)
DoSetInput(sys, st, x) == [st EXCEPT !.input = x]

\* the viewgrams the whole-data calls visit: for every basic pair of detail::find_basic_vs_nums_in_subset and every
\* timing position, the coded list of related pairs (get_related_viewgrams)
VisitedVS(c, s, N) == UNION { Range(RelatedVS(c, g)) : g \in SubsetVS(c, s, N) }

\* forward_project(ProjData&, subset_num, num_subsets, zero): fill(0) if zero && num_subsets > 1; then for every visited
\* group get_empty_related_viewgrams, forward_project(viewgrams) over the full ranges, set_related_viewgrams
DoForwardSubset(sys, st, s, N, zero) ==
  LET filled == IF zero /\ N > 1 THEN ZeroData(sys) ELSE st.data
      W == VisitedVS(sys.c, s, N) IN
  [st EXCEPT !.data = [b \in Bins(sys) |-> IF b[1] \in W THEN RowDot(sys, b, st.input) ELSE filled[b]]]

\* get_related_viewgrams(g, k); forward_project(viewgrams, axlo, axhi, tlo, thi); set_related_viewgrams:
\* actual_forward_project assigns viewgram[ax][tang] for the positions of the window only
DoForwardGroup(sys, st, w) ==
  LET G == Range(RelatedVS(sys.c, w.g)) IN
  [st EXCEPT !.data = [b \in Bins(sys) |->
       IF b[1] \in G /\ b[2] = w.k /\ b[3] >= w.axlo /\ b[3] <= w.axhi /\ b[4] >= w.tlo /\ b[4] <= w.thi
       THEN RowDot(sys, b, st.input) ELSE st.data[b]]]

\* start_accumulating_in_new_target: _density_sptr->fill(0)
DoStartNewTarget(sys, st) == [st EXCEPT !.acc = ZeroImage(sys)]

\* back_project(const ProjData&, subset_num, num_subsets): every bin of every visited viewgram is scattered into the target
DoBackSubset(sys, st, y, s, N) ==
  LET W == VisitedVS(sys.c, s, N) IN
  [st EXCEPT !.acc = ScatterAll(sys, { b \in Bins(sys) : b[1] \in W }, y, st.acc)]

DoBackGroup(sys, st, y, w) ==
  LET G == Range(RelatedVS(sys.c, w.g))
      T == { b \in Bins(sys) : b[1] \in G /\ b[2] = w.k /\ b[3] >= w.axlo /\ b[3] <= w.axhi /\ b[4] >= w.tlo /\ b[4] <= w.thi } IN
  [st EXCEPT !.acc = ScatterAll(sys, T, y, st.acc)]

\* get_output(density): copies the target; the target is left as it is
DoGetOutput(sys, st) == [st EXCEPT !.out = st.acc]

(* --- the declarative expectations --- *)
\* A restricted to the piece T: (A_T x)[b] = sum_v P[b][v] x[v] for b in T, 0 elsewhere
Fwd(sys, T, x) == [b \in Bins(sys) |-> IF b \in T THEN RowDot(sys, b, x) ELSE 0]
\* its transpose: (A_T^T y)[v] = sum_{b in T} P[b][v] y[b]
Bck(sys, T, y) == [v \in Voxels(sys) |->
                     SumSeqTo([i \in 1 .. Len(sys.seq) |-> IF sys.seq[i] \in T THEN sys.P[sys.seq[i]][v] * y[sys.seq[i]] ELSE 0], Len(sys.seq))]
InnerD(sys, d1, d2) == SumSeqTo([i \in 1 .. Len(sys.seq) |-> d1[sys.seq[i]] * d2[sys.seq[i]]], Len(sys.seq))
InnerI(sys, i1, i2) == SumSeqTo([v \in Voxels(sys) |-> i1[v] * i2[v]], sys.nvox)
AddD(sys, d1, d2) == [b \in Bins(sys) |-> d1[b] + d2[b]]
AddI(sys, i1, i2) == [v \in Voxels(sys) |-> i1[v] + i2[v]]
ScaleI(sys, a, i1) == [v \in Voxels(sys) |-> a * i1[v]]
ScaleD(sys, a, d1) == [b \in Bins(sys) |-> a * d1[b]]

SubsetBins(sys, s, N) == { b \in Bins(sys) : InSubset(sys.c, b, s, N) }
WindowBins(sys, w) == { b \in Bins(sys) : InWindow(sys.c, b, w) }

\* frame condition of a forward projection into the piece T: "it overwrites the data already present" in T,
\* "leaves all other bins unchanged, or sets them to zero when zeroing is requested"
ForwardFrame(sys, old, new, T, zeroRest, x) ==
  new = [b \in Bins(sys) |-> IF b \in T THEN RowDot(sys, b, x) ELSE IF zeroRest THEN 0 ELSE old[b]]
\* "back projection accumulates without disturbing earlier contributions"
BackFrame(sys, old, new, T, y) == new = AddI(sys, old, Bck(sys, T, y))

(* --- theorems, evaluated by MC_Projectors for the images X and data Y it is given --- *)
\* "projection is linear"
ThLinear(sys, T, X, Y) ==
  /\ \A x1 \in X, x2 \in X : Fwd(sys, T, AddI(sys, x1, x2)) = AddD(sys, Fwd(sys, T, x1), Fwd(sys, T, x2))
  /\ \A x1 \in X, a \in -2 .. 2 : Fwd(sys, T, ScaleI(sys, a, x1)) = ScaleD(sys, a, Fwd(sys, T, x1))
  /\ \A y1 \in Y, y2 \in Y : ScatterAll(sys, T, AddD(sys, y1, y2), ZeroImage(sys))
                             = AddI(sys, ScatterAll(sys, T, y1, ZeroImage(sys)), ScatterAll(sys, T, y2, ZeroImage(sys)))
\* "the two operations are adjoint, <A x, y> = <x, A^T y>": forward row-wise, back as the code's scatter
ThAdjoint(sys, T, X, Y) ==
  \A x \in X, y \in Y : InnerD(sys, Fwd(sys, T, x), y) = InnerI(sys, x, ScatterAll(sys, T, y, ZeroImage(sys)))
\* the scatter loop computes the transpose
ThScatterIsTranspose(sys, T, Y) == \A y \in Y : ScatterAll(sys, T, y, ZeroImage(sys)) = Bck(sys, T, y)
\* "projecting piecewise and adding the pieces equals projecting at once": Pieces is a function 1..n -> sets of bins
RECURSIVE SumD(_, _, _), SumI(_, _, _)
SumD(sys, f, n) == IF n = 0 THEN ZeroData(sys) ELSE AddD(sys, f[n], SumD(sys, f, n - 1))
SumI(sys, f, n) == IF n = 0 THEN ZeroImage(sys) ELSE AddI(sys, f[n], SumI(sys, f, n - 1))
ThAdditive(sys, Pieces, n, Whole, X, Y) ==
  /\ \A x \in X : SumD(sys, [i \in 1 .. n |-> Fwd(sys, Pieces[i], x)], n) = Fwd(sys, Whole, x)
  /\ \A y \in Y : SumI(sys, [i \in 1 .. n |-> ScatterAll(sys, Pieces[i], y, ZeroImage(sys))], n) = ScatterAll(sys, Whole, y, ZeroImage(sys))

(* ========================================================================================= *)
(* Part 3.  Recorded executions.  A row is a sequence of <<voxel index, ordered float bits(,    *)
(* fixed point)>> in increasing voxel order, listing the non-zero entries.  Ordered bits: the  *)
(* IEEE bit pattern mapped monotonically to a signed integer (+0 and -0 -> 0), so neighbouring *)
(* floats differ by 1.  Fixed point: round(value * 2^FxScale).                                 *)
FxScale == 16
FxOne == 65536
FxBad == 2147483647

\* F = B^T "entrywise": each entry is a single product with 1.0 in either direction, so the two are equal up to one
\* rounding; the same for an entry obtained through a subset, group or window call
EntryUlps == 1
UlpClose(a, b) == IF (a >= 0) = (b >= 0) THEN Abs(a - b) <= EntryUlps ELSE (Abs(a) <= EntryUlps /\ Abs(b) <= EntryUlps)
RowsUlpEq(r1, r2) == /\ Len(r1) = Len(r2)
                     /\ \A k \in 1 .. Len(r1) : r1[k][1] = r2[k][1] /\ UlpClose(r1[k][2], r2[k][2])
RowSorted(r) == \A k \in 1 .. Len(r) - 1 : r[k][1] < r[k + 1][1]

\* "projection is linear": in particular homogeneous, and multiplication by a power of two is exact in binary floating
\* point as long as nothing under- or overflows, so projecting 2^k x must give the results for x with the exponent shifted
\* by k and the SAME mantissa and sign - for every magnitude of the input.  Ordered bits o of a normal float:
\* |o| = exponent * 2^23 + mantissa.
Pow23 == 8388608
FExp(o) == Abs(o) \div Pow23
FMant(o) == Abs(o) % Pow23
ScaledBits(o2, o1, k) ==
  IF o1 = 0 THEN o2 = 0
  ELSE IF FExp(o1) >= 1 /\ FExp(o1) + k >= 1 /\ FExp(o1) + k <= 254
       THEN (o2 > 0) = (o1 > 0) /\ FMant(o2) = FMant(o1) /\ FExp(o2) = FExp(o1) + k
       ELSE TRUE      \* the scaled value would be denormal or overflow: not decided
ScaledSeq(q2, q1, k) == Len(q2) = Len(q1) /\ \A i \in 1 .. Len(q1) : ScaledBits(q2[i], q1[i], k)
\* rows (lists of <<voxel, ordered bits>>): entry by entry; an entry whose scaled value leaves the normal range may be absent
RowOrd(r, v) == LET I == { j \in 1 .. Len(r) : r[j][1] = v } IN IF I = {} THEN 0 ELSE r[CHOOSE j \in I : TRUE][2]
ScaledRow(r2, r1, k) ==
  IF Len(r2) = Len(r1) /\ \A i \in 1 .. Len(r1) : r2[i][1] = r1[i][1]
  THEN \A i \in 1 .. Len(r1) : ScaledBits(r2[i][2], r1[i][2], k)
  ELSE /\ \A i \in 1 .. Len(r1) : (FExp(r1[i][2]) + k >= 1 /\ FExp(r1[i][2]) + k <= 254) => ScaledBits(RowOrd(r2, r1[i][1]), r1[i][2], k)
       /\ \A i \in 1 .. Len(r2) : RowOrd(r1, r2[i][1]) # 0

\* "the same data ... with the same settings", up to rounding of two different computations of an intersection length:
\* RowTol of C03 (absolute 2^-14 + 2^-12 relative), in fixed-point units; a voxel present on one side only counts as 0
RowAbsTol == 4
RowTolClose(a, b) == Abs(a - b) <= RowAbsTol + Max2(Abs(a), Abs(b)) \div 4096
RowVal(r, v) == LET I == { k \in 1 .. Len(r) : r[k][1] = v } IN IF I = {} THEN 0 ELSE r[CHOOSE k \in I : TRUE][3]
RowTolEq(r1, r2) ==
  \A v \in { r1[k][1] : k \in 1 .. Len(r1) } \cup { r2[k][1] : k \in 1 .. Len(r2) } : RowTolClose(RowVal(r1, v), RowVal(r2, v))

\* the same comparison with a relative tolerance of 2^-5 (known finding C04-tof-zindex: the TOF kernel factor moves by < 1 %)
RowLooseEq(r1, r2) ==
  \A v \in { r1[k][1] : k \in 1 .. Len(r1) } \cup { r2[k][1] : k \in 1 .. Len(r2) } :
    Abs(RowVal(r1, v) - RowVal(r2, v)) <= RowAbsTol + Max2(Abs(RowVal(r1, v)), Abs(RowVal(r2, v))) \div 32

\* value of a bin after forward projecting the integer image x (a sequence indexed by voxel index + 1) through the
\* recorded row, in fixed point; SparseAbs bounds the quantisation of the row entries (1/2 unit each, times |x|)
RECURSIVE SparseDotTo(_, _, _), SparseAbsTo(_, _, _), SparseMagTo(_, _, _)
SparseDotTo(r, x, n) == IF n = 0 THEN 0 ELSE r[n][3] * x[r[n][1] + 1] + SparseDotTo(r, x, n - 1)
SparseAbsTo(r, x, n) == IF n = 0 THEN 0 ELSE Abs(x[r[n][1] + 1]) + SparseAbsTo(r, x, n - 1)
SparseMagTo(r, x, n) == IF n = 0 THEN 0 ELSE Abs(r[n][3] * x[r[n][1] + 1]) + SparseMagTo(r, x, n - 1)
SparseDot(r, x) == SparseDotTo(r, x, Len(r))
\* tolerance of a recomputed sum: quantisation of the operands (slack/2), of the result (1), single-precision
\* accumulation (2^-12 of the sum of magnitudes: an upper bound for <= 10^3 terms)
SumTol(slack, mag) == (slack + 1) \div 2 + 2 + mag \div 4096
\* on-the-fly projector against the recorded row of the matrix: RowTol on every term in addition
OtfClose(obs, r, x, offset) ==
  obs # FxBad /\ Abs(obs - offset - SparseDot(r, x)) <= SumTol(SparseAbsTo(r, x, Len(r)), SparseMagTo(r, x, Len(r))) + RowAbsTol * Len(r) + SparseMagTo(r, x, Len(r)) \div 4096
FwdClose(obs, r, x) == obs # FxBad /\ Abs(obs - SparseDot(r, x)) <= SumTol(SparseAbsTo(r, x, Len(r)), SparseMagTo(r, x, Len(r)))
=============================================================================
