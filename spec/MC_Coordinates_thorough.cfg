SPECIFICATION Spec
CONSTANTS MaxN = 12 MaxR = 4 MaxTofMash = 5
INVARIANTS Inv1 Inv2 Inv3 Inv4 Inv5 Inv6
CHECK_DEADLOCK FALSE
