SPECIFICATION Spec
CONSTANTS MaxN = 10 MaxR = 4 MaxTofMash = 5 MaxRB = 6
INVARIANTS Inv1 Inv2 Inv3 Inv4 Inv5 Inv6
CHECK_DEADLOCK FALSE
