SPECIFICATION Spec
CONSTANTS MaxN = 8 MaxR = 3 MaxTofMash = 5 MaxRB = 6
INVARIANTS Inv1 Inv2 Inv3 Inv4 Inv5 Inv6
CHECK_DEADLOCK FALSE
