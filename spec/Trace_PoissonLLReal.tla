------------------------ MODULE Trace_PoissonLLReal ------------------------
(* Trace validation for C05 behind REAL projectors (driver                   *)
(* harness/c05_realproj.cxx): the objective function runs on a               *)
(* ProjMatrixByBinUsingRayTracing with symmetries; the matrix P that the     *)
(* definitions are evaluated on was extracted, row by row, from an           *)
(* independent matrix object without symmetries.  Subsets are unions of      *)
(* orbits of basic view/segment pairs (Subsets.tla, C06).                    *)
EXTENDS PoissonLLReal, TraceLib
VARIABLES l, sys, I, m, vs, bad

SS == INSTANCE Subsets

NoSys == [id |-> 0]
NoInst == [sysid |-> -1]
SysOf(r) == [id |-> r.id, tof |-> r.tof, nv |-> r.nv, numViews |-> r.numViews, minView |-> r.minView, minAx0 |-> r.minAx0,
             maxAx0 |-> r.maxAx0, maxSegData |-> r.maxSegData, bins |-> r.bins, rows |-> r.rows, cols |-> r.cols,
             ntcols |-> IF Has(r, "ntcols") THEN r.ntcols ELSE <<>>,
             subkey |-> [b \in 1..Len(r.bins) |-> r.bins[b][2] - r.minView], ntkey |-> <<>>]
(* effective symmetries of the matrix under test: sw = <<90, 180, swap segment, swap s, shift z>> (0/1) *)
(* "Disabling rotational symmetries / segment swapping / swap s symmetry for the projector with TOF data as this is      *)
(* untested" (DataSymmetriesForBins_PET_CartesianGrid): for TOF data every view/segment pair is its own group.        *)
SymCfg(s, sw, tof) == [views |-> s.numViews, maxSeg |-> s.maxSegData, s90 |-> ~tof /\ sw[1] = 1 /\ sw[2] = 1 /\ s.numViews % 4 = 0,
                       s180 |-> ~tof /\ sw[2] = 1 /\ s.numViews % 2 = 0, sseg |-> ~tof /\ sw[3] = 1, minTof |-> 0, maxTof |-> 0]
KeysFor(s, sw, tof) == [b \in 1..Len(s.bins) |-> SS!FindBasicVS(SymCfg(s, sw, tof), << s.bins[b][2], s.bins[b][1] >>)[1]]
(* the subsets of the data: groups of the projectors the data are projected with; ntkey: the grouping of the non-TOF  *)
(* clone of the back projector (which keeps all its symmetries)                                                        *)
WithKeys(s, sw) == [s EXCEPT !.subkey = KeysFor(s, sw, s.tof), !.ntkey = KeysFor(s, sw, FALSE)]
InstOf(r, s) == [sysid |-> r.sys, tof |-> r.tof, zero |-> r.zero, maxSeg |-> IF r.maxSegAsked = -1 THEN s.maxSegData ELSE r.maxSegAsked,
                 N |-> r.N, uss |-> r.uss, lam |-> r.lam, x |-> r.x, K |-> r.K, a |-> r.a, r |-> r.r, ef |-> r.ef, y |-> r.y,
                 tofSens |-> r.tofSensAsked, sw |-> r.sw]
ShapeOk(r, s) ==
  /\ s # NoSys /\ r.sys = s.id /\ r.tof = s.tof /\ Len(r.sw) = 5
  /\ Len(r.lam) = s.nv /\ Len(r.x) = s.nv
  /\ Len(r.K) = Len(s.bins) /\ Len(r.a) = Len(s.bins) /\ Len(r.r) = Len(s.bins) /\ Len(r.ef) = Len(s.bins) /\ Len(r.y) = Len(s.bins)

Requests == {"Value", "Grad", "GradPlusSens", "Sens", "AddSens", "HessTimes"}
SubOk(r) == r.sub \in -1..(I.N - 1)
O0(r, v) == IF Has(r, "o0") THEN r.o0[v] ELSE 0
(* sensitivities of TOF data without TOF sensitivities are back-projected with the non-TOF matrix *)
SensSys == IF sys.tof /\ ~I.tofSens THEN [sys EXCEPT !.cols = sys.ntcols] ELSE sys
(* ... where every TOF position's bin stands for its spatial bin: only TOF position 0 carries a column entry *)

ImageOk(r) ==
  /\ Has(r, "out") /\ Len(r.out) = sys.nv /\ SubOk(r)
  /\ CASE r.e = "Grad" -> r.k = 12 /\ \A v \in 1..sys.nv : RealGradOk(sys, I, m, r.sub, v, r.out[v])
       [] r.e = "GradPlusSens" -> r.k = 12 /\ r.sub >= 0 /\ \A v \in 1..sys.nv : RealGradPlusSensOk(sys, I, m, r.sub, v, r.out[v])
       [] r.e = "Sens" -> r.k = 12 /\ \A v \in 1..sys.nv : RealReportedSensOk(SensSys, I, m, r.sub, v, r.out[v])
       [] r.e = "AddSens" -> r.k = 12 /\ r.sub >= 0 /\ \A v \in 1..sys.nv : RealSensOk(SensSys, I, m, r.sub, v, r.out[v], O0(r, v))
       [] r.e = "HessTimes" -> r.k = 10 /\ \A v \in 1..sys.nv : RealHessOk(sys, I, m, r.sub, v, r.out[v], O0(r, v))

ValueOk(r, w) ==
  /\ SubOk(r) /\ r.k = VK
  /\ ValueRange(RealValueA(sys, I, m, r.sub)) /\ Abs(r.val - RealValueVK(sys, I, m, r.sub)) <= RealValueTol(sys, I, m, r.sub)
  /\ (\A s \in -1..(I.N - 1) : s \in DOMAIN w) =>
        Abs(Sum([k \in 1..I.N |-> w[k - 1]]) - w[-1]) <= I.N + 1
NewVs(r) == IF r.e = "Value" /\ Has(r, "val") THEN (r.sub :> r.val) @@ vs ELSE vs

Explains(r) ==
  CASE r.e = "System" -> SystemOk(SysOf(r)) /\ r.ps = PS
    [] r.e = "Instance" -> ShapeOk(r, sys)
    \* (set_up may switch TOF sensitivities on - e.g. for TOF-only normalisation - but not off)
    [] r.e = "SetUp" -> I # NoInst /\ RealInstanceOk(sys, I) /\ ~r.err /\ r.ok /\ r.maxSeg = I.maxSeg /\ (I.tofSens => r.tofSens)
    [] r.e \in Requests -> I # NoInst /\ ~r.err /\ ~r.pen
                           /\ IF r.e = "Value" THEN Has(r, "val") /\ ValueOk(r, NewVs(r)) ELSE ImageOk(r)
    [] r.e = "End" -> r.lines >= l - 1
    [] OTHER -> FALSE

(* Known finding C05-tof-subsetsens: for TOF data WITHOUT TOF sensitivities the subset sensitivities are computed   *)
(* with the non-TOF clone of the back projector, whose symmetries group the views differently from the TOF projectors *)
(* (which use none): the reported "sensitivity of subset s" is the sensitivity of OTHER views than the ones value and *)
(* gradient of subset s work on (e.g. 8 views, 4 subsets: subset 3 gets 0, subset 1 twice its share).  Signature: a   *)
(* Sens / AddSens line of such an instance that is explained by the definition evaluated with the clone's grouping.   *)
CloneSys == [sys EXCEPT !.cols = sys.ntcols, !.subkey = sys.ntkey]
Classify(r) ==
  IF I = NoInst \/ ~(r.e \in {"Sens", "AddSens"}) \/ r.err \/ ~Has(r, "out") THEN "new"
  ELSE IF sys.tof /\ ~I.tofSens /\ I.uss /\ I.N > 1 /\ Len(r.out) = sys.nv /\ SubOk(r) /\ r.sub >= 0 /\ r.k = 12
          /\ \A v \in 1..sys.nv : RealSensOk(CloneSys, I, m, r.sub, v, r.out[v], O0(r, v)) THEN "C05-tof-subsetsens"
  ELSE "new"

Init == l = 1 /\ sys = NoSys /\ I = NoInst /\ m = <<>> /\ vs = <<>> /\ bad = <<>>
Next ==
  /\ l <= Len(TraceLog)
  /\ LET r == TraceLog[l] IN
     /\ sys' = IF r.e = "System" THEN SysOf(r)
               ELSE IF r.e = "Instance" /\ ShapeOk(r, sys) THEN WithKeys(sys, r.sw) ELSE sys
     /\ I' = IF r.e = "Instance" THEN (IF ShapeOk(r, sys) THEN InstOf(r, sys) ELSE NoInst)
             ELSE IF r.e = "System" THEN NoInst
             ELSE IF r.e = "SetUp" /\ I # NoInst THEN [I EXCEPT !.tofSens = r.tofSens]
             ELSE I
     /\ m' = IF r.e = "Instance" /\ ShapeOk(r, sys)
             THEN [ px |-> [b \in 1..NB(sys) |-> RowDot(sys.rows[b], r.x)],
                    used |-> [b \in 1..NB(sys) |-> UsedBin(sys, InstOf(r, sys), b)] ]
             ELSE m
     /\ vs' = IF r.e = "Instance" THEN <<>> ELSE IF I # NoInst THEN NewVs(r) ELSE vs
     /\ bad' = IF Explains(r) THEN bad
               ELSE LET cls == Classify(r) IN
                    IF Len(SelectSeq(bad, LAMBDA x : x[2] = cls)) < (IF cls = "new" THEN 300 ELSE 20) THEN Append(bad, << l, cls >>) ELSE bad
  /\ l' = l + 1
Spec == Init /\ [][Next]_<<l, sys, I, m, vs, bad>>

Done == l > Len(TraceLog) => (bad = <<>> \/ PrintT(<<"UNEXPLAINED", bad>>))
Consumed == IF TLCGet("stats").diameter - 1 = Len(TraceLog) THEN TRUE
            ELSE PrintT(<<"REJECTED_AT", TLCGet("stats").diameter>>) /\ FALSE
=============================================================================
