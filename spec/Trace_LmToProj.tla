-------------------------- MODULE Trace_LmToProj ---------------------------
(* Trace validation for C14.  The recorded executions of the real            *)
(* LmToProjData (calls through the list-mode seam, the lm.* hook events, the  *)
(* output projection data after every pass and every frame) must be          *)
(*   (1) executions of the machine of LmToProj.tla (batch / rewind protocol), *)
(*   (2) and every frame's output must be the ABSTRACT histogram of the       *)
(*       stream (checked directly for streams of up to AbsMax records).       *)
(* The recorded gradients of the list-mode and of the projection-data         *)
(* likelihood must agree (GradAgree).                                         *)
(* One trace file holds many executions (Config / GConfig ... End).  An       *)
(* unexplained line ends the validation of its execution only; its line       *)
(* number and class are collected in `bad'.                                   *)
EXTENDS LmToProj, TraceLib, FiniteSetsExt
VARIABLES l,      \* next line
          run,    \* line of the Config / GConfig of the current execution
          P, T,   \* its parameters and plan
          m,      \* machine state
          I,      \* memo: the abstract set of stored events of the current frame ({-1}: stream too long)
          cov,    \* what the accepted executions exercised (for the runner's vacuity guards)
          bad

AbsMax == 400        \* direct comparison with the abstract histogram up to this stream length
AbsMaxCount == 100   \* ... in num_events_to_store mode (cubic)

(* ---------------- constant-level tables derived from the log ---------------- *)
CfgLines == { k \in 1..Len(TraceLog) : TraceLog[k].e \in {"Config", "GConfig"} }
StartLines == {"Config", "GConfig", "EConfig"}
TemplGeo(r) == [N |-> r.N, R |-> r.R, span |-> r.span, ge |-> r.ge, maxDelta |-> r.maxDelta, mash |-> r.mash,
                tofMash |-> r.tofMash, maxT |-> r.maxT, minTang |-> r.minTang, maxTang |-> r.maxTang,
                minSeg |-> r.minSeg, maxSeg |-> r.maxSeg]
EffGeo(r) == IF r.e = "Config"
             THEN LET ms == EffMaxSeg(r.maxSeg, r.maxSegProc) IN [TemplGeo(r) EXCEPT !.minSeg = -ms, !.maxSeg = ms]
             ELSE TemplGeo(r)
\* the bins of all events of all executions, by the geometry of Geometry.tla (evaluated once)
ResOfRun == [k \in CfgLines |->
               [i \in 1..Len(TraceLog[k + 1].recs) |->
                  IF TraceLog[k + 1].recs[i][1] = 0 THEN NoRes
                  ELSE Resolve(EffGeo(TraceLog[k]), BinOf(EffGeo(TraceLog[k]), PairOf(TraceLog[k + 1].recs[i])))]]
Stream == TraceLog[run + 1].recs
RS == ResOfRun[run]

FramesOf(r) == [i \in 1..Len(r.frames) |-> << r.frames[i][1], r.frames[i][2] >>]
ParamsOf(r) ==
  IF r.e = "Config"
  THEN [c |-> EffGeo(r), frames |-> FramesOf(r), segIM |-> r.segIM, tofIM |-> r.tofIM, storeP |-> r.storeP, storeD |-> r.storeD,
        nStore |-> r.nStore, fresh |-> r.fresh]
  \* gradient runs: the histogram of the prompts of the selected frame, everything in memory
  ELSE [c |-> EffGeo(r), frames |-> FramesOf(r), segIM |-> -1, tofIM |-> -1, storeP |-> TRUE, storeD |-> FALSE,
        nStore |-> 0, fresh |-> TRUE]

\* what the output projection data says about itself is the documented Michelogram of the effective geometry
GeomOk(r, c) ==
  /\ r.outMinSeg = c.minSeg /\ r.outMaxSeg = c.maxSeg
  /\ r.numViews = NViewsOf(c) /\ r.minView = 0
  /\ r.minTof = MinTof(c) /\ r.maxTof = MaxTof(c)
  /\ r.oMinTang = c.minTang /\ r.oMaxTang = c.maxTang
  /\ Len(r.segs) = NumSegs(c)
  /\ \A i \in 1..Len(r.segs) :
       LET sg == r.segs[i][1] IN
       /\ sg = c.minSeg + i - 1
       /\ r.segs[i][2] = SegMinRD(c, sg) /\ r.segs[i][3] = SegMaxRD(c, sg)
       /\ r.segs[i][4] = 0 /\ r.segs[i][5] = NumAx(c, sg) - 1

(* ------------------------- output observations --------------------------- *)
\* nz: [[seg, ax, view, tang, tof, value * 16], ...] = the non-zero bins of the output
NzBinOk(c, e) == /\ e[1] \in Segs(c) /\ e[5] \in TofBins(c)
                 /\ e[2] >= 0 /\ e[2] < NumAx(c, e[1]) /\ e[3] >= 0 /\ e[3] < NViewsOf(c)
                 /\ e[4] >= c.minTang /\ e[4] <= c.maxTang /\ e[6] # 0
NzJ(c, e) == (e[2] * NViewsOf(c) + e[3]) * NTang(c) + (e[4] - c.minTang) + 1
NzValid(c, nz) == /\ \A i \in 1..Len(nz) : NzBinOk(c, nz[i])
                  /\ Cardinality({ << nz[i][1], nz[i][2], nz[i][3], nz[i][4], nz[i][5] >> : i \in 1..Len(nz) }) = Len(nz)
NzKey(c, e) == << e[5], e[1], NzJ(c, e) >>
\* the recorded output is the machine's output
NzIsOut(c, nz, out) ==
  /\ Len(nz) = Cardinality(DOMAIN out)
  /\ \A i \in 1..Len(nz) : NzKey(c, nz[i]) \in DOMAIN out /\ nz[i][6] = 16 * out[NzKey(c, nz[i])]
\* the recorded output is the abstract histogram whose stored events are II:
\* every recorded bin holds the sum of the increments of the events the geometry assigns to it, and
\* every stored event lies in a recorded bin unless the increments in its bin cancel
SumAt(II, key) == SumInc(P, Stream, { i \in II : KeyOf(RS[i]) = key })
NzIsHist(c, nz, II) ==
  /\ \A i \in 1..Len(nz) : nz[i][6] = 16 * SumAt(II, NzKey(c, nz[i]))
  /\ \A i \in II : \/ \E q \in 1..Len(nz) : NzKey(c, nz[q]) = KeyOf(RS[i])
                   \/ SumAt(II, KeyOf(RS[i])) = 0
AbsLimit == IF TimeMode(P) THEN AbsMax ELSE AbsMaxCount
StoredMemo(f) == IF Len(Stream) <= AbsLimit THEN StoredIdx(P, Stream, RS, f) ELSE {-1}

(* ------------------------------ one line --------------------------------- *)
Rej == [pc |-> "rej"]
LineEv(r) ==
  CASE r.e = "NewFrame" -> Ev("NewFrame", r.f, 0, 0, 0)
    [] r.e = "Batch" -> Ev("Batch", r.s0, r.s1, r.t0, r.t1)
    [] r.e = "R" -> Ev("R", r.i, 0, 0, 0)
    [] r.e = "Sv" -> Ev("Sv", r.pos, 0, 0, 0)
    [] r.e = "FrameStart" -> Ev("FrameStart", r.f, 0, 0, 0)
    [] r.e = "St" -> Ev("St", r.pos, 0, 0, 0)
    [] r.e = "Rewind" -> Ev("Rewind", r.f, 0, 0, 0)
    [] r.e = "Save" -> Ev("Save", r.s0, r.s1, r.t0, r.t1)
    [] r.e = "End" -> Ev("End", 0, 0, 0, 0)
    [] OTHER -> Ev("?", 0, 0, 0, 0)
MachineEvents == {"NewFrame", "Batch", "R", "Sv", "FrameStart", "St", "Rewind", "Save"}
NoRec == << 0, 0, 0, 0, 0, 0 >>

\* next machine state if line r is explained, Rej otherwise (executions of LmToProjData)
HistLine(r) ==
  CASE r.e = "Stream" -> IF m.pc = "stream" /\ l = run + 1 THEN [m EXCEPT !.pc = "setup"] ELSE Rej
    \* the driver rewinds a re-used list-mode data object before the next execution (ListModeData::reset)
    [] r.e = "Reset" -> IF m.pc = "setup" THEN m ELSE Rej
    [] r.e = "SetUp" ->
         IF m.pc # "setup" THEN Rej
         \* "At least one of store_prompts or store_delayeds should be true"
         ELSE IF ~LegalStore(P) THEN (IF r.err THEN [m EXCEPT !.pc = "failed"] ELSE Rej)
         ELSE IF ~r.err /\ r.segIM = SegIM(P) /\ r.tofIM = TofIM(P) /\ GeomOk(r, P.c)
              THEN M0 ELSE Rej
    [] r.e \in MachineEvents ->
         IF m.pc \in {"stream", "setup", "failed", "done"} \/ LineEv(r) # Expected(T, Len(Stream), m) THEN Rej
         ELSE IF r.e = "R" /\ r.i > 0
              THEN (IF IsTime(Stream[r.i]) /\ m.bi = 1 /\ MsOf(Stream[r.i]) < m.ct THEN Rej    \* (input not monotone)
                    ELSE Apply(P, T, m, LineEv(r), Stream[r.i], RS[r.i], 0))
              ELSE IF r.e = "St" /\ r.id # m.sid THEN Rej
              ELSE Apply(P, T, m, LineEv(r), NoRec, NoRes, IF r.e = "Sv" THEN r.id ELSE 0)
    [] r.e = "Out" ->
         IF /\ m.pc \in {"batch", "endframe"} /\ r.f = m.f /\ r.part = (m.pc = "batch")
            /\ NzValid(P.c, r.nz) /\ NzIsOut(P.c, r.nz, m.out)
            \* the last frame's output is the abstract histogram of the frame
            /\ (m.pc = "endframe" /\ I # {-1}) => NzIsHist(P.c, r.nz, I)
            \* file output: "write projection data for each time frame": the header of frame f's file carries that frame
            /\ Has(r, "hdrFrames") => (r.hdrFrames = 1 /\ r.hdrStart = T.frames[m.f][1] /\ r.hdrEnd = T.frames[m.f][2])
         THEN m ELSE Rej
    [] r.e = "End" ->
         IF m.pc = "failed" THEN (IF r.err THEN [m EXCEPT !.pc = "done"] ELSE Rej)
         ELSE IF m.pc = "endframe" /\ LineEv(r) = Expected(T, Len(Stream), m) /\ ~r.err THEN [m EXCEPT !.pc = "done"] ELSE Rej
    [] OTHER -> Rej

(* --------------- exact instances on the explicit-matrix seam --------------- *)
\* GConfig lines with xm = TRUE carry the system: rows [seg, ax, view, tang, tof, v1, w1, v2, w2, ac] in the
\* order (TOF bin, segment, axial position, view, tangential position): the row of that bin has weight w1 at
\* voxel v1 and w2 at voxel v2 (0 = none); lam[v] = exponent of the image value 2^lam[v]; ac = additive
\* term code: 0 none, 1: equal to the forward projection, 2: three times the forward projection.
XCfg == TraceLog[run]
SegSizeBefore(c, sg) == Cardinality({ x \in (c.minSeg..(sg - 1)) \X (0..(2 * c.R)) : x[2] < NumAx(c, x[1]) }) * NViewsOf(c) * NTang(c)
RowIdx(c, key) == (key[1] - MinTof(c)) * SegSizeBefore(c, c.maxSeg + 1) + SegSizeBefore(c, key[2]) + key[3]
Log2(x) == CASE x = 1 -> 0 [] x = 2 -> 1 [] x = 4 -> 2
XmOk(r, c) ==
  /\ Len(r.lam) = r.nvox /\ Len(r.rows) = NumTof(c) * SegSizeBefore(c, c.maxSeg + 1)
  /\ \A q \in 1..Len(r.rows) :
       LET w == r.rows[q] IN
       /\ w[1] \in Segs(c) /\ w[5] \in TofBins(c) /\ w[2] >= 0 /\ w[2] < NumAx(c, w[1]) /\ w[3] >= 0 /\ w[3] < NViewsOf(c)
       /\ w[4] >= c.minTang /\ w[4] <= c.maxTang
       /\ RowIdx(c, NzKey(c, w)) = q
       /\ w[6] \in 1..r.nvox /\ w[8] \in 0..r.nvox /\ w[8] # w[6] /\ (w[7] + w[9]) \in {1, 2, 4} /\ w[7] >= 1 /\ (w[8] = 0 <=> w[9] = 0)
       /\ (w[8] # 0 => r.lam[w[8]] = r.lam[w[6]])
       /\ w[10] \in 0..2 /\ (w[10] = 0 <=> ~r.hasAdd)
RowOfKey(key) == XCfg.rows[RowIdx(P.c, key)]
\* "maximum absolute segment number to process" of the objective functions: -1 = all, otherwise segments -m..m of the data
\* (0 = direct planes only); a value above the data's maximum must be refused by the list-mode objective function
XMaxSeg == EffMaxSeg(XCfg.maxSeg, XCfg.maxSegProc)
XSegUsed(seg) == seg >= -XMaxSeg /\ seg <= XMaxSeg
XRefused == XCfg.maxSegProc > XCfg.maxSeg
Weight(w, v) == (IF w[6] = v THEN w[7] ELSE 0) + (IF w[8] = v THEN w[9] ELSE 0)
\* forward projection of the image + additive term = 2^QExp
QExp(w) == XCfg.lam[w[6]] + Log2(w[7] + w[9]) + w[10]
ViewOfKey(c, key) == ((key[3] - 1) \div NTang(c)) % NViewsOf(c)
\* subsets are views modulo the number of subsets (trivial symmetries)
\* data term: sum over the stored prompts e of the subset of  P[bin(e)][v] / (P lambda + a)[bin(e)], in units 2^-k
XData(sub, k) ==
  [v \in 1..XCfg.nvox |->
     FoldSet(LAMBDA i, acc : acc + (IF ViewOfKey(P.c, KeyOf(RS[i])) % XCfg.numSubsets = sub /\ XSegUsed(RS[i].seg)
                                    THEN Weight(RowOfKey(KeyOf(RS[i])), v) * 2 ^ (k - QExp(RowOfKey(KeyOf(RS[i])))) ELSE 0), 0, I)]
\* sensitivity: back projection of ones over all bins of the subset (all TOF bins: "the TOF kernel sums to 1")
XSens(sub, k) ==
  [v \in 1..XCfg.nvox |->
     FoldSet(LAMBDA q, acc : acc + (IF XCfg.rows[q][3] % XCfg.numSubsets = sub /\ XSegUsed(XCfg.rows[q][1]) THEN Weight(XCfg.rows[q], v) * 2 ^ k ELSE 0), 0, 1..Len(XCfg.rows))]
SeqIs(q, f, n) == Len(q) = n /\ \A v \in 1..n : q[v] = f[v]
\* Hessian of the log-likelihood times the image itself: - sum over the stored prompts e of
\*   P[bin(e)][v] * (P lambda)[bin(e)] / (P lambda + a)[bin(e)]^2   (P lambda = 2^(QExp - additive code))
XHess(sub, k) ==
  [v \in 1..XCfg.nvox |->
     -FoldSet(LAMBDA i, acc : acc + (IF ViewOfKey(P.c, KeyOf(RS[i])) % XCfg.numSubsets = sub /\ XSegUsed(RS[i].seg)
                                     THEN Weight(RowOfKey(KeyOf(RS[i])), v)
                                          * 2 ^ (k + QExp(RowOfKey(KeyOf(RS[i]))) - RowOfKey(KeyOf(RS[i]))[10] - 2 * QExp(RowOfKey(KeyOf(RS[i])))) ELSE 0), 0, I)]
XExpected(r) == IF r.e = "Sens" THEN XSens(r.subset, r.k)
                ELSE IF r.e = "Hess" THEN XHess(r.subset, r.k)
                ELSE IF r.plusSens THEN XData(r.subset, r.k)
                ELSE [v \in 1..XCfg.nvox |-> XData(r.subset, r.k)[v] - XSens(r.subset, r.k)[v]]

\* the inputs are inside the domain of the specification (otherwise the driver is at fault)
ConfigOk(r) ==
  LET tc == TemplGeo(r)  pp == ParamsOf(r) IN
  /\ l < Len(TraceLog) /\ TraceLog[l + 1].e = "Stream" /\ Len(TraceLog[l + 1].recs) = r.len
  /\ LegalConfig(tc) /\ ~TruncSingleRD(tc) /\ ~tc.ge
  /\ LegalFrames(pp)
  /\ r.e = "Config" => (r.maxSegProc >= -1 /\ (r.segIM = -1 \/ r.segIM >= 1) /\ (r.tofIM = -1 \/ r.tofIM >= 1) /\ (r.fileOut => r.fresh))
  /\ r.e = "GConfig" => (r.numSubsets >= 1 /\ r.numViews % r.numSubsets = 0 /\ r.maxSegProc >= -1 /\ r.cache >= 0 /\ (r.disk => r.cache > 0) /\ (r.xm => XmOk(r, tc)))

\* gradient executions: GConfig, Stream, Out (histogram of the frame's prompts), Sens ..., Grad ..., End
\* "The gradient of the list-mode Poisson log-likelihood equals the gradient of the projection-data
\*  log-likelihood of the histogrammed data with the same model":
\*   Sens:  the (subset) sensitivities of the two objective functions agree,
\*   Grad, plusSens: the data terms (gradient plus sensitivity) agree,
\*   Grad, not plusSens: the gradients agree.
\* Exact instances (xm): both must be exactly what TLC computes from the event list and the matrix.
\* Ray-tracing matrix: observation against observation in fixed point (GradAgree).  There, for TOF data, the
\*   projection-data objective subtracts its sensitivity in projection space with the TOF projector while
\*   both classes document the non-TOF sensitivity as an approximation ("the TOF kernel sums to 1"), so the
\*   full gradient is claimed for non-TOF data only.
FullGradientClaimed(c) == NumTof(c) = 1
\* The result must not depend on how the list-mode objective function gets its events (XCfg.cache, XCfg.disk: one
\* batch, batches of `cache' events re-read from the stream, batches cached in files): the demands below do not
\* mention the batch size.
GradOk(r) ==
  IF XCfg.xm THEN r.k >= (IF r.e = "Hess" THEN 12 ELSE 6) /\ SeqIs(r.lm, XExpected(r), XCfg.nvox) /\ SeqIs(r.pd, XExpected(r), XCfg.nvox)
  ELSE (r.e \in {"Sens", "Hess"} \/ r.plusSens \/ FullGradientClaimed(P.c)) => GradAgree(r.lm, r.pd)
GradLine(r) ==
  CASE r.e = "Stream" -> IF m.pc = "stream" /\ l = run + 1 THEN [m EXCEPT !.pc = "g-hist"] ELSE Rej
    [] r.e = "Out" -> IF m.pc = "g-hist" /\ NzValid(P.c, r.nz) /\ (I # {-1} => NzIsHist(P.c, r.nz, I)) THEN [m EXCEPT !.pc = "g-grad"] ELSE Rej
    [] r.e \in {"Sens", "Grad", "Hess"} -> IF m.pc = "g-grad" /\ ~XRefused /\ r.subset \in 0..(XCfg.numSubsets - 1) /\ GradOk(r) THEN m ELSE Rej
    \* "The 'maximum segment number to process' asked for is larger than the number of segments": set_up must fail then, and only then
    [] r.e = "End" -> IF m.pc = "g-grad" /\ r.err = XRefused THEN [m EXCEPT !.pc = "done"] ELSE Rej
    [] OTHER -> Rej

(* ------------- ECAT8 32-bit words through CListRecordECAT8_32bit ------------- *)
\* EConfig: scanner + template geometry; W: one word and what the real record class decoded
ECfg == TraceLog[run]
EcatLine(r) ==
  CASE r.e = "W" ->
         IF m.pc # "e-words" THEN Rej
         ELSE LET cu == EcatGeo(ECfg.N, ECfg.R, ECfg.maxT, ECfg.uNumTang)
                  ct == TemplGeo(ECfg) IN
              IF EcatIsTag(r.hi)
              THEN (IF /\ ~r.isEvent /\ r.isTime = (EcatTagKind(r.hi) = 0)
                       /\ r.isTime => r.ms = EcatTime(r.hi, r.lo)
                    THEN m ELSE Rej)
              ELSE LET off == EcatOffset(r.hi, r.lo)
                       p == << r.d1, r.r1, r.d2, r.r2, r.t >> IN
                   IF /\ EcatOffsetValid(cu, off)               \* (otherwise the driver is at fault)
                      /\ r.isEvent /\ ~r.isTime
                      /\ r.prompt = (EcatPromptBit(r.hi) = 1)
                      \* the decoded detector pair is one of the bin the offset points at
                      /\ r.d1 \in 0..(cu.N - 1) /\ r.d2 \in 0..(cu.N - 1) /\ r.d1 # r.d2 /\ r.r1 \in Rings(cu) /\ r.r2 \in Rings(cu)
                      /\ AssignedTo(cu, p, EcatBinOfOffset(cu, off))
                      \* and the event is binned into the template by the data geometry
                      /\ \E same \in BOOLEAN :
                           /\ IsInPlaneOf(ct, r.d1, r.d2, r.view, r.tang, same)
                           /\ LET tb == BinGiven(ct, p, r.view, r.tang, same) IN
                              IF tb = NoBin THEN ~r.ok ELSE r.ok /\ tb = Bin(r.seg, r.ax, r.view, r.tang, r.tof)
                   THEN m ELSE Rej
    [] r.e = "End" -> IF m.pc = "e-words" /\ ~r.err THEN [m EXCEPT !.pc = "done"] ELSE Rej
    [] OTHER -> Rej
EConfigOk(r) == LET tc == TemplGeo(r) IN LegalConfig(tc) /\ ~TruncSingleRD(tc) /\ ~tc.ge /\ r.uNumTang >= 1 /\ r.uNumTang <= r.N - 1

\* An unexplained line is labelled with the signature of a finding recorded in known_findings.jsonl when it has
\* exactly that signature (all three are fixed by now, so the runner reports them as violations - regressions):
\* C14-unmarked-frame: the frame contains no time mark (the mark that ended the search for its start lies
\*   at or after its end) and the implementation goes on reading events instead of saving an empty frame.
\* C14-lmgrad-serial: the list-mode data term is identically zero although the projection-data one is not
\*   (and is what TLC computes, on exact instances).
\* Re-used LmToProjData object (Config.reuse, with the history fields hadTimeMode / histMaxSeg):
\* C14-reuse-nstore: an earlier execution of the object used time frames (num_events_to_store = 0); now
\*   num_events_to_store > 0 is set but the implementation reads on after the requested number of events is stored.
\* C14-reuse-maxseg: an earlier execution had a template with fewer segments; set_up keeps the output truncated to them.
AllZero(q) == \A i \in 1..Len(q) : q[i] = 0
Classify(r) ==
  IF run = 0 \/ TraceLog[run].e = "EConfig" THEN "new"
  ELSE IF TraceLog[run].e = "Config"
       THEN (IF m.pc = "read" /\ m.empty /\ r.e = "R" THEN "C14-unmarked-frame"
             ELSE IF Has(TraceLog[run], "reuse") /\ TraceLog[run].reuse /\ TraceLog[run].hadTimeMode /\ ~TimeMode(P)
                     /\ m.pc = "read" /\ m.more = 0 /\ r.e = "R" THEN "C14-reuse-nstore"
             ELSE IF Has(TraceLog[run], "reuse") /\ TraceLog[run].reuse /\ TraceLog[run].maxSegProc = -1 /\ m.pc = "setup" /\ r.e = "SetUp" /\ ~r.err
                     /\ TraceLog[run].histMaxSeg < P.c.maxSeg /\ r.outMaxSeg = TraceLog[run].histMaxSeg /\ r.outMinSeg = -r.outMaxSeg
                     /\ r.segIM = EffInMem(P.segIM, 2 * r.outMaxSeg + 1) /\ r.tofIM = TofIM(P) THEN "C14-reuse-maxseg"
             ELSE "new")
       \* C14-reuse-lmframe: re-used list-mode objective function whose time frame was changed: the computation is refused
       ELSE IF r.e = "End" /\ r.err /\ m.pc = "g-grad" /\ ~XRefused /\ Has(XCfg, "reuse") /\ XCfg.reuse /\ XCfg.changed = "frame" THEN "C14-reuse-lmframe"
       ELSE IF r.e = "Grad" /\ m.pc = "g-grad" /\ r.plusSens /\ Len(r.lm) = Len(r.pd) /\ r.subset \in 0..(XCfg.numSubsets - 1)
                 /\ XCfg.xm /\ XCfg.numSubsets = 1 /\ SeqIs(r.pd, XExpected(r), XCfg.nvox) /\ AllZero(r.lm) /\ ~AllZero(r.pd)
            THEN "C14-lmgrad-serial"
            ELSE "new"

Idle == [pc |-> "idle"]
Cov0 == [reuseObj |-> 0, subsets3 |-> 0, segZero |-> 0, segRefused |-> 0, reuse |-> 0, emptyFrameRewind |-> 0, boundaryMark |-> 0, emptyOut |-> 0, multiBatchMem |-> 0, multiBatchDisk |-> 0, ecatTofWords |-> 0, ecatWords |-> 0]
Init == l = 1 /\ run = 0 /\ P = << >> /\ T = << >> /\ m = Idle /\ I = {} /\ bad = << >> /\ cov = Cov0
Note(b, ln, cls) == IF Len(SelectSeq(b, LAMBDA x : x[2] = cls)) < (IF cls = "new" THEN 200 ELSE 20) THEN Append(b, << ln, cls >>) ELSE b
\* coverage facts of an ACCEPTED line r (machine state m before the line)
CovOf(r, nm) ==
  IF TraceLog[run].e = "Config"
  THEN [cov EXCEPT
          \* a later pass (after a rewind) over a frame that contains no time mark
          !.emptyFrameRewind = @ + (IF r.e = "Rewind" /\ m.empty THEN 1 ELSE 0),
          \* a time mark exactly on the end of the frame being read
          !.boundaryMark = @ + (IF r.e = "R" /\ r.i > 0 /\ m.pc = "read" /\ IsTime(Stream[r.i]) /\ MsOf(Stream[r.i]) = T.frames[m.f][2] THEN 1 ELSE 0),
          !.emptyOut = @ + (IF r.e = "Out" /\ ~r.part /\ r.nz = << >> THEN 1 ELSE 0),
          \* a completed execution of a re-used LmToProjData object (one setting changed since its previous execution)
          !.reuse = @ + (IF r.e = "End" /\ Has(TraceLog[run], "reuse") /\ TraceLog[run].reuse THEN 1 ELSE 0)]
  ELSE IF TraceLog[run].e = "GConfig"
  THEN [cov EXCEPT
          \* gradient with more stored prompts than one batch holds
          !.multiBatchMem = @ + (IF r.e = "Grad" /\ r.plusSens /\ XCfg.cache > 0 /\ ~XCfg.disk /\ I # {-1} /\ Cardinality(I) > XCfg.cache THEN 1 ELSE 0),
          !.multiBatchDisk = @ + (IF r.e = "Grad" /\ r.plusSens /\ XCfg.cache > 0 /\ XCfg.disk /\ I # {-1} /\ Cardinality(I) > XCfg.cache THEN 1 ELSE 0),
          \* non-zero sub-gradients with 3 or more subsets and a matrix with real symmetries (ray tracing)
          !.subsets3 = @ + (IF r.e = "Grad" /\ r.plusSens /\ ~XCfg.xm /\ XCfg.numSubsets >= 3 /\ ~AllZero(r.pd) THEN 1 ELSE 0),
          \* direct planes only although the data have oblique segments
          !.segZero = @ + (IF r.e = "Grad" /\ ~r.plusSens /\ XCfg.maxSegProc = 0 /\ XCfg.maxSeg > 0 THEN 1 ELSE 0),
          !.segRefused = @ + (IF r.e = "End" /\ r.err THEN 1 ELSE 0),
          \* a completed execution of a re-used list-mode objective function object
          !.reuseObj = @ + (IF r.e = "End" /\ ~r.err /\ Has(XCfg, "reuse") /\ XCfg.reuse THEN 1 ELSE 0)]
  ELSE [cov EXCEPT
          !.ecatWords = @ + (IF r.e = "W" THEN 1 ELSE 0),
          \* event words of a TOF scanner that point beyond the first TOF block
          !.ecatTofWords = @ + (IF r.e = "W" /\ ~EcatIsTag(r.hi) /\ ECfg.maxT > 0
                                    /\ EcatBinOfOffset(EcatGeo(ECfg.N, ECfg.R, ECfg.maxT, ECfg.uNumTang), EcatOffset(r.hi, r.lo)).tof # 0 THEN 1 ELSE 0)]
Next ==
  /\ l <= Len(TraceLog)
  /\ l' = l + 1
  /\ LET r == TraceLog[l]
         \* an execution that was cut short (no End) is unexplained as well
         b0 == IF r.e \in StartLines /\ m.pc \notin {"idle", "done", "dead"} THEN Note(bad, l, "new") ELSE bad
     IN IF r.e \in {"Config", "GConfig"}
        THEN /\ cov' = cov
             /\ IF ConfigOk(r)
                THEN /\ run' = l /\ P' = ParamsOf(r) /\ T' = PlanOf(ParamsOf(r))
                     /\ m' = [pc |-> "stream"] /\ bad' = b0
                     /\ I' = IF r.e = "GConfig" THEN (IF r.len <= AbsMax THEN StoredIdx(ParamsOf(r), TraceLog[l + 1].recs, ResOfRun[l], 1) ELSE {-1}) ELSE {}
                ELSE /\ bad' = Note(b0, l, "bad-config") /\ m' = [pc |-> "dead"] /\ UNCHANGED << run, P, T, I >>
        ELSE IF r.e = "EConfig"
        THEN /\ cov' = cov /\ UNCHANGED << P, T, I >>
             /\ IF EConfigOk(r) THEN run' = l /\ m' = [pc |-> "e-words"] /\ bad' = b0
                ELSE bad' = Note(b0, l, "bad-config") /\ m' = [pc |-> "dead"] /\ run' = run
        ELSE IF m.pc \in {"dead", "idle"} THEN UNCHANGED << run, P, T, m, I, bad, cov >>
        ELSE LET nm == IF TraceLog[run].e = "Config" THEN HistLine(r) ELSE IF TraceLog[run].e = "GConfig" THEN GradLine(r) ELSE EcatLine(r) IN
             /\ UNCHANGED << run, P, T >>
             /\ IF nm = Rej THEN bad' = Note(bad, l, Classify(r)) /\ m' = [pc |-> "dead"] /\ I' = I /\ cov' = cov
                ELSE /\ bad' = bad /\ m' = nm /\ cov' = CovOf(r, nm)
                     /\ I' = IF r.e = "NewFrame" THEN StoredMemo(r.f) ELSE I
Spec == Init /\ [][Next]_<< l, run, P, T, m, I, bad, cov >>

\* evaluated in the final state only: prints the unexplained lines
Final == IF m.pc \in {"idle", "done", "dead"} THEN bad ELSE Append(bad, << Len(TraceLog), "new" >>)
Done == l > Len(TraceLog) => (PrintT(<< "COVER", cov >>) /\ (Final = << >> \/ PrintT(<< "UNEXPLAINED", Final >>)))
Consumed == IF TLCGet("stats").diameter - 1 = Len(TraceLog) THEN TRUE
            ELSE PrintT(<< "REJECTED_AT", TLCGet("stats").diameter >>) /\ FALSE
=============================================================================
