SPECIFICATION SpecT
CONSTANTS MaxLam = 3 NumPatterns = 3 MaxN = 3 MaxIters = 2 Renumber = FALSE Eip = FALSE
INVARIANTS T1 T2 T3 T4 T5 T6 T7
CHECK_DEADLOCK FALSE
