SPECIFICATION Spec
CONSTANTS NT = 3 NI = 4 NK = 2 NC = 1 Bug = "none"
INVARIANTS InvMutex InvUse InvFilledOnce InvFlagLast InvRules InvCache InvOneInsert InvNothingLost InvIO InvItems InvResult InvThisCallOnly InvLocksFree InvWhole InvGuard
CHECK_DEADLOCK TRUE
