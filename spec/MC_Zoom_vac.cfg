SPECIFICATION Spec
CONSTANTS
  MaxIn = 3
  MaxVal = 1
  MaxOut = 5
  OffR = 2
  Z3Idx = {2}
INVARIANTS InvNeverCovers
CHECK_DEADLOCK FALSE
