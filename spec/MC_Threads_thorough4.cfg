SPECIFICATION Spec
CONSTANTS NT = 4 NI = 2 NK = 1 NC = 1 Bug = "none"
INVARIANTS InvMutex InvUse InvFilledOnce InvFlagLast InvRules InvCache InvOneInsert InvNothingLost InvIO InvItems InvResult InvThisCallOnly InvLocksFree InvWhole InvGuard
CHECK_DEADLOCK TRUE
