SPECIFICATION Spec
CONSTANTS MaxLen = 6 NumGens = 2 Defect = "basickey" Impls = {"RayTracing", "Interpolation", "FromFile"}
INVARIANTS InvCache InvGet InvLast InvGen InvSetUp InvRefused
VIEW View
CHECK_DEADLOCK FALSE
