SPECIFICATION Spec
CONSTANTS MaxLen = 6 NumGens = 2 Defect = "basickey"
INVARIANTS InvCache InvGet InvLast InvGen InvSetUp
VIEW View
CHECK_DEADLOCK FALSE
