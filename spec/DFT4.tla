-------------------------------- MODULE DFT4 --------------------------------
(***************************************************************************)
(* Discrete Fourier transforms over the Gaussian integers for lengths 1,   *)
(* 2 and 4 in one to three dimensions, where every twiddle factor is a     *)
(* power of i and the arithmetic is exact.                                 *)
(*                                                                         *)
(* Convention (documentation of fourier_1d in stir/numerics/fourier.h):    *)
(*     r_s = sum_{r=0}^{n-1} c_r e^{ sign 2 pi i r s / n }                 *)
(* i.e. with the default sign = 1 the exponent is POSITIVE - the opposite  *)
(* of the usual textbook convention - and "the zero-frequency will be      *)
(* returned in c[0]".  inverse_fourier(c, sign) = fourier(c, -sign) / size *)
(* "such that inverse_fourier(fourier(c,sign),sign)==c".                   *)
(*                                                                         *)
(* A complex array is a record [n |-> <<n1,n2,n3>>, re |-> s, im |-> s]    *)
(* (row-major, axis 3 fastest, all indices from 0 as fourier requires).    *)
(* Also: the tolerances under which fixed-point observations of the        *)
(* single-precision transforms of any power-of-two length are compared.    *)
(***************************************************************************)
EXTENDS Integers, Sequences, FiniteSets, TLC, Functions

CAbs(x) == IF x < 0 THEN -x ELSE x
CAxes == 1..3
CSize(n) == n[1] * n[2] * n[3]
CArr(n, re, im) == [n |-> n, re |-> re, im |-> im]
\* frequency / sample index of the q-th (0-based) element
CPos(n, q) == << q \div (n[2] * n[3]), (q \div n[3]) % n[2], q % n[3] >>
COff(n, p) == (p[1] * n[2] + p[2]) * n[3] + p[3] + 1
CSum(f) == FoldFunction(+, 0, f)
Pow2(e) == 2 ^ e
Log2(n) == CHOOSE e \in 0..30 : Pow2(e) = n
IsPow2(n) == \E e \in 0..30 : Pow2(e) = n

(* ------------------------- exact transforms ----------------------------- *)
SmallShape(n) == \A d \in CAxes : n[d] \in {1, 2, 4}
\* e^{2 pi i e / n} as a number of quarter turns, n in {1, 2, 4}
Quarter(n, e) == ((4 \div n) * e) % 4
\* z * i^q
RotRe(re, im, q) == CASE q = 0 -> re [] q = 1 -> -im [] q = 2 -> -re [] q = 3 -> im
RotIm(re, im, q) == CASE q = 0 -> im [] q = 1 -> re [] q = 2 -> -im [] q = 3 -> -re
\* quarter turns of the kernel e^{sign 2 pi i (m1 k1/n1 + m2 k2/n2 + m3 k3/n3)}
Turns(n, sign, m, k) ==
  (Quarter(n[1], sign * m[1] * k[1]) + Quarter(n[2], sign * m[2] * k[2]) + Quarter(n[3], sign * m[3] * k[3])) % 4

DFT(x, sign) ==
  LET N == CSize(x.n) IN
  CArr(x.n,
       [kq \in 1..N |-> CSum([mq \in 1..N |-> RotRe(x.re[mq], x.im[mq], Turns(x.n, sign, CPos(x.n, mq - 1), CPos(x.n, kq - 1)))])],
       [kq \in 1..N |-> CSum([mq \in 1..N |-> RotIm(x.re[mq], x.im[mq], Turns(x.n, sign, CPos(x.n, mq - 1), CPos(x.n, kq - 1)))])])
\* N * inverse transform (the division by the size is exact for dyadic data; kept outside)
NInverse(x, sign) == DFT(x, -sign)

\* the one-dimensional transform along one axis only
DFTAxis(x, sign, ax) ==
  LET N == CSize(x.n)
      same(m, k) == \A d \in CAxes : d # ax => m[d] = k[d]
      t(mq, kq) == LET m == CPos(x.n, mq - 1) k == CPos(x.n, kq - 1) IN
                   IF same(m, k) THEN Quarter(x.n[ax], sign * m[ax] * k[ax]) ELSE -1
  IN CArr(x.n,
       [kq \in 1..N |-> CSum([mq \in 1..N |-> IF t(mq, kq) < 0 THEN 0 ELSE RotRe(x.re[mq], x.im[mq], t(mq, kq))])],
       [kq \in 1..N |-> CSum([mq \in 1..N |-> IF t(mq, kq) < 0 THEN 0 ELSE RotIm(x.re[mq], x.im[mq], t(mq, kq))])])

(* The algorithm of fourier_1d (bit reversal, then log2 n butterfly stages *)
(* "c1 = t1 + w c2; c2 = t1 - w c2" with w = exparray[i] = e^{sign i pi /  *)
(* pow2k}) for a 1-D array of length 1, 2 or 4: implementation-shaped, to  *)
(* be proved equal to the definition.                                      *)
BitRev(n, i) == IF n = 4 THEN (CASE i = 0 -> 0 [] i = 1 -> 2 [] i = 2 -> 1 [] i = 3 -> 3) ELSE i
Stage(c, pow2k, sign) ==
  LET n == c.n[3]
      w(j) == Quarter(2 * pow2k, sign * j)       \* e^{sign j pi / pow2k}
      partner(p) == IF (p \div pow2k) % 2 = 0 THEN p + pow2k ELSE p - pow2k
      upper(p) == (p \div pow2k) % 2 = 0
      idx(p) == p % pow2k
      \* value w * c2 of the butterfly p belongs to
      c2(p) == IF upper(p) THEN partner(p) ELSE p
      c1(p) == IF upper(p) THEN p ELSE partner(p)
      wre(p) == RotRe(c.re[c2(p) + 1], c.im[c2(p) + 1], w(idx(p)))
      wim(p) == RotIm(c.re[c2(p) + 1], c.im[c2(p) + 1], w(idx(p)))
  IN CArr(c.n, [q \in 1..n |-> IF upper(q - 1) THEN c.re[c1(q - 1) + 1] + wre(q - 1) ELSE c.re[c1(q - 1) + 1] - wre(q - 1)],
               [q \in 1..n |-> IF upper(q - 1) THEN c.im[c1(q - 1) + 1] + wim(q - 1) ELSE c.im[c1(q - 1) + 1] - wim(q - 1)])
FFT1(x, sign) ==
  LET n == x.n[3]
      b == CArr(x.n, [q \in 1..n |-> x.re[BitRev(n, q - 1) + 1]], [q \in 1..n |-> x.im[BitRev(n, q - 1) + 1]])
  IN  IF n = 1 THEN b ELSE IF n = 2 THEN Stage(b, 1, sign) ELSE Stage(Stage(b, 1, sign), 2, sign)

(* ----------------------- real data, positive half ----------------------- *)
\* fourier_for_real_data: "if c has sizes (n1,n2,...,nd), with nd even, the returned array will have
\* sizes (n1,n2,...,(nd/2)+1)", the frequencies (k1,..,kd) with 0 <= kd <= nd/2
HalfShape(n) == << n[1], n[2], n[3] \div 2 + 1 >>
RealAsComplex(n, v) == CArr(n, v, [q \in 1..CSize(n) |-> 0])
PosHalf(X) ==
  LET h == HalfShape(X.n) IN
  CArr(h, [q \in 1..CSize(h) |-> X.re[COff(X.n, CPos(h, q - 1))]], [q \in 1..CSize(h) |-> X.im[COff(X.n, CPos(h, q - 1))]])
RealDFT(n, v, sign) == PosHalf(DFT(RealAsComplex(n, v), sign))
\* pos_frequencies_to_all: "Adds negative frequencies to the last dimension of a complex array by
\* complex conjugation": the value at (k1,..,kd) is the conjugate of the one at (-k1,..,-kd)
Neg(n, k) == << (n[1] - k[1]) % n[1], (n[2] - k[2]) % n[2], (n[3] - k[3]) % n[3] >>
AllFromPos(n, R) ==
  LET h == HalfShape(n)
      src(q) == LET k == CPos(n, q - 1) IN IF k[3] <= n[3] \div 2 THEN k ELSE Neg(n, k)
      conj(q) == CPos(n, q - 1)[3] > n[3] \div 2
  IN CArr(n, [q \in 1..CSize(n) |-> R.re[COff(h, src(q))]],
             [q \in 1..CSize(n) |-> IF conj(q) THEN -R.im[COff(h, src(q))] ELSE R.im[COff(h, src(q))]])

(* ------------------------------ theorems -------------------------------- *)
Norm2(x) == CSum([q \in 1..CSize(x.n) |-> x.re[q] * x.re[q] + x.im[q] * x.im[q]])
Scaled(x, s) == CArr(x.n, [q \in 1..CSize(x.n) |-> s * x.re[q]], [q \in 1..CSize(x.n) |-> s * x.im[q]])
\* "the inverse discrete Fourier transform of the forward transform returns the input"
ThInverse(x, sign) == NInverse(DFT(x, sign), sign) = Scaled(x, CSize(x.n))
\* "the transform of a unit impulse is constant"
IsImpulse0(x) == \A q \in 2..CSize(x.n) : x.re[q] = 0 /\ x.im[q] = 0
ThImpulse(x, sign) == IsImpulse0(x) => \A q \in 1..CSize(x.n) : DFT(x, sign).re[q] = x.re[1] /\ DFT(x, sign).im[q] = x.im[1]
\* "Parseval's identity holds"
ThParseval(x, sign) == Norm2(DFT(x, sign)) = CSize(x.n) * Norm2(x)
\* the multi-dimensional transform is the succession of the one-dimensional ones, in any order
ThAxes(x, sign) ==
  \A o \in { <<1, 2, 3>>, <<1, 3, 2>>, <<2, 1, 3>>, <<2, 3, 1>>, <<3, 1, 2>>, <<3, 2, 1>> } :
     DFTAxis(DFTAxis(DFTAxis(x, sign, o[1]), sign, o[2]), sign, o[3]) = DFT(x, sign)
\* the FFT algorithm computes the transform it documents
ThFFT(x, sign) == (x.n[1] = 1 /\ x.n[2] = 1) => FFT1(x, sign) = DFT(x, sign)
\* "the real-data and complex-data transforms agree": for real input the spectrum is Hermitian, so its
\* positive half determines it
ThReal(x, sign) ==
  (\A q \in 1..CSize(x.n) : x.im[q] = 0) /\ x.n[3] > 1 => AllFromPos(x.n, PosHalf(DFT(x, sign))) = DFT(x, sign)

(* ------------------- fixed-point observations (encoding F) -------------- *)
(* Values of the single-precision transforms are logged as round(v * 2^k).  *)
(* Error model (Higham, Accuracy and Stability of Numerical Algorithms,     *)
(* Theorem 24.2): a radix-2 FFT in precision u with twiddle error mu        *)
(* satisfies ||X^ - X||_2 <= stages * eta * ||X||_2 / (1 - stages * eta)    *)
(* with eta = mu + gamma_4 (sqrt2 + mu).  For float, twiddles from          *)
(* std::exp(complex<float>) of a rounded angle: mu < 2^-22, eta < 2^-20.    *)
(* Every component is bounded by the 2-norm, and ||X||_2 = sqrt(N) ||x||_2. *)
EtaLog == 20
ISqrt(v) == LET RECURSIVE Go(_, _)
                Go(lo, hi) == IF lo >= hi THEN lo ELSE
                              LET mid == (lo + hi + 1) \div 2 IN IF mid <= v \div mid THEN Go(mid, hi) ELSE Go(lo, mid - 1)
            IN IF v <= 0 THEN 0 ELSE Go(1, IF v < 46340 THEN v ELSE 46340)
\* ceil(v * 2^e)
ShiftUp(v, e) == IF e >= 0 THEN v * Pow2(e) ELSE (v + Pow2(-e) - 1) \div Pow2(-e)
\* bound, in units of 2^-k, on every component of the error of a transform (or of inverse after
\* forward: stages counts both) whose exact result has 2-norm at most 2^normlog * (isq + 1), isq = ISqrt(sum of squares of the
\* input in units of 2^-kin); +1 unit for the rounding of the logged value
FxTol(stages, isq, normlog, kin, k) == 1 + ShiftUp((stages + 1) * (isq + 1), normlog + k - kin - EtaLog)
\* ceil(log2 N / 2): sqrt(N) <= 2^HalfLog(N)
HalfLog(N) == (Log2(N) + 1) \div 2
Within(a, b, tol) == CAbs(a - b) <= tol
\* wide non-negative integers <<hi, lo>> = hi * 2^15 + lo (sums of squares exceed 2^31)
WBase == 32768
WNorm(hi, lo) == << hi + (lo \div WBase), lo % WBase >>
WSumSq(s) == WNorm(CSum([q \in 1..Len(s) |-> (s[q] * s[q]) \div WBase]), CSum([q \in 1..Len(s) |-> (s[q] * s[q]) % WBase]))
WAdd(a, b) == WNorm(a[1] + b[1], a[2] + b[2])
(* ---------- any power-of-two length: characterisation by the twiddle table ---------- *)
(* A linear map T on C^n with T(e_m)[k] = w[(m k) mod n] is the documented transform     *)
(* r_k = sum_m c_m e^{sign 2 pi i m k / n} iff w[j] = e^{sign 2 pi i j / n}, and that     *)
(* holds iff  w[0] = 1,  w[j+1] = w[j] w[1]  (w is a character of Z_n),  w[n/4] = i^sign  *)
(* and  w[j] lies strictly inside the first (sign = -1: fourth) quadrant for 0 < j < n/4: *)
(* the character property makes w[1] an n-th root of unity e^{sign 2 pi i (1+4t)/n}, and  *)
(* for t # 0 some multiple j (1+4t) with j < n/4 leaves the quadrant.  The table w is     *)
(* OBSERVED (transform of e_1, logged as round(v 2^wk)); the relations are checked with   *)
(* the rounding slack of fixed-point products.  So twiddle factors and transform values   *)
(* of every length are decided without TLC evaluating a cosine.                           *)
MulRe(ar, ai, br, bi) == ar * br - ai * bi
MulIm(ar, ai, br, bi) == ar * bi + ai * br
\* |a b / 2^wk - c| <= slack for fixed-point a, b, c of modulus about 2^wk, each rounded to half a unit
ProdNear(ar, ai, br, bi, cr, ci, wk, slack) ==
  /\ CAbs(MulRe(ar, ai, br, bi) - cr * Pow2(wk)) <= slack * Pow2(wk)
  /\ CAbs(MulIm(ar, ai, br, bi) - ci * Pow2(wk)) <= slack * Pow2(wk)
TableOk(n, sign, wre, wim, wk) ==
  LET one == Pow2(wk) IN
  /\ Len(wre) = n /\ Len(wim) = n
  /\ \A j \in 1..n : CAbs(wre[j]) <= one + 1 /\ CAbs(wim[j]) <= one + 1
  /\ CAbs(wre[1] - one) <= 1 /\ CAbs(wim[1]) <= 1
  /\ n >= 2 => (CAbs(wre[n \div 2 + 1] + one) <= 1 /\ CAbs(wim[n \div 2 + 1]) <= 1)
  /\ n >= 4 => (CAbs(wre[n \div 4 + 1]) <= 1 /\ CAbs(wim[n \div 4 + 1] - sign * one) <= 1)
  \* inside the quadrant, and moving monotonically through it
  /\ \A j \in 1..(n \div 4 - 1) : /\ wre[j + 1] > 0 /\ sign * wim[j + 1] > 0
                                  /\ wre[j + 1] <= wre[j] /\ sign * wim[j + 1] >= sign * wim[j]
  \* character of Z_n: step and doubling
  /\ n >= 2 => \A j \in 0..(n - 1) :
       /\ ProdNear(wre[j + 1], wim[j + 1], wre[2], wim[2], wre[((j + 1) % n) + 1], wim[((j + 1) % n) + 1], wk, 2)
       /\ ProdNear(wre[j + 1], wim[j + 1], wre[j + 1], wim[j + 1], wre[((2 * j) % n) + 1], wim[((2 * j) % n) + 1], wk, 2)
\* the transform of the unit impulse at m is the m-th power of the table
PowerOk(n, m, ere, eim, wre, wim) ==
  /\ Len(ere) = n /\ Len(eim) = n
  /\ \A k \in 0..(n - 1) : CAbs(ere[k + 1] - wre[((m * k) % n) + 1]) <= 1 /\ CAbs(eim[k + 1] - wim[((m * k) % n) + 1]) <= 1
\* the transform of arbitrary data (integers x) is the linear combination with the table (coarsened to 2^ck so
\* that n products stay below 2^31); X is logged as round(v 2^kX), kX <= ck
ValuesOk(n, xre, xim, Xre, Xim, kX, wre, wim, wk, ck) ==
  \E cre \in {[j \in 1..n |-> wre[j] \div Pow2(wk - ck)]} : \E cim \in {[j \in 1..n |-> wim[j] \div Pow2(wk - ck)]} :
  \E l1 \in {CSum([m \in 1..n |-> CAbs(xre[m]) + CAbs(xim[m])])} :
  \E isq \in {ISqrt(CSum([m \in 1..n |-> xre[m] * xre[m] + xim[m] * xim[m]]))} :
  \E tol \in {ShiftUp(2 * l1 + n, kX - ck) + 2 + FxTol(Log2(n), isq, HalfLog(n), 0, kX)} :
    /\ kX <= ck
    /\ \A k \in 0..(n - 1) :
         /\ CAbs(Xre[k + 1] - (CSum([m \in 1..n |-> MulRe(xre[m], xim[m], cre[(((m - 1) * k) % n) + 1], cim[(((m - 1) * k) % n) + 1])]) \div Pow2(ck - kX))) <= tol
         /\ CAbs(Xim[k + 1] - (CSum([m \in 1..n |-> MulIm(xre[m], xim[m], cre[(((m - 1) * k) % n) + 1], cim[(((m - 1) * k) % n) + 1])]) \div Pow2(ck - kX))) <= tol
(* ---------- multi-dimensional transforms: per-axis twiddle tables ---------- *)
(* The transform of the unit impulse at position 1 along axis d is w_d[k_d], independent of the other frequency     *)
(* indices; each w_d must be THE table of its length (TableOk); the transform of a e_p is a w_1[p1 k1] w_2[p2 k2]     *)
(* w_3[p3 k3], and sparse data give the sum of such terms.  This decides multi-dimensional transform values for axis *)
(* lengths beyond 4.                                                                                                *)
AxisTable(n, ax, tre, tim) ==
  [re |-> [j \in 1..n[ax] |-> tre[COff(n, [d \in CAxes |-> IF d = ax THEN j - 1 ELSE 0])]],
   im |-> [j \in 1..n[ax] |-> tim[COff(n, [d \in CAxes |-> IF d = ax THEN j - 1 ELSE 0])]]]
\* the recorded transform of e_(1 along ax) depends on k[ax] only (one unit of rounding)
AxisOnly(n, ax, tre, tim, tab) ==
  \A q \in 1..CSize(n) : LET k == CPos(n, q - 1) IN
     CAbs(tre[q] - tab.re[k[ax] + 1]) <= 1 /\ CAbs(tim[q] - tab.im[k[ax] + 1]) <= 1
\* fixed-point product of two numbers of modulus <= 2^wk
FMulRe(ar, ai, br, bi, wk) == MulRe(ar, ai, br, bi) \div Pow2(wk)
FMulIm(ar, ai, br, bi, wk) == MulIm(ar, ai, br, bi) \div Pow2(wk)
\* w_1[p1 k1] w_2[p2 k2] w_3[p3 k3] at scale 2^wk
Kernel3(n, tabs, p, k, wk) ==
  LET e(d) == ((p[d] * k[d]) % n[d]) + 1
      r12 == FMulRe(tabs[1].re[e(1)], tabs[1].im[e(1)], tabs[2].re[e(2)], tabs[2].im[e(2)], wk)
      i12 == FMulIm(tabs[1].re[e(1)], tabs[1].im[e(1)], tabs[2].re[e(2)], tabs[2].im[e(2)], wk)
  IN  << FMulRe(r12, i12, tabs[3].re[e(3)], tabs[3].im[e(3)], wk), FMulIm(r12, i12, tabs[3].re[e(3)], tabs[3].im[e(3)], wk) >>
SparseValuesOk(n, tabs, pos, are, aim, Xre, Xim, kX, wk) ==
  \E l1 \in {CSum([i \in 1..Len(pos) |-> CAbs(are[i]) + CAbs(aim[i])])} :
  \E tol \in {ShiftUp(6 * l1, kX - wk) + 3} :
    /\ kX <= wk
    /\ \A q \in 1..CSize(n) : \E k \in {CPos(n, q - 1)} :
         \E ker \in {[i \in 1..Len(pos) |-> Kernel3(n, tabs, pos[i], k, wk)]} :
           /\ CAbs(Xre[q] - (CSum([i \in 1..Len(pos) |-> MulRe(are[i], aim[i], ker[i][1], ker[i][2])]) \div Pow2(wk - kX))) <= tol
           /\ CAbs(Xim[q] - (CSum([i \in 1..Len(pos) |-> MulIm(are[i], aim[i], ker[i][1], ker[i][2])]) \div Pow2(wk - kX))) <= tol
=============================================================================
