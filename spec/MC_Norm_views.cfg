SPECIFICATION Spec
CONSTANTS MaxOps = 2 Depth = 1 NViews = 2 TangBelow = 0
INVARIANTS InvFactor InvTrivialMC InvReportsTrivial InvTof InvSetUp InvChain
CHECK_DEADLOCK FALSE
