SPECIFICATION Spec
CONSTANTS Ns = {4, 8, 12, 16, 24, 32} MaxR = 4 MaxT = 3 Nppr = {1, 2, 4}
INVARIANTS Inv1 Inv2 Inv3 Inv4 Inv5
CHECK_DEADLOCK FALSE
