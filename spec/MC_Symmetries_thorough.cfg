SPECIFICATION Spec
CONSTANTS Ns = {12, 24} Rs = {1, 2, 3} Spans = {1, 3} MaxT = 2 Nppr = {1, 4}
INVARIANTS Inv1 Inv2 Inv3 Inv4 Inv5 Inv6 Inv7
CHECK_DEADLOCK FALSE
