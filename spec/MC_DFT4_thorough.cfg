SPECIFICATION Spec
CONSTANTS MaxLin = 64 MaxPair = 32
INVARIANTS InvInverse InvImpulse InvAxes InvFFT InvReal InvParseval InvConv
CHECK_DEADLOCK FALSE
