SPECIFICATION Spec
CONSTANTS MaxDepth = 4 Sel = "core" WNeg = 1 WHi = 1 K = 2 Full2 = FALSE PreFixAssign = FALSE
INVARIANTS Inv_MemorySafe Inv_Refines Inv_AbsOK
CHECK_DEADLOCK FALSE
