SPECIFICATION Spec
CONSTANTS
  Ns = {4, 6}
  Rs = {2, 3}
  Spans = {1, 3}
  Mashes = {1, 2}
  Tofs = {51, 72, 93}
  TofN = 4
  TofR = 2
INVARIANTS InvGeom InvG2 InvRefuse InvCommute InvSubset InvConserve InvNest InvTofK InvMapDef InvInverse InvExtend InvDownsample
CHECK_DEADLOCK FALSE
