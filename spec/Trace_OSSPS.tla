----------------------------- MODULE Trace_OSSPS -----------------------------
(* Trace validation for C08: every line recorded from the real OSSPSReconstruction (driver     *)
(* harness/c08_ossps.cxx) must be explained by OSSPS.tla.                                       *)
(*   System   the explicit matrix P (rows and columns)                                         *)
(*   Config   one reconstruction configuration (subsets, relaxation, upper bound, prior with   *)
(*            weights / kappa, filters)                                                        *)
(*   Data     exact instances only: y (quarter units) and the additive term                    *)
(*   Run      one set_up + reconstruct of sub-iterations start..last from a given image:       *)
(*              single   one sub-iteration from an exact image (TLC evaluates the law itself)  *)
(*              fresh    new object from the start image (ref: this run is the reference of    *)
(*                       its configuration)                                                    *)
(*              resume   from the image SAVED after sub-iteration `from' of the reference run  *)
(*              again    the used object, set up and run again from the start image            *)
(*              history  a complete run under ANOTHER configuration (what a later `reuse' has  *)
(*                       behind it); checked against the law like any run                      *)
(*              reuse    the object of a `history' run, reconfigured, from the start image     *)
(*   SetUp    result of set_up; the data part of the denominator as saved by OSSPS, the        *)
(*            prior's surrogate curvature as the real prior reports it                         *)
(*   Step     one sub-iteration: image before, image handed to the objective function, the     *)
(*            sub-gradient it returned, image after update_estimate, image after               *)
(*            end_of_iteration_processing; fixed point + float bit patterns                    *)
(*   Saved    the file OSSPS wrote after sub-iteration k, read back                            *)
(*   RunEnd   result of reconstruct                                                            *)
(* Lines are checked one by one against the state built from the lines before; unexplained     *)
(* lines are collected (variable bad).                                                         *)
EXTENDS OSSPS, TraceLib
VARIABLES l, sys, c, p, data, ref, run, den, prev, xm, taint, lastX, scale, bad
vars == << l, sys, c, p, data, ref, run, den, prev, xm, taint, lastX, scale, bad >>

NoSys == [id |-> 0]
NoCfg == [id |-> 0]
NoRun == [kind |-> "none"]
NoRef == [cfg |-> 0]
NoData == [cfg |-> 0]
SysOf(r) == [id |-> r.id, tof |-> r.tof, nv |-> r.nv, numViews |-> r.numViews, minView |-> r.minView, minAx0 |-> r.minAx0,
             maxAx0 |-> r.maxAx0, maxSegData |-> r.maxSegData, bins |-> r.bins, rows |-> r.rows, cols |-> r.cols]

(* ---- Config *)
ConfigOk(r) ==
  /\ sys # NoSys /\ r.sys = sys.id /\ r.id >= 1
  /\ r.N >= 1 /\ r.N <= sys.numViews /\ r.startSubset \in 0..(r.N - 1)
  /\ (~r.uss => sys.numViews % r.N = 0)               \* without subset sensitivities the subsets must be balanced
  /\ r.aN >= 0 /\ r.aK >= 0 /\ r.gN >= 0 /\ r.gK >= 0 /\ (r.uInf \/ (r.uN >= 0 /\ r.uK >= 0 /\ r.uN < 4096))
  /\ Len(r.dims) = 3 /\ r.dims[1] * r.dims[2] * r.dims[3] = sys.nv
  /\ (r.dep => r.prior) /\ (r.kappa => r.prior)
  /\ r.prior => (r.beta >= 1 /\ (r.defaultWeights \/ WeightsOk(r.w)) /\ (r.kappa => (Len(r.kap) = sys.nv /\ \A v \in 1..sys.nv : r.kap[v] >= 1)))
  \* filters: only ones that cannot leave [min, max] of their input (medians), see BoundPreservingFilter in notes/C08.md
  /\ r.filter \in {"none", "median001", "median011", "median111"} /\ r.filterInt >= 0
  /\ Has(r, "uShift") /\ r.uShift \in -64..64 /\ (r.uShift # 0 => (r.exact /\ ~r.prior /\ ~r.writeUpdate))
  /\ r.priorType \in {"quadratic", "logcosh", "rdp"} /\ r.denFile \in {"none", "own", "wrong"}
  /\ (r.priorType # "quadratic" => (r.prior /\ r.defaultWeights /\ ~r.dep /\ ~r.exact))
  /\ (r.filterInt > 0 \/ r.post) => r.filter # "none"
(* BEYOND THE PROPERTY (documented behaviour of set_up): configurations set_up must refuse - "relaxation parameter should be   *)
(* positive", "Prior must be of a type derived from PriorWithParabolicSurrogate", "precomputed_denominator should have same     *)
(* characteristics as target image"                                                                                           *)
MustRefuse(cc) == cc.aN = 0 \/ (cc.prior /\ cc.priorType = "rdp") \/ cc.denFile = "wrong"
PriorOf(r) == IF r.prior /\ ~r.defaultWeights /\ r.priorType = "quadratic" THEN MakePrior(r.dims, r.w, IF r.kappa THEN r.kap ELSE << >>, r.beta) ELSE << >>

(* ---- Run *)
RunOf(r) == [kind |-> r.kind, obj |-> r.obj, from |-> r.from, start |-> r.start, last |-> r.last, isRef |-> r.ref, twice |-> r.twice,
             kl |-> r.kl, init |-> r.init, initBits |-> r.initBits, next |-> r.start, setup |-> FALSE]
Compared(kind) == kind \in {"resume", "again", "reuse", "denfile"}
RunOk(r) ==
  /\ c # NoCfg /\ r.cfg = c.id
  /\ r.start = r.from + 1 /\ r.last >= r.start /\ r.kl \in 4..20
  /\ Len(r.init) = sys.nv /\ Len(r.initBits) = sys.nv /\ \A v \in 1..sys.nv : r.initBits[v] >= 0     \* a non-negative start image
  /\ (r.kind = "refuse" <=> MustRefuse(c))
  /\ (c.randomise => (r.kind = "fresh" /\ ~r.ref))          \* a randomised order cannot be repeated: no compared runs
  /\ CASE r.kind = "single" -> c.exact /\ r.exi /\ data # NoData /\ data.cfg = c.id /\ ~r.ref
       [] r.kind = "fresh" -> ~c.exact /\ r.from = 0
       [] r.kind = "history" -> ~c.exact /\ r.from = 0 /\ ~r.ref
       [] r.kind = "resume" -> /\ ~c.exact /\ ~r.ref /\ ref.cfg = c.id /\ r.last = ref.last
                               \* "resuming from a saved iterate": the image handed over is the one saved after sub-iteration `from'
                               /\ r.from \in DOMAIN ref.steps /\ r.initBits = ref.steps[r.from]
       \* the efficiency-scaled copy of the previous exact instance (EFFICIENCY SCALE CLAUSE, OSSPS.tla): only compared with it
       [] r.kind = "scaled" -> c.exact /\ ~r.ref /\ scale # << >> /\ scale.mode = "eff" /\ data # NoData /\ data.cfg = c.id
       [] r.kind = "refuse" -> ~c.exact /\ r.from = 0 /\ ~r.ref
       \* BEYOND THE PROPERTY: reconstruct without set_up on a used object ("This modifies *precomputed_denominator_ptr. So, you
       \* have to call set_up() before running a new reconstruction"): an error is required, not a reconstruction
       [] r.kind = "nosetup" -> ~c.exact /\ r.from = 0 /\ ~r.ref
       \* BEYOND THE PROPERTY: the denominator read from the file a run saved ("precomputed denominator" keyword) instead of computed
       [] r.kind \in {"again", "reuse", "denfile"} -> (r.kind = "denfile" <=> c.denFile = "own") /\ ~c.exact /\ ~r.ref /\ ref.cfg = c.id /\ r.last = ref.last /\ r.from = 0 /\ r.initBits = ref.initBits
       [] OTHER -> FALSE

(* ---- exact instances *)
ImageInts(img, kl) == [v \in 1..Len(img) |-> img[v] \div 2^kl]
XOf(img, kl) == [lam |-> ImageInts(img, kl), yq |-> data.yq, a |-> data.a, N |-> c.N, zero |-> FALSE, maxSeg |-> sys.maxSegData]
ColEmpty(v) == Len(sys.cols[v]) = 0      \* no bin sees the voxel (all bins take part: no end planes zeroed, all segments)

(* ---- SetUp *)
DenOf(r) == [kd |-> r.kd, dData |-> r.dData, curv |-> IF c.prior THEN r.curv ELSE [v \in 1..sys.nv |-> 0]]
DRec(d, v) == d.dData[v] + 2 * d.curv[v]          \* D = -(H~ 1) + 2 curvature, from the recorded parts

(* BEYOND THE PROPERTY ("enforce initial positivity condition": "determines whether non-positive values in the initial image   *)
(* will be set to small positive ones"): positive values stay, the others become positive and smaller than every positive one. *)
(* When a reconstruction is RESUMED the image is a saved iterate and must not be altered at all (the property's resume clause)  *)
(* - reading "doc"; reading "always" = altered also then (finding C08-resume-positivity, used for classification only).        *)
MinPositive(bits) == LET P == { bits[v] : v \in { w \in 1..Len(bits) : bits[w] > 0 } } IN IF P = {} THEN 0 ELSE CHOOSE x \in P : \A y \in P : x <= y
TargetOk(r, reading) ==
  IF c.enforcePos /\ (run.start = 1 \/ reading = "always")
  THEN \A v \in 1..sys.nv : IF run.initBits[v] > 0 THEN r.tgtBits[v] = run.initBits[v]
                              ELSE r.tgtBits[v] > 0 /\ (MinPositive(run.initBits) = 0 \/ r.tgtBits[v] < MinPositive(run.initBits))
  ELSE r.tgtBits = run.initBits                    \* set_up leaves the image alone

SetUpNumbers(r) ==
  /\ LET d == DenOf(r) IN
     \* "D the strictly positive precomputed curvature": positive wherever a bin sees the voxel or a prior is present
     /\ \A v \in 1..sys.nv : /\ r.dData[v] >= 0 /\ d.curv[v] >= 0
                             /\ (DRec(d, v) > 0 \/ (ColEmpty(v) /\ ~c.prior))
                             /\ (~ColEmpty(v) => r.dData[v] > 0)
     \* the quadratic prior's surrogate curvature: beta SUM w kappa kappa (where the weights are known to the specification)
     /\ (p # << >>) => (r.exc /\ \A v \in 1..sys.nv : r.curv[v] = 2^r.kd * PriorCurv(p, v))
  /\ c.exact =>
       LET X == XOf(run.init, run.kl)
           m == XMemo(sys, X) IN
       /\ r.kd = HK /\ r.exd /\ (c.prior => p # << >>)
       /\ XInstanceOk(sys, X, m)
       \* "minus the approximate log-likelihood Hessian applied to a uniform image"
       /\ \A v \in 1..sys.nv : r.dData[v] = XDenData(sys, X, m, v)

SetUpAccepted(r, reading) ==
  /\ ~r.err /\ r.ok /\ r.usedN = c.N
  \* the approximate Hessian is requested once per subset per set_up - not at all when the denominator is read from file
  /\ r.nApprox = (IF c.denFile = "own" THEN 0 ELSE c.N * (IF run.twice THEN 2 ELSE 1))
  /\ r.dRead /\ Len(r.dData) = sys.nv /\ (c.prior => (~r.cErr /\ Len(r.curv) = sys.nv))
  /\ Len(r.tgtBits) = sys.nv /\ TargetOk(r, reading)
  /\ SetUpNumbers(r)

SetUpOk(r, reading) ==
  /\ run # NoRun /\ ~run.setup
  \* BEYOND THE PROPERTY: the documented refusals of set_up (MustRefuse) - Succeeded::no, no reconstruction
  /\ IF run.kind = "refuse" THEN ~r.ok
     ELSE IF run.kind = "scaled" THEN ~r.err /\ r.ok /\ r.usedN = c.N /\ r.nApprox = c.N /\ Has(r, "tgtBits") /\ r.tgtBits = run.initBits
     ELSE SetUpAccepted(r, reading)

(* ---- Step *)
First(r) == r.k = run.start
FilterApplies(r) == (c.filterInt > 0 /\ r.k % c.filterInt = 0) \/ (c.post /\ r.k = run.last)
(* the image handed to the objective function: "set all voxels to 0 that cannot be estimated" before the first update of a *)
(* FRESH reconstruction only (FillApplies, OSSPS.tla); a resumed run continues from the saved iterate as it is.            *)
(* reading = "doc" or "refill_on_resume" (the behaviour of finding C08-resume-nonidentifiable, used for classification)    *)
EstOk(r, reading) ==
  /\ Has(r, "est") /\ Len(r.est) = sys.nv
  /\ LET zs(v) == ColEmpty(v) IN
     /\ r.est = (IF FillApplies(r.k, run.start, reading) THEN FillNonIdentifiable(r.lam0, zs) ELSE r.lam0)
     \* ... bit for bit: voxels a bin sees (sensitivity > 0, however small) keep the value they start the sub-iteration with
     /\ Has(r, "be") /\ r.be = (IF FillApplies(r.k, run.start, reading) THEN FillNonIdentifiable(r.b0, zs) ELSE r.b0)

FloatSlack(x) == IF Abs(x) < 16777216 THEN 0 ELSE Abs(x) \div 8388608
StepCommon(r, reading, waiveRef) ==
  /\ c # NoCfg /\ run # NoRun /\ run.setup /\ r.k = run.next /\ r.k <= run.last
  /\ r.kl = run.kl /\ Len(r.lam0) = sys.nv /\ Len(r.lam1) = sys.nv /\ Len(r.lam2) = sys.nv
  /\ Len(r.b0) = sys.nv /\ Len(r.b1) = sys.nv /\ Len(r.b2) = sys.nv
  \* one sub-gradient request per sub-iteration, for the subset of the schedule, with the configured number of subsets
  \* (BEYOND THE PROPERTY: with "uniformly randomise subset order" the law is demanded for whichever subset was handed over;
  \*  the schedule itself is C06's subject)
  /\ r.nGrad = 1 /\ (IF c.randomise THEN r.sub \in 0..(c.N - 1) ELSE r.sub = SubsetOf(c, r.k)) /\ r.nsub = c.N /\ Has(r, "g") /\ Len(r.g) = sys.nv
  /\ r.nFill \in 0..1
  \* the sub-iteration starts from the image the previous one (or set_up) left
  /\ r.b0 = prev
  /\ EstOk(r, reading)
  \* "Iterates therefore always lie within [0, upper bound]" - after the update, and after bound-preserving filters
  /\ WithinBounds(c, r.b1) /\ WithinBounds(c, r.b2)
  \* without a filter end_of_iteration_processing leaves the iterate alone
  /\ FilterApplies(r) \/ r.b2 = r.b1
  \* "resuming from a saved iterate reproduces the uninterrupted run" (bit for bit); likewise the object used before
  /\ (Compared(run.kind) /\ ~waiveRef) => (r.k \in DOMAIN ref.steps /\ r.b2 = ref.steps[r.k])
  \* BEYOND THE PROPERTY ("write update image"): the file written for this sub-iteration holds the additive update - adding it
  \* to the image handed to the objective function and clamping gives the new image
  /\ c.writeUpdate => /\ Has(r, "upd") /\ r.updRead /\ Len(r.upd) = sys.nv
                      /\ \A v \in 1..sys.nv : LET x == r.est[v] + r.upd[v] IN
                            Abs(r.lam1[v] - ClampU(c, x, r.kl)) <= (IF c.exact THEN FloatSlack(x) ELSE 2 + Abs(x) \div 4194304)

(* the law on an exact instance: TLC computes gradient, denominator and the new value from P, y, a, lambda, weights, kappa. *)
(* A float holds 24 significant bits: a value x (units 2^-kl) with |x| < 2^24 is held exactly, a larger one to one ulp.      *)
StepExactOk(r, m) ==
  LET X == XOf(r.est, r.kl)
      n == RelaxationIndex(r.k, c.N)
      s == r.sub IN
  /\ r.exe /\ r.ex0 /\ r.ex1 /\ r.exg /\ r.kg = GK /\ r.kl >= GK
  /\ \A v \in 1..sys.nv : r.est[v] % 2^r.kl = 0
  /\ XInstanceOk(sys, X, m)
  /\ \A v \in 1..sys.nv :
       LET ng == XNGrad(sys, X, m, p, s, v)
           D == XDen(sys, X, m, p, v) IN
       /\ c.N * r.g[v] = ng                                 \* the sub-gradient of the penalised objective (subset share of the prior: 1/N)
       /\ IF ThresholdRegime(D) THEN ng = 0 /\ r.lam1[v] = ClampU(c, r.est[v], r.kl)
          ELSE /\ StepExact(c, n, ng, D, r.kl, GK, HK)
               /\ c.writeUpdate => (r.exu /\ r.upd[v] = Increment(c, n, ng, D, r.kl, GK, HK)[1])     \* the update file = zeta N g / D
               /\ LET x == r.est[v] + Increment(c, n, ng, D, r.kl, GK, HK)[1] IN
                  Abs(r.lam1[v] - ClampU(c, x, r.kl)) <= FloatSlack(x)

(* the law on recorded operands: previous image, sub-gradient and denominator as recorded (fixed point, tolerance StepTol). *)
(* Large gradients (a voxel at 0 under bins without additive term) are compared in units coarser by 2^CoarseBits so that    *)
(* every intermediate stays below 2^31; the relative precision of the comparison is the same.                               *)
CoarseBits == 8
FreeVoxelOk(n, est, g, lam1, D, kl, kg, kd, extra) ==
  LET q == Increment(c, n, c.N * g, D, kl, kg, kd)[1] IN
  Abs(lam1 - ClampU(c, est + q, kl)) <= StepTol(c, n, c.N, q, D, kl, kg, kd) * (1 + extra) + 2 * extra
UpdFreeOk(n, g, upd, D, kl, kg, kd) ==         \* the update file against the law (same tolerance)
  LET q == Increment(c, n, c.N * g, D, kl, kg, kd)[1] IN Abs(upd - q) <= StepTol(c, n, c.N, q, D, kl, kg, kd)
(* BEYOND THE PROPERTY (priors other than the quadratic one that have a parabolic surrogate - log-cosh): "twice the prior's      *)
(* surrogate curvature" is the curvature AT THE CURRENT IMAGE (curvSrc = "now", recorded from the prior for the image of the    *)
(* sub-iteration); curvSrc = "stored" = the curvature of the image the run started from (quadratic prior: the same thing;       *)
(* log-cosh: the behaviour of finding C08-logcosh-curvature, used for classification only)                                      *)
StepFreeOk(r, curvSrc) ==
  LET n == RelaxationIndex(r.k, c.N) IN
  /\ r.kg \in CoarseBits..12 /\ r.kl >= r.kg /\ r.kl - CoarseBits >= 2
  /\ (curvSrc = "now" => (Has(r, "curvNow") /\ Len(r.curvNow) = sys.nv))
  /\ \A v \in 1..sys.nv :
       LET D == IF curvSrc = "now" THEN den.dData[v] + 2 * r.curvNow[v] ELSE DRec(den, v) IN
       IF ThresholdRegime(D) THEN r.g[v] = 0 /\ r.lam1[v] = ClampU(c, r.est[v], r.kl)
       ELSE IF Abs(r.g[v]) < 65536 THEN /\ FreeVoxelOk(n, r.est[v], r.g[v], r.lam1[v], D, r.kl, r.kg, den.kd, 0)
                                        /\ c.writeUpdate => UpdFreeOk(n, r.g[v], r.upd[v], D, r.kl, r.kg, den.kd)
       ELSE FreeVoxelOk(n, r.est[v] \div 2^CoarseBits, r.g[v] \div 2^CoarseBits, r.lam1[v] \div 2^CoarseBits, D,
                        r.kl - CoarseBits, r.kg - CoarseBits, den.kd, 1)

(* one sub-iteration of the efficiency-scaled copy of an exact instance: structure as for every sub-iteration, numbers only  *)
(* against the instance it is a copy of (its fixed-point records are out of range for |j| large and are not used)            *)
StepScaled(r) ==
  /\ c # NoCfg /\ run # NoRun /\ run.setup /\ r.k = run.next /\ r.k <= run.last
  /\ Len(r.b0) = sys.nv /\ Len(r.b1) = sys.nv /\ Len(r.b2) = sys.nv /\ Has(r, "be") /\ Len(r.be) = sys.nv
  /\ r.nGrad = 1 /\ r.sub = SubsetOf(c, r.k) /\ r.nsub = c.N /\ r.b0 = prev /\ r.b2 = r.b1
  /\ LET zs(v) == ColEmpty(v) IN r.be = (IF FillApplies(r.k, run.start, "doc") THEN FillNonIdentifiable(r.b0, zs) ELSE r.b0)
  /\ WithinBounds(c, r.b1)
  /\ scale # << >> /\ scale.mode = "eff" /\ data # NoData /\ ScaledConfigEff(scale.cfg, c, scale.by)
  /\ data.yq = scale.data.yq /\ data.a = scale.data.a /\ Has(data, "aShift") /\ data.aShift = scale.by /\ data.effShift = -scale.by
  /\ r.k = scale.last.k /\ r.b0 = ScaledBits(scale.last.b0, scale.by) /\ r.be = ScaledBits(scale.last.be, scale.by)
  /\ r.b1 = ScaledBits(scale.last.b1, scale.by)
(* the scale clause on recorded bit patterns (see OSSPS.tla): same sub-iteration, scaled configuration, data and image *)
ScaleOk(r) ==
  /\ scale.mode = "data" /\ c.exact /\ data # NoData /\ ScaledConfig(scale.cfg, c, scale.by)
  /\ ScaledSeq(scale.data.yq, data.yq, scale.by) /\ ScaledSeq(scale.data.a, data.a, scale.by)
  /\ r.k = scale.last.k /\ r.b0 = ScaledBits(scale.last.b0, scale.by)
  /\ r.b1 = ScaledBits(scale.last.b1, scale.by)
CurvDoc == IF c # NoCfg /\ c.priorType = "logcosh" THEN "now" ELSE "stored"
Law(r, m, curvSrc) == IF c.exact THEN StepExactOk(r, m) ELSE StepFreeOk(r, curvSrc)
Explains(r, m) ==
  CASE r.e = "System" -> SystemOk(SysOf(r))
    [] r.e = "Config" -> ConfigOk(r)
    [] r.e = "Data" -> /\ c # NoCfg /\ c.exact /\ r.cfg = c.id /\ Len(r.yq) = NB(sys) /\ Len(r.a) = NB(sys)
                       /\ (~c.additive => \A b \in 1..NB(sys) : r.a[b] = 0)          \* no additive term
    [] r.e = "Run" -> RunOk(r)
    [] r.e = "SetUp" -> SetUpOk(r, "doc")
    [] r.e = "Step" /\ run # NoRun /\ run.kind = "scaled" -> StepScaled(r)
    [] r.e = "Step" -> StepCommon(r, "doc", FALSE) /\ Law(r, m, CurvDoc) /\ (scale # << >> => ScaleOk(r))
    [] r.e = "RunEnd" /\ run # NoRun /\ run.kind = "nosetup" -> r.err /\ r.steps = 0
    [] r.e = "RunEnd" -> /\ run # NoRun /\ run.setup /\ ~r.err /\ r.ok
                         /\ r.steps = run.last - run.start + 1 /\ run.next = run.last + 1 /\ r.finalBits = prev
    [] r.e = "Saved" -> /\ ref.cfg = r.cfg /\ ref.obj = r.obj /\ ~r.err
                        \* the saved file holds the iterate, bit for bit
                        /\ r.k \in DOMAIN ref.steps /\ r.bits = ref.steps[r.k]
    \* scale clause: announces that the next exact instance is the previous one times 2^by
    [] r.e = "ScaleOf" -> /\ c # NoCfg /\ c.exact /\ r.cfg = c.id /\ lastX # << >> /\ lastX.cfg = c.id /\ data # NoData
                          /\ IF r.mode = "data" THEN r.by \in 1..3 ELSE r.mode = "eff" /\ r.by \in EffScaleDomain /\ r.by # 0
    [] r.e = "End" -> r.lines >= l - 1
    [] OTHER -> FALSE          \* Abort, ConfigureError, unknown lines

(* Finding C08-resume-nonidentifiable: update_estimate sets the voxels of zero sensitivity to 0 at the first sub-iteration  *)
(* of EVERY run.  Signature: a run that starts at a sub-iteration > 1, a prior, a voxel no bin sees; the first Step of the   *)
(* run handed the objective function the image with those voxels zeroed although the saved iterate had a non-zero value     *)
(* there (RefillHit), and everything else about the line is as the law demands for THAT image; the later Steps of the same  *)
(* run (taint) obey the law but no longer repeat the reference run.  Nothing else is excused.                               *)
HasHole == \E v \in 1..sys.nv : ColEmpty(v)
RefillHit(r) == r.k = run.start /\ \E v \in 1..sys.nv : ColEmpty(v) /\ r.lam0[v] # 0
KnownRefill(r, m) ==
  /\ r.e = "Step" /\ c # NoCfg /\ run # NoRun /\ run.start > 1 /\ c.prior /\ HasHole
  /\ Has(r, "lam0") /\ Len(r.lam0) = sys.nv /\ Has(r, "k")
  /\ (RefillHit(r) \/ (taint = "refill" /\ r.k > run.start))
  /\ StepCommon(r, "refill_on_resume", TRUE) /\ Law(r, m, CurvDoc)
(* Finding C08-resume-positivity: with "enforce initial positivity condition" set_up raises the zeros of the image also when    *)
(* the reconstruction is resumed from a saved iterate.  Signature: the SetUp line of a run that starts at a sub-iteration > 1    *)
(* with the option on, explained completely under the reading "always"; the Steps of that run obey the law but no longer repeat *)
(* the reference run.                                                                                                           *)
KnownPosResume(r) ==
  /\ r.e = "SetUp" /\ c # NoCfg /\ run # NoRun /\ run.kind = "resume" /\ run.start > 1 /\ c.enforcePos
  /\ Has(r, "tgtBits") /\ ~SetUpOk(r, "doc") /\ SetUpOk(r, "always")
KnownPosTaint(r, m) ==
  /\ r.e = "Step" /\ c # NoCfg /\ run # NoRun /\ taint = "pos" /\ c.enforcePos /\ run.start > 1
  /\ StepCommon(r, "doc", TRUE) /\ Law(r, m, CurvDoc)
(* Finding C08-logcosh-curvature: LogcoshPrior answers "no" to parabolic_surrogate_curvature_depends_on_argument() although its  *)
(* curvature is computed from the differences of the image, so OSSPS keeps the curvature of the image a run started from.       *)
(* Signature: log-cosh prior, a sub-iteration after the first of the run, explained completely with the stored curvature.       *)
KnownLogcosh(r, m) ==
  /\ r.e = "Step" /\ c # NoCfg /\ run # NoRun /\ c.priorType = "logcosh" /\ Has(r, "k") /\ r.k > run.start
  /\ StepCommon(r, "doc", FALSE) /\ Law(r, m, "stored")
(* Finding C08-reconstruct-without-setup: reconstruct on a used object without set_up runs (with a stored penalty term added   *)
(* to the denominator a second time) instead of reporting an error.  Signature: the Step and RunEnd lines of a "nosetup" run. *)
KnownNoSetUp(r) == r.e \in {"Step", "RunEnd"} /\ run # NoRun /\ run.kind = "nosetup"
Classify(r, m) == IF KnownNoSetUp(r) THEN "C08-reconstruct-without-setup"
                  ELSE IF KnownRefill(r, m) THEN "C08-resume-nonidentifiable"
                  ELSE IF KnownPosResume(r) \/ KnownPosTaint(r, m) THEN "C08-resume-positivity"
                  ELSE IF KnownLogcosh(r, m) THEN "C08-logcosh-curvature"
                  ELSE "new"

Init == /\ taint = "none" /\ lastX = << >> /\ scale = << >> /\ l = 1 /\ sys = NoSys /\ c = NoCfg /\ p = << >> /\ data = NoData /\ ref = NoRef /\ run = NoRun
        /\ den = << >> /\ prev = << >> /\ xm = << >> /\ bad = << >>

ShapedStep(r) == r.e = "Step" /\ run # NoRun /\ run.kind # "scaled" /\ c # NoCfg /\ c.exact /\ data # NoData /\ Has(r, "est") /\ Len(r.est) = sys.nv /\ Has(r, "kl")

Next ==
  /\ l <= Len(TraceLog)
  /\ LET r == TraceLog[l] IN
     /\ sys' = IF r.e = "System" THEN SysOf(r) ELSE sys
     /\ c' = IF r.e = "Config" THEN (IF ConfigOk(r) THEN r ELSE NoCfg) ELSE IF r.e = "System" THEN NoCfg ELSE c
     /\ p' = IF r.e = "Config" THEN (IF ConfigOk(r) THEN PriorOf(r) ELSE << >>) ELSE IF r.e = "System" THEN << >> ELSE p
     /\ data' = IF r.e = "Data" THEN r ELSE IF r.e \in {"System", "Config"} THEN NoData ELSE data
     /\ run' = IF r.e = "Run" THEN (IF RunOk(r) THEN RunOf(r) ELSE NoRun)
               ELSE IF r.e = "SetUp" /\ run # NoRun THEN [run EXCEPT !.setup = (run.kind # "refuse" /\ (SetUpOk(r, "doc") \/ KnownPosResume(r)))]
               ELSE IF r.e = "Step" /\ run # NoRun THEN [run EXCEPT !.next = @ + 1]
               ELSE IF r.e \in {"RunEnd", "System"} THEN NoRun
               ELSE run
     /\ den' = IF r.e = "SetUp" /\ run # NoRun /\ c # NoCfg /\ Has(r, "dData") /\ Has(r, "kd") /\ (c.prior => Has(r, "curv")) THEN DenOf(r)
               \* log-cosh: what the implementation keeps is the curvature of the image of the FIRST sub-iteration of the run
               ELSE IF r.e = "Step" /\ run # NoRun /\ c # NoCfg /\ c.priorType = "logcosh" /\ Has(r, "curvNow") /\ Has(r, "k") /\ r.k = run.start /\ den # << >>
                 THEN [den EXCEPT !.curv = r.curvNow]
               ELSE den
     /\ prev' = IF r.e = "SetUp" /\ Has(r, "tgtBits") THEN r.tgtBits ELSE IF r.e = "Step" THEN r.b2 ELSE prev
     /\ ref' = IF r.e = "Run" /\ RunOk(r) /\ r.ref
                 THEN [cfg |-> r.cfg, obj |-> r.obj, initBits |-> r.initBits, last |-> r.last, steps |-> << >>]
               ELSE IF r.e = "Step" /\ run # NoRun /\ run.isRef /\ ref # NoRef THEN [ref EXCEPT !.steps = (r.k :> r.b2) @@ @]
               ELSE IF r.e = "System" THEN NoRef
               ELSE ref
     \* memo of the exact instance at the image handed to the objective function (computed once per line)
     /\ xm' = IF ShapedStep(r) THEN XMemo(sys, XOf(r.est, r.kl)) ELSE xm
     /\ taint' = IF r.e \in {"Run", "RunEnd", "System"} THEN "none"
                 ELSE IF r.e = "Step" /\ ~Explains(r, xm') /\ KnownRefill(r, xm') THEN "refill"
                 ELSE IF r.e = "SetUp" /\ KnownPosResume(r) THEN "pos"
                 ELSE taint
     /\ lastX' = IF r.e = "Step" /\ c # NoCfg /\ c.exact /\ Has(r, "b1") /\ Has(r, "b0") /\ Has(r, "be") /\ Has(r, "k") THEN [cfg |-> c.id, k |-> r.k, b0 |-> r.b0, be |-> r.be, b1 |-> r.b1]
                 ELSE IF r.e = "System" THEN << >> ELSE lastX
     /\ scale' = IF r.e = "ScaleOf" /\ Explains(r, xm') THEN [by |-> r.by, mode |-> r.mode, cfg |-> c, data |-> data, last |-> lastX]
                 ELSE IF r.e \in {"RunEnd", "System", "End"} THEN << >> ELSE scale
     /\ bad' = IF Explains(r, xm') THEN bad ELSE IF Len(bad) < 300 THEN Append(bad, << l, Classify(r, xm') >>) ELSE bad
  /\ l' = l + 1
TSpec == Init /\ [][Next]_vars

Done == l > Len(TraceLog) => (bad = << >> \/ PrintT(<< "UNEXPLAINED", bad >>))
Consumed == IF TLCGet("stats").diameter - 1 = Len(TraceLog) THEN TRUE
            ELSE PrintT(<< "REJECTED_AT", TLCGet("stats").diameter >>) /\ FALSE
=============================================================================
