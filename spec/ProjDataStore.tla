---------------------------- MODULE ProjDataStore ----------------------------
(* C02 - projection data are ONE coherent array indexed by                    *)
(*   (segment, axial position, view, tangential position, TOF bin),           *)
(* whatever access path, storage order, segment order in the stream, on-disk  *)
(* number type, byte order or backing store is used.                          *)
(*                                                                            *)
(* The abstract state is  store : Bin -> Val.  Every access path addresses a  *)
(* REGION (a predicate on bins) together with the index each bin has in the   *)
(* container the path uses (Sinogram = [view][tang], Viewgram = [ax][tang],   *)
(* SegmentByView = [view][ax][tang], SegmentBySinogram = [ax][view][tang],    *)
(* fill_from/copy_to = TOF, standard segment sequence, by sinogram).          *)
(* A stream (file or memory buffer) is the image of the store under Pos, the  *)
(* position of a bin in the layout.  Pos has a DECLARATIVE definition (Rank   *)
(* in the lexicographic order the layout induces) and a closed form; the      *)
(* model check proves them equal (and a bijection), trace validation uses the *)
(* closed form.                                                               *)
(* Geometries and layouts are records passed as arguments so that one module  *)
(* serves the model check and the validation of many recorded configurations. *)
EXTENDS Integers, Sequences, FiniteSets, TLC, Functions

\* ------------------------------------------------------------------ geometry
\* g = [minSeg, maxSeg, ax (<<minAx,maxAx>> per segment, in segment order), minView, maxView,
\*      minTang, maxTang, minTof, maxTof]       (segments may have UNEQUAL numbers of axial positions)
Segs(g) == g.minSeg .. g.maxSeg
MinAx(g, s) == g.ax[s - g.minSeg + 1][1]
MaxAx(g, s) == g.ax[s - g.minSeg + 1][2]
NA(g, s) == MaxAx(g, s) - MinAx(g, s) + 1
NV(g) == g.maxView - g.minView + 1
NT(g) == g.maxTang - g.minTang + 1
NK(g) == g.maxTof - g.minTof + 1
LegalGeometry(g) ==
  /\ g.minSeg <= g.maxSeg /\ Len(g.ax) = g.maxSeg - g.minSeg + 1
  /\ \A s \in Segs(g) : NA(g, s) >= 1
  /\ NV(g) >= 1 /\ NT(g) >= 1 /\ NK(g) >= 1

\* a bin is <<segment, axial position, view, tangential position, TOF bin>>
Seg(b) == b[1]
Ax(b) == b[2]
View(b) == b[3]
Tang(b) == b[4]
Tof(b) == b[5]
SegOk(g, s) == s \in Segs(g)
AxOk(g, s, a) == SegOk(g, s) /\ a >= MinAx(g, s) /\ a <= MaxAx(g, s)
ViewOk(g, v) == v >= g.minView /\ v <= g.maxView
TangOk(g, t) == t >= g.minTang /\ t <= g.maxTang
TofOk(g, k) == k >= g.minTof /\ k <= g.maxTof
InRange(g, b) == AxOk(g, Seg(b), Ax(b)) /\ ViewOk(g, View(b)) /\ TangOk(g, Tang(b)) /\ TofOk(g, Tof(b))
Bins(g) == UNION { { <<s, a, v, t, k>> : a \in MinAx(g, s)..MaxAx(g, s), v \in g.minView..g.maxView,
                                         t \in g.minTang..g.maxTang, k \in g.minTof..g.maxTof } : s \in Segs(g) }

RECURSIVE SumNA(_, _, _)
\* number of axial positions (= sinograms per TOF bin) in the first n segments of the sequence q
SumNA(g, q, n) == IF n = 0 THEN 0 ELSE NA(g, q[n]) + SumNA(g, q, n - 1)
IndexIn(q, s) == CHOOSE i \in 1..Len(q) : q[i] = s
IsPermutationOfSegs(g, q) == /\ Len(q) = g.maxSeg - g.minSeg + 1
                             /\ \A s \in Segs(g) : \E i \in 1..Len(q) : q[i] = s
\* sinograms per TOF bin, bins per TOF bin, all bins
NumSinos(g) == SumNA(g, [i \in 1..(g.maxSeg - g.minSeg + 1) |-> g.minSeg + i - 1], g.maxSeg - g.minSeg + 1)
N3D(g) == NumSinos(g) * NV(g) * NT(g)
NumBins(g) == NK(g) * N3D(g)

\* ------------------------------------------------------------------ layouts
\* L = [byView, seq]: storage order Segment_View_AxialPos_TangPos (byView) or Segment_AxialPos_View_TangPos;
\* for TOF data the stream is the sequence of the TOF bins' 3D data sets in increasing TOF index
\* (Timing_Segment_...; "changing the sequence of the timing bins is not supported"); seq[i] is the segment
\* number of the i-th segment in the stream.
LegalLayout(g, L) == IsPermutationOfSegs(g, L.seq)

\* DECLARATIVE: the position of a bin is its rank in the lexicographic order of these keys
Key(g, L, b) == IF L.byView THEN << Tof(b), IndexIn(L.seq, Seg(b)), View(b), Ax(b), Tang(b) >>
                ELSE << Tof(b), IndexIn(L.seq, Seg(b)), Ax(b), View(b), Tang(b) >>
LexLess(x, y) == \E i \in 1..5 : x[i] < y[i] /\ \A j \in 1..(i - 1) : x[j] = y[j]
Rank(g, L, b) == Cardinality({ c \in Bins(g) : LexLess(Key(g, L, c), Key(g, L, b)) })

\* closed form (element units, 0-based, without the stream offset)
Pos(g, L, b) ==
  LET s == Seg(b) IN
  (Tof(b) - g.minTof) * N3D(g)
  + SumNA(g, L.seq, IndexIn(L.seq, s) - 1) * NV(g) * NT(g)
  + (IF L.byView THEN (View(b) - g.minView) * NA(g, s) * NT(g) + (Ax(b) - MinAx(g, s)) * NT(g)
     ELSE (Ax(b) - MinAx(g, s)) * NV(g) * NT(g) + (View(b) - g.minView) * NT(g))
  + (Tang(b) - g.minTang)

\* the "standard segment sequence" 0, +1, -1, +2, -2, ... continued with the valid segment numbers only
StdKey(s) == IF s > 0 THEN 2 * s - 1 ELSE -2 * s
StdSeq(g) == [i \in 1..(g.maxSeg - g.minSeg + 1) |->
                CHOOSE s \in Segs(g) : Cardinality({ u \in Segs(g) : StdKey(u) < StdKey(s) }) = i - 1]
\* order of fill_from / copy_to and of the ProjDataInMemory buffer: "by SegmentBySinogram, with the TOF index
\* running slowest (from - to +) and segment order given by standard_segment_sequence()"
StdLayout(g) == [byView |-> FALSE, seq |-> StdSeq(g)]

\* ------------------------------------------------------------------ access paths: region + container index (1-based)
InSino(b, s, a, k) == Seg(b) = s /\ Ax(b) = a /\ Tof(b) = k
InView(b, s, v, k) == Seg(b) = s /\ View(b) = v /\ Tof(b) = k
InSegment(b, s, k) == Seg(b) = s /\ Tof(b) = k
IdxSino(g, b) == (View(b) - g.minView) * NT(g) + (Tang(b) - g.minTang) + 1
IdxView(g, b) == (Ax(b) - MinAx(g, Seg(b))) * NT(g) + (Tang(b) - g.minTang) + 1
IdxSegV(g, b) == (View(b) - g.minView) * NA(g, Seg(b)) * NT(g) + (Ax(b) - MinAx(g, Seg(b))) * NT(g) + (Tang(b) - g.minTang) + 1
IdxSegS(g, b) == (Ax(b) - MinAx(g, Seg(b))) * NV(g) * NT(g) + (View(b) - g.minView) * NT(g) + (Tang(b) - g.minTang) + 1
\* related viewgrams: a list of <<view, segment, TOF bin>>; the values are the viewgrams one after the other
PairsOk(g, pairs) == /\ \A i \in 1..Len(pairs) : SegOk(g, pairs[i][2]) /\ ViewOk(g, pairs[i][1]) /\ TofOk(g, pairs[i][3])
                     /\ \A i, j \in 1..Len(pairs) : i # j => pairs[i] # pairs[j]
InRelated(b, pairs) == \E i \in 1..Len(pairs) : pairs[i] = << View(b), Seg(b), Tof(b) >>
RECURSIVE RelStart(_, _, _)
RelStart(g, pairs, i) == IF i = 1 THEN 0 ELSE RelStart(g, pairs, i - 1) + NA(g, pairs[i - 1][2]) * NT(g)
IdxRelated(g, pairs, b) == RelStart(g, pairs, CHOOSE i \in 1..Len(pairs) : pairs[i] = << View(b), Seg(b), Tof(b) >>) + IdxView(g, b)
RelSize(g, pairs) == IF Len(pairs) = 0 THEN 0 ELSE RelStart(g, pairs, Len(pairs)) + NA(g, pairs[Len(pairs)][2]) * NT(g)

\* "a value written through any access path ... is read back unchanged through every other path and no other bin changes"
\* write: the bins of the region take the values the container holds for them, every other bin keeps its value
Write(store, InReg(_), Idx(_), vals) == [b \in DOMAIN store |-> IF InReg(b) THEN vals[Idx(b)] ELSE store[b]]
\* read: the container returned holds, for every bin of the region, the value of the store (and nothing else)
ReadOk(store, InReg(_), Idx(_), vals, size) ==
  /\ Len(vals) = size
  /\ \A b \in DOMAIN store : InReg(b) => vals[Idx(b)] = store[b]

\* ------------------------------------------------------------------ stream image
\* "written values are visible to an independent reader of the file as soon as each write call returns":
\* file is what the independent reader decoded (elements after the stream offset).  Elements that do not exist
\* (yet) in the file belong to bins that were never written (value 0 = never written; written values are >= 1);
\* holes left by seeking beyond the end read as 0.
Coherent(store, posT, file) ==
  \A b \in DOMAIN store : IF posT[b] < Len(file) THEN file[posT[b] + 1] = store[b] ELSE store[b] = 0
\* the store an observed stream stands for
Decode(bins, posT, file) == [b \in bins |-> IF posT[b] < Len(file) THEN file[posT[b] + 1] ELSE 0]

\* ------------------------------------------------------------------ theorems checked by MC_ProjDataStore
\* T1  "Projection data behave as a single array": the layout position is a bijection Bins -> 0..n-1 and equals the
\*     declarative rank, for both storage orders, every segment permutation, TOF and non-TOF
T1(g, L) == /\ \A b \in Bins(g) : Pos(g, L, b) = Rank(g, L, b)
            /\ { Pos(g, L, b) : b \in Bins(g) } = 0..(NumBins(g) - 1)
            /\ Cardinality(Bins(g)) = NumBins(g)
\* T2  container indices are bijections region -> 1..size (so a container's values determine the region and vice versa)
T2(g) ==
  /\ \A s \in Segs(g), k \in g.minTof..g.maxTof :
       /\ { IdxSegV(g, b) : b \in { c \in Bins(g) : InSegment(c, s, k) } } = 1..(NV(g) * NA(g, s) * NT(g))
       /\ { IdxSegS(g, b) : b \in { c \in Bins(g) : InSegment(c, s, k) } } = 1..(NV(g) * NA(g, s) * NT(g))
       /\ \A a \in MinAx(g, s)..MaxAx(g, s) : { IdxSino(g, b) : b \in { c \in Bins(g) : InSino(c, s, a, k) } } = 1..(NV(g) * NT(g))
       /\ \A v \in g.minView..g.maxView : { IdxView(g, b) : b \in { c \in Bins(g) : InView(c, s, v, k) } } = 1..(NA(g, s) * NT(g))
\* T3  the standard sequence is a permutation of the segments starting 0, +1, -1, ...
T3(g) == /\ IsPermutationOfSegs(g, StdSeq(g))
         /\ \A i, j \in 1..Len(StdSeq(g)) : i < j => StdKey(StdSeq(g)[i]) < StdKey(StdSeq(g)[j])

\* ------------------------------------------------------------------ implementation-shaped stream procedures
\* What a stream-backed store does for each set_* call: it seeks to the position of the FIRST bin of a run and
\* writes a contiguous run of container elements (one run where the container is contiguous in the layout, one
\* run per row otherwise; a segment in the other organisation is converted = transposed first; bulk fills go
\* segment by segment).  MC_ProjDataStore checks that these procedures keep the stream coherent with the
\* abstract store for every layout - i.e. that the contiguity the procedures rely on is a fact of the layout.
Max2(a, b) == IF a > b THEN a ELSE b
\* write vals at 0-based element position start; seeking beyond the end leaves a hole that reads as 0
PutRun(f, start, vals) ==
  [i \in 1..Max2(Len(f), start + Len(vals)) |->
     IF i > start /\ i <= start + Len(vals) THEN vals[i - start] ELSE IF i <= Len(f) THEN f[i] ELSE 0]
RECURSIVE PutRuns(_, _)
PutRuns(f, runs) == IF runs = <<>> THEN f ELSE PutRuns(PutRun(f, runs[1][1], runs[1][2]), Tail(runs))
Slice(vals, from, n) == [i \in 1..n |-> vals[from + i - 1]]

StreamSetBin(g, L, f, b, v) == PutRun(f, Pos(g, L, b), << v >>)
\* viewgram container [ax][tang]
StreamSetView(g, L, f, s, v, k, vals) ==
  IF L.byView THEN PutRun(f, Pos(g, L, << s, MinAx(g, s), v, g.minTang, k >>), vals)
  ELSE PutRuns(f, [i \in 1..NA(g, s) |-> << Pos(g, L, << s, MinAx(g, s) + i - 1, v, g.minTang, k >>), Slice(vals, (i - 1) * NT(g) + 1, NT(g)) >>])
\* sinogram container [view][tang]
StreamSetSino(g, L, f, s, a, k, vals) ==
  IF ~L.byView THEN PutRun(f, Pos(g, L, << s, a, g.minView, g.minTang, k >>), vals)
  ELSE PutRuns(f, [i \in 1..NV(g) |-> << Pos(g, L, << s, a, g.minView + i - 1, g.minTang, k >>), Slice(vals, (i - 1) * NT(g) + 1, NT(g)) >>])
\* "SegmentByView <-> SegmentBySinogram conversion is a transpose" of the two outer indices
TransposeVS(g, s, valsV) ==   \* [view][ax][tang] -> [ax][view][tang]
  [j \in 1..(NA(g, s) * NV(g) * NT(g)) |->
     LET a == (j - 1) \div (NV(g) * NT(g))
         v == ((j - 1) \div NT(g)) % NV(g)
         t == (j - 1) % NT(g) IN valsV[v * NA(g, s) * NT(g) + a * NT(g) + t + 1]]
TransposeSV(g, s, valsS) ==   \* [ax][view][tang] -> [view][ax][tang]
  [j \in 1..(NA(g, s) * NV(g) * NT(g)) |->
     LET v == (j - 1) \div (NA(g, s) * NT(g))
         a == ((j - 1) \div NT(g)) % NA(g, s)
         t == (j - 1) % NT(g) IN valsS[a * NV(g) * NT(g) + v * NT(g) + t + 1]]
SegStart(g, L, s, k) == Pos(g, L, << s, MinAx(g, s), g.minView, g.minTang, k >>)
StreamSetSegV(g, L, f, s, k, valsV) ==
  PutRun(f, SegStart(g, L, s, k), IF L.byView THEN valsV ELSE TransposeVS(g, s, valsV))
StreamSetSegS(g, L, f, s, k, valsS) ==
  PutRun(f, SegStart(g, L, s, k), IF L.byView THEN TransposeSV(g, s, valsS) ELSE valsS)
\* fill(value): every TOF bin, every segment, a constant segment
RECURSIVE StreamFillSegs(_, _, _, _, _)
StreamFillSegs(g, L, f, todo, v) ==
  IF todo = <<>> THEN f
  ELSE StreamFillSegs(g, L, StreamSetSegV(g, L, f, todo[1][1], todo[1][2], [i \in 1..(NV(g) * NA(g, todo[1][1]) * NT(g)) |-> v]), Tail(todo), v)
\* all <<segment, TOF bin>> in the order of the standard layout
StdSegTofs(g) == [i \in 1..(NK(g) * Len(StdSeq(g))) |-> << StdSeq(g)[((i - 1) % Len(StdSeq(g))) + 1], g.minTof + (i - 1) \div Len(StdSeq(g)) >>]
StreamFill(g, L, f, v) == StreamFillSegs(g, L, f, StdSegTofs(g), v)
\* fill_from(iterator) / fill(ProjData): standard order, by sinogram, segment by segment
RECURSIVE StreamFillFromSegs(_, _, _, _, _)
StreamFillFromSegs(g, L, f, todo, vals) ==
  IF todo = <<>> THEN f
  ELSE LET s == todo[1][1]
           k == todo[1][2]
           start == Pos(g, StdLayout(g), << s, MinAx(g, s), g.minView, g.minTang, k >>) IN
       StreamFillFromSegs(g, L, StreamSetSegS(g, L, f, s, k, Slice(vals, start + 1, NA(g, s) * NV(g) * NT(g))), Tail(todo), vals)
StreamFillFrom(g, L, f, vals) == StreamFillFromSegs(g, L, f, StdSegTofs(g), vals)

\* ================================================================== round 2: more actions on the SAME state
\* ------------------------------------------------------------------ arithmetic and bulk operations on `store'
\* These serve the first sentence of the property ("projection data behave as a single array ...: a value written
\* through any access path ... is read back unchanged through every other path and no other bin changes, whatever the
\* storage order, segment order in the stream, on-disk number type, byte order or backing store"): the element-wise
\* operations are bulk write paths whose result must be the element-wise result on the ARRAY, bin by bin, independent
\* of the layout of either operand; the reductions are bulk read paths.  (The arithmetic identities themselves, e.g.
\* what xapyb means, are taken from the member documentation: "set values of the array to x*a+y*b".)
Xapyb(x, a, y, b) == [c \in DOMAIN x |-> x[c] * a + y[c] * b]                 \* xapyb(x,a,y,b), a and b scalars
XapybV(x, av, y, bv) == [c \in DOMAIN x |-> x[c] * av[c] + y[c] * bv[c]]      \* a and b projection data
AddPD(st, y) == [c \in DOMAIN st |-> st[c] + y[c]]
SubPD(st, y) == [c \in DOMAIN st |-> st[c] - y[c]]
MulPD(st, y) == [c \in DOMAIN st |-> st[c] * y[c]]
DivisibleBy(st, y) == \A c \in DOMAIN st : y[c] # 0 /\ st[c] % y[c] = 0
DivPD(st, y) == [c \in DOMAIN st |-> st[c] \div y[c]]                          \* only used where DivisibleBy holds (exact quotients)
Const(st, v) == [c \in DOMAIN st |-> v]
\* reductions ("return sum of all elements", "maximum value of all elements", "L2-norm squared (sum of squares)")
SumOf(st) == FoldFunction(LAMBDA v, acc : v + acc, 0, st)
AbsV(v) == IF v < 0 THEN -v ELSE v
SumAbsOf(st) == FoldFunction(LAMBDA v, acc : AbsV(v) + acc, 0, st)
MaxOf(st) == LET c0 == CHOOSE c \in DOMAIN st : TRUE IN FoldFunction(LAMBDA v, acc : IF v > acc THEN v ELSE acc, st[c0], st)
MinOf(st) == LET c0 == CHOOSE c \in DOMAIN st : TRUE IN FoldFunction(LAMBDA v, acc : IF v < acc THEN v ELSE acc, st[c0], st)
MaxAbsOf(st) == FoldFunction(LAMBDA v, acc : IF AbsV(v) > acc THEN AbsV(v) ELSE acc, 0, st)
SumSqOf(st) == FoldFunction(LAMBDA v, acc : v * v + acc, 0, st)
\* sum() accumulates in single precision: relative error bound n * 2^-24 <= 2^-15 for n <= 512 elements; the tolerance
\* is taken with a factor 2 margin on the sum of absolute values (+1 for the rounding of the recorded number)
SumTol(st) == 1 + SumAbsOf(st) \div 16384
\* sums of squares are compared exactly, but only where they fit TLC's 32-bit integers
SmallEnoughForSquares(st, n) == MaxAbsOf(st) <= 2000 /\ n <= 500

\* fill(ProjData) from a source with another segment range: "The current check requires at least the same segment
\* numbers (but the source can have more), all other geometric parameters have to be the same."  gs = source geometry,
\* vals = source data in ITS standard order.
SourceCovers(g, gs) == /\ gs.minSeg <= g.minSeg /\ g.maxSeg <= gs.maxSeg
                       /\ \A s \in Segs(g) : MinAx(gs, s) = MinAx(g, s) /\ MaxAx(gs, s) = MaxAx(g, s)
FilledFromSource(g, gs, vals) == LET ls == StdLayout(gs) IN [c \in Bins(g) |-> vals[Pos(gs, ls, c) + 1]]

\* get_subset(views): "construct projection data that stores a subset of the views": view i of the result is view
\* views[i+1] of the array; everything else unchanged; the result is an in-memory store (standard order)
SubsetGeo(g, views) == [g EXCEPT !.minView = 0, !.maxView = Len(views) - 1]
SubsetOk(g, st, views, vals) ==
  LET gs == SubsetGeo(g, views)
      ls == StdLayout(gs) IN
  /\ Len(views) >= 1 /\ \A i \in 1..Len(views) : ViewOk(g, views[i])
  /\ Len(vals) = NumBins(gs)
  /\ \A c \in Bins(gs) : vals[Pos(gs, ls, c) + 1] = st[<< Seg(c), Ax(c), views[View(c) + 1], Tang(c), Tof(c) >>]

\* ------------------------------------------------------------------ BEYOND THE PROPERTY: one more index
\* MultipleProjData / DynamicProjData: a sequence of stores (frames / gates); index k (1-based) maps to store k;
\* fill_from / copy_to / size_all run over the stores in index order, each in its standard order.  C02's statement
\* does not mention this index; a mismatch here is reported under C02 only where it makes a single store incoherent.
RECURSIVE Concat(_)
Concat(ss) == IF ss = << >> THEN << >> ELSE Head(ss) \o Concat(Tail(ss))
Chunk(vals, k, n) == [i \in 1..n |-> vals[(k - 1) * n + i]]
SplitFrames(vals, K, n) == [k \in 1..K |-> Chunk(vals, k, n)]
ScaleFrames(fr, f) == [k \in 1..Len(fr) |-> [i \in 1..Len(fr[k]) |-> fr[k][i] * f]]
DivFrames(fr, durs) == [k \in 1..Len(fr) |-> [i \in 1..Len(fr[k]) |-> fr[k][i] \div durs[k]]]

\* ------------------------------------------------------------------ implementation-shaped: read-modify-write and fill from a source
\* the element-wise operators of a stream-backed store go segment by segment: read the segment (by sinogram) from the
\* stream, combine it, write it back (ProjData's generic operators, xapyb, sapyb)
SegSBin(g, s, k, j) == << s, MinAx(g, s) + ((j - 1) \div (NV(g) * NT(g))), g.minView + (((j - 1) \div NT(g)) % NV(g)), g.minTang + ((j - 1) % NT(g)), k >>
SegVBin(g, s, k, j) == << s, MinAx(g, s) + (((j - 1) \div NT(g)) % NA(g, s)), g.minView + ((j - 1) \div (NA(g, s) * NT(g))), g.minTang + ((j - 1) % NT(g)), k >>
SegSize(g, s) == NA(g, s) * NV(g) * NT(g)
StreamGetSegS(g, L, f, s, k) == [j \in 1..SegSize(g, s) |-> f[Pos(g, L, SegSBin(g, s, k, j)) + 1]]
RECURSIVE StreamSapybSegs(_, _, _, _, _, _, _)
StreamSapybSegs(g, L, f, todo, a, y, b) ==
  IF todo = << >> THEN f
  ELSE LET s == todo[1][1]
           k == todo[1][2]
           old == StreamGetSegS(g, L, f, s, k) IN
       StreamSapybSegs(g, L, StreamSetSegS(g, L, f, s, k, [j \in 1..SegSize(g, s) |-> old[j] * a + y[SegSBin(g, s, k, j)] * b]), Tail(todo), a, y, b)
StreamSapyb(g, L, f, a, y, b) == StreamSapybSegs(g, L, f, StdSegTofs(g), a, y, b)
\* fill(const ProjData&): for every segment of the DESTINATION, the source's segment (by view) is set
RECURSIVE StreamFillSourceSegs(_, _, _, _, _)
StreamFillSourceSegs(g, L, f, todo, src) ==
  IF todo = << >> THEN f
  ELSE LET s == todo[1][1]
           k == todo[1][2] IN
       StreamFillSourceSegs(g, L, StreamSetSegV(g, L, f, s, k, [j \in 1..SegSize(g, s) |-> src[SegVBin(g, s, k, j)]]), Tail(todo), src)
StreamFillSource(g, L, f, src) == StreamFillSourceSegs(g, L, f, StdSegTofs(g), src)
=============================================================================
