---------------------------- MODULE IterSchedule ----------------------------
(* C06, second half: the sub-iteration -> subset schedule of IterativeReconstruction.         *)
(*                                                                                            *)
(* "Within each full iteration every subset is used exactly once, also when the subset order *)
(*  is randomised or a non-zero start subset is chosen."                                      *)
(*                                                                                            *)
(* A schedule configuration is a record                                                       *)
(*   g = [N, startSubset, startSubiter, numSubiters, randomise]                               *)
(* Sub-iterations are numbered from 1; a reconstruction runs sub-iterations                   *)
(* startSubiter .. numSubiters (a start inside a full iteration is how a reconstruction is    *)
(* continued from a saved estimate).  Full iteration j (j >= 0) consists of the sub-iterations *)
(* j*N+1 .. (j+1)*N.                                                                          *)
(* Implementation shape (IterativeReconstruction::get_subset_num, documented in the header):  *)
(*   not randomised: subset = (subiteration_num + start_subset_num - 1) % num_subsets          *)
(*   randomised: "a new random order is initialised before every full iteration.  In this      *)
(*   case, start_subset_num is ignored"; the order is the private array _current_subset_array  *)
(*   (variable perm), indexed by (subiteration_num - 1) % num_subsets.  When the run starts    *)
(*   inside a full iteration there is no order yet, so one has to be drawn then as well.       *)
EXTENDS Integers, FiniteSets, Sequences, TLC

Perms(N) == { p \in [1 .. N -> 0 .. N - 1] : \A i, j \in 1 .. N : i # j => p[i] # p[j] }
LegalSched(g) == /\ g.N >= 1 /\ g.startSubset \in 0 .. g.N - 1 /\ g.startSubiter >= 1 /\ g.numSubiters >= 1
IterOf(g, k) == (k - 1) \div g.N            \* full iteration that sub-iteration k belongs to
PosOf(g, k) == (k - 1) % g.N                 \* its position inside that full iteration
NumSteps(g) == IF g.numSubiters >= g.startSubiter THEN g.numSubiters - g.startSubiter + 1 ELSE 0

VARIABLES g, subiter, perm, block, hist, crashed
vars == << g, subiter, perm, block, hist, crashed >>

InitFor(G) == /\ g \in G /\ subiter = g.startSubiter /\ perm = << >> /\ block = << >> /\ hist = << >> /\ crashed = FALSE

Step(p, s) == /\ perm' = p
              /\ block' = IF PosOf(g, subiter) = 0 THEN << s >> ELSE Append(block, s)
              /\ hist' = Append(hist, s)
              /\ subiter' = subiter + 1
              /\ UNCHANGED << g, crashed >>

(* one sub-iteration: update_estimate asks get_subset_num() once *)
NextSubiter ==
  /\ ~crashed /\ subiter <= g.numSubiters
  /\ IF g.randomise
     THEN LET redraw == PosOf(g, subiter) = 0 \/ Len(perm) # g.N IN
          \E p \in (IF redraw THEN Perms(g.N) ELSE {perm}) : Step(p, p[PosOf(g, subiter) + 1])
     ELSE Step(perm, (subiter + g.startSubset - 1) % g.N)

(* the code before fix 1938172c2: the order is only drawn at the first sub-iteration of a full   *)
(* iteration; otherwise the (possibly empty) array is indexed regardless                          *)
NextSubiterUnfixed ==
  /\ ~crashed /\ subiter <= g.numSubiters
  /\ IF g.randomise
     THEN IF PosOf(g, subiter) = 0
          THEN \E p \in Perms(g.N) : Step(p, p[1])
          ELSE IF Len(perm) = g.N THEN Step(perm, perm[PosOf(g, subiter) + 1])
               ELSE crashed' = TRUE /\ UNCHANGED << g, subiter, perm, block, hist >>
     ELSE Step(perm, (subiter + g.startSubset - 1) % g.N)

(* ---------------------------------------------------------------------------------------- *)
(* The property.  `block' holds the subsets used so far in the current full iteration.          *)
NoDupSeq(q) == \A i, j \in 1 .. Len(q) : i # j => q[i] # q[j]
\* "within each full iteration every subset is used exactly once": never twice ...
InvNoRepeat == NoDupSeq(block) /\ \A i \in 1 .. Len(block) : block[i] \in 0 .. g.N - 1
\* ... and all of them when the full iteration was run completely
InvOncePerIteration == Len(block) = g.N => { block[i] : i \in 1 .. g.N } = 0 .. g.N - 1
InvNoCrash == ~crashed

(* The same property stated on a whole recorded run q (the subsets handed to the objective       *)
(* function for sub-iterations startSubiter, startSubiter+1, ...): used by trace validation.     *)
SubiterAt(gg, i) == gg.startSubiter + i - 1
LegalRun(gg, q) ==
  /\ Len(q) = NumSteps(gg)
  /\ \A i \in 1 .. Len(q) : q[i] \in 0 .. gg.N - 1
  /\ IF gg.randomise
     THEN \* any order, but no subset twice within one full iteration (hence each exactly once in a complete one)
          \A i, j \in 1 .. Len(q) : (i # j /\ IterOf(gg, SubiterAt(gg, i)) = IterOf(gg, SubiterAt(gg, j))) => q[i] # q[j]
     ELSE \A i \in 1 .. Len(q) : q[i] = (SubiterAt(gg, i) + gg.startSubset - 1) % gg.N
\* every complete full iteration inside the run uses every subset exactly once
OncePerFullIteration(gg, q) ==
  \A it \in IterOf(gg, gg.startSubiter) .. IterOf(gg, gg.numSubiters) :
     LET idx == { i \in 1 .. Len(q) : IterOf(gg, SubiterAt(gg, i)) = it } IN
     Cardinality(idx) = gg.N => (\A s \in 0 .. gg.N - 1 : Cardinality({ i \in idx : q[i] = s }) = 1)
\* the state machine only produces legal runs (checked by MC_IterSchedule on the history variable)
InvHistLegal == (subiter > g.numSubiters /\ ~crashed) => (LegalRun(g, hist) /\ OncePerFullIteration(g, hist))
InvHistPrefix == ~crashed => Len(hist) = subiter - g.startSubiter

(* ======================================================================================== *)
(* Beyond the property sentence, same kind of schedule: WHICH SUB-ITERATIONS TRIGGER WHAT.    *)
(* (IterativeReconstruction::reconstruct / end_of_iteration_processing, OSMAPOSL / OSSPS /    *)
(* KOSMAPOSL update_estimate; parsing keys "number of subiterations", "start at subiteration  *)
(* number", "save estimates at subiteration intervals", "inter-update filter subiteration     *)
(* interval", "inter-iteration filter subiteration interval", "post-filter type",             *)
(* "report objective function values interval", "write update image", "disable output".)     *)
(*                                                                                            *)
(* An event configuration h extends the schedule record g by                                  *)
(*   algo ("OSMAPOSL", "OSSPS", "KOSMAPOSL"), save, iuInt, hasIU, iiInt, hasII, hasPF,        *)
(*   report, writeUpdate, disableOutput.                                                      *)
(* Sub-iterations startSubiter..numSubiters are run, BOTH ENDS INCLUDED, whether or not       *)
(* numSubiters is a multiple of the number of subsets.  Within sub-iteration k, in this order: *)
(*   G   the (sub)gradient of subset get_subset_num() is requested from the objective function *)
(*   IU  inter-update filter (OS(MAP)OSL kind only): interval > 0, a filter is set, k % interval = 0 *)
(*   WU  the update image is written ("<prefix>_update_<k>"): write update image and output enabled *)
(*   R   objective function values reported: interval > 0 and (k % interval = 0 or k is the last) *)
(*   II  inter-iteration filter: interval > 0, a filter is set, k % interval = 0               *)
(*   PF  post-filter: k is the last sub-iteration and a post-filter is set                     *)
(*   W   the estimate is written to "<prefix>_<k>": (k % save = 0 or k is the last) and output enabled *)
(* so the final iterate is always written (after the post-filter), intermediate ones after the *)
(* inter-iteration filter.                                                                     *)
IsOSEM(h) == h.algo \in {"OSMAPOSL", "KOSMAPOSL"}
Last(h, k) == k = h.numSubiters
DoIU(h, k) == IsOSEM(h) /\ h.iuInt > 0 /\ h.hasIU /\ k % h.iuInt = 0
DoWU(h, k) == h.writeUpdate /\ ~h.disableOutput
DoR(h, k) == h.report > 0 /\ (k % h.report = 0 \/ Last(h, k))
DoII(h, k) == h.iiInt > 0 /\ h.hasII /\ k % h.iiInt = 0
DoPF(h, k) == Last(h, k) /\ h.hasPF
DoW(h, k) == (k % h.save = 0 \/ Last(h, k)) /\ ~h.disableOutput
\* KOSMAPOSL additionally writes the kernelised (emission) estimate "<kernel prefix>_<k>", regardless of "disable output"
DoWK(h, k) == h.algo = "KOSMAPOSL" /\ (k % h.save = 0 \/ Last(h, k))

Opt(cond, kind, k) == IF cond THEN << << kind, k >> >> ELSE << >>
EventsAt(h, k) == << << "G", k >> >> \o Opt(DoIU(h, k), "IU", k) \o Opt(DoWU(h, k), "WU", k) \o Opt(DoR(h, k), "R", k)
                  \o Opt(DoII(h, k), "II", k) \o Opt(DoPF(h, k), "PF", k) \o Opt(DoW(h, k), "W", k)
RECURSIVE EventsFrom(_, _)
EventsFrom(h, k) == IF k > h.numSubiters THEN << >> ELSE EventsAt(h, k) \o EventsFrom(h, k + 1)
ExpectedEvents(h) == EventsFrom(h, h.startSubiter)

\* set_up refuses (error): "Range error in number of subiterations", "... starting subiteration number", "... iteration save
\* interval (has to be between 1 and num_subiterations)", "... inter-iteration filter interval", "... inter-update filter interval"
SetupMustFail(h) == \/ h.numSubiters < 1 \/ h.startSubiter < 1
                    \/ h.save < 1 \/ h.save > h.numSubiters
                    \/ h.iiInt < 0 \/ (IsOSEM(h) /\ h.iuInt < 0)
\* file names: make_filename_prefix_subiteration_num: prefix + "_" + subiteration number
FileOfW(prefix, k) == prefix \o "_" \o ToString(k)
FileOfWU(prefix, k) == prefix \o "_update_" \o ToString(k)
ExpectedFiles(h, prefix, kprefix) ==
  { FileOfW(prefix, k) : k \in { j \in h.startSubiter .. h.numSubiters : DoW(h, j) } }
  \cup { FileOfWU(prefix, k) : k \in { j \in h.startSubiter .. h.numSubiters : DoWU(h, j) } }
  \cup { FileOfW(kprefix, k) : k \in { j \in h.startSubiter .. h.numSubiters : DoWK(h, j) } }

(* theorems about the event schedule, evaluated by MC_IterEvents for every small h *)
EvKinds(e, kind) == { i \in 1 .. Len(e) : e[i][1] = kind }
EvTheorems(h) ==
  LET e == ExpectedEvents(h)
      K == h.startSubiter .. h.numSubiters IN
  \* every sub-iteration start..num (inclusive) exactly one gradient request, in increasing order
  /\ Cardinality(EvKinds(e, "G")) = NumSteps(h)
  /\ \A k \in K : Cardinality({ i \in EvKinds(e, "G") : e[i][2] = k }) = 1
  /\ \A i, j \in 1 .. Len(e) : i < j => e[i][2] <= e[j][2]
  \* the final iterate is always written when output is enabled and anything was run, as the very last event, after the post-filter
  /\ (K # {} /\ ~h.disableOutput) => (e[Len(e)] = << "W", h.numSubiters >>
                                       /\ (h.hasPF => e[Len(e) - 1] = << "PF", h.numSubiters >>))
  \* nothing is written when output is disabled
  /\ h.disableOutput => (EvKinds(e, "W") = {} /\ EvKinds(e, "WU") = {})
  \* the post-filter is applied at most once, and only to the last iterate
  /\ \A i \in EvKinds(e, "PF") : e[i][2] = h.numSubiters
  /\ Cardinality(EvKinds(e, "PF")) <= 1
  \* an estimate that is written has been through the inter-iteration filter of that sub-iteration first
  /\ \A i \in EvKinds(e, "II") : \A j \in EvKinds(e, "W") : e[i][2] = e[j][2] => i < j
  \* written sub-iterations are the multiples of the save interval and the last one
  /\ { e[i][2] : i \in EvKinds(e, "W") } = IF h.disableOutput THEN {} ELSE { k \in K : k % h.save = 0 \/ k = h.numSubiters }
=============================================================================
