---------------------------- MODULE IterSchedule ----------------------------
(* C06, second half: the sub-iteration -> subset schedule of IterativeReconstruction.         *)
(*                                                                                            *)
(* "Within each full iteration every subset is used exactly once, also when the subset order *)
(*  is randomised or a non-zero start subset is chosen."                                      *)
(*                                                                                            *)
(* A schedule configuration is a record                                                       *)
(*   g = [N, startSubset, startSubiter, numSubiters, randomise]                               *)
(* Sub-iterations are numbered from 1; a reconstruction runs sub-iterations                   *)
(* startSubiter .. numSubiters (a start inside a full iteration is how a reconstruction is    *)
(* continued from a saved estimate).  Full iteration j (j >= 0) consists of the sub-iterations *)
(* j*N+1 .. (j+1)*N.                                                                          *)
(* Implementation shape (IterativeReconstruction::get_subset_num, documented in the header):  *)
(*   not randomised: subset = (subiteration_num + start_subset_num - 1) % num_subsets          *)
(*   randomised: "a new random order is initialised before every full iteration.  In this      *)
(*   case, start_subset_num is ignored"; the order is the private array _current_subset_array  *)
(*   (variable perm), indexed by (subiteration_num - 1) % num_subsets.  When the run starts    *)
(*   inside a full iteration there is no order yet, so one has to be drawn then as well.       *)
EXTENDS Integers, FiniteSets, Sequences, TLC

Perms(N) == { p \in [1 .. N -> 0 .. N - 1] : \A i, j \in 1 .. N : i # j => p[i] # p[j] }
LegalSched(g) == /\ g.N >= 1 /\ g.startSubset \in 0 .. g.N - 1 /\ g.startSubiter >= 1 /\ g.numSubiters >= 1
IterOf(g, k) == (k - 1) \div g.N            \* full iteration that sub-iteration k belongs to
PosOf(g, k) == (k - 1) % g.N                 \* its position inside that full iteration
NumSteps(g) == IF g.numSubiters >= g.startSubiter THEN g.numSubiters - g.startSubiter + 1 ELSE 0

VARIABLES g, subiter, perm, block, hist, crashed
vars == << g, subiter, perm, block, hist, crashed >>

InitFor(G) == /\ g \in G /\ subiter = g.startSubiter /\ perm = << >> /\ block = << >> /\ hist = << >> /\ crashed = FALSE

Step(p, s) == /\ perm' = p
              /\ block' = IF PosOf(g, subiter) = 0 THEN << s >> ELSE Append(block, s)
              /\ hist' = Append(hist, s)
              /\ subiter' = subiter + 1
              /\ UNCHANGED << g, crashed >>

(* one sub-iteration: update_estimate asks get_subset_num() once *)
NextSubiter ==
  /\ ~crashed /\ subiter <= g.numSubiters
  /\ IF g.randomise
     THEN LET redraw == PosOf(g, subiter) = 0 \/ Len(perm) # g.N IN
          \E p \in (IF redraw THEN Perms(g.N) ELSE {perm}) : Step(p, p[PosOf(g, subiter) + 1])
     ELSE Step(perm, (subiter + g.startSubset - 1) % g.N)

(* the code before fix 1938172c2: the order is only drawn at the first sub-iteration of a full   *)
(* iteration; otherwise the (possibly empty) array is indexed regardless                          *)
NextSubiterUnfixed ==
  /\ ~crashed /\ subiter <= g.numSubiters
  /\ IF g.randomise
     THEN IF PosOf(g, subiter) = 0
          THEN \E p \in Perms(g.N) : Step(p, p[1])
          ELSE IF Len(perm) = g.N THEN Step(perm, perm[PosOf(g, subiter) + 1])
               ELSE crashed' = TRUE /\ UNCHANGED << g, subiter, perm, block, hist >>
     ELSE Step(perm, (subiter + g.startSubset - 1) % g.N)

(* ---------------------------------------------------------------------------------------- *)
(* The property.  `block' holds the subsets used so far in the current full iteration.          *)
NoDupSeq(q) == \A i, j \in 1 .. Len(q) : i # j => q[i] # q[j]
\* "within each full iteration every subset is used exactly once": never twice ...
InvNoRepeat == NoDupSeq(block) /\ \A i \in 1 .. Len(block) : block[i] \in 0 .. g.N - 1
\* ... and all of them when the full iteration was run completely
InvOncePerIteration == Len(block) = g.N => { block[i] : i \in 1 .. g.N } = 0 .. g.N - 1
InvNoCrash == ~crashed

(* The same property stated on a whole recorded run q (the subsets handed to the objective       *)
(* function for sub-iterations startSubiter, startSubiter+1, ...): used by trace validation.     *)
SubiterAt(gg, i) == gg.startSubiter + i - 1
LegalRun(gg, q) ==
  /\ Len(q) = NumSteps(gg)
  /\ \A i \in 1 .. Len(q) : q[i] \in 0 .. gg.N - 1
  /\ IF gg.randomise
     THEN \* any order, but no subset twice within one full iteration (hence each exactly once in a complete one)
          \A i, j \in 1 .. Len(q) : (i # j /\ IterOf(gg, SubiterAt(gg, i)) = IterOf(gg, SubiterAt(gg, j))) => q[i] # q[j]
     ELSE \A i \in 1 .. Len(q) : q[i] = (SubiterAt(gg, i) + gg.startSubset - 1) % gg.N
\* every complete full iteration inside the run uses every subset exactly once
OncePerFullIteration(gg, q) ==
  \A it \in IterOf(gg, gg.startSubiter) .. IterOf(gg, gg.numSubiters) :
     LET idx == { i \in 1 .. Len(q) : IterOf(gg, SubiterAt(gg, i)) = it } IN
     Cardinality(idx) = gg.N => (\A s \in 0 .. gg.N - 1 : Cardinality({ i \in idx : q[i] = s }) = 1)
\* the state machine only produces legal runs (checked by MC_IterSchedule on the history variable)
InvHistLegal == (subiter > g.numSubiters /\ ~crashed) => (LegalRun(g, hist) /\ OncePerFullIteration(g, hist))
InvHistPrefix == ~crashed => Len(hist) = subiter - g.startSubiter
=============================================================================
