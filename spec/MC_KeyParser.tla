---------------------------- MODULE MC_KeyParser ----------------------------
(* 1. Exhaustive model check of the line machine of KeyParser.tla as an      *)
(*    incremental state machine (one action per physical line / end of input,*)
(*    every action the code really performs is named) against the property   *)
(*    sentences of C17 and against the fold TestRun used in trace validation.*)
(* 2. (GenInit/GenNext) enumeration of ALL line sequences over the alphabet   *)
(*    that the replay driver feeds to the real stir::KeyParser.               *)
EXTENDS KeyParser, Json, IOUtils, SequencesExt
CONSTANTS MaxFull,   \* all sequences of at most MaxFull lines over the full alphabet
          MaxLen     \* plus sequences of up to MaxLen lines whose inner lines are core lines
VARIABLES hist,      \* ids of the physical lines consumed so far
          st,        \* machine state of KeyParser.tla
          ph,        \* "first" (no meaningful line yet) | "loop" (parsing) | "done"
          acc,       \* text of a continued line waiting for its continuation
          res,       \* verdict once ph = "done"
          last       \* what the last action did (for the action properties)
vars == <<hist, st, ph, acc, res, last>>

NoLast == [kind |-> "none"]
\* what a line says, independently of the machine state (memoised over all texts that can occur)
StaticInfo(t) ==
  LET p == ParseLine(t)
      k == Resolve(TestAlias, p.kw) IN
  IF k \notin DOMAIN TestKM THEN [proc |-> "unknown"]
  ELSE LET e == TestKM[k] IN
       IF e.proc # "set" THEN [proc |-> e.proc]
       ELSE [proc |-> "set", var |-> e.var, vec |-> e.vec, idx |-> p.idx, val |-> ReadValue(e, p.rest)]
InfoMemo == [t \in MemoTexts |-> StaticInfo(t)]
\* what a meaningful line will do in state s
Kind(s, t) ==
  LET f == InfoMemo[t] IN
  IF f.proc \in {"unknown", "nothing"} THEN "NoOp"
  ELSE IF f.proc = "start" THEN "StartKey" ELSE IF f.proc = "stop" THEN "StopKey"
  ELSE IF f.val.none THEN "IgnoreBadValue"
  ELSE IF f.idx.big \/ (f.idx.n = 0 /\ f.vec > 0) \/ (f.idx.n # 0 /\ f.vec = 0)
          \/ (f.vec > 0 /\ (f.idx.n < 1 \/ f.idx.n > Len(s.vars[f.var]))) THEN "IndexError"
  ELSE IF f.idx.n = 0 THEN "AssignScalar" ELSE "AssignIndexed"
\* the effect of a meaningful line, written directly from what the line says (the fold TestRun of
\* KeyParser.tla computes it through Process/SetVar; FoldAgrees compares the two formulations)
Effect(s, t) ==
  LET f == InfoMemo[t]
      kind == Kind(s, t) IN
  CASE kind = "StartKey" -> [s EXCEPT !.status = "parsing"]
    [] kind = "StopKey" -> [s EXCEPT !.status = "end"]
    [] kind = "AssignScalar" -> [s EXCEPT !.vars[f.var] = f.val.v]
    [] kind = "AssignIndexed" -> [s EXCEPT !.vars[f.var][f.idx.n] = f.val.v]
    [] kind = "IndexError" -> [s EXCEPT !.err = "IndexError"]
    [] OTHER -> s
LastOf(s, t, kind) ==
  LET f == InfoMemo[t] IN
  IF kind \in {"AssignScalar", "AssignIndexed"}
  THEN [kind |-> kind, var |-> f.var, idx |-> f.idx.n, val |-> f.val.v, before |-> s.vars]
  ELSE [kind |-> kind]

Init == hist = <<>> /\ st = TestInit /\ ph = "first" /\ acc = "" /\ res = "" /\ last = NoLast

LineOf(a) == acc \o StripCR(Alpha[a])
Meaningful(t) == HasNonBlank(t) \/ t = ""
Feedable(a) == ph \in {"first", "loop"} /\ Len(hist) < MaxFull /\ a \in AlphaIds
Consume(a) == hist' = Append(hist, a)

\* read_line: "When the line ends with continuation_char, the next line will just be appended"
ContinueLine(a) == /\ Feedable(a) /\ EndsBackslash(LineOf(a))
                   /\ Consume(a) /\ acc' = Chop(LineOf(a)) /\ UNCHANGED <<st, ph, res>> /\ last' = [kind |-> "ContinueLine"]
\* read_and_parse_line: a line of blanks only is skipped (also before the start key)
SkipBlankLine(a) == /\ Feedable(a) /\ ~EndsBackslash(LineOf(a)) /\ ~Meaningful(LineOf(a))
                    /\ Consume(a) /\ acc' = "" /\ UNCHANGED <<st, ph, res>> /\ last' = [kind |-> "SkipBlankLine"]
Line(a, phase, kind) == /\ Feedable(a) /\ ph = phase /\ ~EndsBackslash(LineOf(a)) /\ Meaningful(LineOf(a))
                        /\ Kind(st, LineOf(a)) = kind
                        /\ Consume(a) /\ acc' = "" /\ last' = LastOf(st, LineOf(a), kind)
\* the first meaningful line
StartKey(a) == Line(a, "first", "StartKey") /\ st' = Effect(st, LineOf(a)) /\ ph' = "loop" /\ res' = res
\* FirstLineBeforeStart: the first line is processed (variables are assigned, errors raised) although
\* parsing has not started; then "required first keyword not found": rejected
FirstLineBeforeStart(a) == /\ ph = "first" /\ Feedable(a) /\ ~EndsBackslash(LineOf(a)) /\ Meaningful(LineOf(a))
                           /\ Kind(st, LineOf(a)) # "StartKey"
                           /\ Consume(a) /\ acc' = "" /\ last' = LastOf(st, LineOf(a), Kind(st, LineOf(a)))
                           /\ st' = Effect(st, LineOf(a)) /\ ph' = "done"
                           /\ res' = IF st'.err # NoErr THEN "error" ELSE "rejected"
\* lines while parsing
StartKeyAgain(a) == Line(a, "loop", "StartKey") /\ UNCHANGED <<st, ph, res>>
StopKey(a) == Line(a, "loop", "StopKey") /\ st' = Effect(st, LineOf(a)) /\ ph' = "done" /\ res' = "accepted"
NoOpLine(a) == Line(a, "loop", "NoOp") /\ UNCHANGED <<st, ph, res>>          \* unknown key, comment, empty line, ignored key
IgnoreBadValue(a) == Line(a, "loop", "IgnoreBadValue") /\ UNCHANGED <<st, ph, res>>   \* no ':=', no value, value of the wrong type
AssignScalar(a) == Line(a, "loop", "AssignScalar") /\ st' = Effect(st, LineOf(a)) /\ UNCHANGED <<ph, res>>
AssignIndexed(a) == Line(a, "loop", "AssignIndexed") /\ st' = Effect(st, LineOf(a)) /\ UNCHANGED <<ph, res>>
IndexError(a) == Line(a, "loop", "IndexError") /\ st' = Effect(st, LineOf(a)) /\ ph' = "done" /\ res' = "error"
\* end of input.  A pending continued line is processed as it stands (ContinuationAtEof).
PendingKind == IF acc # "" /\ Meaningful(acc) THEN Kind(st, acc) ELSE "none"
EofBeforeStart == /\ ph = "first" /\ PendingKind # "StartKey"
                  /\ st' = IF PendingKind = "none" THEN st ELSE Effect(st, acc)
                  /\ ph' = "done" /\ res' = IF st'.err # NoErr THEN "error" ELSE "rejected"
                  /\ acc' = "" /\ last' = [kind |-> "EofBeforeStart"] /\ UNCHANGED hist
\* EofAccept: "early EOF" is only a warning, the stop key is not required
EofAccept == /\ ph = "loop" \/ (ph = "first" /\ PendingKind = "StartKey")
             /\ st' = IF PendingKind = "none" THEN [st EXCEPT !.status = "end"]
                      ELSE LET s2 == Effect(st, acc) IN IF s2.err # NoErr THEN s2 ELSE [s2 EXCEPT !.status = "end"]
             /\ ph' = "done" /\ res' = IF st'.err # NoErr THEN "error" ELSE "accepted"
             /\ acc' = "" /\ last' = [kind |-> "EofAccept"] /\ UNCHANGED hist

Next == \/ \E a \in AlphaIds : \/ ContinueLine(a) \/ SkipBlankLine(a) \/ StartKey(a) \/ FirstLineBeforeStart(a) \/ StartKeyAgain(a)
                               \/ StopKey(a) \/ NoOpLine(a) \/ IgnoreBadValue(a) \/ AssignScalar(a) \/ AssignIndexed(a) \/ IndexError(a)
        \/ EofBeforeStart \/ EofAccept
Spec == Init /\ [][Next]_vars

(* ------------------------------ invariants -------------------------------- *)
\* "Arbitrary, malformed or truncated parameter files ... either parse into an internally consistent
\* object or are rejected": the incremental machine and the fold used for trace validation agree on
\* verdict and variables for every input, whether or not the last line ends with a newline
FoldAgrees == ph = "done" => \A nl \in BOOLEAN : LET x == TestRun(TextsOf(hist), nl) IN x.verdict = res /\ x.st.vars = st.vars
\* "vectorised keys are stored at the index given" (and nothing else changes)
StoredAtIndex == last.kind = "AssignIndexed" =>
                   /\ st.vars[last.var][last.idx] = last.val
                   /\ Len(st.vars[last.var]) = Len(last.before[last.var])
                   /\ \A j \in 1..Len(st.vars[last.var]) : j # last.idx => st.vars[last.var][j] = last.before[last.var][j]
                   /\ \A v \in DOMAIN st.vars : v # last.var => st.vars[v] = last.before[v]
ScalarStored == last.kind = "AssignScalar" => /\ st.vars[last.var] = last.val
                                              /\ \A v \in DOMAIN st.vars : v # last.var => st.vars[v] = last.before[v]
\* "aliases resolve to their target"
AliasResolves == ph # "done" => /\ Process(st, "old int := 9") = Process(st, "scalar int := 9")
                                /\ Process(st, "old vec[2] := 6") = Process(st, "vec key[2] := 6")
                                /\ Process(st, "OLD_vec [2] := 6") = Process(st, "vec key[2] := 6")
\* "Keyword matching ignores case and white space as documented"
SpellingIgnored == ph # "done" => /\ Process(st, "SCALAR_int:=6") = Process(st, "scalar int := 6")
                                  /\ Process(st, "  !Vec__KEY [3]:=13") = Process(st, "vec key[3] := 13")
                                  /\ Process(st, "!END__test  := ") = Process(st, "End Test :=")
                                  /\ Process(st, "enum key := BETA_gamma") = Process(st, "enum key := beta gamma")
\* parsing never starts without the start key, and an error or the stop key ends it
StartRequired == ph = "loop" => \E k \in 1..Len(hist) : InfoMemo[StripCR(Alpha[hist[k]])].proc = "start"
ErrorIsFinal == st.err # NoErr => ph = "done" /\ res = "error"
Bounded == \A v \in {"vec", "vlist"} : Len(st.vars[v]) = Len(TestVars[v])     \* a parser never resizes a vectorised variable
ASSUME /\ Standardise("  start_TEST") = "start test" /\ Standardise("!END__test  ") = "end test"
       /\ Standardise("a \t_!b") = "a b" /\ Standardise(" _!\t") = ""
       /\ \A a \in AlphaIds : Standardise(Standardise(GetKeyword(Alpha[a]))) = Standardise(GetKeyword(Alpha[a]))
       /\ GetKeyword("a:b := 1") = "a:b " /\ GetKeyword("k[1] := 2") = "k" /\ GetIndex("k[ 12 ] := 2").n = 12
       /\ GetIndex("k[4294967297] := 2").big /\ GetIndex("k := v[3]") = NoIndex

(* ------------------ enumeration for the replay (part a) ------------------- *)
More(p) == TestRun(TextsOf(p), TRUE).more
Ext(P, A) == UNION { {Append(p, a) : a \in A} : p \in {q \in P : More(q)} }
\* after the parser has stopped one more line is appended: it must not be read any more
DeadProbe == 29
Dead(P) == {Append(p, DeadProbe) : p \in {q \in P : ~More(q)}}
RECURSIVE FullLevel(_)
FullLevel(n) == IF n = 0 THEN {<<>>} ELSE LET P == FullLevel(n - 1) IN Ext(P, AlphaIds) \cup Dead(P)
RECURSIVE CoreLevel(_)
CoreLevel(n) == IF n = 0 THEN {<<>>} ELSE Ext(CoreLevel(n - 1), CoreIds)
FullSeqs == UNION {FullLevel(n) : n \in 0..MaxFull}
DeepSeqs == UNION {Ext(CoreLevel(n - 1), AlphaIds) : n \in (MaxFull + 1)..MaxLen}
Rec(p, nl) == [e |-> "Run", ids |-> p, nl |-> nl, text |-> TextsOf(p)]
Runs == {Rec(p, nl) : p \in FullSeqs, nl \in BOOLEAN} \cup {Rec(p, TRUE) : p \in DeepSeqs}
GenFile == IF "GEN" \in DOMAIN IOEnv THEN IOEnv.GEN ELSE "gen.ndjson"
GenInit == /\ hist = <<>> /\ st = TestInit /\ ph = "gen" /\ acc = "" /\ res = "" /\ last = NoLast
           /\ PrintT(<<"RUNS", Cardinality(FullSeqs), Cardinality(DeepSeqs)>>)
           /\ ndJsonSerialize(GenFile, SetToSeq(Runs))
GenNext == FALSE /\ UNCHANGED vars
=============================================================================
