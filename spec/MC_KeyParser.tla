---------------------------- MODULE MC_KeyParser ----------------------------
(* 1. Exhaustive model check of the line machine of KeyParser.tla as an      *)
(*    incremental state machine (one action per physical line / end of input,*)
(*    every action the code really performs is named) against the property   *)
(*    sentences of C17 and against the fold TestRun used in trace validation.*)
EXTENDS KeyParser
CONSTANTS MaxFull    \* all sequences of at most MaxFull physical lines over the alphabet
VARIABLES vHist,      \* ids of the physical lines consumed so far
          vSt,        \* machine state of KeyParser.tla
          vPh,        \* "first" (no meaningful line yet) | "loop" (parsing) | "done"
          vPend,       \* id of a continued line waiting for its continuation (0: none)
          vRes,       \* verdict once vPh = "done"
          vLast       \* what the vLast action did (for the action properties)
vars == <<vHist, vSt, vPh, vPend, vRes, vLast>>

NoLast == [act |-> "none", kind |-> "none"]
\* what a line says, independently of the machine state
StaticInfo(t) ==
  LET p == ParseLine(t)
      k == Resolve(TestAlias, p.kw) IN
  IF k \notin DOMAIN TestKM THEN [proc |-> "unknown"]
  ELSE LET e == TestKM[k] IN
       IF e.proc # "set" THEN [proc |-> e.proc]
       ELSE [proc |-> "set", var |-> e.var, vec |-> e.vec, idx |-> p.idx, val |-> ValueOf(e, p)]
Meaningful(t) == HasNonBlank(t) \/ t = ""
\* memo (TLC re-evaluates operators at every use): for a pending continued line c (0: none) and the
\* next physical line a, the logical line and what it says; PendTab[c]: the pending text on its own
PendText(c) == IF c = 0 THEN "" ELSE Chop(StripCR(Alpha[c]))
LineRec(t) == [text |-> t, cont |-> EndsBackslash(t), meaningful |-> Meaningful(t), info |-> StaticInfo(t)]
LineTab == [c \in {0} \cup ContIds |-> [a \in AlphaIds |-> LineRec(PendText(c) \o StripCR(Alpha[a]))]]
PendTab == [c \in {0} \cup ContIds |-> LineRec(PendText(c))]
\* what a meaningful line (with static information f) will do in state s
KindF(s, f) ==
  IF f.proc \in {"unknown", "nothing"} THEN "NoOp"
  ELSE IF f.proc = "start" THEN "StartKey" ELSE IF f.proc = "stop" THEN "StopKey"
  ELSE IF f.val.none THEN "IgnoreBadValue"
  ELSE IF f.idx.big \/ (f.idx.n = 0 /\ f.vec > 0) \/ (f.idx.n # 0 /\ f.vec = 0)
          \/ (f.vec > 0 /\ (f.idx.n < 1 \/ f.idx.n > Len(s.vars[f.var]))) THEN "IndexError"
  ELSE IF f.idx.n = 0 THEN "AssignScalar" ELSE "AssignIndexed"
\* the effect of a meaningful line, written directly from what the line says (the fold TestRun of
\* KeyParser.tla computes it through Process/SetVar; FoldAgrees compares the two formulations)
EffectF(s, f) ==
  LET kind == KindF(s, f) IN
  CASE kind = "StartKey" -> [s EXCEPT !.status = "parsing"]
    [] kind = "StopKey" -> [s EXCEPT !.status = "end"]
    [] kind = "AssignScalar" -> [s EXCEPT !.vars[f.var] = f.val.v]
    [] kind = "AssignIndexed" -> [s EXCEPT !.vars[f.var][f.idx.n] = f.val.v]
    [] kind = "IndexError" -> [s EXCEPT !.err = "IndexError"]
    [] OTHER -> s
LastOfF(s, f, kind, act) ==
  IF kind \in {"AssignScalar", "AssignIndexed"}
  THEN [act |-> act, kind |-> kind, var |-> f.var, idx |-> f.idx.n, val |-> f.val.v, before |-> s.vars]
  ELSE [act |-> act, kind |-> kind]

Init == vHist = <<>> /\ vSt = TestInit /\ vPh = "first" /\ vPend = 0 /\ vRes = "" /\ vLast = NoLast

LR(a) == LineTab[vPend][a]
Feedable(a) == vPh \in {"first", "loop"} /\ Len(vHist) < MaxFull /\ a \in AlphaIds
Consume(a) == vHist' = Append(vHist, a)

\* read_line: "When the line ends with continuation_char, the next line will just be appended"
\* (the model check does not chain continuations: only a fresh line can be continued)
ContinueLine(a) == /\ Feedable(a) /\ LR(a).cont /\ vPend = 0
                   /\ Consume(a) /\ vPend' = a /\ UNCHANGED <<vSt, vPh, vRes>> /\ vLast' = [act |-> "ContinueLine", kind |-> "ContinueLine"]
\* read_and_parse_line: a line of blanks only is skipped (also before the start key)
SkipBlankLine(a) == /\ Feedable(a) /\ ~LR(a).cont /\ ~LR(a).meaningful
                    /\ Consume(a) /\ vPend' = 0 /\ UNCHANGED <<vSt, vPh, vRes>> /\ vLast' = [act |-> "SkipBlankLine", kind |-> "SkipBlankLine"]
Line(a, phase, kind, act) == /\ Feedable(a) /\ vPh = phase /\ ~LR(a).cont /\ LR(a).meaningful
                             /\ KindF(vSt, LR(a).info) = kind
                             /\ Consume(a) /\ vPend' = 0 /\ vLast' = LastOfF(vSt, LR(a).info, kind, act)
\* the first meaningful line
StartKey(a) == Line(a, "first", "StartKey", "StartKey") /\ vSt' = EffectF(vSt, LR(a).info) /\ vPh' = "loop" /\ vRes' = vRes
\* FirstLineBeforeStart: the first line is processed (variables are assigned, errors raised) although
\* parsing has not started; then "required first keyword not found": rejected
FirstLineBeforeStart(a) == /\ vPh = "first" /\ Feedable(a) /\ ~LR(a).cont /\ LR(a).meaningful
                           /\ KindF(vSt, LR(a).info) # "StartKey"
                           /\ Consume(a) /\ vPend' = 0 /\ vLast' = LastOfF(vSt, LR(a).info, KindF(vSt, LR(a).info), "FirstLineBeforeStart")
                           /\ vSt' = EffectF(vSt, LR(a).info) /\ vPh' = "done"
                           /\ vRes' = IF vSt'.err # NoErr THEN "error" ELSE "rejected"
\* lines while parsing
StartKeyAgain(a) == Line(a, "loop", "StartKey", "StartKeyAgain") /\ UNCHANGED <<vSt, vPh, vRes>>
StopKey(a) == Line(a, "loop", "StopKey", "StopKey") /\ vSt' = EffectF(vSt, LR(a).info) /\ vPh' = "done" /\ vRes' = "accepted"
NoOpLine(a) == Line(a, "loop", "NoOp", "NoOpLine") /\ UNCHANGED <<vSt, vPh, vRes>>          \* unknown key, comment, empty line, ignored key
IgnoreBadValue(a) == Line(a, "loop", "IgnoreBadValue", "IgnoreBadValue") /\ UNCHANGED <<vSt, vPh, vRes>>   \* no ':=', no value, value of the wrong type
AssignScalar(a) == Line(a, "loop", "AssignScalar", "AssignScalar") /\ vSt' = EffectF(vSt, LR(a).info) /\ UNCHANGED <<vPh, vRes>>
AssignIndexed(a) == Line(a, "loop", "AssignIndexed", "AssignIndexed") /\ vSt' = EffectF(vSt, LR(a).info) /\ UNCHANGED <<vPh, vRes>>
IndexError(a) == Line(a, "loop", "IndexError", "IndexError") /\ vSt' = EffectF(vSt, LR(a).info) /\ vPh' = "done" /\ vRes' = "error"
\* end of input.  A pending continued line is processed as it stands (ContinuationAtEof).
Pend == PendTab[vPend]
PendingKind == IF vPend # 0 /\ Pend.meaningful /\ Pend.text # "" THEN KindF(vSt, Pend.info) ELSE "none"
EofBeforeStart == /\ vPh = "first" /\ PendingKind # "StartKey"
                  /\ vSt' = IF PendingKind = "none" THEN vSt ELSE EffectF(vSt, Pend.info)
                  /\ vPh' = "done" /\ vRes' = IF vSt'.err # NoErr THEN "error" ELSE "rejected"
                  /\ vPend' = 0 /\ vLast' = [act |-> "EofBeforeStart", kind |-> "EofBeforeStart"] /\ UNCHANGED vHist
\* EofAccept: "early EOF" is only a warning, the stop key is not required
EofAccept == /\ vPh = "loop" \/ (vPh = "first" /\ PendingKind = "StartKey")
             /\ vSt' = IF PendingKind = "none" THEN [vSt EXCEPT !.status = "end"]
                      ELSE LET s2 == EffectF(vSt, Pend.info) IN IF s2.err # NoErr THEN s2 ELSE [s2 EXCEPT !.status = "end"]
             /\ vPh' = "done" /\ vRes' = IF vSt'.err # NoErr THEN "error" ELSE "accepted"
             /\ vPend' = 0 /\ vLast' = [act |-> "EofAccept", kind |-> "EofAccept"] /\ UNCHANGED vHist

Next == \/ \E a \in AlphaIds : \/ ContinueLine(a) \/ SkipBlankLine(a) \/ StartKey(a) \/ FirstLineBeforeStart(a) \/ StartKeyAgain(a)
                               \/ StopKey(a) \/ NoOpLine(a) \/ IgnoreBadValue(a) \/ AssignScalar(a) \/ AssignIndexed(a) \/ IndexError(a)
        \/ EofBeforeStart \/ EofAccept
Spec == Init /\ [][Next]_vars

(* ------------------------------ invariants -------------------------------- *)
\* "Arbitrary, malformed or truncated parameter files ... either parse into an internally consistent
\* object or are rejected": the incremental machine and the fold used for trace validation agree on
\* verdict and variables for every input, whether or not the vLast line ends with a newline
FoldAgrees == vPh = "done" => \A nl \in BOOLEAN, crlf \in BOOLEAN : LET x == TestRun(vHist, nl, crlf) IN x.verdict = vRes /\ x.st.vars = vSt.vars
\* "vectorised keys are stored at the index given" (and nothing else changes)
StoredAtIndex == vLast.kind = "AssignIndexed" =>
                   /\ vSt.vars[vLast.var][vLast.idx] = vLast.val
                   /\ Len(vSt.vars[vLast.var]) = Len(vLast.before[vLast.var])
                   /\ \A j \in 1..Len(vSt.vars[vLast.var]) : j # vLast.idx => vSt.vars[vLast.var][j] = vLast.before[vLast.var][j]
                   /\ \A v \in DOMAIN vSt.vars : v # vLast.var => vSt.vars[v] = vLast.before[v]
ScalarStored == vLast.kind = "AssignScalar" => /\ vSt.vars[vLast.var] = vLast.val
                                              /\ \A v \in DOMAIN vSt.vars : v # vLast.var => vSt.vars[v] = vLast.before[v]
\* "aliases resolve to their target"
AliasResolves == vPh # "done" => /\ Process(vSt, "old int := 9") = Process(vSt, "scalar int := 9")
                                /\ Process(vSt, "old vec[2] := 6") = Process(vSt, "vec key[2] := 6")
                                /\ Process(vSt, "OLD_vec [2] := 6") = Process(vSt, "vec key[2] := 6")
\* "Keyword matching ignores case and white space as documented"
SpellingIgnored == vPh # "done" => /\ Process(vSt, "SCALAR_int:=6") = Process(vSt, "scalar int := 6")
                                  /\ Process(vSt, "  !Vec__KEY [3]:=13") = Process(vSt, "vec key[3] := 13")
                                  /\ Process(vSt, "!END__test  := ") = Process(vSt, "End Test :=")
                                  /\ Process(vSt, "enum key := BETA_gamma") = Process(vSt, "enum key := beta gamma")
                                  /\ Process(vSt, "scalar\tint\t:=\t6") = Process(vSt, "scalar int := 6")
                                  /\ Process(vSt, "VEC \t\fkey [ 3\t] := 13") = Process(vSt, "vec key[3] := 13")
                                  /\ Process(vSt, "enum key := Beta\t\r_gamma") = Process(vSt, "enum key := beta gamma")
\* parsing never starts without the start key, and an error or the stop key ends it
StartRequired == vPh = "loop" => \E k \in 1..Len(vHist) : LineTab[0][vHist[k]].info.proc = "start"
ErrorIsFinal == vSt.err # NoErr => vPh = "done" /\ vRes = "error"
Bounded == \A v \in {"vec", "vlist"} : Len(vSt.vars[v]) = Len(TestVars[v])     \* a parser never resizes a vectorised variable
ASSUME /\ Standardise("  start_TEST") = "start test" /\ Standardise("!END__test  ") = "end test"
       /\ Standardise("a \t_!b") = "a b" /\ Standardise(" _!\t") = ""
       /\ Standardise("a\tb") = "a b" /\ Standardise("a\fb") = "a b" /\ Standardise("a\r\t b") = "a b" /\ Standardise("\tA\tb\t") = "a b"
       /\ Standardise("a b\f") = "a b "      \* only space, tab, '_', '!' are trimmed at the ends
       /\ \A a \in AlphaIds : Standardise(Standardise(GetKeyword(Alpha[a]))) = Standardise(GetKeyword(Alpha[a]))
       /\ GetKeyword("a:b := 1") = "a:b " /\ GetKeyword("k[1] := 2") = "k" /\ GetIndex("k[ 12 ] := 2").n = 12
       /\ GetIndex("k[4294967297] := 2").big /\ GetIndex("k := v[3]") = NoIndex

=============================================================================
