SPECIFICATION Spec
CONSTANTS MaxOps = 5 MaxNp = 2 MaxNd = 1 Bug = "none" ZoomAuto = FALSE
INVARIANTS InvValid InvReads InvSetter InvErr InvSetUp
CHECK_DEADLOCK FALSE
