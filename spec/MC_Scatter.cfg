SPECIFICATION Spec
CONSTANTS MaxOps = 6 MaxNp = 2 MaxNd = 1 Bug = "none" ZoomAuto = FALSE
INVARIANTS InvValid InvReads InvSetter InvErr InvSetUp
CHECK_DEADLOCK FALSE
