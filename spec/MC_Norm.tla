------------------------------ MODULE MC_Norm ------------------------------
(* Exhaustive model check of Norm.tla on a tiny acquisition system: 4 detectors per ring, 2 rings (segments  *)
(* -1..1 with 1, 2, 1 axial positions), 2 views, tangential positions -1..0, TOF positions -1..1 (or non-TOF).*)
(* The state machine is implementation-shaped: every call works on a set of related viewgrams the way the      *)
(* classes do (ImplOp: FromProjData indexes its factors by the basic timing position of the set or by 0, the   *)
(* base-class default asks get_bin_efficiency bin by bin, a chain runs its first and then its second member,   *)
(* apply/undo(ProjData&) loop over the sets of a symmetry grouping and over the TOF positions); the invariants *)
(* state the property bin by bin in terms of the ABSTRACT efficiency Eff:                                      *)
(*   InvFactor   "undoing multiplies each bin by one fixed positive factor, its efficiency ...; applying       *)
(*                divides by the same factor" - after any history the datum of a bin is its original value     *)
(*                times efficiency^(#undo - #apply), whatever grouping of viewgrams the calls used and whether *)
(*                they were made on related viewgrams or on the whole data set; hence "apply followed by undo  *)
(*                restores the data wherever the efficiency is non-zero" and "a chain has the product of its   *)
(*                members' efficiencies" (Eff of a chain is the product; ImplOp of a chain is sequential)      *)
(*   InvTrivial  "a normalisation that reports itself trivial changes nothing"                                 *)
(*   InvTof      TOF data with non-TOF factors: the efficiency ignores the TOF index                           *)
(*   InvSetUp    set-up FSM: a call that did not raise an error was made on an object that is set up for a     *)
(*               geometry containing the data's (or on a class that has nothing to check)                      *)
EXTENDS Norm
CONSTANTS MaxOps,      \* bound on the number of apply/undo calls in a history
          Depth,       \* 1: single classes, 2: chains of two, 3: chains of three members
          NViews,       \* 1 or 2 views (2: the groupings that relate views are explored too)
          TangBelow,   \* tangential positions -TangBelow..0
          ModAt        \* numbers of preceding calls after which the inputs of the object may be changed (re-use)
VARIABLES obj,         \* the object as its CURRENT inputs describe it
          impl,        \* the inputs the implementation serves: obj, or - between a change of the inputs and the
                       \* next set_up - possibly still the previous ones (tables built by set_up)
          G, su, data, cnt, wild, lastErr, nops,
          base,        \* the data when the served inputs last changed (cnt counts from there)
          nmods,       \* number of changes of the inputs so far (at most one per history)
          effT         \* memoised abstract efficiency of impl, bin by bin

vars == <<obj, impl, G, su, data, cnt, wild, lastErr, nops, base, nmods, effT>>

GTof == [scanner |-> "mc", N |-> 4, R |-> 2, tofMash |-> 1, views |-> NViews, minSeg |-> -1, maxSeg |-> 1, ax |-> <<1, 2, 1>>,
         minTang |-> -TangBelow, maxTang |-> 0, minTof |-> -1, maxTof |-> 1]
GNon == NonTofClone(GTof)
Small(g) == [g EXCEPT !.minSeg = 0, !.maxSeg = 0, !.ax = <<2>>]

Table(g, f(_)) == [s \in 1..(g.maxSeg - g.minSeg + 1) |-> [v \in 1..g.views |-> [a \in 1..g.ax[s] |->
                    [t \in 1..(g.maxTang - g.minTang + 1) |-> [k \in 1..(g.maxTof - g.minTof + 1) |->
                       f(Bin5(g.minSeg + s - 1, v - 1, a - 1, g.minTang + t - 1, g.minTof + k - 1))]]]]]

\* the leaf objects
ObjT == [cls |-> "Trivial"]
ObjP0 == LET f(b) == b.view + 2 * b.tang - b.seg + b.ax + 1 IN [cls |-> "PD", g |-> GNon, tab |-> Table(GNon, f)]          \* non-TOF factors
ObjP1 == LET f(b) == b.tof + b.ax - b.view IN [cls |-> "PD", g |-> GTof, tab |-> Table(GTof, f)]                       \* TOF factors
ObjC(g) == LET f(b) == IF b.seg = 0 /\ b.view = 0 /\ b.ax = 1 /\ b.tang = 0 /\ b.tof = g.maxTof THEN ZERO ELSE b.tof - b.view + b.seg
           IN [cls |-> "Cal", g |-> g, tab |-> Table(g, f), calib |-> 1, br |-> -1]
ObjK == [cls |-> "Comp", g |-> GNon, apb |-> 1, tpb |-> 2, hasEff |-> TRUE, hasGeo |-> TRUE, hasBlk |-> TRUE,
         eff |-> << <<0, 1, -1, 2>>, <<1, 0, 0, -2>> >>, geo |-> 1,
         blk |-> [a \in 1..2 |-> [t \in 1..2 |-> [c \in 1..2 |-> [u \in 1..2 |-> IF a = c THEN 0 ELSE 1]]]]]
ObjK1 == [ObjK EXCEPT !.eff = << <<0, 0, 0, 0>>, <<0, 0, 0, 0>> >>, !.geo = 0, !.hasBlk = FALSE]                       \* all factors 1

ObjP00 == LET f(b) == 0 IN [cls |-> "PD", g |-> GNon, tab |-> Table(GNon, f)]                                         \* factor data all 1
ObjC1(g) == LET f(b) == 0 IN [cls |-> "Cal", g |-> g, tab |-> Table(g, f), calib |-> 1, br |-> -1]                         \* efficiencies all 1
Singles(g) == {ObjT, ObjP0, ObjC(g), ObjP00, ObjC1(g)} \cup (IF IsTof(g) THEN {ObjP1} ELSE {ObjK, ObjK1})
Leaves(g) == {ObjT, ObjP0, ObjC(g)} \cup (IF IsTof(g) THEN {ObjP1} ELSE {ObjK, ObjK1})
Chain2(g) == { [cls |-> "Chain", first |-> x, second |-> y] : x \in Leaves(g), y \in Leaves(g) }
\* chains of three: a representative family (a factor-data member in front of every chain of two; the calibrated
\* class behind every chain of two that does not start with the trivial class)
Chain3(g) == { [cls |-> "Chain", first |-> ObjP0, second |-> y] : y \in Chain2(g) }
               \cup { [cls |-> "Chain", first |-> y, second |-> ObjC(g)] : y \in { c \in Chain2(g) : c.first.cls # "Trivial" } }
Objects(g) == Singles(g) \cup (IF Depth >= 2 THEN Chain2(g) ELSE {}) \cup (IF Depth >= 3 THEN Chain3(g) ELSE {})

\* original data: distinct exponents, one zero datum
D0(g, b) == IF b.seg = -1 /\ b.view = 0 /\ b.tang = 0 /\ b.tof = g.minTof THEN ZERO ELSE 3 * b.seg + b.view - 2 * b.tang + b.tof + b.ax
Data0(g) == [b \in BinsOf(g) |-> D0(g, b)]

\* symmetry groupings of the (segment, view) pairs of the tiny system: sequences of sets of related viewgrams
\* (each a sequence of <<segment, view>>, the basic one first)
GrTrivial == IF NViews = 2 THEN << << <<-1, 0>> >>, << <<-1, 1>> >>, << <<0, 0>> >>, << <<0, 1>> >>, << <<1, 0>> >>, << <<1, 1>> >> >>
             ELSE << << <<-1, 0>> >>, << <<0, 0>> >>, << <<1, 0>> >> >>
GrSeg == IF NViews = 2 THEN << << <<0, 0>> >>, << <<0, 1>> >>, << <<1, 0>>, <<-1, 0>> >>, << <<1, 1>>, <<-1, 1>> >> >>             \* swap segment
         ELSE << << <<0, 0>> >>, << <<1, 0>>, <<-1, 0>> >> >>
GrView == << << <<-1, 0>>, <<-1, 1>> >>, << <<0, 0>>, <<0, 1>> >>, << <<1, 0>>, <<1, 1>> >> >>                    \* mirror views
GrAll == << << <<0, 0>>, <<0, 1>> >>, << <<1, 0>>, <<-1, 0>>, <<1, 1>>, <<-1, 1>> >> >>                           \* both
Groupings == IF NViews = 2 THEN {GrTrivial, GrSeg, GrView, GrAll} ELSE {GrTrivial, GrSeg}
GrSmall == IF NViews = 2 THEN << << <<0, 0>> >>, << <<0, 1>> >> >> ELSE << << <<0, 0>> >> >>                        \* data with segment 0 only

Extract(d, g, vg) == [i \in 1..Len(vg) |-> [a \in 1..NumAxOf(g, vg[i][1]) |-> [t \in 1..(g.maxTang - g.minTang + 1) |-> d[ElemBin(g, vg, i, a, t)]]]]
Store(d, g, vg, out) == [b \in DOMAIN d |->
                           IF \E i \in 1..Len(vg) : vg[i] = <<b.seg, b.view, b.tof>>
                           THEN LET i == CHOOSE j \in 1..Len(vg) : vg[j] = <<b.seg, b.view, b.tof>> IN out[i][b.ax + 1][b.tang - g.minTang + 1]
                           ELSE d[b]]
WithTof(group, k) == [i \in 1..Len(group) |-> <<group[i][1], group[i][2], k>>]
\* one call on a set of related viewgrams (division by a zero efficiency is unspecified: see `wild')
OneSet(o, op, g, d, vg) == Store(d, g, vg, ImplOp(o, op, g, vg, Extract(d, g, vg)))
\* apply/undo(ProjData&): loop over the sets of the grouping and the TOF positions
RECURSIVE WholeImpl(_, _, _, _, _, _, _)
WholeImpl(o, op, g, d, grouping, i, k) ==
  IF i > Len(grouping) THEN d
  ELSE IF k > g.maxTof THEN WholeImpl(o, op, g, d, grouping, i + 1, g.minTof)
  ELSE WholeImpl(o, op, g, OneSet(o, op, g, d, WithTof(grouping[i], k)), grouping, i, k + 1)

ZeroEffBins == { b \in BinsOf(G) : effT[b] = ZERO }
Touched(vgset) == { b \in BinsOf(G) : \E i \in 1..Len(vgset) : vgset[i] = <<b.seg, b.view, b.tof>> }
Bump(c, S, op) == [b \in DOMAIN c |-> IF b \in S THEN (IF op = "undo" THEN c[b] + 1 ELSE c[b] - 1) ELSE c[b]]

Init == /\ G \in {GTof, GNon}
        /\ obj \in Objects(G)
        /\ su = NotSetUp
        /\ data = Data0(G)
        /\ cnt = [b \in BinsOf(G) |-> 0]
        /\ wild = {}
        /\ lastErr = "none"
        /\ nops = 0
        /\ impl = obj /\ base = data /\ nmods = 0
        /\ effT = [b \in BinsOf(G) |-> Eff(obj, b)]

\* set_up: from now on the factor is that of the CURRENT inputs
DoSetUp(g) == /\ su' = IF SetUpMustSucceed(obj, g) THEN SetUpWith(g) ELSE SetUpFailed
              /\ lastErr' = "none"
              /\ impl' = obj
              /\ IF impl = obj THEN UNCHANGED <<effT, base, cnt, wild>>
                 ELSE /\ effT' = [b \in BinsOf(G) |-> Eff(obj, b)]
                      /\ base' = data /\ cnt' = [b \in BinsOf(G) |-> 0] /\ wild' = {}
              /\ UNCHANGED <<obj, G, data, nops, nmods>>

\* a call on one set of related viewgrams of the data
DoRelated(op, grouping, i, k) ==
  LET vg == WithTof(grouping[i], k)
      mode == ErrMode(obj, su, G, FALSE) IN
  /\ nops < MaxOps /\ su.st # "failed"
  /\ nops' = nops + 1
  /\ IF mode = "required"
     THEN lastErr' = "err" /\ UNCHANGED <<data, cnt, wild>>
     ELSE /\ lastErr' = "ok"
          /\ data' = OneSet(impl, op, G, data, vg)
          /\ cnt' = Bump(cnt, Touched(vg), op)
          /\ wild' = wild \cup (IF op = "apply" THEN Touched(vg) \cap ZeroEffBins ELSE {})
  /\ UNCHANGED <<obj, impl, G, su, effT, base, nmods>>

\* a call on data with FEWER segments than the data the object was set up for: it passes the geometry check; the
\* classes may still refuse it (then nothing changes), otherwise the result must be right
DoRelatedSmall(op, i, k, refuse) ==
  LET vg == WithTof(GrSmall[i], k)
      mode == ErrMode(obj, su, Small(G), FALSE) IN
  /\ nops < MaxOps /\ su.st # "failed"
  /\ nops' = nops + 1
  /\ IF mode = "required" \/ (mode = "either" /\ refuse)
     THEN lastErr' = "err" /\ UNCHANGED <<data, cnt, wild>>
     ELSE /\ lastErr' = "oksmall"
          /\ data' = OneSet(impl, op, Small(G), data, vg)
          /\ cnt' = Bump(cnt, Touched(vg), op)
          /\ wild' = wild \cup (IF op = "apply" THEN Touched(vg) \cap ZeroEffBins ELSE {})
  /\ UNCHANGED <<obj, impl, G, su, effT, base, nmods>>

\* a call on the whole data set, any grouping
DoWhole(op, grouping) ==
  LET mode == ErrMode(obj, su, G, TRUE) IN
  /\ nops < MaxOps /\ su.st # "failed"
  /\ nops' = nops + 1
  /\ IF mode = "required"
     THEN lastErr' = "err" /\ UNCHANGED <<data, cnt, wild>>
     ELSE /\ lastErr' = "ok"
          /\ data' = WholeImpl(impl, op, G, data, grouping, 1, G.minTof)
          /\ cnt' = Bump(cnt, BinsOf(G), op)
          /\ wild' = wild \cup (IF op = "apply" THEN ZeroEffBins ELSE {})
  /\ UNCHANGED <<obj, impl, G, su, effT, base, nmods>>

\* Re-use: the inputs of the same object are changed through its public API (other factor data, component factors
\* changed in place, a member of a chain changed).  Until the next set_up the implementation may serve the previous
\* inputs (`keep': tables built by set_up) or the current ones (inputs read at every call).
ObjP0b == LET f(b) == b.seg - b.view - b.tang IN [cls |-> "PD", g |-> GNon, tab |-> Table(GNon, f)]
RECURSIVE HasAlt(_)
HasAlt(o) == CASE o.cls = "PD" -> ~IsTof(o.g)
               [] o.cls = "Comp" -> TRUE
               [] o.cls = "Chain" -> HasAlt(o.first) \/ HasAlt(o.second)
               [] OTHER -> FALSE
RECURSIVE AltOf(_)
AltOf(o) == CASE o.cls = "PD" -> IF o = ObjP0b THEN ObjP0 ELSE ObjP0b
              [] o.cls = "Comp" -> IF o = ObjK1 THEN ObjK ELSE ObjK1
              [] o.cls = "Chain" -> IF HasAlt(o.first) THEN [o EXCEPT !.first = AltOf(o.first)] ELSE [o EXCEPT !.second = AltOf(o.second)]
DoModify(keep) ==
  /\ nmods = 0 /\ nops \in ModAt /\ HasAlt(obj) /\ impl = obj
  /\ nmods' = 1
  /\ obj' = AltOf(obj)
  /\ lastErr' = "none"
  /\ IF keep THEN UNCHANGED <<impl, effT, base, cnt, wild>>
     ELSE /\ impl' = obj'
          /\ effT' = [b \in BinsOf(G) |-> Eff(obj', b)]
          /\ base' = data /\ cnt' = [b \in BinsOf(G) |-> 0] /\ wild' = {}
  /\ UNCHANGED <<G, su, data, nops>>

\* the calibrated class: a new calibration factor clears the set-up flag (an error is required until the next set_up)
DoSetCalib == /\ obj.cls = "Cal" /\ obj.calib = 1 /\ nmods = 0 /\ nops \in ModAt \cup {0} /\ impl = obj
              /\ nmods' = 1
              /\ obj' = [obj EXCEPT !.calib = 2]
              /\ impl' = obj'
              /\ su' = NotSetUp /\ lastErr' = "none"
              /\ effT' = [b \in BinsOf(G) |-> Eff(obj', b)]
              /\ base' = data /\ cnt' = [b \in BinsOf(G) |-> 0] /\ wild' = {}
              /\ UNCHANGED <<G, data, nops>>

Next == \/ \E g \in {G, Small(G)} : DoSetUp(g)
        \/ \E op \in {"apply", "undo"} : \E grouping \in Groupings : \E i \in 1..Len(grouping) : \E k \in G.minTof..G.maxTof : DoRelated(op, grouping, i, k)
        \/ \E op \in {"apply", "undo"} : \E grouping \in Groupings : DoWhole(op, grouping)
        \/ \E op \in {"apply", "undo"} : \E i \in 1..Len(GrSmall) : \E k \in G.minTof..G.maxTof : \E refuse \in BOOLEAN : DoRelatedSmall(op, i, k, refuse)
        \/ DoSetCalib
        \/ \E keep \in BOOLEAN : DoModify(keep)
Spec == Init /\ [][Next]_vars

(* ------------------------------ invariants ------------------------------ *)
\* value of a bin after cnt net undo operations with efficiency e
RECURSIVE Pow(_, _, _)
Pow(d, n, e) == IF n = 0 THEN d ELSE IF n > 0 THEN Pow(MulV(d, e), n - 1, e) ELSE Pow(DivV(d, e), n + 1, e)
InvFactor == \A b \in BinsOf(G) :
               LET e == effT[b] IN
               IF e = ZERO
               THEN (b \in wild) \/ data[b] \in {base[b], ZERO}          \* nothing is promised after a division by zero
               ELSE data[b] = Pow(base[b], cnt[b], e)
InvTrivialMC == (AllOne(impl) \/ \A b \in BinsOf(G) : effT[b] = 0) => \A b \in BinsOf(G) : data[b] = base[b]
\* the factor after each set_up is that of the current inputs; served inputs differ from the current ones only
\* between a change and the next set_up
InvCurrent == /\ (impl # obj => nmods = 1)
              /\ \A b \in BinsOf(G) : effT[b] = Eff(impl, b)
\* theorems about the efficiency of the state's object (evaluated when the object or its calibration is new)
Fresh == nops = 0 /\ su.st = "none" /\ impl = obj
\* "a normalisation that reports itself trivial changes nothing": whenever the specification accepts the answer
\* `true' from is_trivial(), the abstract efficiency is 1 everywhere
InvReportsTrivial == (Fresh /\ TrivialAnswerOk(obj, TRUE)) => \A b \in BinsOf(G) : effT[b] = 0
InvTof == (Fresh /\ obj.cls = "PD" /\ ~IsTof(obj.g)) => \A b \in BinsOf(G) : effT[b] = Eff(obj, [b EXCEPT !.tof = 0])
InvSetUp == /\ (lastErr = "ok" /\ ChecksOnViewgrams(obj)) => (su.st = "ok" /\ Geq(su.g, G))
            /\ (lastErr = "oksmall" /\ ChecksOnViewgrams(obj)) => (su.st = "ok" /\ Geq(su.g, Small(G)))
\* "a chain has the product of its members' efficiencies" - stated explicitly for the state's object
InvChain == (Fresh /\ obj.cls = "Chain") => \A b \in BinsOf(G) : effT[b] = MulV(Eff(obj.first, b), Eff(obj.second, b))
=============================================================================
