---------------------------- MODULE Trace_Projectors ----------------------------
(* Trace validation for C04.  Lines recorded by harness/c04_projectors.cxx:                    *)
(*   Config   geometry, effective symmetries, recorded routes, windows                          *)
(*   Bin      one per bin in index order: the matrix entries of the bin obtained through every  *)
(*            route (whole data, every (subset_num, num_subsets), every group of related        *)
(*            viewgrams, windows, on-the-fly projector), forward (e_v) and back (e_b)           *)
(*   Col      (history blocks) the columns of the recorded F                                   *)
(*   Same     rows of a re-used object / of an image with other index ranges next to reference rows *)
(*   Scaled   one call made with an integer input and with 2^k times that input                    *)
(*   OtfGroup on-the-fly projector into a group of viewgrams that already holds data             *)
(*   HistStart SetData SetInput ForwardSubset ForwardGroup StartNewTarget BackSubset BackGroup  *)
(*            GetOutput BackInto: a history of calls with small integer images / data          *)
(* Bin lines are independent observations, history lines are re-synchronised on what was        *)
(* observed, so validation does not stop at the first unexplained line: <<line, class>> is      *)
(* collected in `bad'.                                                                          *)
EXTENDS Projectors, TraceLib
VARIABLES l, base, cfg, tab, hs, bad

NoCfg == [nb |-> 0]

SubCfg(r) == [views |-> r.views, maxSeg |-> r.maxSeg, s90 |-> r.eff[1] = 1, s180 |-> r.eff[2] = 1, sseg |-> r.eff[3] = 1,
              minTof |-> r.minTof, maxTof |-> r.maxTof]
NTang(r) == r.maxTang - r.minTang + 1
NTof(r) == r.maxTof - r.minTof + 1
SegRow(r, seg) == r.segs[seg - r.minSeg + 1]
RECURSIVE SegOffTo(_, _)
SegOffTo(r, q) == IF q = 0 THEN 0 ELSE SegOffTo(r, q - 1) + (r.segs[q][3] - r.segs[q][2] + 1) * r.views * NTang(r) * NTof(r)

WinRec(w) == [id |-> w[1], g |-> << w[2], w[3] >>, k |-> w[4], axlo |-> w[5], axhi |-> w[6], tlo |-> w[7], thi |-> w[8], set |-> w[9], mode |-> w[10]]
WinRangeOk(r, w) ==
  /\ w.g \in AllVS(SubCfg(r)) /\ w.k \in r.minTof .. r.maxTof
  /\ SegRow(r, w.g[2])[2] <= w.axlo /\ w.axlo <= w.axhi /\ w.axhi <= SegRow(r, w.g[2])[3]
  /\ r.minTang <= w.tlo /\ w.tlo <= w.thi /\ w.thi <= r.maxTang
  \* the overload without ranges works on the full ranges, the one with an axial range on all tangential positions
  /\ w.mode \in {0, 1, 2}
  /\ (w.mode = 0 => (w.axlo = SegRow(r, w.g[2])[2] /\ w.axhi = SegRow(r, w.g[2])[3]))
  /\ (w.mode \in {0, 1} => (w.tlo = r.minTang /\ w.thi = r.maxTang))

\* "projecting piecewise and adding the pieces": the windows of a set tile the full ranges of one group
WinSetsOk(r) ==
  LET W == { WinRec(r.wins[i]) : i \in 1 .. Len(r.wins) }
      Sets == { w.set : w \in W } \ {-1} IN
  \A q \in Sets :
    LET Wq == { w \in W : w.set = q }
        w0 == CHOOSE w \in Wq : TRUE IN
    /\ \A w \in Wq : w.g = w0.g /\ w.k = w0.k
    /\ \A a \in SegRow(r, w0.g[2])[2] .. SegRow(r, w0.g[2])[3], t \in r.minTang .. r.maxTang :
         Cardinality({ w \in Wq : a \in w.axlo .. w.axhi /\ t \in w.tlo .. w.thi }) = 1

ConfigOk(r) ==
  LET c == SubCfg(r) IN
  \* the symmetries the library arrived at are documented ones and never more than requested (as in C06)
  /\ Legal(c)
  /\ (c.s90 => r.req[1] = 1) /\ (c.s180 => (r.req[1] = 1 \/ r.req[2] = 1)) /\ (c.sseg => r.req[3] = 1)
  /\ (~r.cartesian => (~c.s90 /\ ~c.s180 /\ ~c.sseg))
  /\ r.minView = 0 /\ r.minSeg = -r.maxSeg /\ r.minTof = -r.maxTof /\ r.minTang <= r.maxTang
  /\ Len(r.segs) = r.maxSeg - r.minSeg + 1
  /\ \A q \in 1 .. Len(r.segs) : r.segs[q][1] = r.minSeg + q - 1 /\ r.segs[q][2] <= r.segs[q][3]
  /\ r.nb = SegOffTo(r, Len(r.segs)) /\ r.nv = r.nx * r.ny * r.nz /\ r.nb > 0 /\ r.nv > 0
  /\ r.scale = FxScale
  /\ \A q \in 1 .. Len(r.Ns) : r.Ns[q] >= 1
  /\ \A q \in 1 .. Len(r.Ks) : r.Ks[q] \in -100 .. 100 /\ r.Ks[q] # 0
  \* C06: the subsets partition the view/segment pairs (so piecewise = whole follows entry by entry)
  /\ \A q \in 1 .. Len(r.Ns) : IsPartition(ProcessedTable(c, r.Ns[q]), r.Ns[q], AllVS(c))
  /\ \A i \in 1 .. Len(r.wins) : WinRangeOk(r, WinRec(r.wins[i]))
  /\ WinSetsOk(r)
  \* the on-the-fly projector has no settings: it is compared with the matrix under the settings it implements
  /\ (r.otf => (r.pair = "rt" /\ r.ntl = 1 /\ r.geom = "Cylindrical" /\ r.maxTof = 0 /\ r.req = << 1, 1, 1, 1, 1 >> /\ r.views % 2 = 0))

NsOf(r) == { r.Ns[q] : q \in 1 .. Len(r.Ns) } \cup (IF r.hist THEN 1 .. r.views + 1 ELSE {})
TabOf(r) ==
  LET c == SubCfg(r) IN
  [c |-> c,
   segOff |-> [q \in 1 .. Len(r.segs) + 1 |-> SegOffTo(r, q - 1)],
   proc |-> [N \in NsOf(r) |-> [s \in 0 .. N - 1 |-> Processed(c, s, N)]],
   orb |-> [vs \in AllVS(c) |-> Orbit(c, vs)],
   wins |-> [i \in 1 .. Len(r.wins) |-> WinRec(r.wins[i])]]

\* all_bins() order: segment, axial position, view, tangential position, timing position; b = <<seg, ax, view, tang, tof>>
BinOfIndex(i) ==
  LET q == CHOOSE qq \in 1 .. Len(cfg.segs) : tab.segOff[qq] <= i /\ i < tab.segOff[qq + 1]
      rem == i - tab.segOff[q]
      nk == NTof(cfg)
      nt == NTang(cfg) IN
  << cfg.segs[q][1], cfg.segs[q][2] + rem \div (nk * nt * cfg.views), (rem \div (nk * nt)) % cfg.views,
     cfg.minTang + ((rem \div nk) % nt), cfg.minTof + (rem % nk) >>
VSofBin(b) == << b[3], b[1] >>
BinLine(i) == TraceLog[base + 1 + i]          \* i = 0 .. nb-1
ColLine(v) == TraceLog[base + 1 + cfg.nb + v] \* v = 0 .. nv-1
InWin(w, b) == /\ VSofBin(b) \in tab.orb[w.g] /\ b[5] = w.k
               /\ w.axlo <= b[2] /\ b[2] <= w.axhi /\ w.tlo <= b[4] /\ b[4] <= w.thi

RowEntriesOk(row, withFx) ==
  /\ RowSorted(row)
  /\ \A k \in 1 .. Len(row) : row[k][1] \in 0 .. cfg.nv - 1 /\ (withFx => row[k][3] # FxBad)
Lookup2(q, N, s) == LET I == { k \in 1 .. Len(q) : q[k][1] = N /\ q[k][2] = s } IN IF I = {} THEN << >> ELSE q[CHOOSE k \in I : TRUE][3]
Lookup1(q, id) == LET I == { k \in 1 .. Len(q) : q[k][1] = id } IN IF I = {} THEN << >> ELSE q[CHOOSE k \in I : TRUE][2]

\* every (subset_num, num_subsets): the entries of the bin appear in the subset that processes its view/segment pair
\* and nowhere else (zero was requested, N > 1: "sets them to zero")
SubsetRoutesOk(q, ref, vs) ==
  /\ \A k \in 1 .. Len(q) : q[k][1] \in { cfg.Ns[j] : j \in 1 .. Len(cfg.Ns) } /\ q[k][2] \in 0 .. q[k][1] - 1
  /\ \A j \in 1 .. Len(cfg.Ns) : \A s \in 0 .. cfg.Ns[j] - 1 :
       LET row == Lookup2(q, cfg.Ns[j], s) IN
       IF vs \in tab.proc[cfg.Ns[j]][s] THEN RowsUlpEq(row, ref) ELSE row = << >>
\* every group of related viewgrams: the bin is produced by the group of its own pair (the same timing position) only
GroupRoutesOk(q, ref, b) ==
  /\ Len(q) <= 1 /\ (ref # << >> => Len(q) = 1)
  /\ \A k \in 1 .. Len(q) : /\ << q[k][1], q[k][2] >> \in AllVS(tab.c) /\ VSofBin(b) \in tab.orb[<< q[k][1], q[k][2] >>]
                            /\ q[k][3] = b[5] /\ RowsUlpEq(q[k][4], ref)
\* axial / tangential sub-ranges: inside the window the entries of the whole projection, outside nothing
WindowRoutesOk(q, ref, b) ==
  /\ \A k \in 1 .. Len(q) : q[k][1] \in { tab.wins[j].id : j \in 1 .. Len(tab.wins) }
  /\ \A j \in 1 .. Len(tab.wins) :
       LET row == Lookup1(q, tab.wins[j].id) IN
       IF InWin(tab.wins[j], b) THEN RowsUlpEq(row, ref) ELSE row = << >>

\* the bins and the part of a matrix row the known finding C04-otf-lastplane is about
VoxZ(v) == v \div (cfg.nx * cfg.ny)
RECURSIVE TopZTo(_, _)
TopZTo(row, n) == IF n = 0 THEN -1 ELSE Max2(VoxZ(row[n][1]), TopZTo(row, n - 1))
DropTop(row) == SelectSeq(row, LAMBDA e : VoxZ(e[1]) < TopZTo(row, Len(row)))
LastPlaneBin(b, axhi) == b[1] = 0 /\ b[4] = 0 /\ (4 * b[3]) % cfg.views # 0 /\ b[2] = axhi

\* homogeneity of the whole-data calls on unit vectors: for every exponent of the block the entries are the exponent-shifted
\* entries of the unscaled call
ScaledRoutesOk(q, ref) ==
  /\ \A j \in 1 .. Len(q) : q[j][1] \in { cfg.Ks[i] : i \in 1 .. Len(cfg.Ks) }
  /\ \A i \in 1 .. Len(cfg.Ks) : ScaledRow(Lookup1(q, cfg.Ks[i]), ref, cfg.Ks[i])

BinClass(r) ==
  LET b == r.b
      vs == VSofBin(r.b) IN
  IF ~(cfg.nb > 0 /\ l = base + 1 + r.i /\ r.i < cfg.nb /\ b = BinOfIndex(r.i)) THEN "layout"
  ELSE IF ~(RowEntriesOk(r.F, TRUE) /\ RowEntriesOk(r.B, FALSE)) THEN "row-malformed"
  \* "<A x, y> = <x, A^T y> for all images x and data y": F[b][v] = forward(e_v)[b], B[v][b] = back(e_b)[v], F = B^T
  ELSE IF ~RowsUlpEq(r.F, r.B) THEN "F-differs-from-Bt"
  ELSE IF ~ScaledRoutesOk(r.FK, r.F) THEN "forward-not-homogeneous"
  ELSE IF ~ScaledRoutesOk(r.BK, r.B) THEN "back-not-homogeneous"
  \* F = B^T also away from magnitude 1
  ELSE IF ~(\A i \in 1 .. Len(cfg.Ks) : RowsUlpEq(Lookup1(r.FK, cfg.Ks[i]), Lookup1(r.BK, cfg.Ks[i]))) THEN "F-differs-from-Bt-scaled"
  ELSE IF ~SubsetRoutesOk(r.FS, r.F, vs) THEN "forward-subset"
  ELSE IF ~SubsetRoutesOk(r.BS, r.B, vs) THEN "back-subset"
  ELSE IF cfg.groups /\ ~GroupRoutesOk(r.FG, r.F, b) THEN "forward-group"
  ELSE IF cfg.groups /\ ~GroupRoutesOk(r.BG, r.B, b) THEN "back-group"
  ELSE IF ~WindowRoutesOk(r.FW, r.F, b) THEN "forward-window"
  ELSE IF ~WindowRoutesOk(r.BW, r.B, b) THEN "back-window"
  \* "The on-the-fly ray-tracing forward projector gives the same data as forward projection through the ray-tracing matrix"
  ELSE IF cfg.otf /\ ~(RowEntriesOk(r.O, TRUE) /\ RowTolEq(r.F, r.O))
       THEN (IF RowEntriesOk(r.O, TRUE) /\ LastPlaneBin(b, SegRow(cfg, 0)[3]) /\ r.F # << >> /\ RowTolEq(DropTop(r.F), r.O)
             THEN "C04-otf-lastplane" ELSE "on-the-fly")
  ELSE "ok"

(* ------------------------------------------------------------------------------------------ *)
(* histories *)
InHist == cfg.nb > 0 /\ cfg.hist /\ l > base + cfg.nb
ColClass(r) ==
  IF ~(InHist /\ l = base + 1 + cfg.nb + r.v /\ r.v < cfg.nv) THEN "layout"
  ELSE IF ~(/\ \A k \in 1 .. Len(r.col) - 1 : r.col[k][1] < r.col[k + 1][1]
            /\ \A k \in 1 .. Len(r.col) :
                 /\ r.col[k][1] \in 0 .. cfg.nb - 1
                 /\ \E j \in 1 .. Len(BinLine(r.col[k][1]).F) :
                      BinLine(r.col[k][1]).F[j][1] = r.v /\ BinLine(r.col[k][1]).F[j][3] = r.col[k][2]) THEN "col-not-in-F"
  ELSE "ok"

ZeroSeq(n) == [i \in 1 .. n |-> 0]
FreshHist(nnz, ncol) == [data |-> << >>, hasData |-> FALSE, x |-> << >>, acc |-> ZeroSeq(cfg.nv), slack |-> ZeroSeq(cfg.nv), mag |-> ZeroSeq(cfg.nv),
                         started |-> FALSE, live |-> TRUE, nnz |-> nnz, ncol |-> ncol]
NoHistState == [live |-> FALSE, nnz |-> 0, ncol |-> 0]
DataOf(r) == [ord |-> r.ord, fx |-> r.fx]
IntsOk(q, n, amp) == Len(q) = n /\ \A i \in 1 .. n : q[i] \in -amp .. amp

\* frame condition of a forward projection into the bins i with touched(b_i), from image x:
\* touched bins carry the projection of x (recomputed from the recorded F), "all other bins unchanged, or ... zero"
ForwardObsOk(r, touched(_), zeroRest, x) ==
  /\ Len(r.ord) = cfg.nb /\ Len(r.fx) = cfg.nb
  /\ \A i \in 1 .. cfg.nb :
       IF touched(BinLine(i - 1).b) THEN FwdClose(r.fx[i], BinLine(i - 1).F, x)
       ELSE IF zeroRest THEN r.ord[i] = 0 /\ r.fx[i] = 0
       ELSE r.ord[i] = hs.data.ord[i] /\ r.fx[i] = hs.data.fx[i]

\* back projection of the integer data y restricted to the bins with touched(b): contribution to voxel v from the
\* recorded column, with the operand-quantisation slack and the magnitude for the accumulation tolerance
RECURSIVE ColDotTo(_, _, _, _), ColAbsTo(_, _, _, _), ColMagTo(_, _, _, _)
ColDotTo(col, y, touched(_), n) ==
  IF n = 0 THEN 0
  ELSE (IF touched(BinLine(col[n][1]).b) THEN col[n][2] * y[col[n][1] + 1] ELSE 0) + ColDotTo(col, y, touched, n - 1)
ColAbsTo(col, y, touched(_), n) ==
  IF n = 0 THEN 0
  ELSE (IF touched(BinLine(col[n][1]).b) THEN Abs(y[col[n][1] + 1]) ELSE 0) + ColAbsTo(col, y, touched, n - 1)
ColMagTo(col, y, touched(_), n) ==
  IF n = 0 THEN 0
  ELSE (IF touched(BinLine(col[n][1]).b) THEN Abs(col[n][2] * y[col[n][1] + 1]) ELSE 0) + ColMagTo(col, y, touched, n - 1)
Accumulate(h, y, touched(_)) ==
  [h EXCEPT !.acc = [v \in 1 .. cfg.nv |-> h.acc[v] + ColDotTo(ColLine(v - 1).col, y, touched, Len(ColLine(v - 1).col))],
            !.slack = [v \in 1 .. cfg.nv |-> h.slack[v] + ColAbsTo(ColLine(v - 1).col, y, touched, Len(ColLine(v - 1).col))],
            !.mag = [v \in 1 .. cfg.nv |-> h.mag[v] + ColMagTo(ColLine(v - 1).col, y, touched, Len(ColLine(v - 1).col))]]
Restart(h) == [h EXCEPT !.acc = ZeroSeq(cfg.nv), !.slack = ZeroSeq(cfg.nv), !.mag = ZeroSeq(cfg.nv), !.started = TRUE]
\* get_output: the image handed over is the accumulated target, whatever it contained before
OutputObsOk(r, h) ==
  /\ Len(r.fx) = cfg.nv
  /\ \A v \in 1 .. cfg.nv : r.fx[v] # FxBad /\ Abs(r.fx[v] - h.acc[v]) <= SumTol(h.slack[v], h.mag[v])

HistWin(r) == [g |-> << r.w[1], r.w[2] >>, k |-> r.w[3], axlo |-> r.w[4], axhi |-> r.w[5], tlo |-> r.w[6], thi |-> r.w[7], mode |-> r.w[8]]
\* forward_project(RelatedViewgrams&, ranges) of the on-the-fly projector into viewgrams holding the integer data y:
\* "it overwrites the data already present in the viewgram" and gives "the same data as forward projection through the
\* ray-tracing matrix"; accumulate = TRUE describes the known finding C04-otf-accumulates (the projection is ADDED to y)
\* lastplane = TRUE describes the known finding C04-otf-lastplane: for segment 0, tangential position 0, views that are not
\* multiples of 45 degrees, the contribution of the image plane above the last requested axial position is lost
OtfObs(r, accumulate, lastplane) ==
  /\ cfg.otf /\ l > base + cfg.nb /\ ~r.err /\ WinRangeOk(cfg, HistWin(r)) /\ r.w[3] = 0
  /\ IntsOk(r.y, cfg.nb, 3) /\ IntsOk(r.x, cfg.nv, 2) /\ Len(r.fx) = cfg.nb /\ Len(r.ord) = cfg.nb
  /\ \A i \in 1 .. cfg.nb :
       LET b == BinLine(i - 1).b
           off == IF accumulate THEN r.y[i] * FxOne ELSE 0 IN
       IF InWin(HistWin(r), b)
       THEN \/ OtfClose(r.fx[i], BinLine(i - 1).F, r.x, off)
            \/ (lastplane /\ LastPlaneBin(b, r.w[5]) /\ BinLine(i - 1).F # << >> /\ OtfClose(r.fx[i], DropTop(BinLine(i - 1).F), r.x, off))
       ELSE r.fx[i] = r.y[i] * FxOne
OtfClass(r) == IF OtfObs(r, FALSE, FALSE) THEN "ok"
               ELSE IF OtfObs(r, TRUE, FALSE) THEN "C04-otf-accumulates"
               ELSE IF OtfObs(r, FALSE, TRUE) THEN "C04-otf-lastplane"
               ELSE IF OtfObs(r, TRUE, TRUE) THEN "C04-otf-accumulates+C04-otf-lastplane"
               ELSE "on-the-fly-group"

\* one forward or back call (subset or window of a group) on an integer input and on 2^k times that input: "projection is
\* linear" - every bin / voxel of the second result is the first with the exponent shifted by k
ScaledClass(r) ==
  IF ~(cfg.nb > 0 /\ l > base + cfg.nb /\ ~r.err /\ r.k \in { cfg.Ks[i] : i \in 1 .. Len(cfg.Ks) }
       /\ r.N \in 1 .. cfg.views /\ r.s \in 0 .. r.N - 1 /\ WinRangeOk(cfg, HistWin(r))
       /\ IntsOk(r.in, IF r.fwd THEN cfg.nv ELSE cfg.nb, 3)
       /\ Len(r.ord1) = (IF r.fwd THEN cfg.nb ELSE cfg.nv)) THEN "scaled-args"
  ELSE IF ScaledSeq(r.ord2, r.ord1, r.k) THEN "ok"
  ELSE IF r.fwd THEN "forward-not-homogeneous" ELSE "back-not-homogeneous"

\* rows of one object next to the rows of a reference object (observation against observation):
\*  ctx "reuse"  the object was set up before with other arguments; the reference is a fresh object set up with the current
\*               ones: "set_up() can be called more than once" - identical rows, bit for bit;
\*  ctx "zindex" the image has z indices from step /= 0, the reference the standard image (z from 0), same physical grid (the
\*               projectors centre the index range on the scanner): the same rows up to RowTol (index offsets enter the
\*               floating-point geometry); "xshift": the x index range moved by one voxel and the origin moved back.
\* Known findings: C04-otf-zmin (the on-the-fly projector silently assumes z indices from 0), C04-interp-xyorigin (the
\* interpolation matrix silently assumes a zero x/y origin), C04-tof-zindex (ProjMatrixByBin::apply_tof_kernel places the voxels
\* by get_physical_coordinates_for_indices, i.e. by index, while the ray tracing centres the index range on the scanner: the TOF
\* factor moves by < 1 % with the z index offset); in all cases everything else on the line must hold.
Has3(r, f) == f \in DOMAIN r
SameClass(r) ==
  IF r.ctx = "reuse"
  THEN (IF (Has3(r, "F") => r.F = r.rF) /\ (Has3(r, "B") => r.B = r.rB) THEN "ok" ELSE "reuse-differs-from-fresh")
  ELSE IF r.ctx = "zindex"
  THEN (IF ~RowsUlpEq(r.F, r.B) THEN "index-convention"
        ELSE IF ~(RowTolEq(r.F, r.rF) /\ RowTolEq(r.B, r.rB))
             THEN (IF r.ntof > 1 /\ r.step # 0 /\ r.pair = "rt" /\ RowLooseEq(r.F, r.rF) /\ RowLooseEq(r.B, r.rB) THEN "C04-tof-zindex" ELSE "index-convention")
        ELSE IF Has3(r, "O") /\ ~RowTolEq(r.O, r.rO) THEN (IF r.step # 0 THEN "C04-otf-zmin" ELSE "index-convention")
        ELSE "ok")
  ELSE IF r.ctx = "xshift"
  THEN (IF RowTolEq(r.F, r.rF) /\ RowTolEq(r.B, r.rB) THEN "ok"
        ELSE IF r.pair = "interp" /\ RowsUlpEq(r.F, r.B) THEN "C04-interp-xyorigin" ELSE "index-convention")
  ELSE "unknown-event"

SubsetArgsOk(r) == r.N \in 1 .. cfg.views + 1 /\ r.s \in 0 .. r.N - 1 /\ ~r.err
HistWinOk(r) == WinRangeOk(cfg, HistWin(r)) /\ ~r.err

\* one history line: <<class, next history state>>
HistStep(r) ==
  CASE r.e = "HistStart" ->
         << IF InHist /\ hs.ncol = hs.nnz /\ l >= base + 1 + cfg.nb + cfg.nv THEN "ok" ELSE "columns-incomplete", FreshHist(hs.nnz, hs.ncol) >>
    [] r.e = "SetData" ->
         << IF hs.live /\ IntsOk(r.y, cfg.nb, 3) /\ Len(r.fx) = cfg.nb /\ Len(r.ord) = cfg.nb /\ (\A i \in 1 .. cfg.nb : r.fx[i] = r.y[i] * FxOne)
            THEN "ok" ELSE "set-data", [hs EXCEPT !.data = DataOf(r), !.hasData = TRUE] >>
    [] r.e = "SetInput" ->
         << IF hs.live /\ ~r.err /\ IntsOk(r.x, cfg.nv, 2) THEN "ok" ELSE "set-input", [hs EXCEPT !.x = r.x] >>
    [] r.e = "ForwardSubset" ->
         LET x == IF r.img THEN r.x ELSE hs.x IN
         << IF ~(hs.live /\ hs.hasData /\ SubsetArgsOk(r) /\ IntsOk(x, cfg.nv, 2)) THEN "forward-args"
            ELSE IF ForwardObsOk(r, LAMBDA b : VSofBin(b) \in tab.proc[r.N][r.s], ZeroRest(r.zero, r.N), x) THEN "ok"
            ELSE "forward-subset-frame",
            [hs EXCEPT !.data = DataOf(r), !.x = x] >>
    [] r.e = "ForwardGroup" ->
         << IF ~(hs.live /\ hs.hasData /\ HistWinOk(r) /\ IntsOk(hs.x, cfg.nv, 2)) THEN "forward-args"
            ELSE IF ForwardObsOk(r, LAMBDA b : InWin(HistWin(r), b), FALSE, hs.x) THEN "ok"
            ELSE "forward-group-frame",
            [hs EXCEPT !.data = DataOf(r)] >>
    [] r.e = "StartNewTarget" ->
         << IF hs.live /\ ~r.err THEN "ok" ELSE "start-new-target", Restart(hs) >>
    [] r.e = "BackSubset" ->
         IF ~(hs.live /\ hs.started /\ SubsetArgsOk(r) /\ IntsOk(r.y, cfg.nb, 3)) THEN << "back-args", hs >>
         ELSE << "ok", Accumulate(hs, r.y, LAMBDA b : VSofBin(b) \in tab.proc[r.N][r.s]) >>
    [] r.e = "BackGroup" ->
         IF ~(hs.live /\ hs.started /\ HistWinOk(r) /\ IntsOk(r.y, cfg.nb, 3)) THEN << "back-args", hs >>
         ELSE << "ok", Accumulate(hs, r.y, LAMBDA b : InWin(HistWin(r), b)) >>
    [] r.e = "GetOutput" ->
         \* "accumulates without disturbing earlier contributions": everything since the last start is in the output,
         \* and reading the output does not reset the target (the next GetOutput still contains it)
         IF ~(hs.live /\ hs.started /\ ~r.err) THEN << "output-args", hs >>
         ELSE IF OutputObsOk(r, hs) THEN << "ok", hs >>
         ELSE << "output-differs", [hs EXCEPT !.acc = r.fx] >>
    [] r.e = "BackInto" ->
         \* back_project(image, proj_data, s, N) = start_accumulating_in_new_target; back_project; get_output
         IF ~(hs.live /\ SubsetArgsOk(r) /\ IntsOk(r.y, cfg.nb, 3)) THEN << "back-args", hs >>
         ELSE LET h2 == Accumulate(Restart(hs), r.y, LAMBDA b : VSofBin(b) \in tab.proc[r.N][r.s]) IN
              IF OutputObsOk(r, h2) THEN << "ok", h2 >> ELSE << "output-differs", [h2 EXCEPT !.acc = r.fx] >>
    [] OTHER -> << "unknown-event", hs >>

IsHistEvent(r) == r.e \in {"HistStart", "SetData", "SetInput", "ForwardSubset", "ForwardGroup", "StartNewTarget", "BackSubset",
                           "BackGroup", "GetOutput", "BackInto"}

Init == l = 1 /\ base = 0 /\ cfg = NoCfg /\ tab = << >> /\ hs = NoHistState /\ bad = << >>
Next ==
  /\ l <= Len(TraceLog)
  /\ LET r == TraceLog[l] IN
     /\ base' = IF r.e = "Config" THEN l ELSE base
     /\ tab' = IF r.e = "Config" THEN (IF ConfigOk(r) THEN TabOf(r) ELSE << >>) ELSE tab
     /\ LET res == CASE r.e = "Config" -> << IF ConfigOk(r) THEN "ok" ELSE "config", NoHistState >>
                     [] r.e = "Bin" -> << IF cfg.nb > 0 THEN BinClass(r) ELSE "no-config", [hs EXCEPT !.nnz = hs.nnz + Len(r.F)] >>
                     [] r.e = "Col" -> << IF cfg.nb > 0 THEN ColClass(r) ELSE "no-config", [hs EXCEPT !.ncol = hs.ncol + Len(r.col)] >>
                     [] r.e = "Same" -> << SameClass(r), hs >>
                     \* a class may refuse what it does not support (shifted x/y origin; z indices not from 0 for the on-the-fly projector)
                     [] r.e = "XYShift" -> << IF r.xshift # 0 THEN "ok" ELSE "index-convention", hs >>
                     [] r.e = "OtfRefused" -> << IF r.zlo # 0 THEN "ok" ELSE "index-convention", hs >>
                     [] r.e = "ReuseStep" -> << IF ~r.err /\ r.nb > 0 THEN "ok" ELSE "reuse-set-up-refused", hs >>
                     [] r.e = "Scaled" -> << IF cfg.nb > 0 THEN ScaledClass(r) ELSE "no-config", hs >>
                     [] r.e = "OtfGroup" -> << IF cfg.nb > 0 THEN OtfClass(r) ELSE "no-config", hs >>
                     [] IsHistEvent(r) -> IF cfg.nb > 0 /\ InHist THEN HistStep(r) ELSE << "no-config", hs >>
                     \* a block the library refused to set up, a history whose projectors could not be built: never expected
                     [] OTHER -> << "unknown-event", hs >> IN
        /\ hs' = res[2]
        \* a block whose lines are not where the Config line says they are is abandoned (its later lines are "no-config")
        /\ cfg' = IF r.e = "Config" THEN (IF ConfigOk(r) THEN r ELSE NoCfg) ELSE IF res[1] = "layout" THEN NoCfg ELSE cfg
        /\ LET bad1 == IF res[1] = "ok" \/ Len(bad) >= 400 THEN bad ELSE Append(bad, << l, res[1] >>)
               \* every block is complete: nb Bin lines, and nv Col lines in front of the histories
               prevDone == cfg.nb = 0 \/ l > base + cfg.nb + (IF cfg.hist THEN cfg.nv ELSE 0)
               lastDone == IF r.e = "Config" THEN ~ConfigOk(r)
                           ELSE cfg.nb = 0 \/ l >= base + cfg.nb + (IF cfg.hist THEN cfg.nv ELSE 0)
               bad2 == IF r.e = "Config" /\ ~prevDone THEN Append(bad1, << l - 1, "incomplete-block" >>) ELSE bad1 IN
           bad' = IF l = Len(TraceLog) /\ ~lastDone THEN Append(bad2, << l, "incomplete-block" >>) ELSE bad2
  /\ l' = l + 1
Spec == Init /\ [][Next]_<< l, base, cfg, tab, hs, bad >>

Done == l > Len(TraceLog) => (bad = << >> \/ PrintT(<< "UNEXPLAINED", bad >>))
Consumed == IF TLCGet("stats").diameter - 1 = Len(TraceLog) THEN TRUE
            ELSE PrintT(<< "REJECTED_AT", TLCGet("stats").diameter >>) /\ FALSE
=============================================================================
