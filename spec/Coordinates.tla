----------------------------- MODULE Coordinates -----------------------------
(***************************************************************************)
(* C12 - bin coordinates, lines of response and detector positions agree.  *)
(*                                                                         *)
(* Everything is expressed in NATURAL UNITS in which the quantities of a   *)
(* cylindrical scanner are integers (encoding Q of DESIGN.md section 4):   *)
(*   angles (phi, beta = asin(s/R), detector angle psi)  unit pi/N         *)
(*        (half an unmashed view step = half a detector pitch)             *)
(*   axial positions (m, z1, z2, detector z)             unit ring spacing/4*)
(*   ring difference                                     doubled (Delta2)  *)
(*   TOF distance k                                      unit half a TOF   *)
(*        bin width; time differences: half an unmashed timing position    *)
(*   arc-corrected s                                     unit bin size     *)
(* The ground truth is the PHYSICAL POSITION OF THE DETECTORS: detector d  *)
(* of ring r sits at angle psi = 2d (from the -y axis, the LOR classes'    *)
(* convention) and z = 4r above the first ring.  A bin's coordinates are   *)
(* those of the straight lines through its detector pairs (PairsOf, from   *)
(* Geometry.tla), averaged for compressed data.  The closed forms PhiU,    *)
(* BetaU, MQ, Delta2, KH below are what the class documentation of         *)
(* ProjDataInfoCylindrical promises; theorems C1-C8 (model-checked by      *)
(* MC_Coordinates) prove that they ARE the detector-pair averages, so the  *)
(* trace validation can use the O(1) closed forms on scanners of any size. *)
(***************************************************************************)
EXTENDS Geometry

(* ------------------------- bin coordinates ------------------------------ *)
\* "the azimuthal angle of view v is v*pi/num_views (+ the offset (mash-1)*pi/N for mashed views)"
PhiU(c, b) == 2 * b.view * c.mash + (c.mash - 1)
\* "for non-arc-corrected data the tangential position is an angle: beta = tang*pi/N"
BetaU(c, b) == b.tang
\* ring1+ring2 of every ring pair of the bin (constant over the bin)
RingSum(c, b) == SumOf(c, b.seg, b.ax)
\* "m is the axial position of the middle of the LOR w.r.t. the middle of the scanner"
MQ(c, b) == 2 * RingSum(c, b) - 2 * (c.R - 1)
\* "the average ring difference of the segment" (doubled)
Delta2(c, s) == SegMinRD(c, s) + SegMaxRD(c, s)
\* "k is the distance of the centre of TOF bin from the middle of the LOR"
KH(c, b) == 2 * b.tof
\* end points of the nominal line: z = m -/+ (average ring difference)*spacing/2
Z1Q(c, b) == MQ(c, b) - Delta2(c, b.seg)
Z2Q(c, b) == MQ(c, b) + Delta2(c, b.seg)

(* ------------------- lines through detector positions ------------------- *)
\* A line is [phi, beta, z1, z2]: its end points are at angles psi1 = phi+beta (height z1) and
\* psi2 = phi-beta+N (height z2) (LORInAxialAndNoArcCorrSinogramCoordinates).  The same line has the
\* representations  [phi+N, -beta, z2, z1]  (ends exchanged),  [phi+N, beta+N, z1, z2]  and everything
\* 2N-periodic.  StdLine picks the documented standard one: 0 <= phi < N, -N/2 < beta < N/2.
Line(p, b, za, zb) == [phi |-> p, beta |-> b, z1 |-> za, z2 |-> zb]
ModC(x, n) == LET y == x % n IN IF 2 * y > n THEN y - n ELSE y            \* representative in (-n/2, n/2]
StdLine(N, l) ==
  LET b0 == ModC(l.beta, 2 * N)                                             \* (-N, N]
      \* bring beta into (-N/2, N/2): beta -> N - beta or -N - beta exchanges the ends, phi unchanged
      l1 == IF 2 * b0 > N THEN Line(l.phi, N - b0, l.z2, l.z1)
            ELSE IF 2 * b0 < -N THEN Line(l.phi, -N - b0, l.z2, l.z1)
            ELSE Line(l.phi, b0, l.z1, l.z2)
      p1 == l1.phi % (2 * N)
  IN IF p1 >= N THEN Line(p1 - N, -l1.beta, l1.z2, l1.z1) ELSE Line(p1, l1.beta, l1.z1, l1.z2)
SameLine(N, l, k) == StdLine(N, l) = StdLine(N, k)

\* the straight line through the ordered detector pair p = <<d1, r1, d2, r2, t>>; zr(r) is the height of ring r
\*   phi = (psi1 + psi2 - pi)/2,  beta = (psi1 - psi2 + pi)/2      (LORInCylinderCoordinates -> sinogram)
PairLine(c, p, zr(_)) == Line(p[1] + p[3] - c.N \div 2, p[1] - p[3] + c.N \div 2, zr(p[2]), zr(p[4]))
ZFirstRing(r) == 4 * r                                  \* height above the first ring (find_cartesian_...)
ZCentre(c, r) == 4 * r - 2 * (c.R - 1)                  \* height w.r.t. the middle of the scanner (get_m, get_LOR)
\* the nominal line of a bin
BinLine(c, b) == Line(PhiU(c, b), BetaU(c, b), Z1Q(c, b), Z2Q(c, b))

\* the pair p, oriented as the bin sees it (VT2D order), given the `same' flag of the in-plane map
Oriented(p, same) == IF same THEN p ELSE SwapPair(p)

\* "The bin's physical coordinates agree with the straight line through the physical positions of its
\*  detectors: tangential offset, axial midpoint and obliqueness match and the azimuthal angle matches to
\*  within half a view step, exactly for even tangential positions" - for ONE contributing pair q
\*  (bin orientation); the averages over all pairs are theorems C1-C4.
\*  beta and phi are compared on the representation of the pair's line that is closest to the bin's
\*  (the pair's detector numbers are only defined modulo N).
\*  Shifting a detector number by N shifts beta AND phi by N (same line, same ends).
PairDBeta(c, b, q) == ModC(PairLine(c, q, LAMBDA r : ZCentre(c, r)).beta - BetaU(c, b), c.N)
PairDPhi(c, b, q) ==
  LET l == PairLine(c, q, LAMBDA r : ZCentre(c, r))
      shift == l.beta - BetaU(c, b) - PairDBeta(c, b, q)            \* a multiple of N
  IN ModC(l.phi - shift - PhiU(c, b), 2 * c.N)
AgreesWithPair(c, b, q) ==
  LET l == PairLine(c, q, LAMBDA r : ZCentre(c, r))
      dp == PairDPhi(c, b, q)
  IN /\ PairDBeta(c, b, q) = 0                                             \* tangential offset matches
     /\ Abs(dp) <= c.mash                                                  \* within half a (mashed) view step
     /\ (c.mash = 1 /\ b.tang % 2 = 0) => dp = 0                           \* exactly for even tangential positions
     /\ l.z1 + l.z2 = 2 * MQ(c, b)                                         \* axial midpoint
     /\ l.z2 - l.z1 >= 4 * SegMinRD(c, b.seg) /\ l.z2 - l.z1 <= 4 * SegMaxRD(c, b.seg)
     /\ (SegMinRD(c, b.seg) = SegMaxRD(c, b.seg)) => l.z2 - l.z1 = 2 * Delta2(c, b.seg)   \* obliqueness

(* --------------------------- round trip --------------------------------- *)
NumViews(c) == NV(c) \div c.mash
IsBin(c, x) == /\ x.seg \in Segs(c) /\ x.view \in Views(c) /\ InTangRange(c, x)
               /\ x.ax >= 0 /\ x.ax < NumAx(c, x.seg) /\ x.tof \in TofBins(c)
\* "a bin in the same segment and TOF bin at most one step away in view, axial and tangential position
\*  (stepping between the last and the first view reverses the signs of segment, tangential position and
\*  TOF bin)"
Near(c, b, x) ==
  /\ IsBin(c, x)
  /\ Abs(x.ax - b.ax) <= 1
  /\ \/ /\ x.seg = b.seg /\ x.tof = b.tof /\ Abs(x.view - b.view) <= 1 /\ Abs(x.tang - b.tang) <= 1
     \/ /\ {x.view, b.view} = {0, NumViews(c) - 1}
        /\ x.seg = -b.seg /\ x.tof = -b.tof /\ Abs(x.tang + b.tang) <= 1

\* nearest integers to q/4 (two of them when q/4 is half-way: float rounding decides)
RoundQ4(q) == IF q % 4 = 2 THEN {q \div 4, q \div 4 + 1} ELSE {(q + 2) \div 4}
\* rings nearest to the end points of the nominal line
EndRings1(c, b) == RoundQ4(2 * RingSum(c, b) - Delta2(c, b.seg))
EndRings2(c, b) == RoundQ4(2 * RingSum(c, b) + Delta2(c, b.seg))
\* "[the line misses the scanner] only for axially compressed bins at the axial edge": the GEOMETRIC
\* fact that an end point of the nominal line m -/+ Delta/2 rounds to a ring outside 0..R-1
MayMiss(c, b) ==
  /\ Compressed(c, b.seg) /\ SegMinRD(c, b.seg) # SegMaxRD(c, b.seg)
  /\ \E r \in EndRings1(c, b) \cup EndRings2(c, b) : r < 0 \/ r > c.R - 1

\* detectors nearest to the end points of the nominal line (two when exactly half-way between detectors)
HalfSet(psi, N) == IF psi % 2 = 0 THEN {(psi \div 2) % N} ELSE {((psi - 1) \div 2) % N, ((psi + 1) \div 2) % N}
EndDets1(c, b) == HalfSet(PhiU(c, b) + BetaU(c, b), c.N)
EndDets2(c, b) == HalfSet(PhiU(c, b) - BetaU(c, b) + c.N, c.N)
TieInPlane(c, b) == (PhiU(c, b) + BetaU(c, b)) % 2 = 1
\* the nominal line of an in-plane tie may be attributed to detectors that coincide (|tang| = N/2-1,
\* neighbouring detectors): outside the quantifier (wider than any scanner's non-arc-corrected range)
Singular(c, b) == \E d \in EndDets1(c, b) : d \in EndDets2(c, b)
\* Known finding C12-tangedge: at the first/last tangential position an in-plane tie may be resolved
\* towards the neighbouring detector pair one step OUTSIDE the tangential range
\* (or, from the last view, towards the pair of the first view, whose tangential position has the opposite
\* sign and whose segment is the opposite one - outside an ASYMMETRIC tangential or segment range, which only
\* arises by narrowing the ranges of an existing object)
TangEdge(c, b) == /\ TieInPlane(c, b)
                  /\ \/ b.tang = c.maxTang /\ c.maxTang + 1 <= NV(c) - 1
                     \/ b.tang = c.minTang /\ c.minTang - 1 >= -(NV(c)) + 1
                     \/ c.mash = 1 /\ b.view = NV(c) - 1 /\ (-b.tang < c.minTang \/ -b.tang > c.maxTang \/ -b.seg \notin Segs(c))
\* idealised get_bin of detector-based data: nearest detectors/rings, then the C01 pair->bin map.
\* Outcomes: a bin, or "miss" (NoBin)
RTOutcomes(c, b, ipT) ==
  { IF ra \in Rings(c) /\ rb \in Rings(c) /\ d1 # d2
    THEN LET x == BinOfT(c, ipT, << d1, ra, d2, rb, b.tof * Max2(1, c.tofMash) >>)
         IN IF x # NoBin /\ InTangRange(c, x) THEN x ELSE NoBin
    ELSE NoBin
    : d1 \in EndDets1(c, b), d2 \in EndDets2(c, b), ra \in EndRings1(c, b), rb \in EndRings2(c, b) }

(* ------------------ theorems checked by MC_Coordinates ------------------ *)
SumOver(S, f(_)) == LET RECURSIVE acc(_)
                        acc(T) == IF T = {} THEN 0 ELSE LET x == CHOOSE y \in T : TRUE IN f(x) + acc(T \ {x})
                    IN acc(S)
\* the contributing pairs of a bin, in bin orientation, one per physical pair and unmashed timing position
PairsOfBin(c, binT, ipT, b) ==
  { p \in AllPairs(c) : binT[p] = b /\ ipT[<<p[1], p[3]>>].same }
\* C1: every contributing pair's line agrees with the bin (offset, midpoint, obliqueness, phi)
C1(c, binT, ipT) == \A b \in AllBins(c) : \A p \in PairsOfBin(c, binT, ipT, b) : AgreesWithPair(c, b, p)
\* C2: averages over the contributing pairs: phi (exact for even tang, else half an unmashed view step
\* below), TOF distance; obliqueness where every ring difference of the segment contributes
AxiallyComplete(c, b) == Cardinality(RingPairsFast(c, b.seg, b.ax)) =
                           Cardinality({ d \in SegMinRD(c, b.seg)..SegMaxRD(c, b.seg) : (RingSum(c, b) - d) % 2 = 0 })
C2(c, binT, ipT) ==
  \A b \in AllBins(c) :
     LET P == PairsOfBin(c, binT, ipT, b)
         n == Cardinality(P)
     IN /\ n = NumPairs(c, b, FALSE)
        /\ SumOver(P, LAMBDA p : PairDPhi(c, b, p)) = -n * (b.tang % 2)
        /\ SumOver(P, LAMBDA p : 2 * p[5]) = n * KH(c, b) * Max2(1, c.tofMash)
        \* (an even number of combined ring differences - even spans - splits into two half-sets used by
        \*  alternate axial positions, whose averages lie half a ring difference either side of the segment's)
        /\ AxiallyComplete(c, b) =>
             LET dev == SumOver(P, LAMBDA p : 2 * (p[4] - p[2])) - n * Delta2(c, b.seg) IN
             IF (SegMaxRD(c, b.seg) - SegMinRD(c, b.seg)) % 2 = 0 THEN dev = 0 ELSE Abs(dev) <= n
\* C3: "Coordinates are antisymmetric and monotone in the indices"
C3(c) ==
  \A b \in AllBins(c) :
     /\ LET nt == [b EXCEPT !.tang = -b.tang] IN BetaU(c, nt) = -BetaU(c, b)
     /\ (-b.seg \in Segs(c)) => Delta2(c, -b.seg) = -Delta2(c, b.seg)
     /\ LET nk == [b EXCEPT !.tof = -b.tof] IN KH(c, nk) = -KH(c, b)
     /\ LET mirror == [b EXCEPT !.ax = NumAx(c, b.seg) - 1 - b.ax] IN MQ(c, mirror) = -MQ(c, b)
     /\ \A x \in AllBins(c) :
          /\ (x.tang > b.tang) => BetaU(c, x) > BetaU(c, b)
          /\ (x.view > b.view) => PhiU(c, x) > PhiU(c, b)
          /\ (x.seg = b.seg /\ x.ax > b.ax) => MQ(c, x) > MQ(c, b)
          /\ (x.seg > b.seg) => Delta2(c, x.seg) > Delta2(c, b.seg)
          /\ (x.tof > b.tof) => KH(c, x) > KH(c, b)
\* C4: the round trip of the idealised nearest-detector algorithm: every outcome is a near bin, a miss
\* only where the property allows it (MayMiss) or in the known class TangEdge
C4(c, ipT) ==
  \A b \in AllBins(c) :
     ~Singular(c, b) =>
       \A x \in RTOutcomes(c, b, ipT) :
          IF x = NoBin THEN MayMiss(c, b) \/ TangEdge(c, b) ELSE Near(c, b, x)
\* C5: MayMiss and TangEdge are not vacuous escape hatches: the exact candidate (no tie broken outwards)
\* always is the bin itself, and uncompressed data never miss axially
C5(c, ipT) ==
  \A b \in AllBins(c) :
     /\ ~Singular(c, b) => (b \in RTOutcomes(c, b, ipT) \/ MayMiss(c, b))
     /\ ~Compressed(c, b.seg) => ~MayMiss(c, b)
\* C6: standard form of lines: idempotent, invariant under the three equivalences
C6(N) ==
  \A p \in 0..(2 * N - 1), be \in (-N + 1)..(N - 1), za \in {0, 3}, zb \in {1} :
     (be # N \div 2 /\ be # -(N \div 2) /\ 2 * be # N /\ 2 * be # -N) =>
       LET l == Line(p, be, za, zb) s == StdLine(N, l) IN
       /\ s.phi >= 0 /\ s.phi < N /\ 2 * s.beta < N /\ 2 * s.beta > -N
       /\ StdLine(N, s) = s
       /\ StdLine(N, Line(p + N, -be, zb, za)) = s
       /\ StdLine(N, Line(p + N, be + N, za, zb)) = s
       /\ StdLine(N, Line(p + 2 * N, be, za, zb)) = s
       /\ StdLine(N, Line(p, N - be, zb, za)) = s

\* configurations outside the quantifier / in a known-inconsistent class (C01-truncseg)
InScope(c) == LegalConfigA(c) /\ ~TruncSingleRD(c)
=============================================================================
