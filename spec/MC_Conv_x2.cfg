SPECIFICATION Spec
CONSTANTS Deep = FALSE Which = {2}
INVARIANTS InvBoundary InvMean InvSym InvSep InvPad
CHECK_DEADLOCK FALSE
