SPECIFICATION Spec
CONSTANTS MaxN = 2 MaxK = 8
INVARIANT InvEvents
CHECK_DEADLOCK FALSE
