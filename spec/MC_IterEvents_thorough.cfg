SPECIFICATION Spec
CONSTANTS MaxN = 2 MaxK = 6 MaxI = 3
INVARIANT InvEvents
CHECK_DEADLOCK FALSE
