SPECIFICATION Spec
CONSTANTS MaxN = 2 MaxK = 8 MaxI = 3
INVARIANT InvEvents
CHECK_DEADLOCK FALSE
