------------------------------ MODULE MC_Rebin ------------------------------
(* Exhaustive check of the theorems of Rebin.tla over families of small input  *)
(* geometries and EVERY legal SSRB parameter set for each: one initial state   *)
(* per input geometry; steps: memo tables of the in-plane inverse and of       *)
(* BinOf for the input (as in MC_Geometry), then one successor per parameter   *)
(* set with the tables of the output geometry and of SSRBMap.                  *)
EXTENDS Rebin
CONSTANTS Ns, Rs, Spans, Mashes, Tofs, TofN, TofR
\* Tofs: set of 10 * maxT + tofMash; TOF geometries are combined with the spatial family only for
\* N = TofN, R <= TofR (the TOF index interacts with the rest only through the detector exchange)
VARIABLES c, p, k, ipT, binI, binO, mapT

NoPar == [segComb |-> 0]
Family ==
  { x \in [N : Ns, R : Rs, span : Spans, ge : {FALSE}, maxDelta : 0..6, mash : Mashes, tof : Tofs \cup {0},
           red : 0..1, trunc : 0..1] :
      /\ x.maxDelta <= x.R - 1
      /\ x.span <= 2 * x.R - 1 /\ x.maxDelta >= (x.span - 1) \div 2
      /\ (x.N \div 2) % x.mash = 0
      /\ (x.tof # 0 => x.N = TofN /\ x.R <= TofR) }
Norm(x) ==
  LET base == [N |-> x.N, R |-> x.R, span |-> x.span, ge |-> FALSE, maxDelta |-> x.maxDelta, mash |-> x.mash,
               tofMash |-> x.tof % 10, maxT |-> x.tof \div 10, minTang |-> 0, maxTang |-> 0, minSeg |-> 0, maxSeg |-> 0]
      fms == FullMaxSeg(base)
      ms == IF x.red = 1 /\ fms >= 1 THEN fms - 1 ELSE fms IN
  [base EXCEPT !.minSeg = -ms, !.maxSeg = ms,
               !.minTang = IF x.trunc = 0 THEN -(x.N \div 2) + 1 ELSE -((x.N \div 2) - 1) \div 2,
               !.maxTang = IF x.trunc = 0 THEN (x.N \div 2) - 1 ELSE ((x.N \div 2) - 1) \div 2 - (IF x.N > 4 THEN 1 ELSE 0)]
\* compressed data whose last segment is a single ring difference: class of C01-truncseg, excluded
InFamily(cc) == LegalConfig(cc) /\ ~TruncSingleRD(cc) /\ (cc.tofMash = 0 \/ cc.tofMash <= cc.maxT)

Params(cc) ==
  { q \in [segComb : {1, 3, 5}, viewComb : 1..(cc.N \div 2), trim : {-1, 0, 1, 2}, maxSegArg : (-1)..cc.maxSeg, tofComb : 1..3] :
      SSRBLegal(cc, q) }
\* legal parameter sets whose output is not a complete Michelogram: a truncated last input segment is combined
TruncCombined(cc, q) ==
  LET top == OutMaxSeg(cc, q) * q.segComb + (q.segComb \div 2) IN
  q.segComb > 1 /\ SegMaxRD(cc, top) < PosMaxRDu(cc, top)

Init == /\ k = 0 /\ p = NoPar /\ ipT = <<>> /\ binI = <<>> /\ binO = <<>> /\ mapT = <<>>
        /\ c \in { Norm(x) : x \in Family }
        /\ InFamily(c)
Tables == /\ k = 0 /\ k' = 1 /\ ipT' = IpTable(c) /\ UNCHANGED <<c, p, binI, binO, mapT>>
BinsIn == /\ k = 1 /\ k' = 2 /\ binI' = [q \in AllPairsT(c) |-> BinOfT(c, ipT, q)] /\ UNCHANGED <<c, p, ipT, binO, mapT>>
Rebin == /\ k = 2 /\ k' = 3
         /\ \E q \in Params(c) :
              /\ Representable(c, q)
              /\ p' = q
              /\ LET o == SSRBGeom(c, q) IN
                 /\ binO' = [x \in AllPairsT(c) |-> BinOfT(o, ipT, x)]
                 /\ mapT' = [b \in { binI[x] : x \in { y \in AllPairsT(c) : Covered(c, binI[y]) } } |-> SSRBMap(c, o, q, b)]
         /\ UNCHANGED <<c, ipT, binI>>
Next == Tables \/ BinsIn \/ Rebin
Spec == Init /\ [][Next]_<<c, p, k, ipT, binI, binO, mapT>>

\* the output of every legal parameter set is a Michelogram of Geometry.tla
InvGeom == k = 2 => \A q \in Params(c) : G1(c, q)
InvG2 == k = 3 => G2(c, p)
\* refusal and legality exclude each other
InvRefuse == k = 2 => \A q \in Params(c) : ~SSRBRefuses(c, q)
O == SSRBGeom(c, p)
MapOf(b) == IF Covered(c, b) THEN mapT[b] ELSE NoBin
InvCommute == k = 3 =>
  (TofNests(c, O) =>
     \A x \in AllPairsT(c) :
        Covered(c, binI[x]) => MapOf(binI[x]) = (IF Covered(O, binO[x]) THEN binO[x] ELSE NoBin))
InvSubset == k = 3 => (TofNests(c, O) => \A x \in AllPairsT(c) : SubsetAt(c, O, p, binI[x], binO[x]))
InvConserve == k = 3 => (TofNests(c, O) => \A x \in AllPairsT(c) : ConserveAt(c, O, p, binI[x], binO[x]))
\* coarse TOF bins are unions of fine ones for odd tofComb and for unmashed input
InvNest == k = 3 => ((p.tofComb % 2 = 1 \/ c.tofMash = 1) => TofNests(c, O))
\* the k-interval rule of the implementation is the rebinning wherever it is unambiguous, and it is
\* unambiguous for odd tofComb
InvTofK == k = 3 => /\ TofKAgrees(c, O)
                    /\ (p.tofComb % 2 = 1 => \A kk \in TofBins(c) : TofCertain(c, O, kk) \/ TofCands(c, O, kk) = {})
\* the rebinning is a function of the input BIN (it cannot separate pairs that the input merged), and the
\* memo table agrees with the definition
InvMapDef == k = 3 => \A b \in DOMAIN mapT : mapT[b] = NoBin \/ (mapT[b] \in AllBinsWide(O))
\* --- beyond the property: inverse_SSRB, extend_segment, downsample_scanner (functions of the input geometry only)
C3Direct(cc) == [cc EXCEPT !.span = 1, !.maxDelta = 0, !.minSeg = 0, !.maxSeg = 0]
C3Span3(cc) == [cc EXCEPT !.span = 3, !.maxDelta = 1, !.minSeg = 0, !.maxSeg = 0]
\* inverse_SSRB is the transpose of SSRB on the geometry SSRB constructs; direct sinograms (uncompressed or span 3) give every
\* oblique sinogram the same m or a half-way position
InvInverse == k = 2 =>
  /\ (SSRBLegal(c, AllIntoOne(c)) => InvAdjoint(c) /\ InvUnity(c, SSRBGeom(c, AllIntoOne(c))))
  /\ InvUnity(c, C3Direct(c))
  /\ (c.R >= 2 => InvUnity(c, C3Span3(c)))
\* extend_segment: elements inside the data are their own source; every source is inside the data; two half turns are the identity
InvExtend == k = 2 =>
  LET d == [minAx |-> 0, maxAx |-> NumAx(c, 0) - 1, nv |-> NumViews(c), minT |-> c.minTang, maxT |-> c.maxTang] IN
  \A a \in (-2)..(d.maxAx + 2) : \A v \in (-(d.nv))..(2 * d.nv - 1) : \A t \in (d.minT - 2)..(d.maxT + 2) :
     LET x == ExtSource(d, a, v, t) IN
     /\ x[1] \in d.minAx..d.maxAx /\ x[2] \in 0..(d.nv - 1) /\ x[3] \in d.minT..d.maxT
     /\ ((a \in d.minAx..d.maxAx /\ v \in 0..(d.nv - 1) /\ t \in d.minT..d.maxT) => x = <<a, v, t>>)
     /\ (d.minT = -d.maxT => ExtSource(d, x[1], x[2] + d.nv, -x[3]) = x)
\* downsample_scanner: the template of the downsampled scanner is a legal uncompressed geometry
InvDownsample == k = 2 => \A nr \in 2..4 : \A nn \in {4, 8, 10} : LegalButTang(DownsampleGeom(c, nr, nn))

\* vacuity guards: these two MUST be refuted (MC_Rebin_vac*.cfg) - some pair is covered by both geometries and mapped,
\* and some legal parameter set leaves nothing out
InvNeverCovered == k = 3 => \A x \in AllPairsT(c) : ~(Covered(c, binI[x]) /\ Covered(O, binO[x]) /\ binO[x].seg # 0 /\ p.segComb > 1 /\ p.viewComb > 1)
InvNeverConserved == k = 3 => ~(NothingTrimmed(c, p) /\ p.segComb > 1 /\ p.tofComb > 1)
=============================================================================
