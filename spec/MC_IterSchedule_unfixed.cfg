SPECIFICATION SpecUnfixed
CONSTANTS MaxN = 3 Iters = 2
INVARIANTS InvNoRepeat InvOncePerIteration InvNoCrash
VIEW View
CHECK_DEADLOCK FALSE
