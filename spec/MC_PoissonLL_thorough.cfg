SPECIFICATION Spec
CONSTANTS MaxLam = 2 NumPatterns = 3 MaxSubsets = 3 FullX = FALSE
INVARIANTS Inv1 Inv2 Inv3 Inv4 Inv5 Inv6
CHECK_DEADLOCK FALSE
