SPECIFICATION Spec
CONSTANTS MaxLen = 5 MaxElems = 3
INVARIANTS InvSort InvMerge InvScale InvErase InvEraseAt
CHECK_DEADLOCK FALSE
