------------------------------- MODULE LmToProj -------------------------------
(***************************************************************************)
(* C14 - list-mode histogramming (LmToProjData) and the list-mode          *)
(* likelihood, over Geometry.tla (BinOf, AllBins, TofBins ...).            *)
(*                                                                         *)
(* Part 1, ABSTRACT: what the histogram of a list-mode stream is.          *)
(*   A stream is a sequence of records  <<0, ms, 0,0,0,0>>  (time mark),   *)
(*   <<1, d1, r1, d2, r2, t>> (prompt) or <<2, d1, r1, d2, r2, t>>          *)
(*   (delayed).  The time of an event is the time of the last time mark    *)
(*   before it (0 before the first mark: "assume list mode data starts at  *)
(*   time 0").  Hist(frame)[b] = sum of the increments of the events that   *)
(*   lie in the frame and that the data geometry assigns to bin b.         *)
(*                                                                         *)
(* Part 2, IMPLEMENTATION-SHAPED: LmToProjData::process_data as a machine  *)
(*   with one step per call through the list-mode seam / hook event:       *)
(*   NewFrame, Batch, R (get_next_record), Sv (save_get_position),         *)
(*   FrameStart, St (set_get_position), Rewind, Save.  `Expected' is the    *)
(*   next call of a correct execution, `Apply' its effect.  MC_LmToProj    *)
(*   proves that the machine's output equals the abstract histogram for    *)
(*   EVERY num_segments_in_memory / num_TOF_bins_in_memory; Trace_LmToProj *)
(*   validates recorded executions of the real code against the machine    *)
(*   and against the abstract histogram.                                   *)
(*                                                                         *)
(* Part 3: the agreement relation for the two likelihood gradients.        *)
(*                                                                         *)
(* Parameters P of one execution:                                          *)
(*   c        effective data geometry (Geometry.tla record; segment range  *)
(*            after "maximum absolute segment number to process")          *)
(*   frames   sequence of <<start ms, end ms>>; <<>> = no frame definitions *)
(*   segIM, tofIM   requested num_segments_in_memory / num_TOF_bins_in_    *)
(*            memory (-1 = all)                                            *)
(*   storeP, storeD, nStore (num_events_to_store, 0 = use time frames)     *)
(*   fresh    TRUE: a new (zero) output per frame; FALSE: one in-memory    *)
(*            output re-used by all frames ("only the last frame")         *)
(***************************************************************************)
EXTENDS Geometry

(* ------------------------------ records -------------------------------- *)
IsTime(rec) == rec[1] = 0
IsEvent(rec) == rec[1] # 0
IsPrompt(rec) == rec[1] = 1
MsOf(rec) == rec[2]
PairOf(rec) == << rec[2], rec[3], rec[4], rec[5], rec[6] >>
MaxOf(S) == CHOOSE x \in S : \A y \in S : y <= x

\* time marks never go back (the code under test asserts this)
Monotone(s) == \A i, j \in 1..Len(s) : (i < j /\ IsTime(s[i]) /\ IsTime(s[j])) => MsOf(s[i]) <= MsOf(s[j])
\* "stores the time recorded in the previous timing event"; 0 before the first one
TimeAt(s, i) == LET J == { j \in 1..(i - 1) : IsTime(s[j]) } IN IF J = {} THEN 0 ELSE MsOf(s[MaxOf(J)])

(* --------------------------- settings (set_up) -------------------------- *)
\* "-1" = everything in memory; a request larger than the data is clamped
EffInMem(v, n) == IF v = -1 THEN n ELSE Min2(v, n)
\* "the next can be used to use a smaller number of segments than given in the template"
EffMaxSeg(templMaxSeg, m) == IF m = -1 THEN templMaxSeg ELSE Min2(m, templMaxSeg)
NumSegs(c) == c.maxSeg - c.minSeg + 1
SegIM(P) == EffInMem(P.segIM, NumSegs(P.c))
TofIM(P) == EffInMem(P.tofIM, NumTof(P.c))
\* "There are really only 3 useful cases": prompts - delayeds, prompts only, delayeds only (added)
LegalStore(P) == P.storeP \/ P.storeD
IncOf(P, rec) == IF IsPrompt(rec) THEN (IF P.storeP THEN 1 ELSE 0)
               ELSE (IF P.storeP THEN (IF P.storeD THEN -1 ELSE 0) ELSE 1)

(* ------------------------------ frames --------------------------------- *)
\* no frame definitions: "make a single frame starting from 0. End value will be ignored."
Frames(P) == IF P.frames = <<>> THEN << <<0, 0>> >> ELSE P.frames
NumFrames(P) == Len(Frames(P))
\* "a total number of events (if larger than 0, frame definitions will be ignored)"
TimeMode(P) == P.nStore = 0
\* named deviation of the code: an end time of at most 10 ms means "until the end of the stream"
\* (this is how the default frame (0,0) works); frame definitions used here end later than that
Bounded(fr) == fr[2] > 10
LegalFrames(P) ==
  /\ P.frames # <<>> =>
       /\ P.nStore = 0                      \* documented use: either frames or a number of events
       /\ \A i \in 1..Len(P.frames) : P.frames[i][1] >= 0 /\ P.frames[i][1] < P.frames[i][2] /\ Bounded(P.frames[i])
       /\ \A i \in 2..Len(P.frames) : P.frames[i][1] >= P.frames[i - 1][2]
  /\ P.nStore >= 0
InFrame(P, fr, t) == IF TimeMode(P) /\ Bounded(fr) THEN t >= fr[1] /\ t < fr[2] ELSE t >= fr[1]

(* ---------------- histograms: sparse functions bin -> count -------------- *)
\* A histogram is a function whose domain is the set of bins with a non-zero count; a bin is
\* << TOF bin, segment, index in the segment >> (the output is organised like the implementation's:
\* one block per (TOF bin, segment)).
NTang(c) == c.maxTang - c.minTang + 1
NViewsOf(c) == NV(c) \div c.mash
SegSize(c, seg) == NumAx(c, seg) * NViewsOf(c) * NTang(c)
\* the event is kept: "inside the range we want to store" (segment and axial position are in range
\* whenever the geometry finds a bin at all)
Accepted(c, b) == b # NoBin /\ InTangRange(c, b) /\ b.tof >= MinTof(c) /\ b.tof <= MaxTof(c)
JOf(c, b) == (b.ax * NViewsOf(c) + b.view) * NTang(c) + (b.tang - c.minTang) + 1
\* resolved event: ok = FALSE: not kept
Res(ok, tof, seg, j) == [ok |-> ok, tof |-> tof, seg |-> seg, j |-> j]
NoRes == Res(FALSE, 0, 0, 0)
Resolve(c, b) == IF Accepted(c, b) THEN Res(TRUE, b.tof, b.seg, JOf(c, b)) ELSE NoRes
KeyOf(r) == << r.tof, r.seg, r.j >>
ZeroHist == [x \in {} |-> 0]
\* add inc to the count of bin key
Bump(h, key, inc) ==
  IF key \in DOMAIN h
  THEN (IF h[key] + inc = 0 THEN [x \in (DOMAIN h) \ {key} |-> h[x]] ELSE [h EXCEPT ![key] = @ + inc])
  ELSE [x \in (DOMAIN h) \cup {key} |-> IF x = key THEN inc ELSE h[x]]

(* ------------------------- ABSTRACT histogram --------------------------- *)
\* s: stream, rs: resolved events (same length; NoRes at time marks)
Kept(P, s, rs) == { i \in 1..Len(s) : IsEvent(s[i]) /\ rs[i].ok /\ IncOf(P, s[i]) # 0 }
SumInc(P, s, I) == Cardinality({ i \in I : IncOf(P, s[i]) = 1 }) - Cardinality({ i \in I : IncOf(P, s[i]) = -1 })
\* "for every event inside a requested time frame"
FrameIdx(P, s, rs, fr) == { i \in Kept(P, s, rs) : InFrame(P, fr, TimeAt(s, i)) }
\* num_events_to_store: "this normally counts the total of prompts-delayeds": events are stored until
\* the net count of stored events reaches nStore for the first time
CumInc(P, s, rs, i) == SumInc(P, s, { j \in Kept(P, s, rs) : j <= i })
CountIdx(P, s, rs) == { i \in Kept(P, s, rs) : \A j \in Kept(P, s, rs) : j < i => CumInc(P, s, rs, j) # P.nStore }
StoredIdx(P, s, rs, f) == IF TimeMode(P) THEN FrameIdx(P, s, rs, Frames(P)[f]) ELSE CountIdx(P, s, rs)
\* "adds exactly one count (minus one for delayed events when they are subtracted) to the bin that the
\*  data geometry assigns to the event's detector pair and TOF index, and nothing else"
\* I: the stored events
BinSum(P, s, rs, I, key) == SumInc(P, s, { i \in I : KeyOf(rs[i]) = key })
HistOfIdx(P, s, rs, I) ==
  [key \in { k \in { KeyOf(rs[i]) : i \in I } : BinSum(P, s, rs, I, k) # 0 } |-> BinSum(P, s, rs, I, key)]
Hist(P, s, rs, f) == HistOfIdx(P, s, rs, StoredIdx(P, s, rs, f))
At(h, key) == IF key \in DOMAIN h THEN h[key] ELSE 0

(* ------------------------------ batches --------------------------------- *)
\* passes over the data: TOF ranges (outer) x segment ranges (inner), each of the size held in memory
NSB(P) == (NumSegs(P.c) + SegIM(P) - 1) \div SegIM(P)
NTB(P) == (NumTof(P.c) + TofIM(P) - 1) \div TofIM(P)
NumBatches(P) == NSB(P) * NTB(P)
BatchAt(P, i) ==
  LET ti == (i - 1) \div NSB(P)
      si == (i - 1) % NSB(P)
      s0 == P.c.minSeg + si * SegIM(P)
      t0 == MinTof(P.c) + ti * TofIM(P)
  IN [s0 |-> s0, s1 |-> Min2(P.c.maxSeg, s0 + SegIM(P) - 1), t0 |-> t0, t1 |-> Min2(MaxTof(P.c), t0 + TofIM(P) - 1)]
InBatch(bt, seg, tof) == seg >= bt.s0 /\ seg <= bt.s1 /\ tof >= bt.t0 /\ tof <= bt.t1
\* every (segment, TOF bin) is held in memory in exactly one pass
BatchesPartition(P) ==
  \A seg \in Segs(P.c) : \A tof \in TofBins(P.c) :
     Cardinality({ i \in 1..NumBatches(P) : InBatch(BatchAt(P, i), seg, tof) }) = 1
\* the plan of one execution, computed once: the passes and the frames
PlanOf(P) == [batches |-> [i \in 1..NumBatches(P) |-> BatchAt(P, i)], nbt |-> NumBatches(P),
              frames |-> Frames(P), nfr |-> NumFrames(P)]

(* ------------------- the machine (process_data) ------------------------- *)
\* m.pc: newframe | batch | skip | savepos | fs | rewind1 | rewind2 | read | save | endframe
M0 == [pc |-> "newframe", f |-> 1, bi |-> 1, pos |-> 0, ct |-> 0, fct |-> 0, more |-> 0, empty |-> FALSE,
       spos |-> 0, sid |-> 0, acc |-> ZeroHist, out |-> ZeroHist]

Ev(e, a, b, c, d) == << e, a, b, c, d >>
\* the next call / hook event of a correct execution (T = PlanOf(P), L = length of the stream)
Expected(T, L, m) ==
  LET fr == T.frames[m.f]
      bt == T.batches[m.bi]
      nextR == IF m.pos < L THEN m.pos + 1 ELSE 0
  IN CASE m.pc = "newframe" -> Ev("NewFrame", m.f, 0, 0, 0)
       [] m.pc = "batch" -> Ev("Batch", bt.s0, bt.s1, bt.t0, bt.t1)
       \* "we first might have to skip some events before we get to start_time"
       [] m.pc = "skip" -> IF m.ct < fr[1] THEN Ev("R", nextR, 0, 0, 0) ELSE Ev("Sv", m.pos, 0, 0, 0)
       [] m.pc = "savepos" -> Ev("Sv", m.pos, 0, 0, 0)
       [] m.pc = "fs" -> Ev("FrameStart", m.f, 0, 0, 0)
       \* "go to the beginning of the listmode data for this frame"
       [] m.pc = "rewind1" -> Ev("St", m.spos, 0, 0, 0)
       [] m.pc = "rewind2" -> Ev("Rewind", m.f, 0, 0, 0)
       [] m.pc = "read" -> IF m.more = 0 \/ m.empty THEN Ev("Save", bt.s0, bt.s1, bt.t0, bt.t1) ELSE Ev("R", nextR, 0, 0, 0)
       [] m.pc = "save" -> Ev("Save", bt.s0, bt.s1, bt.t0, bt.t1)
       [] m.pc = "endframe" -> IF m.f < T.nfr THEN Ev("NewFrame", m.f + 1, 0, 0, 0) ELSE Ev("End", 0, 0, 0, 0)
       [] OTHER -> Ev("None", 0, 0, 0, 0)

\* effect of reading record `rec' (resolved to `rs') in the main loop
ReadMain(P, T, m, rec, rs) ==
  LET fr == T.frames[m.f]
      bt == T.batches[m.bi]
      m1 == [m EXCEPT !.pos = @ + 1]
  IN IF IsTime(rec)
     THEN (IF Bounded(fr)
           THEN [m1 EXCEPT !.ct = MsOf(rec),
                           \* "if (do_time_frame && current_time >= end_time) break"
                           !.pc = IF TimeMode(P) /\ MsOf(rec) >= fr[2] THEN "save" ELSE "read"]
           ELSE m1)
     ELSE LET inc == IncOf(P, rec) IN
          IF ~rs.ok \/ inc = 0 THEN m1
          ELSE [m1 EXCEPT !.more = IF TimeMode(P) THEN @ ELSE @ - inc,       \* counted whether or not its segment is in memory
                          !.acc = IF InBatch(bt, rs.seg, rs.tof) THEN Bump(@, KeyOf(rs), inc) ELSE @]

\* effect of event ev = Expected(T, L, m); rec/rs: the record served by an "R" with index > 0; id: the
\* handle returned by save_get_position
Apply(P, T, m, ev, rec, rs, id) ==
  LET fr == T.frames[m.f]
      bt == T.batches[m.bi]
  IN CASE ev[1] = "NewFrame" ->
            [m EXCEPT !.pc = "batch", !.f = ev[2], !.bi = 1,
                      !.out = IF P.fresh \/ ev[2] = 1 THEN ZeroHist ELSE @]
       [] ev[1] = "Batch" ->
            [m EXCEPT !.acc = ZeroHist, !.more = IF TimeMode(P) THEN 1 ELSE P.nStore,
                      !.pc = IF m.bi = 1 THEN "skip" ELSE "rewind1"]
       [] ev[1] = "R" /\ m.pc = "skip" ->
            IF ev[2] = 0 THEN [m EXCEPT !.pc = "savepos"]
            ELSE [m EXCEPT !.pos = @ + 1, !.ct = IF IsTime(rec) THEN MsOf(rec) ELSE @]
       [] ev[1] = "Sv" -> [m EXCEPT !.spos = m.pos, !.sid = id, !.pc = "fs"]
       [] ev[1] = "FrameStart" ->
            \* A frame that contains no time mark is empty: the mark that ended the search for its start
            \* already lies at or after its end, so no event of the stream has a time inside the frame.
            [m EXCEPT !.pc = "read", !.fct = m.ct, !.empty = TimeMode(P) /\ Bounded(fr) /\ m.ct >= fr[2]]
       [] ev[1] = "St" -> [m EXCEPT !.pos = m.spos, !.pc = "rewind2"]
       [] ev[1] = "Rewind" -> [m EXCEPT !.ct = m.fct, !.pc = "read"]
       [] ev[1] = "R" /\ m.pc = "read" ->
            IF ev[2] = 0 THEN [m EXCEPT !.pc = "save"] ELSE ReadMain(P, T, m, rec, rs)
       [] ev[1] = "Save" ->
            \* the segments held in memory replace those of the output; everything else is untouched
            [m EXCEPT !.out = [x \in { y \in DOMAIN m.out : ~InBatch(bt, y[2], y[1]) } \cup DOMAIN m.acc |->
                              IF x \in DOMAIN m.acc THEN m.acc[x] ELSE m.out[x]],
                      !.bi = @ + 1,
                      !.pc = IF m.bi = T.nbt THEN "endframe" ELSE "batch"]
       [] OTHER -> m

(* ---------------------- properties of the machine ----------------------- *)
\* (TOF bin k, segment sg) was saved in frame m.f by one of the passes 1..m.bi-1
IsSaved(T, m, k, sg) == \E i \in 1..(m.bi - 1) : InBatch(T.batches[i], sg, k)
\* After k passes the output holds the abstract histogram of the frame in the segments / TOF bins saved so
\* far; the rest is what it was when the frame started (`prev'): zero, or the previous frame's histogram.
\* h: the abstract histogram Hist(P, s, rs, m.f) of the frame
OutCorrect(T, h, m, prev) ==
  m.out = [x \in { y \in DOMAIN h : IsSaved(T, m, y[1], y[2]) } \cup { y \in DOMAIN prev : ~IsSaved(T, m, y[1], y[2]) } |->
             IF IsSaved(T, m, x[1], x[2]) THEN h[x] ELSE prev[x]]

\* "the frames of a partition of a time interval add up to the histogram of the whole interval"
Contiguous(frs) == \A i \in 2..Len(frs) : frs[i][1] = frs[i - 1][2]
WholeOf(P) == [P EXCEPT !.frames = << << P.frames[1][1], P.frames[Len(P.frames)][2] >> >>]
RECURSIVE SumFrames(_, _, _, _, _)
SumFrames(P, s, rs, f, key) == IF f = 0 THEN 0 ELSE At(Hist(P, s, rs, f), key) + SumFrames(P, s, rs, f - 1, key)
PartitionAddsUp(P, s, rs) ==
  (TimeMode(P) /\ P.frames # <<>> /\ Contiguous(P.frames)) =>
     \A key \in { KeyOf(rs[i]) : i \in Kept(P, s, rs) } :
        At(Hist(WholeOf(P), s, rs, 1), key) = SumFrames(P, s, rs, Len(P.frames), key)

(* ---------- scanner-specific records: ECAT8 32-bit (PETLINK) words ------ *)
\* A word is hi * 2^16 + lo (two 16-bit halves, so that TLC's 32-bit integers suffice).
\*   bit 31: "0-coincidence event, 1-time tick" (tag)
\*   event:  bit 30 = 1 for a prompt ("0 if event is delayed"), bits 0..29: offset into the scanner's
\*           uncompressed sinogram ("the listmode data just stores an offset into a (3D) sinogram")
\*   tag:    bits 29..30 "extra bits differentiating between timing or other stuff, zero if timing event",
\*           bits 0..28 time in ms since scan start
EcatIsTag(hi) == hi \div 32768 = 1
EcatPromptBit(hi) == (hi \div 16384) % 2
EcatOffset(hi, lo) == (hi % 16384) * 65536 + lo
EcatTagKind(hi) == (hi \div 8192) % 4
EcatTime(hi, lo) == (hi % 8192) * 65536 + lo
\* the uncompressed geometry of a scanner with N detectors per ring, R rings, maxT timing positions and nt
\* tangential positions: span 1, all ring differences, no mashing
EcatGeo(N, R, maxT, nt) == [N |-> N, R |-> R, span |-> 1, ge |-> FALSE, maxDelta |-> R - 1, mash |-> 1,
                            tofMash |-> IF maxT > 0 THEN 1 ELSE 0, maxT |-> maxT,
                            minTang |-> -(nt \div 2), maxTang |-> -(nt \div 2) + nt - 1, minSeg |-> -(R - 1), maxSeg |-> R - 1]
\* "data is organised by segment, axial coordinate, view, tangential", TOF bins outermost:
\*   offset = ((tofIndex * numNonTofSinograms + z) * numViews + view) * numTangentialPositions + tangentialIndex
\* z runs over the sinograms of the segments in the ECAT order 0, -1, +1, -2, +2, ...
EcatSegAt(i) == IF i = 1 THEN 0 ELSE IF i % 2 = 0 THEN -(i \div 2) ELSE i \div 2
EcatSinosBefore(cu, i) == Cardinality({ x \in (1..(i - 1)) \X (0..(2 * cu.R)) : x[2] < NumAx(cu, EcatSegAt(x[1])) })
\* TOF bins are stored as 0, +1, -1, +2, -2, ... (the order implemented by find_timing_poss_sequence; its
\* comment says "0, -1, +1": the PETLINK document is not available here, the implementation is taken as reference)
EcatTofAt(k) == IF k = 0 THEN 0 ELSE IF k % 2 = 1 THEN (k + 1) \div 2 ELSE -(k \div 2)
EcatNumSinos(cu) == EcatSinosBefore(cu, NumSegs(cu) + 1)
EcatBinOfOffset(cu, off) ==
  LET nt == cu.maxTang - cu.minTang + 1
      nv == NV(cu)
      ns == EcatNumSinos(cu)
      r1 == off \div nt
      r2 == r1 \div nv
      z == r2 % ns
      i == CHOOSE q \in 1..NumSegs(cu) : EcatSinosBefore(cu, q) <= z /\ z < EcatSinosBefore(cu, q + 1)
  IN Bin(EcatSegAt(i), z - EcatSinosBefore(cu, i), r1 % nv, (off % nt) + cu.minTang, EcatTofAt(r2 \div ns))
EcatOffsetValid(cu, off) == off < NumTof(cu) * EcatNumSinos(cu) * NV(cu) * (cu.maxTang - cu.minTang + 1)
\* the detection position pair p = <<d1, r1, d2, r2, t>> is one that the geometry assigns to bin b
AssignedTo(c, p, b) == \E same \in BOOLEAN : IsInPlaneOf(c, p[1], p[3], b.view, b.tang, same) /\ BinGiven(c, p, b.view, b.tang, same) = b

(* -------------------- likelihood gradients (clause 2) ------------------- *)
\* Both gradients are recorded in fixed point, round(v * 2^k) with k = 12.  They are computed by different
\* code paths in single precision (per event: row, quotient, back projection; per viewgram: forward
\* projection, quotient, back projection), so they agree up to accumulated rounding: an absolute slack of
\* 2 units (one for each rounding to fixed point) plus 2^-11 relative.
GradTol(v) == 2 + Abs(v) \div 2048
GradAgree(g1, g2) == Len(g1) = Len(g2) /\ \A i \in 1..Len(g1) : Abs(g1[i] - g2[i]) <= GradTol(g2[i])
=============================================================================
