SPECIFICATION Spec
CONSTANTS MaxViews = 24 MaxSeg = 2
INVARIANTS InvT1 InvT2 InvPartition InvAsymSwapNeverPartition InvCount InvBalancedNoViewSym InvBalancedEdges
CHECK_DEADLOCK FALSE
