SPECIFICATION Spec
CONSTANTS MaxViews = 32 MaxSeg = 2
INVARIANTS InvT1 InvT2 InvPartition InvAsymSwapNeverPartition InvCount InvBalancedNoViewSym InvBalancedEdges
CHECK_DEADLOCK FALSE
